#!/usr/bin/env python3
"""Regenerates MANIFEST.json from the table below (keeps it valid and in one place)."""
import json, subprocess
props=[json.loads(l) for l in open('/verif/properties.jsonl')]
hooks=subprocess.run(["git","-C","/repo","log","--format=%H","--grep=^verif hook"],capture_output=True,text=True).stdout.split()
base_note=("Trusted: Lean 4.33 kernel (axioms propext, Classical.choice, Quot.sound only; audited on every run with #print axioms; "
 "no sorry/native_decide/bv_decide; thorough tier re-checks the .olean files with leanchecker); the hand-written Lean model of /repo, tied to the code by "
 "(1) the correspondence run on every check (same operation lines interpreted by the real library and by the compiled model driver) and "
 "(2) Generated/Facts.lean regenerated from the source on every check, over which the property module states obligations; the Go harness and fact extractor; "
 "Go semantics as listed in DESIGN.md 2.6.")
C={
 "C01":("proof","Lean theorems roundtrip / reencode / item_roundtrip (Props/C01.lean): for every valid complete message with any well-formed variable-free item tree, decode(encode m) returns the same fields and tree and re-encodes to the same bytes; proved by mutual structural induction with no size bound (only hypothesis: message shorter than 4 GiB, the width of the length field). The model is tied to the code by the correspondence run (mprog/dec operations) and the extracted tables/dispatch; the encode-decode-reencode oracle also runs on the real code for every generated message.","6.1","Lean proof (mutual induction) + differential correspondence + regenerated facts"),
 "C02":("proof","Lean theorems enc_sound / enc_unique / encodes_iff / never_partial / frame / incomplete_empty (Props/C02.lean): the encoder's output is exactly the SEMI E5/E37 encoding given as an inductive relation (Spec/Wire.lean), for all item trees; messages frame it with the 4+10 byte header or encode to nothing. Implementation ToBytes is compared byte for byte with the model encoder on every run (decisive: the spec determines the bytes).","6.2","Lean proof (encoder = inductive wire relation) + differential correspondence"),
 "C13":("proof","Lean theorems header_closed_form / header_error_beyond / header_readback / *_constructible_* / encoding_nonempty / decoder_reads_back (Props/C13.lean) for every size and all 14 formats at once; the code's header routine (verif hook) is swept against the closed form (every size in the thorough tier) and against the model at all boundaries; real boundary items go through factory, ToBytes and hsms.Parse.","6.13","Lean proof (closed form for all sizes) + exhaustive sweep of the hooked header routine"),
 "C14":("proof","Lean theorems: closed 14-byte forms of all nine constructors, response echo and refusal, type_total over all (PType, SType), ctrl_roundtrip and undefined_stype_rejected (Props/C14.lean), for arbitrary session ids / system bytes / codes. Every constructor, Type() and hsms.Parse are compared with the model on every run (all 65,536 (PType,SType) pairs and all session ids in the thorough tier).","6.14","Lean proof (closed forms) + differential correspondence over the finite header space"),
 "C18":("proof","Lean theorems setWait_frame / setWait_noop_when_decided / setWait_refusal / setSession_frame / setSession_refusal / frame_seq / wait_stable_seq (Props/C18.lean): frame conditions, validity of results and exact refusals of the producers, lifted to arbitrary call sequences by induction. The frame conditions are also checked on the real code before/after every producer call of generated programs, and every program is compared with the model.","6.18","Lean proof (frame conditions, induction over call sequences) + frame oracle on the real code"),
}
checks=[]
for p in props:
    i=p['id']
    if i not in C: continue
    lvl,text,ref,tech=C[i]
    checks.append({"property_id":i,"quick_cmd":"bin/check %s quick"%i,"thorough_cmd":"bin/check %s thorough"%i,
      "evidence_file":"/verif/evidence/%s.json"%i,"replay_cmd_template":"bin/check --replay {path}","engine":"lean+harness",
      "level_claimed":{"category":lvl,"text":text,"design_ref":"DESIGN.md section "+ref},"level_note":base_note,"technique":tech})
na=[{"property_id":p['id'],"reason":"check under construction in this session (model/theorems not yet registered); machine-checked proof is applicable, see DESIGN.md section 6"} for p in props if p['id'] not in C]
m={"version":1,"setup_cmd":"cd /verif && bin/check --setup",
 "hooks":{"guard":"verif","enable":"go build -tags verif (pkg/ast/verif_export.go exports getHeaderBytes as VerifHeaderBytes)","baseline_off_cmd":"cd /repo && GOFLAGS=-mod=mod GOPROXY=off GOSUMDB=off go test -vet=off -count=1 ./...","source_commits":hooks,"add_only":True},
 "engines":[{"name":"lean+harness","path":"/verif/bin/check","serves_properties":sorted(C.keys()),"kind_free_text":"Lean 4 model + theorems (lean/), compiled model driver, Go harness interpreting the same line protocol on the real library, fact extractor"}],
 "checks":checks,"not_applicable":na,
 "notes":"See DESIGN.md. KNOWN_FINDINGS.json lists the twelve defects of the pinned tree, all repaired by fix: commits in /repo."}
json.dump(m,open('/verif/MANIFEST.json','w'),indent=1)
print(len(checks),"checks,",len(na),"not claimed")
