package main

import (
	"bytes"
	"encoding/binary"
	"fmt"
	"math/rand"
	"strings"

	"github.com/wolimst/lib-secs2-hsms-go/pkg/ast"
	"github.com/wolimst/lib-secs2-hsms-go/pkg/parser/hsms"
)

// ---------- harness-side variant encoder (for C03: non-minimal length bytes etc.) ----------

var fmtCode = map[string]byte{"L": 0o00, "B": 0o10, "BO": 0o11, "A": 0o20, "I8": 0o30, "I1": 0o31, "I2": 0o32, "I4": 0o34,
	"F8": 0o40, "F4": 0o44, "U8": 0o50, "U1": 0o51, "U2": 0o52, "U4": 0o54}

func minLB(n int) int {
	switch {
	case n <= 255:
		return 1
	case n <= 65535:
		return 2
	}
	return 3
}

// encodeVariant encodes a closed node; with r != nil it randomly uses non-minimal length
// bytes and non-canonical true bytes for booleans.
func encodeVariant(n *Node, r *rand.Rand) []byte {
	var payload []byte
	count := 0
	key := kindTag(n)
	switch n.Kind {
	case "L":
		count = len(n.Slots)
		for _, s := range n.Slots {
			payload = append(payload, encodeVariant(s.Child, r)...)
		}
	case "A":
		payload = append(payload, n.Str...)
		count = len(payload)
	default:
		for _, s := range n.Slots {
			switch n.Kind {
			case "B":
				payload = append(payload, byte(s.I))
			case "BO":
				b := byte(0)
				if s.B {
					b = 1
					if r != nil && r.Intn(3) == 0 {
						b = byte(1 + r.Intn(255))
					}
				}
				payload = append(payload, b)
			case "I":
				for i := n.W - 1; i >= 0; i-- {
					payload = append(payload, byte(uint64(s.I)>>(8*uint(i))))
				}
			case "U":
				for i := n.W - 1; i >= 0; i-- {
					payload = append(payload, byte(s.U>>(8*uint(i))))
				}
			case "F":
				for i := n.W - 1; i >= 0; i-- {
					payload = append(payload, byte(s.Bits>>(8*uint(i))))
				}
			}
		}
		count = len(payload)
	}
	k := minLB(count)
	if r != nil && r.Intn(3) == 0 {
		k += r.Intn(4 - k)
	}
	out := []byte{fmtCode[key]<<2 | byte(k)}
	for i := k - 1; i >= 0; i-- {
		out = append(out, byte(count>>(8*uint(i))))
	}
	return append(out, payload...)
}

func frame(sid, s, f, w int, sys []byte, text []byte) []byte {
	out := make([]byte, 4, 14+len(text))
	binary.BigEndian.PutUint32(out, uint32(10+len(text)))
	out = append(out, byte(sid>>8), byte(sid), byte(s|w<<7), byte(f), 0, 0)
	out = append(out, sys[:4]...)
	return append(out, text...)
}

// ---------- result projection ----------

// project keeps the non key=value tokens and the listed keys.
func project(res string, keys string) string {
	if keys == "" {
		return res
	}
	want := map[string]bool{}
	onlyKV := strings.HasPrefix(keys, "=") // "=k1 k2": drop tokens that are not key=value
	keys = strings.TrimPrefix(keys, "=")
	for _, k := range strings.Fields(keys) {
		want[k] = true
	}
	var out []string
	for _, t := range strings.Fields(res) {
		if i := strings.IndexByte(t, '='); i > 0 {
			if want[t[:i]] {
				out = append(out, t)
			}
		} else if !onlyKV {
			out = append(out, t)
		}
	}
	return strings.Join(out, " ")
}

// ---------- C01: round trip ----------

func buildMsg(m *MsgDesc) (msg *ast.DataMessage, panicked bool) {
	panicked, _ = safely(func() {
		item := m.Item.Build()
		if m.HSMS {
			msg = ast.NewHSMSDataMessage(m.Name, m.S, m.F, m.W, m.Dir, item, m.Sid, m.Sys)
		} else {
			msg = ast.NewDataMessage(m.Name, m.S, m.F, m.W, m.Dir, item)
		}
	})
	return
}

// roundTripOracle checks C01 on the real code for one complete message.
func roundTripOracle(msg *ast.DataMessage) string {
	b := msg.ToBytes()
	if len(b) == 0 {
		return "complete message encodes to no bytes"
	}
	var res string
	pan, _ := safely(func() {
		m2, ok := hsms.Parse(b)
		if !ok {
			res = "decoding the encoded message fails"
			return
		}
		d, isData := m2.(*ast.DataMessage)
		if !isData {
			res = "decoded message is not a data message"
			return
		}
		if d.StreamCode() != msg.StreamCode() || d.FunctionCode() != msg.FunctionCode() || d.WaitBit() != msg.WaitBit() ||
			d.SessionID() != msg.SessionID() || !bytes.Equal(d.SystemBytes(), msg.SystemBytes()) {
			res = fmt.Sprintf("header fields differ after round trip: %s vs %s", d.Header(), msg.Header())
			return
		}
		// identical item tree: printed form (types, sizes, values, order), variables, size
		_, after1, _ := strings.Cut(msg.String(), "\n")
		_, after2, _ := strings.Cut(d.String(), "\n")
		if after1 != after2 {
			res = fmt.Sprintf("item tree differs after round trip: sent %.200q got %.200q", after1, after2)
			return
		}
		if len(d.Variables()) != 0 {
			res = "decoded message has variables"
			return
		}
		if !bytes.Equal(d.ToBytes(), b) {
			res = "re-encoding the decoded message gives different bytes"
			return
		}
	})
	if pan {
		return "panic escaped hsms.Parse"
	}
	return res
}

func completeMsgDesc(r *rand.Rand, item *Node) *MsgDesc {
	m := genMsgDesc(r, item, 0)
	if m.W == 2 {
		m.W = r.Intn(2)
		if m.W == 1 && m.F%2 == 0 {
			m.F |= 1
		}
	}
	return m
}

func suiteC01(c *Ctx) []Suite {
	shared := Suite{Name: "roundtrip/shared-sub-items", Gen: func(c *Ctx) []Case {
		// a tree in which one item object occurs twice encodes like any other tree, and what it
		// encodes to decodes back to the same tree
		out := sharedSubItems(c, c.N(200))
		for i := range out {
			if out[i].Oracle != "" || !strings.Contains(out[i].Impl, "bytes=") {
				continue
			}
			f := strings.Fields(out[i].Impl)
			text, ok := unhx(strings.TrimPrefix(f[0], "bytes="))
			if !ok || len(text) == 0 {
				out[i].Oracle = "a variable-free tree with a shared sub-item has no encoding: " + out[i].Impl
				continue
			}
			msg, good := hsms.Parse(frame(7, 1, 1, 1, []byte{0, 0, 0, 1}, text))
			if dm, isData := msg.(*ast.DataMessage); !good || !isData {
				out[i].Oracle = "the encoding of a tree with a shared sub-item is not decoded"
			} else if back := dm.ToBytes(); len(back) < 14 || !bytes.Equal(back[14:], text) {
				out[i].Oracle = "a tree with a shared sub-item does not survive encode/decode/encode"
			}
		}
		return out
	}}
	return append(append(suiteC01base(c), shared), largeSuites()...)
}

func suiteC01base(c *Ctx) []Suite {
	gen := func(name string, n int, via func(r *rand.Rand, m *MsgDesc) (string, *ast.DataMessage)) Suite {
		return Suite{Name: name, Gen: func(c *Ctx) []Case {
			closed := GenOpt{MaxDepth: 4, MaxSlots: 6, Big: true, Huge: c.Tier == "thorough"}
			var out []Case
			for i := 0; i < c.N(n); i++ {
				item := genItem(c.R, closed)
				m := completeMsgDesc(c.R, item)
				op, msg := via(c.R, m)
				cs := Case{Op: op, Nontrivial: item.Count() > 1 || len(item.Slots) > 0 || len(item.Str) > 0, Tags: itemTags("", item)}
				if msg == nil {
					cs.Oracle = "harness could not build a valid complete message (factory panicked on in-domain input)"
				} else {
					cs.Oracle = roundTripOracle(msg)
					// the decoder side of the correspondence on the same bytes
					out = append(out, Case{Op: "dec " + hx(msg.ToBytes()), Tags: []string{"dec-of-encoded"}})
				}
				out = append(out, cs)
			}
			return out
		}}
	}
	return []Suite{
		gen("roundtrip/hsms-ctor", 800, func(r *rand.Rand, m *MsgDesc) (string, *ast.DataMessage) {
			m.HSMS = true
			msg, _ := buildMsg(m)
			return "mprog " + m.newStep(), msg
		}),
		gen("roundtrip/producers", 500, func(r *rand.Rand, m *MsgDesc) (string, *ast.DataMessage) {
			m.HSMS = false
			w := m.W
			m.W = 2
			if w == 1 && m.F%2 == 0 {
				m.F |= 1
			}
			op := fmt.Sprintf("mprog %s | wait %d | %s", m.newStep(), w, m.sessSteps(r))
			var msg *ast.DataMessage
			safely(func() {
				msg0, p := buildMsg(m)
				if !p {
					msg = msg0.SetWaitBit(w == 1).SetSessionIDAndSystemBytes(m.Sid, m.Sys)
				}
			})
			return op, msg
		}),
		{Name: "roundtrip/header-only-and-smallest-items", Gen: func(c *Ctx) []Case {
			// messages that are exactly a header (no item) and messages with the smallest items, for
			// session ids at the ends of the range and stream/function/wait at their ends: what is
			// decoded is a data message with the same fields
			var out []Case
			items := []*Node{{Kind: "E"}, {Kind: "L"}, {Kind: "A"}, {Kind: "B"}, {Kind: "U", W: 1, Slots: []Slot{{U: 7}}}}
			for _, sid := range []int{0, 1, 0x00FF, 0x0100, 0x7FFF, 0x8000, 0xFF00, 0xFFFE, 0xFFFF, c.R.Intn(65536)} {
				for _, sf := range [][3]int{{1, 1, 1}, {1, 0, 0}, {0, 0, 0}, {127, 255, 1}, {127, 255, 0}, {2, 17, 1}, {9, 9, 0}, {64, 2, 0}, {c.R.Intn(128), c.R.Intn(256) | 1, c.R.Intn(2)}} {
					for k, it := range items {
						if k > 0 && c.R.Intn(3) > 0 {
							continue
						}
						m := &MsgDesc{Item: it, Name: "", S: sf[0], F: sf[1], W: sf[2], Dir: "H->E", Sid: sid, Sys: []byte{byte(c.R.Intn(256)), byte(c.R.Intn(256)), byte(c.R.Intn(256)), byte(c.R.Intn(256))}}
						var msg *ast.DataMessage
						op := ""
						if c.R.Intn(2) == 0 {
							m.HSMS = true
							msg, _ = buildMsg(m)
							op = "mprog " + m.newStep()
						} else {
							// stamped later, as a template is
							op = fmt.Sprintf("mprog %s | sess %d %s", m.newStep(), m.Sid, hx(m.Sys))
							safely(func() {
								if m0, p := buildMsg(m); !p {
									msg = m0.SetSessionIDAndSystemBytes(m.Sid, m.Sys)
								}
							})
						}
						cs := Case{Op: op, Nontrivial: true, Tags: []string{fmt.Sprintf("header-only:%v sid:%#x", k == 0, sid)}}
						if msg == nil {
							cs.Oracle = "harness could not build a valid complete message (factory panicked on in-domain input)"
						} else {
							cs.Oracle = roundTripOracle(msg)
							out = append(out, Case{Op: "dec " + hx(msg.ToBytes()), Tags: []string{"dec-of-encoded"}})
						}
						out = append(out, cs)
					}
				}
			}
			return out
		}},
		{Name: "roundtrip/completed-templates", Gen: func(c *Ctx) []Case {
			// complete messages reached through templates: variables filled in one or two
			// steps, the session set before, between or after the fills, the wait bit decided
			var out []Case
			for i := 0; i < c.N(500); i++ {
				names := &nameGen{}
				tmpl := genNode(c.R, &GenOpt{MaxDepth: 3, MaxSlots: 4, PVar: 0.35, names: names}, 0)
				var vars []varRef
				collectVars(tmpl, &vars)
				asg := map[string]FillVal{}
				var keys []string
				for _, v := range vars {
					fv := genFillVal(c.R, v.node, 0, names)
					for len(fv.Open) > 0 || fv.Slot == nil {
						fv = genFillVal(c.R, v.node, 0, names)
					}
					asg[v.name] = fv
					keys = append(keys, v.name)
				}
				m := completeMsgDesc(c.R, tmpl)
				w := m.W
				m.W = 2
				if w == 1 && m.F%2 == 0 {
					m.F |= 1
				}
				m.HSMS = false
				sess := m.sessSteps(c.R)
				half := len(keys) / 2
				fills := []string{"fill " + envTokens(asg, keys)}
				if half > 0 && c.R.Intn(2) == 0 {
					fills = []string{"fill " + envTokens(asg, keys[:half]), "fill " + envTokens(asg, keys[half:])}
				}
				var steps []string
				switch c.R.Intn(3) {
				case 0:
					steps = append([]string{m.newStep(), sess}, fills...)
				case 1:
					steps = append(append([]string{m.newStep()}, fills...), sess)
				default:
					steps = append([]string{m.newStep(), fills[0], sess}, fills[1:]...)
				}
				steps = append(steps, fmt.Sprintf("wait %d", w))
				op := "mprog " + strings.Join(steps, " | ")
				impl := implEval(op)
				cs := Case{Op: op, Impl: impl, Decisive: true, Nontrivial: true, Tags: []string{fmt.Sprintf("completed-template vars:%d", len(keys))}}.fields("s f w sid sys bytes vars")
				b, _ := unhx(strings.TrimPrefix(project(lastField(impl), "bytes"), "bytes="))
				switch {
				case strings.Contains(impl, "PANIC"):
					cs.Oracle = "completing a template with in-domain values is refused"
				case len(b) == 0:
					cs.Oracle = "a completed, addressed message encodes to no bytes"
				default:
					m2, ok := hsms.Parse(b)
					if !ok {
						cs.Oracle = "decoding the encoding of a completed template fails"
					} else if d, isData := m2.(*ast.DataMessage); !isData || d.SessionID() != m.Sid || !bytes.Equal(d.SystemBytes(), m.Sys) || !bytes.Equal(d.ToBytes(), b) {
						cs.Oracle = fmt.Sprintf("completed template does not round-trip: session %d / % x expected", m.Sid, m.Sys)
					} else if direct := substitute(tmpl, asg); direct != nil {
						dm := *m
						dm.Item, dm.HSMS, dm.W = direct, true, w
						if want := project(implEval("mprog "+dm.newStep()), "bytes"); want != "bytes="+hx(b) {
							cs.Oracle = "completed template encodes differently from the directly constructed message"
						}
					}
					out = append(out, Case{Op: "dec " + hx(b), Tags: []string{"dec-of-completed"}})
				}
				out = append(out, cs)
			}
			return out
		}},
		{Name: "roundtrip/boundaries", Gen: func(c *Ctx) []Case {
			// every format at every length-byte boundary with real items
			var out []Case
			counts := []int{0, 1, 254, 255, 256, 257}
			if c.Tier == "thorough" {
				counts = append(counts, 65534, 65535, 65536, 65537)
			}
			o := GenOpt{names: &nameGen{}}
			for _, k := range arrayKinds {
				for _, payload := range counts {
					cnt := payload
					if k.w > 1 {
						cnt = payload / k.w
					}
					n := &Node{Kind: k.k, W: k.w}
					for i := 0; i < cnt; i++ {
						var s Slot
						switch k.k {
						case "B":
							s.I = int64(c.R.Intn(256))
						case "BO":
							s.B = c.R.Intn(2) == 0
						case "I":
							s.I = genIntVal(c.R, k.w, false)
						case "U":
							s.U = genUintVal(c.R, k.w, false)
						case "F":
							s.Bits = genFloatBits(c.R, k.w, false)
						}
						n.Slots = append(n.Slots, s)
					}
					out = append(out, boundaryCase(c.R, n, payload))
				}
			}
			for _, payload := range counts {
				str := make([]byte, payload)
				for i := range str {
					str[i] = byte(c.R.Intn(128))
				}
				out = append(out, boundaryCase(c.R, &Node{Kind: "A", Str: str}, payload))
				l := &Node{Kind: "L"}
				for i := 0; i < payload; i++ {
					l.Slots = append(l.Slots, Slot{Child: &Node{Kind: "U", W: 1, Slots: []Slot{{U: uint64(i % 256)}}}})
				}
				out = append(out, boundaryCase(c.R, l, payload))
			}
			_ = o
			return out
		}},
	}
}

func boundaryCase(r *rand.Rand, n *Node, payload int) Case {
	m := completeMsgDesc(r, n)
	m.HSMS = true
	msg, _ := buildMsg(m)
	cs := Case{Op: "mprog " + m.newStep(), Nontrivial: true, Tags: []string{"boundary:" + kindTag(n) + ":" + fmt.Sprint(payload)}}
	if msg == nil {
		cs.Oracle = "factory panicked on in-domain boundary item"
	} else {
		cs.Oracle = roundTripOracle(msg)
	}
	return cs
}

// ---------- C02: wire format ----------

func suiteC02(c *Ctx) []Suite {
	return []Suite{
		{Name: "wire/items-from-the-decoder", Gen: func(c *Ctx) []Case {
			// an item that came out of hsms.Parse is an item like any other: whatever spelling the
			// sender used (non-minimal length bytes, any non-zero byte for true), ToBytes gives the
			// one standard encoding - compared byte for byte with the model's decoder + encoder
			var out []Case
			for i := 0; i < c.N(600); i++ {
				item := genItem(c.R, GenOpt{MaxDepth: 3, MaxSlots: 6})
				if i%3 == 0 {
					// booleans only, most of them true, at every depth
					item = &Node{Kind: "L", Slots: []Slot{{Child: &Node{Kind: "BO", Slots: []Slot{{B: true}, {B: false}, {B: true}, {B: true}}}},
						{Child: &Node{Kind: "L", Slots: []Slot{{Child: &Node{Kind: "BO", Slots: []Slot{{B: true}}}}}}}}}
				}
				if !item.Closed() {
					continue
				}
				b := frame(c.R.Intn(65536), 1+c.R.Intn(127), c.R.Intn(256), c.R.Intn(2), []byte{1, 2, 3, 4}, encodeVariant(item, c.R))
				out = append(out, Case{Op: "dec " + hx(b), Decisive: true, Nontrivial: true, Tags: []string{"re-encoded:" + kindTag(item)}}.fields("bytes"))
			}
			return out
		}},
		{Name: "wire/shared-sub-items", Gen: func(c *Ctx) []Case { return sharedSubItems(c, c.N(300)) }},
		{Name: "wire/items", Gen: func(c *Ctx) []Case {
			var out []Case
			for i := 0; i < c.N(2000); i++ {
				o := GenOpt{MaxDepth: 4, MaxSlots: 6, Big: true, Huge: c.Tier == "thorough"}
				if i%4 == 0 {
					o.PVar = 0.15
					o.PEllipsis = 0.1
				}
				item := genItem(c.R, o)
				out = append(out, Case{Op: "item " + item.Proto(), Decisive: true, Impl: "", Nontrivial: true, Tags: itemTags("", item), Detail: ""}.fields("bytes"))
			}
			return out
		}},
		{Name: "wire/no-item-beyond-the-limit", Gen: func(c *Ctx) []Case {
			// an item of more than 16,777,215 bytes has no encoding: no factory hands one out
			// (a variable-free item that then encodes to nothing would be a partial encoding)
			var out []Case
			args := make([]interface{}, 4194304)
			for i := range args {
				args[i] = float32(1.5)
			}
			for _, f := range []struct {
				name string
				mk   func() ast.ItemNode
			}{
				{"F4[4194304]", func() ast.ItemNode { return ast.NewFloatNode(4, args...) }},
				{"F8[2097152]", func() ast.ItemNode { return ast.NewFloatNode(8, args[:2097152]...) }},
				{"U4[4194304]", func() ast.ItemNode {
					for i := range args {
						args[i] = uint8(1)
					}
					return ast.NewUintNode(4, args...)
				}},
				{"I8[2097152]", func() ast.ItemNode {
					for i := range args {
						args[i] = int8(1)
					}
					return ast.NewIntNode(8, args[:2097152]...)
				}},
			} {
				var it ast.ItemNode
				res := ""
				if p, _ := safely(func() { it = f.mk() }); !p {
					res = fmt.Sprintf("%s (16,777,216 bytes) was constructed; it encodes to %d bytes", f.name, len(it.ToBytes()))
				}
				out = append(out, Case{Detail: "over-limit " + f.name, Oracle: res, Nontrivial: true, Tags: []string{"over-limit"}})
			}
			return out
		}},
		{Name: "wire/list-length-boundaries", Gen: func(c *Ctx) []Case {
			// lists of exactly 254..257 and 65534..65537 elements: the element count is written
			// in the fewest length bytes
			var out []Case
			for _, n := range []int{254, 255, 256, 257, 65534, 65535, 65536, 65537} {
				if n > 300 && c.Tier != "thorough" && n != 65535 && n != 65536 {
					continue
				}
				slots := make([]Slot, n)
				for i := range slots {
					slots[i] = Slot{Child: &Node{Kind: "L"}}
				}
				it := (&Node{Kind: "L", Slots: slots}).Build()
				b := it.ToBytes()
				res := ""
				var want []byte
				switch {
				case n <= 0xFF:
					want = []byte{0x01, byte(n)}
				case n <= 0xFFFF:
					want = []byte{0x02, byte(n >> 8), byte(n)}
				default:
					want = []byte{0x03, byte(n >> 16), byte(n >> 8), byte(n)}
				}
				if len(b) != len(want)+2*n || !bytes.HasPrefix(b, want) {
					res = fmt.Sprintf("list of %d empty lists encodes to %d bytes starting % x, want %d bytes starting % x", n, len(b), b[:imin(6, len(b))], len(want)+2*n, want)
				}
				out = append(out, Case{Detail: fmt.Sprintf("list of %d elements", n), Oracle: res, Nontrivial: true, Tags: []string{"list-boundary"}})
			}
			return out
		}},
		{Name: "wire/ascii-domain", Gen: func(c *Ctx) []Case {
			// an ASCII item holds 7-bit characters only: every byte string with a byte >= 0x80
			// (valid UTF-8 or not) is refused, so no encoding ever carries such a byte
			var out []Case
			for _, s := range []string{"caf\xe9", "\xff", "a\x80b", "\xc3", "\xe2\x82", "é", "名", "\xc3\x28", "\xf0\x9f\x98", "ok\x7f", "\x00\x01\x7f", "plain"} {
				out = append(out, Case{Op: "ctor ascii " + hxs(s), Decisive: true, Nontrivial: true, Tags: []string{"ascii-domain"}}.fields("bytes"))
			}
			for i := 0; i < c.N(120); i++ {
				b := make([]byte, 1+c.R.Intn(6))
				c.R.Read(b)
				out = append(out, Case{Op: "ctor ascii " + hx(b), Decisive: true, Nontrivial: true, Tags: []string{"ascii-domain"}}.fields("bytes"))
			}
			// the same through a fill: an ASCII variable takes 7-bit text only, alone and next to a sibling
			for _, s := range []string{"25\u00b0C", "caf\xe9", "\u00e9", "\xff", "ok", "\u540d", "a\x80"} {
				for _, tmpl := range []*Node{{Kind: "AV", Name: "v", Min: 0, Max: -1},
					{Kind: "L", Slots: []Slot{{Child: &Node{Kind: "AV", Name: "v", Min: 0, Max: -1}}, {Child: &Node{Kind: "U", W: 1, Slots: []Slot{{U: 7}}}}}}} {
					out = append(out, Case{Op: "fillitem " + tmpl.Proto() + " | 1 " + hxs("v") + " " + strTok(s), Decisive: true, Nontrivial: true, Tags: []string{"ascii-domain-fill"}}.fields("bytes"))
				}
			}
			return out
		}},
		{Name: "wire/filled-templates", Gen: func(c *Ctx) []Case {
			// items completed by filling a template encode the values they were filled with - also
			// after the same template was filled again with other values (the harness does that for
			// every fill), and in the copies an ellipsis makes
			var out []Case
			closedVal := func(n *Node) FillVal {
				fv := genFillVal(c.R, n, 0, nil)
				for len(fv.Open) > 0 || fv.Slot == nil {
					fv = genFillVal(c.R, n, 0, nil)
				}
				return fv
			}
			for i := 0; i < c.N(700); i++ {
				names := &nameGen{}
				k := arrayKinds[c.R.Intn(len(arrayKinds))]
				n := genArray(c.R, &GenOpt{MaxSlots: 5, PVar: 0.6, names: names}, k.k, k.w)
				tmpl := n
				switch i % 4 {
				case 1:
					tmpl = &Node{Kind: "L", Slots: []Slot{{Child: n}, {Child: &Node{Kind: "A", Str: []byte("t")}}}}
				case 2:
					tmpl = &Node{Kind: "L", Slots: []Slot{{Child: &Node{Kind: "L", Slots: []Slot{{Child: n}}}}, {Child: &Node{Kind: "U", W: 1, Slots: []Slot{{U: 7}}}}}}
				}
				var vars []varRef
				collectVars(tmpl, &vars)
				if len(vars) == 0 {
					continue
				}
				asg := map[string]FillVal{}
				var keys []string
				for _, v := range vars {
					asg[v.name] = closedVal(v.node)
					keys = append(keys, v.name)
				}
				op := "fillitem " + tmpl.Proto() + " | " + envTokens(asg, keys)
				impl := implEval(op)
				cs := Case{Op: op, Impl: impl, Decisive: true, Nontrivial: true, Tags: []string{"filled-template:" + k.k}}.fields(itemKeys)
				if direct := substitute(tmpl, asg); direct != nil {
					if want, _ := implItem(direct); project(lastField(impl), "bytes") != project(want, "bytes") {
						cs.Oracle = "the filled template encodes differently from the item built with the values in place: " + firstDiff(project(lastField(impl), "bytes"), project(want, "bytes"))
					}
				}
				out = append(out, cs)
			}
			for _, k := range arrayKinds {
				for cnt := 1; cnt <= 3; cnt++ {
					for _, key := range []string{"...", "...[0]"} {
						elem := &Node{Kind: k.k, W: k.w, Slots: []Slot{{IsVar: true, Name: "f"}}}
						tmpl := &Node{Kind: "L", Slots: []Slot{{Child: elem}, {IsVar: true, Name: key}}}
						asg := map[string]FillVal{key: {Tok: sintTok(0, int64(cnt))}}
						keys := []string{key}
						direct := &Node{Kind: "L"}
						for j := 0; j <= cnt; j++ {
							nm := fmt.Sprintf("f[%d]", j)
							asg[nm] = closedVal(elem)
							keys = append(keys, nm)
							direct.Slots = append(direct.Slots, Slot{Child: &Node{Kind: k.k, W: k.w, Slots: []Slot{*asg[nm].Slot}}})
						}
						for _, op := range []string{"fillitem " + tmpl.Proto() + " | " + envTokens(asg, keys),
							"fillitem " + tmpl.Proto() + " | " + envTokens(asg, keys[:1]) + " | " + envTokens(asg, keys[1:])} {
							impl := implEval(op)
							cs := Case{Op: op, Impl: impl, Decisive: true, Nontrivial: true, Tags: []string{"filled-ellipsis-copies:" + k.k}}.fields(itemKeys)
							if want, _ := implItem(direct); project(lastField(impl), "bytes") != project(want, "bytes") {
								cs.Oracle = "the copies an ellipsis made encode other values than they were filled with: " + firstDiff(project(lastField(impl), "bytes"), project(want, "bytes"))
							}
							out = append(out, cs)
						}
					}
				}
			}
			return out
		}},
		{Name: "wire/messages", Gen: func(c *Ctx) []Case {
			var out []Case
			for i := 0; i < c.N(2000); i++ {
				o := GenOpt{MaxDepth: 3, MaxSlots: 5, Big: i%10 == 0}
				if i%3 == 0 {
					o.PVar = 0.2
				}
				if i%9 == 3 {
					// nothing open but an ellipsis or two: such a message is not complete either
					o.PVar, o.PEllipsis = 0, 0.6
				} else if i%9 == 6 {
					o.PEllipsis = 0.3
				}
				item := genItem(c.R, o)
				pbadHdr := 0.0
				if i%10 == 9 {
					pbadHdr = 0.5 // stream 128, function 256, a wait bit on a reply: refused, never encoded
				}
				if i%12 == 7 && item.Kind == "L" {
					// the empty item (the placeholder of a missing value) as an element of a list:
					// such a list does not encode, so the message is not complete
					at := c.R.Intn(len(item.Slots) + 1)
					item.Slots = append(item.Slots[:at], append([]Slot{{Child: &Node{Kind: "E"}}}, item.Slots[at:]...)...)
				}
				m := genMsgDesc(c.R, item, pbadHdr)
				m.HSMS = i%4 == 1 // also through the constructor that takes session id and system bytes
				steps := []string{m.newStep()}
				// incomplete in different ways: optional W, variables, no session id
				if c.R.Intn(3) > 0 {
					steps = append(steps, m.sessSteps(c.R))
				}
				if c.R.Intn(3) > 0 {
					w := c.R.Intn(2)
					if m.F%2 == 0 {
						w = 0
					}
					steps = append(steps, fmt.Sprintf("wait %d", w))
				}
				tag := "msg-complete-candidate"
				if !item.Closed() {
					tag = "msg-open-item"
				}
				if i%8 == 5 {
					// the session id taken away again (-1 = none): not complete any more
					steps = append(steps, fmt.Sprintf("sess -1 %s", hx(m.Sys)))
					tag = "msg-session-cleared"
				}
				out = append(out, Case{Op: "mprog " + strings.Join(steps, " | "), Decisive: true, Nontrivial: true, Tags: []string{tag}}.fields("bytes"))
			}
			return out
		}},
		{Name: "wire/huge-message-frame", Gen: func(c *Ctx) []Case {
			// the E37 frame law on the real code for messages of 2^24 bytes and more (the model
			// driver is not fed 16 MB lines; the law checked is Props/C02 `frame`)
			var out []Case
			for _, n := range []int{16777215 - 14, 16777215 - 4, 16777215} {
				var res string
				safely(func() {
					it := ast.NewASCIINode(string(bytes.Repeat([]byte{'x'}, n)))
					msg := ast.NewHSMSDataMessage("", 1, 1, 0, "H<->E", it, 0x0102, []byte{9, 8, 7, 6})
					b := msg.ToBytes()
					ib := it.ToBytes()
					if len(b) != 14+len(ib) || binary.BigEndian.Uint32(b) != uint32(10+len(ib)) ||
						!bytes.Equal(b[4:14], []byte{1, 2, 1, 1, 0, 0, 9, 8, 7, 6}) || !bytes.Equal(b[14:18], ib[:4]) {
						res = fmt.Sprintf("message around a %d-character ASCII item: frame is % x (message length field must be %08x)", n, b[:14], 10+len(ib))
					}
				})
				out = append(out, Case{Detail: fmt.Sprintf("frame of a message with a %d-character ASCII item", n), Oracle: res, Nontrivial: true, Tags: []string{"huge-frame"}})
			}
			// the 3-byte limit bounds a list's element count and each leaf's payload, not the bytes of
			// all children together: a list of a few large items encodes, and so does the message
			for _, k := range []int{2, 3, 4} {
				var res string
				safely(func() {
					leaf := ast.NewASCIINode(string(bytes.Repeat([]byte{'y'}, 6000000)))
					kids := make([]interface{}, k)
					for i := range kids {
						kids[i] = leaf
					}
					it := ast.NewListNode(kids...)
					ib := it.ToBytes()
					want := 2 + k*(4+6000000)
					if len(ib) != want || ib[0] != 0x01 || int(ib[1]) != k {
						res = fmt.Sprintf("a list of %d ASCII items of 6,000,000 characters encodes to %d bytes (first % x), the encoding has %d", k, len(ib), ib[:imin(len(ib), 4)], want)
						return
					}
					b := ast.NewHSMSDataMessage("", 1, 1, 0, "H<->E", ast.NewListNode(ast.NewUintNode(1, 1), it), 1, []byte{0, 0, 0, 1}).ToBytes()
					if len(b) != 14+2+3+want || binary.BigEndian.Uint32(b) != uint32(10+2+3+want) {
						res = fmt.Sprintf("a message holding that list encodes to %d bytes", len(b))
					}
				})
				out = append(out, Case{Detail: fmt.Sprintf("list of %d items of 6,000,000 characters", k), Oracle: res, Nontrivial: true, Tags: []string{"large-children"}})
			}
			return out
		}},
		{Name: "wire/exhaustive-small-widths", Gen: func(c *Ctx) []Case {
			// every value of I1/U1 always; I2/U2 every value in thorough, a stride in quick
			var out []Case
			mk := func(kind string, w int, vals []Slot) {
				n := &Node{Kind: kind, W: w, Slots: vals}
				out = append(out, Case{Op: "item " + n.Proto(), Decisive: true, Nontrivial: true, Tags: []string{"exhaustive:" + kindTag(n)}}.fields("bytes"))
			}
			var s1, u1 []Slot
			for v := -128; v < 128; v++ {
				s1 = append(s1, Slot{I: int64(v)})
				u1 = append(u1, Slot{U: uint64(v + 128)})
			}
			mk("I", 1, s1)
			mk("U", 1, u1)
			stride := 17
			if c.Tier == "thorough" {
				stride = 1
			}
			var s2, u2 []Slot
			for v := -32768; v < 32768; v += stride {
				s2 = append(s2, Slot{I: int64(v)})
				u2 = append(u2, Slot{U: uint64(v + 32768)})
				if len(s2) == 512 {
					mk("I", 2, s2)
					mk("U", 2, u2)
					s2, u2 = nil, nil
				}
			}
			s2 = append(s2, Slot{I: 32767})
			u2 = append(u2, Slot{U: 65535})
			mk("I", 2, s2)
			mk("U", 2, u2)
			return out
		}},
	}
}

func (c Case) fields(keys string) Case {
	c.Detail = ""
	c.cmpKeys = keys
	return c
}

// ---------- C03: decoder accepts exactly the well-formed messages ----------

func mutateBytes(r *rand.Rand, b []byte) ([]byte, string) {
	out := append([]byte{}, b...)
	switch r.Intn(10) {
	case 0: // truncation
		if len(out) > 0 {
			k := r.Intn(len(out))
			out = out[:k]
			if r.Intn(2) == 0 && len(out) >= 4 { // with consistent message length
				binary.BigEndian.PutUint32(out, uint32(len(out)-4))
			}
		}
		return out, "truncate"
	case 1: // appended bytes
		k := 1 + r.Intn(4)
		for i := 0; i < k; i++ {
			out = append(out, byte(r.Intn(256)))
		}
		if r.Intn(3) > 0 && len(out) >= 4 {
			binary.BigEndian.PutUint32(out, uint32(len(out)-4))
		}
		return out, "append"
	case 2: // message length field
		if len(out) >= 4 {
			binary.BigEndian.PutUint32(out, uint32(int(binary.BigEndian.Uint32(out))+pick(r, -1, 1, 2, -2, 256, 1<<24)))
		}
		return out, "msglen"
	case 3: // PType / SType
		if len(out) >= 14 {
			if r.Intn(2) == 0 {
				out[8] = byte(r.Intn(256))
			} else {
				out[9] = byte(pick(r, 0, 1, 2, 3, 4, 5, 6, 7, 8, 9, 10, 255, r.Intn(256)))
			}
		}
		return out, "ptype-stype"
	case 4: // header byte 2 (W bit / stream) and 3 (function)
		if len(out) >= 14 {
			out[6+r.Intn(2)] = byte(r.Intn(256))
		}
		return out, "w-s-f"
	case 5, 6: // a byte of the text
		if len(out) > 14 {
			i := 14 + r.Intn(len(out)-14)
			out[i] = byte(r.Intn(256))
		}
		return out, "text-byte"
	case 7: // format byte of the top item
		if len(out) > 14 {
			out[14] = byte(r.Intn(256))
		}
		return out, "format-byte"
	case 8: // first length byte of the top item
		if len(out) > 15 {
			out[15] = byte(pick(r, 0, 1, 2, 255, r.Intn(256)))
		}
		return out, "length-byte"
	default: // bit flip anywhere
		if len(out) > 0 {
			i := r.Intn(len(out))
			out[i] ^= 1 << uint(r.Intn(8))
		}
		return out, "bitflip"
	}
}

const decKeys = "s f w sid sys bytes type"

func suiteC03(c *Ctx) []Suite {
	return append(append(suiteC03base(c), gridSuites()...), largeSuites()...)
}

func suiteC03base(c *Ctx) []Suite {
	return []Suite{
		{Name: "decode/valid-and-nonminimal", Gen: func(c *Ctx) []Case {
			var out []Case
			for i := 0; i < c.N(1500); i++ {
				item := genItem(c.R, GenOpt{MaxDepth: 4, MaxSlots: 6, Big: i%8 == 0})
				m := completeMsgDesc(c.R, item)
				var vr *rand.Rand
				tag := "minimal"
				if i%2 == 1 {
					vr = c.R
					tag = "nonminimal"
				}
				b := frame(m.Sid, m.S, m.F, m.W, m.Sys, encodeVariant(item, vr))
				out = append(out, Case{Op: "dec " + hx(b), Decisive: true, Nontrivial: true, Tags: []string{tag}}.fields(decKeys))
			}
			return out
		}},
		{Name: "decode/corrupted", Gen: func(c *Ctx) []Case {
			var out []Case
			for i := 0; i < c.N(800); i++ {
				item := genItem(c.R, GenOpt{MaxDepth: 3, MaxSlots: 5, Big: i%20 == 0})
				m := completeMsgDesc(c.R, item)
				base := frame(m.Sid, m.S, m.F, m.W, m.Sys, encodeVariant(item, c.R))
				if i%7 == 0 { // empty text
					base = frame(m.Sid, m.S, m.F, m.W, m.Sys, nil)
				}
				for k := 0; k < 6; k++ {
					b, kind := mutateBytes(c.R, base)
					if c.R.Intn(5) == 0 {
						b, _ = mutateBytes(c.R, b)
						kind = "double"
					}
					out = append(out, Case{Op: "dec " + hx(b), Decisive: true, Nontrivial: true, Tags: []string{"mut:" + kind}}.fields(decKeys))
				}
			}
			return out
		}},
		{Name: "decode/truncation-sweep", Gen: func(c *Ctx) []Case {
			var out []Case
			for i := 0; i < c.N(30); i++ {
				item := genItem(c.R, GenOpt{MaxDepth: 3, MaxSlots: 4})
				m := completeMsgDesc(c.R, item)
				base := frame(m.Sid, m.S, m.F, m.W, m.Sys, encodeVariant(item, c.R))
				if len(base) > 200 {
					continue
				}
				for k := 0; k < len(base); k++ {
					b := append([]byte{}, base[:k]...)
					if k >= 4 {
						binary.BigEndian.PutUint32(b, uint32(k-4))
					}
					out = append(out, Case{Op: "dec " + hx(b), Decisive: true, Nontrivial: true, Tags: []string{"truncation-point"}}.fields(decKeys))
				}
			}
			return out
		}},
		{Name: "decode/unstructured", Gen: func(c *Ctx) []Case {
			var out []Case
			for i := 0; i < c.N(1500); i++ {
				n := c.R.Intn(40)
				b := make([]byte, n)
				c.R.Read(b)
				if n >= 4 && c.R.Intn(2) == 0 {
					binary.BigEndian.PutUint32(b, uint32(n-4))
				}
				if n >= 10 && c.R.Intn(2) == 0 {
					b[8], b[9] = 0, byte(pick(c.R, 0, 0, 0, 1, 5, 9))
				}
				if n >= 16 && c.R.Intn(2) == 0 {
					codes := []byte{0o00, 0o10, 0o11, 0o20, 0o30, 0o31, 0o32, 0o34, 0o40, 0o44, 0o50, 0o51, 0o52, 0o54}
					b[14] = codes[c.R.Intn(len(codes))]<<2 | byte(1+c.R.Intn(3))
				}
				out = append(out, Case{Op: "dec " + hx(b), Decisive: true, Nontrivial: n >= 14, Tags: []string{"random:" + sizeTag(n)}}.fields(decKeys))
			}
			return out
		}},
	}
}

// ---------- C13: header bytes for every size ----------

var fmtNames = []string{"list", "binary", "boolean", "ascii", "i8", "i1", "i2", "i4", "f8", "f4", "u8", "u1", "u2", "u4"}
var fmtWidth = map[string]int{"list": 1, "binary": 1, "boolean": 1, "ascii": 1, "i8": 8, "i1": 1, "i2": 2, "i4": 4, "f8": 8, "f4": 4, "u8": 8, "u1": 1, "u2": 2, "u4": 4}
var fmtCodeByName = map[string]int{"list": 0o00, "binary": 0o10, "boolean": 0o11, "ascii": 0o20, "i8": 0o30, "i1": 0o31, "i2": 0o32, "i4": 0o34,
	"f8": 0o40, "f4": 0o44, "u8": 0o50, "u1": 0o51, "u2": 0o52, "u4": 0o54}

func implHeader(f string, n int) string {
	b, err := ast.VerifHeaderBytes(f, n)
	if err != nil {
		return "err"
	}
	return hx(b)
}

// closedFormHeader is the closed form that Props/C13.lean proves equal to the model.
func closedFormHeader(f string, n int) string {
	l := n * fmtWidth[f]
	if l > 16777215 {
		return "err"
	}
	k := minLB(l)
	out := []byte{byte(fmtCodeByName[f]<<2 + k)}
	for i := k - 1; i >= 0; i-- {
		out = append(out, byte(l>>(8*uint(i))))
	}
	return hx(out)
}

func suiteC13(c *Ctx) []Suite { return append(suiteC13base(c), largeSuites()...) }

func suiteC13base(c *Ctx) []Suite {
	return []Suite{
		{Name: "header/boundaries-vs-model", Gen: func(c *Ctx) []Case {
			var out []Case
			win := 40
			for _, f := range fmtNames {
				w := fmtWidth[f]
				for _, bnd := range []int{0, 255, 256, 65535, 65536, 16777215, 16777216} {
					ctr := bnd / w
					for n := ctr - win; n <= ctr+win; n++ {
						if n < 0 {
							continue
						}
						out = append(out, Case{Op: fmt.Sprintf("hdr %s %d", f, n), Decisive: true, Nontrivial: true, Tags: []string{"boundary-window"}})
					}
				}
				for i := 0; i < c.N(300); i++ {
					n := c.R.Intn(16777215/w + 100)
					out = append(out, Case{Op: fmt.Sprintf("hdr %s %d", f, n), Decisive: true, Nontrivial: true, Tags: []string{"random-size"}})
				}
			}
			return out
		}},
		{Name: "header/full-sweep-closed-form", Gen: func(c *Ctx) []Case {
			// The implementation against the closed form, on the code side only (the driver
			// cross-checks the closed form in the suite above). Quick: a window around every
			// boundary plus a stride; thorough: every size.
			stride := 997
			if c.Tier == "thorough" {
				stride = 1
			}
			var out []Case
			for _, f := range fmtNames {
				w := fmtWidth[f]
				limit := 16777215/w + 64
				bad := ""
				cnt := 0
				check := func(n int) {
					cnt++
					if bad == "" {
						if got, want := implHeader(f, n), closedFormHeader(f, n); got != want {
							bad = fmt.Sprintf("header of %s size %d is %s, closed form %s", f, n, got, want)
						}
					}
				}
				for n := 0; n <= limit; n += stride {
					check(n)
				}
				for _, bnd := range []int{255, 256, 65535, 65536, 16777215} {
					for n := bnd/w - 300; n <= bnd/w+300; n++ {
						if n >= 0 {
							check(n)
						}
					}
				}
				out = append(out, Case{Detail: fmt.Sprintf("sweep %s: %d sizes (stride %d)", f, cnt, stride), Oracle: bad, Nontrivial: true, Tags: []string{fmt.Sprintf("swept-sizes:%s:%d", f, cnt)}})
			}
			return out
		}},
		{Name: "header/encodings-kept-in-a-table", Gen: func(c *Ctx) []Case {
			// real items of every format at sizes around the length-byte boundaries, visited in
			// descending and then ascending order; the encodings are collected first and their length
			// fields checked afterwards, as a sender does that prepares several items before it sends
			var out []Case
			mk := func(f string, n int) ast.ItemNode {
				args := make([]interface{}, n)
				switch f {
				case "list":
					for i := range args {
						args[i] = ast.NewBooleanNode(true)
					}
					return ast.NewListNode(args...)
				case "ascii":
					return ast.NewASCIINode(strings.Repeat("q", n))
				case "boolean":
					for i := range args {
						args[i] = i%2 == 0
					}
					return ast.NewBooleanNode(args...)
				case "binary":
					for i := range args {
						args[i] = i % 251
					}
					return ast.NewBinaryNode(args...)
				}
				for i := range args {
					args[i] = i % 100
				}
				switch f[0] {
				case 'i':
					return ast.NewIntNode(fmtWidth[f], args...)
				case 'u':
					return ast.NewUintNode(fmtWidth[f], args...)
				}
				for i := range args {
					args[i] = float64(i % 100)
				}
				return ast.NewFloatNode(fmtWidth[f], args...)
			}
			for _, f := range fmtNames {
				w := fmtWidth[f]
				var sizes []int
				for _, bytesLen := range []int{65536 + 8, 65536, 65535, 65528, 264, 256, 255, 248, 24, 8, 0} {
					if n := bytesLen / w; len(sizes) == 0 || sizes[len(sizes)-1] != n {
						sizes = append(sizes, n)
					}
				}
				if f == "list" {
					sizes = []int{300, 256, 255, 3, 1, 0}
				}
				order := append([]int{}, sizes...)
				for i := len(sizes) - 1; i >= 0; i-- {
					order = append(order, sizes[i])
				}
				order = append(order, 3, 1, 3)
				type row struct {
					n int
					b []byte
				}
				var table []row
				res := ""
				if pan, _ := safely(func() {
					for _, n := range order {
						table = append(table, row{n, mk(f, n).ToBytes()})
					}
				}); pan {
					res = "a factory or ToBytes panicked on an item within the limit"
				}
				for _, r := range table {
					if res != "" {
						break
					}
					want, _ := unhx(closedFormHeader(f, r.n))
					total := len(want) + r.n*w
					if f == "list" {
						total = len(want) + 3*r.n
					}
					if !bytes.HasPrefix(r.b, want) || len(r.b) != total {
						res = fmt.Sprintf("%s item of %d elements, looked at after the other items were encoded: starts % x and has %d bytes, want header % x and %d bytes", f, r.n, r.b[:imin(len(r.b), 4)], len(r.b), want, total)
					}
				}
				out = append(out, Case{Detail: fmt.Sprintf("%s: %d encodings collected, then checked", f, len(order)), Oracle: res, Nontrivial: true, Tags: []string{"encodings-table:" + f}})
			}
			return out
		}},
		{Name: "header/real-items", Gen: func(c *Ctx) []Case {
			// real items at the boundaries through the factories, ToBytes and hsms.Parse
			var out []Case
			sizes := []int{255, 256, 65535, 65536}
			if c.Tier == "thorough" {
				sizes = append(sizes, 16777215)
			}
			for vi, n := range append(append([]int{}, sizes...), sizes...) {
				str := bytes.Repeat([]byte{'a'}, n)
				if vi >= len(sizes) {
					// the same lengths with NUL characters at the end (padding some equipment sends):
					// they are characters like any other and count
					for k := n - 1; k >= 0 && k >= n-1-vi; k-- {
						str[k] = 0
					}
				}
				var res string
				safely(func() {
					it := ast.NewASCIINode(string(str))
					b := it.ToBytes()
					want, _ := unhx(closedFormHeader("ascii", n))
					if !bytes.HasPrefix(b, want) || len(b) != len(want)+n {
						res = fmt.Sprintf("ASCII item of %d characters: wrong header or length", n)
						return
					}
					msg := ast.NewHSMSDataMessage("", 1, 1, 0, "H<->E", it, 1, []byte{0, 0, 0, 1})
					m2, ok := hsms.Parse(msg.ToBytes())
					if !ok {
						res = fmt.Sprintf("decoder rejects an ASCII item of %d characters", n)
						return
					}
					if m2.(*ast.DataMessage).String() != msg.String() {
						res = fmt.Sprintf("decoder reads the length of an ASCII item of %d characters back differently", n)
					}
				})
				out = append(out, Case{Detail: fmt.Sprintf("real ASCII item, %d characters", n), Oracle: res, Nontrivial: true, Tags: []string{"real-item"}})
			}
			// characters beyond 7 bits are no ASCII: a string of 128 or 32768 two-byte characters has
			// 256 or 65536 bytes but would be written as 128 or 32768 - the factory refuses it
			for _, n := range []int{1, 127, 128, 255, 256, 32768} {
				for _, ch := range []string{"\u00b5", "\u00e9", "\u00ff", "\u0080"} {
					out = append(out, Case{Op: "ctor ascii " + hxs(strings.Repeat(ch, n)), Decisive: true, Nontrivial: true, Tags: []string{"latin1-at-boundary"}}.fields("bytes"))
					out = append(out, Case{Op: "ctor ascii " + hxs(strings.Repeat("a", n)+ch), Decisive: true, Nontrivial: true, Tags: []string{"latin1-at-boundary"}}.fields("bytes"))
				}
			}
			// lists with exactly 255, 256, 65535, 65536 elements: header from the element count
			for _, n := range []int{255, 256, 257, 65535, 65536} {
				var res string
				safely(func() {
					kids := make([]interface{}, n)
					for i := range kids {
						kids[i] = ast.NewBooleanNode(i%2 == 0)
					}
					for _, it := range []ast.ItemNode{ast.NewListNode(kids...), ast.NewListNode(ast.NewASCIINode("x"), ast.NewListNode(kids...))} {
						b := it.ToBytes()
						want, _ := unhx(closedFormHeader("list", n))
						if !bytes.Contains(b[:imin(len(b), 12)], want) || len(b) < n*3 {
							res = fmt.Sprintf("list of %d elements: header bytes % x, closed form % x", n, b[:imin(len(b), 8)], want)
							return
						}
						msg := ast.NewHSMSDataMessage("", 1, 1, 0, "H<->E", it, 1, []byte{0, 0, 0, 1})
						m2, ok := hsms.Parse(msg.ToBytes())
						if !ok {
							res = fmt.Sprintf("decoder rejects the library's own encoding of a list of %d elements", n)
							return
						}
						if !bytes.Equal(m2.ToBytes(), msg.ToBytes()) {
							res = fmt.Sprintf("a list of %d elements is read back differently", n)
						}
					}
				})
				out = append(out, Case{Detail: fmt.Sprintf("real list, %d elements", n), Oracle: res, Nontrivial: true, Tags: []string{"real-list"}})
			}
			// the limit holds on every path that builds an item: filling an unbounded ASCII
			// variable with 16,777,216 characters is refused, with 16,777,215 it is not
			for _, n := range []int{16777215, 16777216} {
				for _, nested := range []bool{false, true} {
					var tmpl ast.ItemNode = ast.NewASCIINodeVariable("v", 0, -1)
					if nested {
						tmpl = ast.NewListNode(ast.NewASCIINodeVariable("v", 0, -1), ast.NewUintNode(1, 7))
					}
					var got ast.ItemNode
					pan, _ := safely(func() { got = tmpl.FillVariables(map[string]interface{}{"v": string(bytes.Repeat([]byte{'z'}, n))}) })
					res := ""
					if n > 16777215 && !pan {
						res = fmt.Sprintf("an ASCII variable filled with %d characters is accepted (encodes to %d bytes)", n, len(got.ToBytes()))
					} else if n <= 16777215 && (pan || len(got.ToBytes()) < n) {
						res = fmt.Sprintf("an ASCII variable filled with %d characters (within the limit) is refused or does not encode", n)
					}
					out = append(out, Case{Detail: fmt.Sprintf("fill ASCII variable with %d characters nested=%v", n, nested), Oracle: res, Nontrivial: true, Tags: []string{"fill-at-limit"}})
				}
			}
			// the longest ASCII item written as SML text: one quoted string of 16,777,214 and of
			// 16,777,215 characters is accepted (3-byte length header), one more is refused
			for _, n := range []int{16777214, 16777215, 16777216} {
				res := ""
				safely(func() {
					text := "S1F1 W H->E\n<A \"" + strings.Repeat("q", n) + "\">\n."
					r := parseSML(text)
					switch {
					case r.panicked:
						res = "panic"
					case n <= 16777215 && (len(r.errs) != 0 || len(r.msgs) != 1):
						res = fmt.Sprintf("an ASCII item of %d characters written as one quoted string is refused: %v", n, r.errs)
					case n <= 16777215:
						b := completedBytes(r.msgs[0])
						want, _ := unhx(closedFormHeader("ascii", n))
						if len(b) != 14+len(want)+n || !bytes.Equal(b[14:14+len(want)], want) {
							res = fmt.Sprintf("the parsed ASCII item of %d characters encodes to %d bytes", n, len(b))
						}
					case len(r.msgs) != 0 || len(r.errs) == 0:
						res = fmt.Sprintf("an ASCII item of %d characters written as SML text is accepted", n)
					}
				})
				out = append(out, Case{Detail: fmt.Sprintf("SML text with a quoted string of %d characters", n), Oracle: res, Nontrivial: true, Tags: []string{"sml-string-at-limit"}})
			}
			// sizes declared in SML text reach the limit too: a variable declared with a bound in
			// the upper half of the legal range takes values up to that bound and no others
			for _, n := range []int{8388607, 8388608, 9000000, 16777215} {
				for _, decl := range []string{"[%d]", "[1..%d]", "[%d..]"} {
					text := fmt.Sprintf("S1F1 W H->E <A"+decl+" v>.", n)
					out = append(out, Case{Op: smlOp(text), Decisive: true, Nontrivial: true, Tags: []string{"declared-size-near-limit"}}.fields("n err warn str"))
					if n != 9000000 && c.Tier != "thorough" {
						continue
					}
					res := ""
					safely(func() {
						r := parseSML(text)
						if len(r.msgs) != 1 {
							res = fmt.Sprintf("%s is not accepted: %v", text, r.errs)
							return
						}
						fill := func(k int) (ok bool) {
							pan, _ := safely(func() {
								m := r.msgs[0].FillVariables(map[string]interface{}{"v": string(bytes.Repeat([]byte{'q'}, k))})
								ok = len(m.Variables()) == 0
							})
							return ok && !pan
						}
						if !fill(n) {
							res = fmt.Sprintf("%s: a value of %d characters is refused", text, n)
						} else if decl != "[1..%d]" && fill(n-1) {
							res = fmt.Sprintf("%s: a value of %d characters is accepted", text, n-1)
						} else if decl != "[%d..]" && fill(n+1) {
							res = fmt.Sprintf("%s: a value of %d characters is accepted", text, n+1)
						}
					})
					out = append(out, Case{Detail: "fill at the declared bound: " + text, Oracle: res, Nontrivial: true, Tags: []string{"declared-size-filled"}})
				}
			}
			// the largest constructible item of the wide numeric formats, and one element more
			widths := []int{8, 4}
			if c.Tier == "thorough" {
				widths = []int{8, 4, 2, 1}
			}
			for _, w := range widths {
				for _, kind := range []string{"int", "uint", "float"} {
					if kind == "float" && w < 4 {
						continue
					}
					max := 16777215 / w
					for _, cnt := range []int{max/2 + 1, max, max + 1} {
						args := make([]interface{}, cnt)
						for i := range args {
							switch kind {
							case "int":
								args[i] = int8(i)
							case "uint":
								args[i] = uint8(i)
							default:
								args[i] = float32(1.5)
							}
						}
						var it ast.ItemNode
						p, _ := safely(func() {
							switch kind {
							case "int":
								it = ast.NewIntNode(w, args...)
							case "uint":
								it = ast.NewUintNode(w, args...)
							default:
								it = ast.NewFloatNode(w, args...)
							}
						})
						res := ""
						if cnt <= max {
							if p {
								res = fmt.Sprintf("%s item of width %d with %d values (%d bytes, within the limit) cannot be constructed", kind, w, cnt, cnt*w)
							} else {
								b := it.ToBytes()
								want, _ := unhx(closedFormHeader(map[string]string{"int": "i", "uint": "u", "float": "f"}[kind]+fmt.Sprint(w), cnt))
								if len(b) != len(want)+cnt*w || !bytes.HasPrefix(b, want) {
									res = fmt.Sprintf("%s item of width %d with %d values: wrong header/length", kind, w, cnt)
								}
							}
						} else if !p {
							res = fmt.Sprintf("%s item of width %d with %d values exceeds the limit but was constructed", kind, w, cnt)
						}
						out = append(out, Case{Detail: fmt.Sprintf("max-size %s width %d count %d", kind, w, cnt), Oracle: res, Nontrivial: true, Tags: []string{"real-item-max"}})
					}
				}
			}
			// one element beyond the limit must be refused by every factory (16,777,216 one-byte
			// elements; the wide formats are covered above)
			over := make([]interface{}, 16777216)
			fillWith := func(v interface{}) []interface{} {
				for i := range over {
					over[i] = v
				}
				return over
			}
			one := ast.NewBinaryNode(1)
			for _, f := range []struct {
				name string
				mk   func() ast.ItemNode
			}{
				{"ascii 16777216", func() ast.ItemNode { return ast.NewASCIINode(string(make([]byte, 16777216))) }},
				{"boolean 16777216", func() ast.ItemNode { return ast.NewBooleanNode(fillWith(true)...) }},
				{"binary 16777216", func() ast.ItemNode { return ast.NewBinaryNode(fillWith(7)...) }},
				{"i1 16777216", func() ast.ItemNode { return ast.NewIntNode(1, fillWith(int8(-1))...) }},
				{"u1 16777216", func() ast.ItemNode { return ast.NewUintNode(1, fillWith(uint8(1))...) }},
				{"i2 8388608", func() ast.ItemNode { return ast.NewIntNode(2, fillWith(int16(-1))[:8388608]...) }},
				{"u2 8388608", func() ast.ItemNode { return ast.NewUintNode(2, fillWith(uint16(1))[:8388608]...) }},
				{"list 16777216", func() ast.ItemNode { return ast.NewListNode(fillWith(one)...) }},
			} {
				var it ast.ItemNode
				p, _ := safely(func() { it = f.mk() })
				res := ""
				if !p {
					res = fmt.Sprintf("item beyond the 16,777,215 limit was constructed: %s (encodes to %d bytes)", f.name, len(it.ToBytes()))
				}
				out = append(out, Case{Detail: "over-limit " + f.name, Oracle: res, Nontrivial: true, Tags: []string{"over-limit"}})
			}
			over = nil
			return out
		}},
	}
}

// ---------- C14: control messages ----------

func suiteC14(c *Ctx) []Suite {
	sys := func(r *rand.Rand) []byte {
		if r.Intn(12) == 0 {
			return [][]byte{{}, {1}, {1, 2, 3}, {1, 2, 3, 4, 5}}[r.Intn(4)]
		}
		if r.Intn(4) == 0 {
			return [][]byte{{0, 0, 0, 0}, {255, 255, 255, 255}, {0, 0, 0, 1}, {128, 0, 0, 0}}[r.Intn(4)]
		}
		return []byte{byte(r.Intn(256)), byte(r.Intn(256)), byte(r.Intn(256)), byte(r.Intn(256))}
	}
	return []Suite{
		{Name: "ctrl/type-all-ptype-stype", Gen: func(c *Ctx) []Case {
			var out []Case
			for pt := 0; pt < 256; pt++ {
				for st := 0; st < 256; st++ {
					if c.Tier != "thorough" && !(pt < 3 || pt == 255 || st < 12 || st == 255 || (pt*256+st)%37 == 0) {
						continue
					}
					h := []byte{byte(c.R.Intn(256)), byte(c.R.Intn(256)), byte(c.R.Intn(256)), byte(c.R.Intn(256)), byte(pt), byte(st), 1, 2, 3, 4}
					out = append(out, Case{Op: "ctrl raw " + hx(h), Decisive: true, Nontrivial: true, Tags: []string{"ptype-stype"}})
					out = append(out, Case{Op: "dec " + hx(append([]byte{0, 0, 0, 10}, h...)), Decisive: true, Nontrivial: true, Tags: []string{"dec-ctrl"}}.fields(decKeys))
				}
			}
			return out
		}},
		{Name: "ctrl/constructors", Gen: func(c *Ctx) []Case {
			var out []Case
			add := func(op string) {
				out = append(out, Case{Op: "ctrl " + op, Decisive: true, Nontrivial: true, Tags: []string{"ctor:" + strings.Fields(op)[0]}})
			}
			nSid := 400
			if c.Tier == "thorough" {
				nSid = 65536
			}
			for i := 0; i < nSid; i++ {
				sid := i
				if c.Tier != "thorough" {
					sid = pick(c.R, 0, 1, 255, 256, 65535, 32768, c.R.Intn(65536))
				}
				switch i % 4 {
				case 0:
					add(fmt.Sprintf("selectreq %d %s", sid, hx(sys(c.R))))
				case 1:
					add(fmt.Sprintf("deselectreq %d %s", sid, hx(sys(c.R))))
				case 2:
					add(fmt.Sprintf("separatereq %d %s", sid, hx(sys(c.R))))
				case 3:
					add(fmt.Sprintf("rejectreq %d %d %d %s %d", sid, c.R.Intn(256), c.R.Intn(256), hx(sys(c.R)), pick(c.R, 0, 1, 2, 3, 4, c.R.Intn(256))))
				}
			}
			for i := 0; i < 60; i++ {
				add("linktestreq " + hx(sys(c.R)))
			}
			// responses: every status code, against requests of the right and of every wrong kind
			for code := 0; code < 256; code++ {
				for _, st := range []int{1, 3, 5} {
					h := []byte{byte(c.R.Intn(256)), byte(c.R.Intn(256)), byte(c.R.Intn(256)), byte(c.R.Intn(256)), 0, byte(st), byte(c.R.Intn(256)), byte(c.R.Intn(256)), byte(c.R.Intn(256)), byte(c.R.Intn(256))}
					if code%16 == 0 {
						h[4] = byte(c.R.Intn(3))
						h[5] = byte(c.R.Intn(11))
					}
					add(fmt.Sprintf("selectrsp %s %d", hx(h), code))
					add(fmt.Sprintf("deselectrsp %s %d", hx(h), code))
					if code%8 == 0 {
						add("linktestrsp " + hx(h))
					}
				}
			}
			// raw headers of every length 0..12
			for n := 0; n <= 12; n++ {
				h := make([]byte, n)
				c.R.Read(h)
				add("raw " + hx(h))
			}
			return out
		}},
		{Name: "ctrl/request-reuse", Gen: func(c *Ctx) []Case {
			// one request answered twice, then read again: responses must not disturb the request
			var out []Case
			for i := 0; i < c.N(300); i++ {
				h := make([]byte, 10)
				c.R.Read(h)
				h[4] = 0
				h[5] = byte(pick(c.R, 1, 3, 5))
				kind := map[byte]string{1: "selectrsp", 3: "deselectrsp", 5: "linktestrsp"}[h[5]]
				out = append(out, Case{Op: fmt.Sprintf("ctrl twice %s %s %d %d", kind, hx(h), c.R.Intn(256), c.R.Intn(256)), Decisive: true, Nontrivial: true, Tags: []string{"ctrl-twice"}})
			}
			return out
		}},
		{Name: "ctrl/header-only-grid", Gen: func(c *Ctx) []Case { return decCases(headerOnlyGrid(c.R), "header-grid") }},
		{Name: "ctrl/roundtrip-grid", Gen: func(c *Ctx) []Case {
			// every defined SType x every value of header byte 3 x boundary values of byte 2:
			// constructed from the raw header and, for reject.req, from the typed constructor
			var out []Case
			for _, st := range []int{1, 2, 3, 4, 5, 6, 7, 9} {
				for b3 := 0; b3 < 256; b3++ {
					for _, b2 := range []int{0, 1, 2, 7, 0x80, 0xff, c.R.Intn(256)} {
						h := []byte{byte(c.R.Intn(256)), byte(c.R.Intn(256)), byte(b2), byte(b3), 0, byte(st), byte(c.R.Intn(256)), 2, 3, 4}
						// the session id at its ends and at random (a header that begins 00 00 00 0A
						// looks like a length field)
						switch c.R.Intn(4) {
						case 0:
							h[0], h[1] = 0, 0
						case 1:
							h[0], h[1] = 0xff, 0xff
						}
						if b2 == 0 && (b3 == 10 || b3 == 14) {
							h[0], h[1] = 0, 0
						}
						var res string
						safely(func() {
							m := ast.NewHSMSControlMessage(h)
							enc := m.ToBytes()
							if !bytes.Equal(enc, append([]byte{0, 0, 0, 10}, h...)) {
								res = fmt.Sprintf("control message from header % x encodes to % x", h, enc)
								return
							}
							m2, ok := hsms.Parse(enc)
							if !ok {
								res = fmt.Sprintf("decoding the control message % x fails", enc)
							} else if !bytes.Equal(m2.ToBytes(), enc) || m2.Type() != m.Type() {
								res = fmt.Sprintf("control message % x decodes to %s % x", enc, m2.Type(), m2.ToBytes())
							}
						})
						out = append(out, Case{Detail: "ctrl round trip " + hx(h), Oracle: res, Nontrivial: true, Tags: []string{"ctrl-roundtrip-grid"}})
					}
				}
			}
			for reason := 0; reason < 256; reason++ {
				for _, ps := range [][2]int{{0, 0}, {1, 0}, {0, 1}, {1, 9}, {255, 7}, {c.R.Intn(256), c.R.Intn(256)}} {
					sid := pick(c.R, 0, 0, 65535, c.R.Intn(65536), c.R.Intn(65536))
					var res string
					safely(func() {
						m := ast.NewHSMSMessageRejectReq(uint16(sid), byte(ps[0]), byte(ps[1]), []byte{5, 6, 7, 8}, byte(reason))
						enc := m.ToBytes()
						m2, ok := hsms.Parse(enc)
						if !ok {
							res = fmt.Sprintf("decoding reject.req % x fails", enc)
						} else if !bytes.Equal(m2.ToBytes(), enc) || m2.Type() != m.Type() {
							res = fmt.Sprintf("reject.req % x decodes to %s % x", enc, m2.Type(), m2.ToBytes())
						}
					})
					out = append(out, Case{Detail: fmt.Sprintf("reject.req round trip ptype=%d stype=%d reason=%d", ps[0], ps[1], reason), Oracle: res, Nontrivial: true, Tags: []string{"reject-roundtrip-grid"}})
					out = append(out, Case{Op: fmt.Sprintf("ctrl rejectreq %d %d %d %s %d", sid, ps[0], ps[1], "05060708", reason), Decisive: true, Nontrivial: true, Tags: []string{"ctor:rejectreq-grid"}})
				}
			}
			return out
		}},
		{Name: "ctrl/roundtrip", Gen: func(c *Ctx) []Case {
			var out []Case
			for i := 0; i < c.N(600); i++ {
				h := make([]byte, 10)
				c.R.Read(h)
				h[4] = 0
				h[5] = byte(pick(c.R, 1, 2, 3, 4, 5, 6, 7, 9))
				var res string
				safely(func() {
					m := ast.NewHSMSControlMessage(h)
					m2, ok := hsms.Parse(m.ToBytes())
					if !ok {
						res = "decoding a control message with a defined SType fails"
					} else if !bytes.Equal(m2.ToBytes(), m.ToBytes()) || m2.Type() != m.Type() {
						res = "decoded control message differs"
					}
				})
				out = append(out, Case{Detail: "ctrl round trip " + hx(h), Oracle: res, Nontrivial: true, Tags: []string{"ctrl-roundtrip"}})
			}
			return out
		}},
	}
}

// sharedSubItems: trees in which ONE item object occurs at several places (a caller may build a
// sub-list once and put it into a list twice, or fill two variables with the same item): items
// are immutable values, so the tree encodes, prints and lists exactly like the tree built from
// separate equal objects - which is what the model computes for the operation line.
func sharedSubItems(c *Ctx, n int) []Case {
	var out []Case
	for i := 0; i < n; i++ {
		sub := genItem(c.R, GenOpt{MaxDepth: 2, MaxSlots: 4})
		if i%2 == 0 {
			sub = &Node{Kind: "L", Slots: []Slot{{Child: genItem(c.R, GenOpt{MaxDepth: 2, MaxSlots: 3})}, {Child: &Node{Kind: "A", Str: []byte("st")}}}}
		}
		other := genItem(c.R, GenOpt{MaxDepth: 1, MaxSlots: 3})
		if !sub.Closed() || !other.Closed() {
			continue
		}
		var tree *Node
		var build func(s, o ast.ItemNode) ast.ItemNode
		switch i % 3 {
		case 0: // the same object twice in one list
			tree = &Node{Kind: "L", Slots: []Slot{{Child: sub}, {Child: other}, {Child: sub}}}
			build = func(s, o ast.ItemNode) ast.ItemNode { return ast.NewListNode(s, o, s) }
		case 1: // at different depths
			tree = &Node{Kind: "L", Slots: []Slot{{Child: sub}, {Child: &Node{Kind: "L", Slots: []Slot{{Child: other}, {Child: sub}}}}}}
			build = func(s, o ast.ItemNode) ast.ItemNode { return ast.NewListNode(s, ast.NewListNode(o, s)) }
		default: // two variables filled with the same item
			tree = &Node{Kind: "L", Slots: []Slot{{Child: sub}, {Child: other}, {Child: sub}}}
			build = func(s, o ast.ItemNode) ast.ItemNode {
				return ast.NewListNode("p", o, "q").FillVariables(map[string]interface{}{"p": s, "q": s})
			}
		}
		impl := "PANIC"
		safely(func() {
			s := sub.Build()
			impl = showItem(build(s, other.Build()))
		})
		out = append(out, Case{Op: "item " + tree.Proto(), Impl: impl, Decisive: true, Nontrivial: true, Tags: []string{fmt.Sprintf("shared:%d", i%3)}}.fields("bytes str vars size"))
	}
	return out
}
