package main

import (
	"bufio"
	"fmt"
	"io"
	"os"
	"os/exec"
)

// Driver is a persistent model-driver process (the compiled Lean executable).
type Driver struct {
	cmd *exec.Cmd
	in  *bufio.Writer
	wc  io.WriteCloser
	out *bufio.Reader
	N   int // operations evaluated
}

func driverPath() string {
	if p := os.Getenv("SECS_DRIVER"); p != "" {
		return p
	}
	return "/verif/lean/.lake/build/bin/secsdriver"
}

func StartDriver() (*Driver, error) {
	cmd := exec.Command(driverPath())
	wc, err := cmd.StdinPipe()
	if err != nil {
		return nil, err
	}
	rc, err := cmd.StdoutPipe()
	if err != nil {
		return nil, err
	}
	cmd.Stderr = os.Stderr
	if err := cmd.Start(); err != nil {
		return nil, err
	}
	return &Driver{cmd: cmd, in: bufio.NewWriterSize(wc, 1<<20), wc: wc, out: bufio.NewReaderSize(rc, 1<<20)}, nil
}

// Query sends the operations and returns one result line per operation. Writing happens in
// a separate goroutine so that neither pipe can fill up while the other side is blocked.
func (d *Driver) Query(ops []string) ([]string, error) {
	res := make([]string, 0, len(ops))
	werr := make(chan error, 1)
	go func() {
		for _, op := range ops {
			d.in.WriteString(op)
			d.in.WriteByte('\n')
		}
		d.in.WriteString("#flush\n")
		werr <- d.in.Flush()
	}()
	for range ops {
		line, err := d.out.ReadString('\n')
		if err != nil {
			return nil, fmt.Errorf("driver died after %d results: %v", len(res), err)
		}
		res = append(res, line[:len(line)-1])
	}
	if err := <-werr; err != nil {
		return nil, err
	}
	d.N += len(ops)
	return res, nil
}

func (d *Driver) One(op string) string {
	r, err := d.Query([]string{op})
	if err != nil {
		return "DRIVER-ERROR " + err.Error()
	}
	return r[0]
}

func (d *Driver) Close() {
	d.wc.Close()
	d.cmd.Wait()
}
