package main

import (
	"os"
	"encoding/hex"
	"fmt"
	"math"
	"strconv"
	"strings"

	"github.com/wolimst/lib-secs2-hsms-go/pkg/ast"
	"github.com/wolimst/lib-secs2-hsms-go/pkg/parser/hsms"
)

// The implementation-side interpreter of the line protocol. The Lean driver interprets the
// same lines on the model; results are compared textually.

type toks struct {
	t []string
	i int
	// byte slices handed to the code under test: the caller still owns them and overwrites
	// them after the call (scribble), as a caller reusing its buffers would
	given [][]byte
}

// scribble overwrites every byte slice that was passed to the code under test.
func (p *toks) scribble() {
	for _, b := range p.given {
		b = b[:cap(b)]
		for i := range b {
			b[i] ^= 0xA5
		}
	}
	p.given = nil
}

func (p *toks) next() (string, bool) {
	if p.i >= len(p.t) {
		return "", false
	}
	p.i++
	return p.t[p.i-1], true
}

func (p *toks) peek() string {
	if p.i >= len(p.t) {
		return ""
	}
	return p.t[p.i]
}

func unhx(s string) ([]byte, bool) {
	if s == "-" {
		return []byte{}, true
	}
	b, err := hex.DecodeString(s)
	return b, err == nil
}

type badOp struct{ msg string }

func bad(f string, a ...interface{}) { panic(badOp{fmt.Sprintf(f, a...)}) }

func (p *toks) nat() int {
	t, ok := p.next()
	if !ok {
		bad("expected number")
	}
	n, err := strconv.Atoi(t)
	if err != nil {
		bad("bad number %q", t)
	}
	return n
}

func (p *toks) hexb() []byte {
	t, ok := p.next()
	if !ok {
		bad("expected hex")
	}
	b, ok := unhx(t)
	if !ok {
		bad("bad hex %q", t)
	}
	return b
}

// hexbGiven: a byte slice that is handed to the code under test and overwritten afterwards
func (p *toks) hexbGiven() []byte {
	h := p.hexb()
	// as a caller's slice often is: the front of a larger buffer whose other bytes are not the
	// argument (a reslice beyond the length would pick them up)
	buf := make([]byte, len(h)+8)
	for i := range buf {
		buf[i] = 0xC3 ^ byte(i*29)
	}
	copy(buf, h)
	b := buf[:len(h)]
	p.given = append(p.given, b)
	return b
}

func varTok(t string) (string, bool) {
	if strings.HasPrefix(t, "$") {
		b, err := hex.DecodeString(t[1:])
		if err == nil {
			return string(b), true
		}
	}
	return "", false
}

func (p *toks) node() *Node {
	t, ok := p.next()
	if !ok {
		bad("expected item")
	}
	switch {
	case t == "E":
		return &Node{Kind: "E"}
	case t == "A":
		return &Node{Kind: "A", Str: p.hexb()}
	case t == "AV":
		nt, _ := p.next()
		name, ok := varTok(nt)
		if !ok {
			bad("bad AV name")
		}
		mn := p.nat()
		mx := p.nat()
		return &Node{Kind: "AV", Name: name, Min: mn, Max: mx}
	case t == "L":
		n := p.nat()
		nd := &Node{Kind: "L"}
		for i := 0; i < n; i++ {
			if name, ok := varTok(p.peek()); ok {
				p.next()
				nd.Slots = append(nd.Slots, Slot{IsVar: true, Name: name})
			} else {
				nd.Slots = append(nd.Slots, Slot{Child: p.node()})
			}
		}
		return nd
	}
	kind := t
	w := 0
	if t != "B" && t != "BO" {
		kind = t[:1]
		var err error
		w, err = strconv.Atoi(t[1:])
		if err != nil || (kind != "I" && kind != "U" && kind != "F") {
			bad("bad item type %q", t)
		}
	}
	n := p.nat()
	nd := &Node{Kind: kind, W: w}
	for i := 0; i < n; i++ {
		vt, ok := p.next()
		if !ok {
			bad("missing slot")
		}
		if name, ok := varTok(vt); ok {
			nd.Slots = append(nd.Slots, Slot{IsVar: true, Name: name})
			continue
		}
		var s Slot
		var err error
		switch kind {
		case "B", "I":
			s.I, err = strconv.ParseInt(vt, 10, 64)
		case "U":
			s.U, err = strconv.ParseUint(vt, 10, 64)
		case "F":
			s.Bits, err = strconv.ParseUint(vt, 10, 64)
		case "BO":
			s.B = vt == "1"
		}
		if err != nil {
			bad("bad slot value %q", vt)
		}
		nd.Slots = append(nd.Slots, s)
	}
	return nd
}

// goVal parses a typed Go argument.
func (p *toks) goVal() interface{} {
	t, ok := p.next()
	if !ok {
		bad("expected go value")
	}
	if t == "t" {
		return p.node().Build()
	}
	if t == "x" {
		return struct{}{}
	}
	parts := strings.Split(t, ":")
	switch parts[0] {
	case "i":
		v, _ := strconv.ParseInt(parts[2], 10, 64)
		switch parts[1] {
		case "0":
			return int(v)
		case "8":
			return int8(v)
		case "16":
			return int16(v)
		case "32":
			return int32(v)
		case "64":
			return int64(v)
		}
	case "u":
		v, _ := strconv.ParseUint(parts[2], 10, 64)
		switch parts[1] {
		case "0":
			return uint(v)
		case "8":
			return uint8(v)
		case "16":
			return uint16(v)
		case "32":
			return uint32(v)
		case "64":
			return uint64(v)
		}
	case "f32":
		v, _ := strconv.ParseUint(parts[1], 10, 32)
		return math.Float32frombits(uint32(v))
	case "f64":
		v, _ := strconv.ParseUint(parts[1], 10, 64)
		return math.Float64frombits(v)
	case "s":
		b, _ := unhx(parts[1])
		return string(b)
	case "b":
		return parts[1] == "1"
	}
	bad("bad go value %q", t)
	return nil
}

func (p *toks) goVals(n int) []interface{} {
	out := make([]interface{}, n)
	for i := range out {
		out[i] = p.goVal()
	}
	return out
}

func implCtor(p *toks) string {
	k, _ := p.next()
	var it ast.ItemNode
	switch k {
	case "int":
		w := p.nat()
		it = ast.NewIntNode(w, p.goVals(p.nat())...)
	case "uint":
		w := p.nat()
		it = ast.NewUintNode(w, p.goVals(p.nat())...)
	case "float":
		w := p.nat()
		it = ast.NewFloatNode(w, p.goVals(p.nat())...)
	case "binary":
		it = ast.NewBinaryNode(p.goVals(p.nat())...)
	case "boolean":
		it = ast.NewBooleanNode(p.goVals(p.nat())...)
	case "list":
		it = ast.NewListNode(p.goVals(p.nat())...)
	case "ascii":
		it = ast.NewASCIINode(string(p.hexb()))
	case "asciivar":
		nm := p.hexb()
		mn := p.nat()
		mx := p.nat()
		it = ast.NewASCIINodeVariable(string(nm), mn, mx)
	default:
		bad("bad ctor %q", k)
	}
	return showItem(it)
}

func splitSteps(t []string) [][]string {
	var out [][]string
	cur := []string{}
	for _, x := range t {
		if x == "|" {
			out = append(out, cur)
			cur = []string{}
		} else {
			cur = append(cur, x)
		}
	}
	return append(out, cur)
}

// implStep runs one step of a message program; a panic leaves the current message unchanged.
func implStep(cur *ast.DataMessage, step []string) (next *ast.DataMessage, out string) {
	next = cur
	p := &toks{t: step}
	op, _ := p.next()
	argmut := false
	defer func() {
		if argmut {
			out += " ARGMUT" // a producer wrote to the caller's fill-in table
		}
	}()
	pan, r := safely(func() {
		switch op {
		case "new":
			nm := p.hexb()
			s, f, w := p.nat(), p.nat(), p.nat()
			dir := p.hexb()
			item := p.node().Build()
			next = ast.NewDataMessage(string(nm), s, f, w, string(dir), item)
		case "newh":
			nm := p.hexb()
			s, f, w := p.nat(), p.nat(), p.nat()
			dir := p.hexb()
			sid := p.nat()
			sys := p.hexbGiven()
			item := p.node().Build()
			next = ast.NewHSMSDataMessage(string(nm), s, f, w, string(dir), item, sid, sys)
		case "wait":
			if cur == nil {
				out = "NOMSG"
				return
			}
			next = cur.SetWaitBit(p.peek() == "1")
		case "fill":
			if cur == nil {
				out = "NOMSG"
				return
			}
			env := p.env()
			before := envSnapshot(env)
			defer func() {
				if envSnapshot(env) != before {
					argmut = true
				}
			}()
			next = cur.FillVariables(env)
		case "sess":
			if cur == nil {
				out = "NOMSG"
				return
			}
			sid := p.nat()
			sys := p.hexbGiven()
			next = cur.SetSessionIDAndSystemBytes(sid, sys)
		default:
			bad("bad step %q", op)
		}
		p.scribble()
		if out == "" {
			out = showMsg(next)
		}
	})
	if pan {
		if b, ok := r.(badOp); ok {
			panic(b)
		}
		return cur, "PANIC"
	}
	return next, out
}

func implProg(t []string) string {
	var cur *ast.DataMessage
	outs := []string{}
	// every message the program produced is read again after every later step: a producer must not
	// change the message it was called on, nor any earlier one (encodings kept inside included)
	type seen struct {
		m    *ast.DataMessage
		show string
	}
	var earlier []seen
	for _, st := range splitSteps(t) {
		var o string
		prev := cur
		cur, o = implStep(cur, st)
		changed := false
		for _, e := range earlier {
			now := ""
			if pan, _ := safely(func() { now = showMsg(e.m) }); pan || now != e.show {
				changed = true
			}
		}
		if changed {
			o += " EARLIER-MESSAGE-CHANGED"
		}
		if cur != nil && cur != prev && o != "PANIC" && !strings.HasPrefix(o, "NOMSG") {
			earlier = append(earlier, seen{cur, strings.TrimSuffix(o, " ARGMUT")})
		}
		outs = append(outs, o)
	}
	return strings.Join(outs, " | ")
}

func showCtrl(m ast.HSMSMessage) string {
	return fmt.Sprintf("type=%s bytes=%s", hxs(m.Type()), hx(keep(encTwice(m.ToBytes)))) + earlierResults()
}

func implDec(b []byte) string {
	var res string
	// the input is handed over as a slice with spare capacity holding other bytes (as a reused
	// receive buffer would): the decoder must not read beyond len(b)
	buf := make([]byte, len(b), len(b)+48)
	copy(buf, b)
	spare := buf[len(b):cap(buf)]
	for i := range spare {
		spare[i] = byte(0x41 + i%7)
	}
	b = buf
	pan, _ := safely(func() {
		m, ok := hsms.Parse(b)
		if !ok {
			res = "fail"
			return
		}
		// the receive buffer is reused by its owner: the decoded message must not depend on it
		for i := range b {
			b[i] ^= 0xA5
		}
		switch mm := m.(type) {
		case *ast.DataMessage:
			res = "data " + showMsg(mm)
		case *ast.ControlMessage:
			res = "ctrl " + showCtrl(mm)
		default:
			res = "unknown-type"
		}
	})
	if pan {
		return "ESCAPED-PANIC"
	}
	return res
}

func implCtrl(p *toks) string {
	// the caller's slices are overwritten after the constructor returns, before anything is read
	show := func(m ast.HSMSMessage) string { p.scribble(); return showCtrl(m) }
	k, _ := p.next()
	switch k {
	case "raw":
		return show(ast.NewHSMSControlMessage(p.hexbGiven()))
	case "selectreq":
		sid := p.nat()
		return show(ast.NewHSMSMessageSelectReq(uint16(sid), p.hexbGiven()))
	case "deselectreq":
		sid := p.nat()
		return show(ast.NewHSMSMessageDeselectReq(uint16(sid), p.hexbGiven()))
	case "linktestreq":
		return show(ast.NewHSMSMessageLinktestReq(p.hexbGiven()))
	case "separatereq":
		sid := p.nat()
		return show(ast.NewHSMSMessageSeparateReq(uint16(sid), p.hexbGiven()))
	case "rejectreq":
		sid, pt, st := p.nat(), p.nat(), p.nat()
		sys := p.hexbGiven()
		rc := p.nat()
		return show(ast.NewHSMSMessageRejectReq(uint16(sid), byte(pt), byte(st), sys, byte(rc)))
	case "twice":
		kind, _ := p.next()
		req := ast.NewHSMSControlMessage(p.hexbGiven())
		c1, c2 := p.nat(), p.nat()
		mk := func(code int) ast.HSMSMessage {
			switch kind {
			case "selectrsp":
				return ast.NewHSMSMessageSelectRsp(req, byte(code))
			case "deselectrsp":
				return ast.NewHSMSMessageDeselectRsp(req, byte(code))
			}
			return ast.NewHSMSMessageLinktestRsp(req)
		}
		m1, m2 := mk(c1), mk(c2)
		p.scribble()
		return showCtrl(m1) + " | " + showCtrl(m2) + " | " + showCtrl(req)
	case "selectrsp":
		req := ast.NewHSMSControlMessage(p.hexbGiven())
		return show(ast.NewHSMSMessageSelectRsp(req, byte(p.nat())))
	case "deselectrsp":
		req := ast.NewHSMSControlMessage(p.hexbGiven())
		return show(ast.NewHSMSMessageDeselectRsp(req, byte(p.nat())))
	case "linktestrsp":
		req := ast.NewHSMSControlMessage(p.hexbGiven())
		return show(ast.NewHSMSMessageLinktestRsp(req))
	}
	bad("bad ctrl op %q", k)
	return ""
}

func numErrKind(err error) string {
	if err == nil {
		return "ok"
	}
	if ne, ok := err.(*strconv.NumError); ok {
		if ne.Err == strconv.ErrRange {
			return "range"
		}
		return "syntax"
	}
	return "other"
}

// implEval interprets one protocol line against the real library. Panics raised by the
// library are PANIC; a malformed line is BADOP.
func implEval(line string) (res string) {
	t := strings.Fields(line)
	if len(t) == 0 {
		return "BADOP"
	}
	recordOp(line)
	defer func() {
		if r := recover(); r != nil {
			if _, ok := r.(badOp); ok {
				res = "BADOP"
				return
			}
			res = "PANIC"
		}
	}()
	p := &toks{t: t[1:]}
	switch t[0] {
	case "item":
		r, _ := implItem(p.node())
		return r
	case "ctor":
		return implCtor(p)
	case "mprog":
		return implProg(t[1:])
	case "fillitem":
		return implFillItem(t[1:])
	case "dec":
		return implDec(p.hexb())
	case "ctrl":
		return implCtrl(p)
	case "hdr":
		f, _ := p.next()
		n := p.nat()
		return implHeader(f, n)
	case "fmtg":
		w := p.nat()
		bt, _ := p.next()
		b, _ := strconv.ParseUint(bt, 10, 64)
		if w == 4 {
			return hxs(strconv.FormatFloat(float64(math.Float32frombits(uint32(b))), 'g', -1, 32))
		}
		return hxs(strconv.FormatFloat(math.Float64frombits(b), 'g', -1, 64))
	case "parsef":
		w := p.nat()
		s := p.hexb()
		v, err := strconv.ParseFloat(string(s), w*8)
		switch numErrKind(err) {
		case "ok":
			if w == 4 {
				return fmt.Sprintf("ok %d", math.Float32bits(float32(v)))
			}
			return fmt.Sprintf("ok %d", math.Float64bits(v))
		case "range":
			return "range"
		}
		return "syntax"
	case "f64to32":
		bt, _ := p.next()
		b, _ := strconv.ParseUint(bt, 10, 64)
		f := float32(math.Float64frombits(b))
		if math.IsInf(float64(f), 0) {
			return "inf"
		}
		return fmt.Sprint(math.Float32bits(f))
	case "ofint":
		vt, _ := p.next()
		v, _ := strconv.ParseInt(vt, 10, 64)
		return fmt.Sprint(math.Float64bits(float64(v)))
	case "parseint":
		s := p.hexb()
		base, bits := p.nat(), p.nat()
		v, err := strconv.ParseInt(string(s), base, bits)
		return fmt.Sprintf("%d %s", v, numErrKind(err))
	case "parseuint":
		s := p.hexb()
		base, bits := p.nat(), p.nat()
		v, err := strconv.ParseUint(string(s), base, bits)
		return fmt.Sprintf("%d %s", v, numErrKind(err))
	}
	if r, ok := implEvalMore(t); ok {
		return r
	}
	return "BADOP"
}

// recordOp keeps the operation line that is being interpreted in a file (SECS_LASTOP, set by
// bin/check): when the library kills the whole process (a Go fatal error - unlock of an unlocked
// mutex, concurrent map writes, stack exhaustion - is not a panic and cannot be recovered),
// bin/check reads the line back and reports it as the failing input.
var lastOpFile *os.File
var lastOpTried bool

func recordOp(line string) {
	if !lastOpTried {
		lastOpTried = true
		if p := os.Getenv("SECS_LASTOP"); p != "" {
			lastOpFile, _ = os.OpenFile(p, os.O_CREATE|os.O_RDWR|os.O_TRUNC, 0o644)
		}
	}
	if lastOpFile == nil {
		return
	}
	if len(line) > 1<<16 {
		line = line[:1<<16]
	}
	lastOpFile.Truncate(0)
	lastOpFile.WriteAt([]byte(line), 0)
}
