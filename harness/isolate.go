package main

import (
	"bufio"
	"encoding/hex"
	"fmt"
	"math/big"
	"os"
	"os/exec"
	"runtime/debug"
	"strings"
	"syscall"
	"time"

	"github.com/wolimst/lib-secs2-hsms-go/pkg/ast"
)

type astMsg = ast.DataMessage

type bigInt = big.Int

var bigOne = big.NewInt(1)

type isoResult struct {
	class string // normal | died | timeout
	show  string
	res   parseResult
}

// smlWorker: reads hex-encoded texts from stdin, one per line; for each prints one line
// "<n msgs>\t<panicked>\t<hex diag>…" after parsing. Runs with an address-space limit so that
// a memory blow-up kills this process and not the harness.
func smlWorker() {
	debug.SetMemoryLimit(1 << 30)
	var lim syscall.Rlimit
	lim.Cur, lim.Max = 6<<30, 6<<30
	syscall.Setrlimit(syscall.RLIMIT_AS, &lim)
	in := bufio.NewReaderSize(os.Stdin, 1<<20)
	out := bufio.NewWriter(os.Stdout)
	for {
		line, err := in.ReadString('\n')
		if err != nil {
			return
		}
		b, _ := hex.DecodeString(strings.TrimSpace(line))
		r := parseSML(string(b))
		// summary without the messages themselves (printing a deeply nested message is cubic)
		sum := r
		sum.msgs = nil
		head := strings.Replace(showParse(sum), "n=0", fmt.Sprintf("n=%d", len(r.msgs)), 1)
		fields := []string{head}
		for _, e := range r.errs {
			fields = append(fields, "E"+hex.EncodeToString([]byte(e)))
		}
		for _, w := range r.warns {
			fields = append(fields, "W"+hex.EncodeToString([]byte(w)))
		}
		fmt.Fprintln(out, strings.Join(fields, "\t"))
		out.Flush()
	}
}

type worker struct {
	cmd *exec.Cmd
	in  *bufio.Writer
	out *bufio.Reader
}

func startWorker() *worker {
	cmd := exec.Command(os.Args[0], "smlworker")
	wc, _ := cmd.StdinPipe()
	rc, _ := cmd.StdoutPipe()
	cmd.Stderr = nil
	if err := cmd.Start(); err != nil {
		return nil
	}
	return &worker{cmd, bufio.NewWriter(wc), bufio.NewReaderSize(rc, 1<<20)}
}

// runIsolated parses every text in a worker process; a crash or a 20 s stall is recorded for
// the text being parsed and the worker is restarted.
func runIsolated(texts []string) []isoResult {
	out := make([]isoResult, len(texts))
	var w *worker
	aborted := 0
	for i, t := range texts {
		if aborted >= 6 {
			// enough violations: the rest is not run (see runDecIsolated)
			out[i] = isoResult{class: "normal", show: "SKIPPED"}
			continue
		}
		if w == nil {
			w = startWorker()
		}
		w.in.WriteString(hex.EncodeToString([]byte(t)) + "\n")
		w.in.Flush()
		type rd struct {
			line string
			err  error
		}
		ch := make(chan rd, 1)
		go func() {
			l, err := w.out.ReadString('\n')
			ch <- rd{l, err}
		}()
		select {
		case r := <-ch:
			if r.err != nil {
				w.cmd.Process.Kill()
				w.cmd.Wait()
				w = nil
				out[i] = isoResult{class: "process died (fatal error, e.g. out of memory)", show: "DIED"}
				aborted++
				continue
			}
			f := strings.Split(strings.TrimRight(r.line, "\n"), "\t")
			res := parseResult{}
			res.panicked = f[0] == "PANIC"
			for _, x := range f[1:] {
				b, _ := hex.DecodeString(x[1:])
				if x[0] == 'E' {
					res.errs = append(res.errs, string(b))
				} else {
					res.warns = append(res.warns, string(b))
				}
			}
			// messages are not shipped back; their count is in the summary (n=)
			var n int
			fmt.Sscanf(f[0], "n=%d", &n)
			res.msgs = make([]*astMsg, n)
			out[i] = isoResult{class: "normal", show: f[0], res: res}
		case <-time.After(20 * time.Second):
			w.cmd.Process.Kill()
			w.cmd.Wait()
			w = nil
			out[i] = isoResult{class: "no result within 20 s (hang)", show: "TIMEOUT"}
			aborted++
		}
	}
	if w != nil {
		w.cmd.Process.Kill()
		w.cmd.Wait()
	}
	return out
}
