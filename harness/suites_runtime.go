package main

import (
	"bufio"
	"context"
	"bytes"
	"encoding/binary"
	"encoding/hex"
	"fmt"
	"math/rand"
	"os"
	"os/exec"
	"runtime"
	"runtime/debug"
	"sort"
	"strings"
	"sync"
	"syscall"
	"time"

	"github.com/wolimst/lib-secs2-hsms-go/pkg/ast"
	"github.com/wolimst/lib-secs2-hsms-go/pkg/parser/hsms"
	"github.com/wolimst/lib-secs2-hsms-go/pkg/parser/sml"
)

// ---------- C07: decoder totality and linear memory ----------

// decWorker: hex input per line -> "<ok|fail|PANIC> <bytes allocated>"
var recvBuf []byte

func decWorker() {
	debug.SetGCPercent(-1)
	var lim syscall.Rlimit
	lim.Cur, lim.Max = 8<<30, 8<<30
	syscall.Setrlimit(syscall.RLIMIT_AS, &lim)
	in := bufio.NewReaderSize(os.Stdin, 1<<24)
	out := bufio.NewWriter(os.Stdout)
	var ms runtime.MemStats
	n := 0
	for {
		line, err := in.ReadString('\n')
		if err != nil {
			return
		}
		raw, _ := hex.DecodeString(strings.TrimSpace(line))
		// the message is the filled part of a large receive buffer: nothing beyond len(b) is
		// the decoder's to read, whatever the capacity says
		if recvBuf == nil {
			recvBuf = make([]byte, 4<<20, 4<<20+(16<<20))
			for i := range recvBuf {
				recvBuf[i] = byte(0x41 + i%23)
			}
		}
		b := raw
		if len(raw) <= 1<<20 {
			copy(recvBuf, raw)
			b = recvBuf[:len(raw)]
		}
		runtime.ReadMemStats(&ms)
		before := ms.TotalAlloc
		res := "fail"
		pan, _ := safely(func() {
			if _, ok := hsms.Parse(b); ok {
				res = "ok"
			}
		})
		runtime.ReadMemStats(&ms)
		if pan {
			res = "PANIC"
		}
		fmt.Fprintf(out, "%s %d\n", res, ms.TotalAlloc-before)
		out.Flush()
		n++
		if n%50 == 0 {
			runtime.GC()
		}
	}
}

type decResult struct {
	class string
	res   string
	alloc uint64
}

func runDecIsolated(inputs [][]byte) []decResult {
	out := make([]decResult, len(inputs))
	var w *worker
	start := func() *worker {
		cmd := exec.Command(os.Args[0], "decworker")
		wc, _ := cmd.StdinPipe()
		rc, _ := cmd.StdoutPipe()
		if err := cmd.Start(); err != nil {
			return nil
		}
		return &worker{cmd, bufio.NewWriterSize(wc, 1<<20), bufio.NewReaderSize(rc, 1<<20)}
	}
	aborted := 0
	for i, b := range inputs {
		if aborted >= 6 {
			// enough: every one of these is a violation; the rest is not run (a decoder that
			// hangs on many inputs would keep the check busy for hours)
			out[i] = decResult{class: "normal", res: "skipped"}
			continue
		}
		if w == nil {
			w = start()
		}
		w.in.WriteString(hex.EncodeToString(b) + "\n")
		w.in.Flush()
		type rd struct {
			line string
			err  error
		}
		ch := make(chan rd, 1)
		go func() {
			l, err := w.out.ReadString('\n')
			ch <- rd{l, err}
		}()
		select {
		case r := <-ch:
			if r.err != nil {
				w.cmd.Process.Kill()
				w.cmd.Wait()
				w = nil
				out[i] = decResult{class: "process died (fatal error, e.g. out of memory)"}
				aborted++
				continue
			}
			var dr decResult
			dr.class = "normal"
			fmt.Sscanf(r.line, "%s %d", &dr.res, &dr.alloc)
			out[i] = dr
		case <-time.After(30 * time.Second):
			w.cmd.Process.Kill()
			w.cmd.Wait()
			w = nil
			out[i] = decResult{class: "no result within 30 s"}
			aborted++
		}
	}
	if w != nil {
		w.cmd.Process.Kill()
		w.cmd.Wait()
	}
	return out
}

// the linear bound checked on the real decoder: bytes allocated <= allocPerByte*len + allocBase
// (measured on the repaired tree over several seeds and the thorough tier: at most 324 B per input byte,
// reached by valid messages made of many two-byte items; see DESIGN 6.7)
const allocPerByte = 1024
const allocBase = 1 << 16

// stackProbeDepth: nesting depth of the input that probes the decoder's recursion (KNOWN_FINDINGS
// D14: the goroutine stack limit of 1 GB is reached between 3 and 4 million levels)
const stackProbeDepth = 4200000

func hostileDecInputs(r *rand.Rand, n int, thorough bool) ([][]byte, []string) {
	var ins [][]byte
	var tags []string
	add := func(b []byte, tag string) { ins = append(ins, b); tags = append(tags, tag) }
	codes := []byte{0o00, 0o10, 0o11, 0o20, 0o30, 0o31, 0o32, 0o34, 0o40, 0o44, 0o50, 0o51, 0o52, 0o54}
	hdr := func(text []byte) []byte { return frame(1, 1, 1, 1, []byte{0, 0, 0, 1}, text) }
	// short inputs declaring huge lengths, at every nesting depth
	lens := [][]byte{{0xFF}, {0xFF, 0xFF}, {0xFF, 0xFF, 0xFF}, {0x01, 0x00}, {0x08, 0x00, 0x00}, {0x00, 0x00, 0xFF}, {0x7F, 0xFF, 0xFF}}
	depths := []int{0, 1, 2, 5, 20, 100}
	if thorough {
		depths = append(depths, 400, 1000)
	}
	for _, code := range codes {
		for _, lb := range lens {
			for _, depth := range depths {
				var text []byte
				for d := 0; d < depth; d++ {
					text = append(text, 0x01, 0x01) // list of one element
				}
				text = append(text, code<<2|byte(len(lb)))
				text = append(text, lb...)
				for _, tail := range [][]byte{{}, {1, 2, 3}, bytes.Repeat([]byte{0x41}, 40)} {
					add(hdr(append(append([]byte{}, text...), tail...)), "huge-declared-length")
				}
			}
		}
	}
	// chains of list headers each declaring a huge count
	for _, k := range []int{10, 100, 500, 2000} {
		_ = thorough
		add(hdr(bytes.Repeat([]byte{0x03, 0xFF, 0xFF, 0xFF}, k)), "nested-huge-lists")
		add(hdr(bytes.Repeat([]byte{0x02, 0xFF, 0xFF}, k)), "nested-huge-lists")
		add(hdr(append(bytes.Repeat([]byte{0x01, 0x01}, k), 0x02, 0xFF, 0xFF)), "huge-list-at-end")
		add(hdr(append(bytes.Repeat([]byte{0x01, 0x01}, k), 0x03, 0x08, 0x00, 0x00)), "huge-list-at-end")
	}
	// an element that is refused at once (a format byte announcing no length byte, a length that
	// does not fit the width, a length beyond the input) inside lists that declare huge counts:
	// nothing is set aside for elements that are never read
	for _, bad := range [][]byte{{0x00}, {0x04}, {0xFC}, {0xB1, 0x03, 1, 2, 3}, {0x21, 0x7F}, {0xFD, 0x00}} {
		for _, lh := range [][]byte{{0x02, 0xFF, 0xFF}, {0x03, 0x20, 0x00, 0x00}, {0x01, 0xFF}, {0x03, 0xFF, 0xFF, 0xFF}} {
			add(hdr(append(append([]byte{}, lh...), bad...)), "refused-element-in-huge-list")
			add(hdr(append(bytes.Repeat(lh, 20), bad...)), "refused-element-in-huge-list")
			add(hdr(append(append(append([]byte{}, lh...), 0xA5, 0x01, 0x07), bad...)), "refused-element-in-huge-list")
		}
		// ... and as the innermost item of a deep chain of one-element lists: refusing costs no
		// more than accepting
		for _, d := range []int{500, 2000, 4000} {
			add(hdr(append(bytes.Repeat([]byte{0x01, 0x01}, d), bad...)), "refused-innermost-item")
		}
	}
	// valid messages nested deeply (memory must stay linear in the input whatever the depth)
	deep := []int{500, 2000, 5000}
	if thorough {
		deep = append(deep, 20000)
	}
	for _, d := range deep {
		add(hdr(append(bytes.Repeat([]byte{0x01, 0x01}, d), 0x01, 0x00)), "valid-deep-nesting")
		add(hdr(append(bytes.Repeat([]byte{0x01, 0x01}, d), 0xA5, 0x01, 0x07)), "valid-deep-nesting")
		add(hdr(append(bytes.Repeat([]byte{0x01, 0x02, 0x01, 0x00}, d), 0x01, 0x00, 0x01, 0x00)), "valid-deep-nesting")
	}
	// the same messages under a header the constructor refuses (reply with the wait bit): what
	// is spent on a message before it is refused is bounded like everything else
	reject := func(text []byte) []byte { return frame(1, 1, 2, 1, []byte{0, 0, 0, 1}, text) }
	for _, d := range []int{100, 400, 1500} {
		add(reject(append(bytes.Repeat([]byte{0x01, 0x01}, d), 0x01, 0x00)), "refused-reply-deep-nesting")
		add(reject(append(bytes.Repeat([]byte{0x01, 0x02, 0xA5, 0x01, 0x07}, d), 0x01, 0x00)), "refused-reply-deep-nesting")
	}
	// the same with a leaf item next to every nested list: building a list must not walk (and
	// allocate for) its whole subtree again at every level
	leaves := [][]byte{{0xA5, 0x01, 0x07}, {0x25, 0x01, 0x01}, {0x69, 0x02, 0x00, 0x07}, {0x91, 0x04, 0x3F, 0x80, 0, 0}, {0x21, 0x01, 0xFF}, {0x41, 0x01, 0x41}, {0xA5, 0x00}}
	leafDepths := []int{250, 1000, 2500}
	if thorough {
		leafDepths = append(leafDepths, 6000, 12000)
	}
	for _, d := range leafDepths {
		for _, leaf := range leaves {
			var t []byte
			for i := 0; i < d; i++ {
				if i%2 == 0 || len(leaf) == 2 { // leaf before the nested list, or after it
					t = append(append(t, 0x01, 0x02), leaf...)
				} else {
					t = append(t, 0x01, 0x02)
				}
			}
			t = append(t, 0x01, 0x00)
			for i := d - 1; i >= 0; i-- {
				if !(i%2 == 0 || len(leaf) == 2) {
					t = append(t, leaf...)
				}
			}
			add(hdr(t), "valid-deep-with-leaves")
		}
	}
	// wide lists: building a list must not copy what it already holds for every element
	for _, n := range []int{300, 3000, 20000} {
		t := []byte{0x02, byte(n >> 8), byte(n)}
		for i := 0; i < n; i++ {
			t = append(t, 0xA5, 0x01, byte(i))
		}
		add(hdr(t), "valid-wide-list")
		add(hdr(append(append([]byte{}, t[:3]...), t[3:3+3*(n/2)]...)), "wide-list-declaring-more-than-it-holds")
	}
	// recursive descent: one stack frame per nesting level (truncated, so nothing is built);
	// a quarter of the depth that exhausts the stack has to be handled
	add(hdr(bytes.Repeat([]byte{0x01, 0x01}, stackProbeDepth/4)), "stack-depth-survivable")
	add(hdr(bytes.Repeat([]byte{0x01, 0x01}, stackProbeDepth)), "stack-depth-probe")
	// refused floats (NaN, infinities) and then valid float messages: a refusal must leave no
	// state behind that the next call trips over
	for _, f := range [][]byte{{0x91, 0x04, 0x7F, 0xC0, 0x00, 0x00}, {0x91, 0x04, 0x7F, 0x80, 0x00, 0x00}, {0x81, 0x08, 0xFF, 0xF0, 0, 0, 0, 0, 0, 0},
		{0x81, 0x08, 0x7F, 0xF8, 0, 0, 0, 0, 0, 1}, {0x01, 0x02, 0x91, 0x04, 0x3F, 0x80, 0, 0, 0x91, 0x04, 0xFF, 0x80, 0, 0}} {
		add(hdr(f), "non-finite-float")
		add(hdr([]byte{0x91, 0x04, 0x3F, 0x80, 0x00, 0x00}), "float-after-refusal")
		add(hdr([]byte{0x81, 0x08, 0x3F, 0xF0, 0, 0, 0, 0, 0, 0}), "float-after-refusal")
		add(hdr([]byte{0x01, 0x02, 0x69, 0x02, 0x00, 0x07, 0xB1, 0x04, 0, 0, 0, 9}), "ints-after-refusal")
	}
	// header-only messages of every type, every format byte, every byte value in an ASCII item
	for _, b := range headerOnlyGrid(r) {
		add(b, "header-grid")
	}
	for _, b := range formatByteSweep(r) {
		add(b, "format-byte")
	}
	for _, b := range asciiEveryByte() {
		add(b, "ascii-byte")
	}
	// long strings and truncations of valid messages, random bytes
	for i := 0; i < n; i++ {
		item := genItem(r, GenOpt{MaxDepth: 4, MaxSlots: 6, Big: true})
		m := completeMsgDesc(r, item)
		base := frame(m.Sid, m.S, m.F, m.W, m.Sys, encodeVariant(item, r))
		add(base, "valid")
		b, kind := mutateBytes(r, base)
		add(b, "mut:"+kind)
		rb := make([]byte, r.Intn(64))
		r.Read(rb)
		if len(rb) >= 4 {
			binary.BigEndian.PutUint32(rb, uint32(len(rb)-4))
		}
		add(rb, "random")
	}
	for _, n := range []int{1000, 65536, 1 << 20} {
		add(hdr(append([]byte{0x43, byte(n >> 16), byte(n >> 8), byte(n)}, bytes.Repeat([]byte{'a'}, n)...)), "long-string")
		add(hdr(append([]byte{0x43, byte(n >> 16), byte(n >> 8), byte(n)}, bytes.Repeat([]byte{'a'}, n-1)...)), "long-string-truncated")
	}
	return ins, tags
}

func suiteC07(c *Ctx) []Suite {
	return []Suite{
		{Name: "decode/hostile-isolated", Gen: func(c *Ctx) []Case {
			ins, tags := hostileDecInputs(c.R, c.N(400), c.Tier == "thorough")
			res := runDecIsolated(ins)
			var out []Case
			worst, worstAt := 0.0, ""
			for i, b := range ins {
				if ratio := float64(res[i].alloc) / float64(len(b)+64); ratio > worst {
					worst, worstAt = ratio, fmt.Sprintf("%s len=%d alloc=%d", tags[i], len(b), res[i].alloc)
				}
			}
			if os.Getenv("VERIF_DEBUG") != "" {
				fmt.Fprintf(os.Stderr, "C07 worst allocation ratio: %.1f bytes per input byte (%s)\n", worst, worstAt)
			}
			for i, b := range ins {
				r := res[i]
				if r.res == "skipped" {
					continue
				}
				cs := Case{Nontrivial: true, Tags: []string{tags[i], "outcome:" + r.class}}
				if len(b) <= 4096 && tags[i] != "valid-deep-nesting" && tags[i] != "valid-deep-with-leaves" { // printing is cubic in the nesting depth
					cs.Op = "dec " + hx(b)
					cs.Decisive = true
					cs.cmpKeys = "=" // accept/reject token only
					cs.Impl = map[string]string{"ok": "", "fail": "fail"}[r.res]
					if r.res == "ok" {
						cs.Impl = implDec(b)
					}
					cs.cmpKeys = ""
					cs.Decisive = false
				} else if tags[i] == "stack-depth-probe" {
					cs.Detail = fmt.Sprintf("dec of %d nested one-element list headers (%d bytes, truncated): one stack frame per level", stackProbeDepth, len(b))
				} else {
					cs.Detail = fmt.Sprintf("%s input of %d bytes: %x…", tags[i], len(b), b[:24])
				}
				switch {
				case r.class != "normal":
					cs.Oracle = "hsms.Parse did not return normally: " + r.class
				case r.res == "PANIC":
					cs.Oracle = "panic escaped hsms.Parse"
				case r.alloc > uint64(allocPerByte*len(b)+allocBase):
					cs.Oracle = fmt.Sprintf("decoding %d bytes allocated %d bytes (bound %d): memory is driven by a declared length, not by the input", len(b), r.alloc, allocPerByte*len(b)+allocBase)
				}
				if cs.Op == "" && cs.Detail == "" {
					cs.Detail = "dec " + hx(b)
				}
				cs.Tags = append(cs.Tags, fmt.Sprintf("alloc/byte:%s", sizeTag(int(r.alloc)/(len(b)+1))))
				out = append(out, cs)
			}
			return out
		}},
	}
}

// ---------- C11: immutability and aliasing ----------

type pooled struct {
	desc  string
	snap  func() string
	first string
}

type history struct {
	r     *rand.Rand
	pool  []*pooled
	steps []string
	held  []struct {
		what string
		b    []byte
		copy []byte
	}
}

// snapItem: the observers are called in another order every time (printing must not change what
// Variables() says, and so on)
func snapItem(it ast.ItemNode) func() string {
	calls := 0
	return func() string {
		calls++
		var by, st, vs string
		var sz int
		order := [][]int{{3, 2, 1, 0}, {2, 0, 1, 3}, {1, 2, 0, 3}, {0, 1, 2, 3}}[calls%4]
		for _, k := range order {
			switch k {
			case 0:
				by = hx(keep(encTwice(it.ToBytes)))
			case 1:
				st = hxs(fmt.Sprint(it))
			case 2:
				vs = hxList(it.Variables())
			default:
				sz = it.Size()
			}
		}
		// asked again after all the other observers have run: the same answer
		if again := hxList(it.Variables()); again != vs {
			vs += " (after the other observers: " + again + ")"
		}
		return fmt.Sprintf("bytes=%s str=%s vars=%s size=%d", by, st, vs, sz) + earlierResults()
	}
}
func snapMsg(m *ast.DataMessage) func() string {
	return func() string {
		before := hxList(m.Variables())
		s := showMsg(m)
		if after := hxList(m.Variables()); after != before {
			s += " VARIABLES-CHANGED-BY-OBSERVERS " + before + " -> " + after
		}
		return s
	}
}
func snapCtrl(m ast.HSMSMessage) func() string { return func() string { return showCtrl(m) } }

func (h *history) add(desc string, snap func() string) {
	h.pool = append(h.pool, &pooled{desc: desc, snap: snap, first: snap()})
}

func scramble(r *rand.Rand, b []byte) {
	for i := range b {
		b[i] ^= byte(1 + r.Intn(255))
	}
}

// check compares every pooled object with its first snapshot.
func (h *history) check() string {
	for _, p := range h.pool {
		if now := p.snap(); now != p.first {
			return fmt.Sprintf("%s changed: %s", p.desc, firstDiff(now, p.first))
		}
	}
	return ""
}

func (h *history) items() []ast.ItemNode { return nil }

func runHistory(r *rand.Rand, steps int) (violation string, trace []string) {
	h := &history{r: r}
	var items []ast.ItemNode
	var msgs []*ast.DataMessage
	var ctrls []ast.HSMSMessage
	log := func(f string, a ...interface{}) { h.steps = append(h.steps, fmt.Sprintf(f, a...)) }
	newItem := func() {
		n := genItem(r, GenOpt{MaxDepth: 3, MaxSlots: 4, PVar: 0.25, PEllipsis: 0.2})
		if r.Intn(4) == 0 {
			// an array with several variables among its values
			k := arrayKinds[r.Intn(len(arrayKinds))]
			n = genArray(r, &GenOpt{MaxSlots: 5, PVar: 0.6, names: &nameGen{}}, k.k, k.w)
		}
		var it ast.ItemNode
		if pan, _ := safely(func() { it = n.Build() }); pan {
			return
		}
		items = append(items, it)
		h.add("item "+n.Proto(), snapItem(it))
		log("new item %s", n.Proto())
	}
	newItem()
	for s := 0; s < steps; s++ {
		safely(func() {
			switch r.Intn(14) {
			case 0:
				newItem()
			case 1: // factory with an argument slice the caller keeps and then overwrites
				args := []interface{}{int64(r.Intn(100)), "v" + fmt.Sprint(s), int64(-r.Intn(100))}
				it := ast.NewIntNode(8, args...)
				items = append(items, it)
				h.add("I8 built from a kept argument slice", snapItem(it))
				args[0], args[1], args[2] = int64(99999), "zz", int64(7)
				log("NewIntNode(8, args...) then args overwritten")
			case 2: // list sharing existing items
				if len(items) >= 2 {
					a, b := items[r.Intn(len(items))], items[r.Intn(len(items))]
					args := []interface{}{a, b}
					var l ast.ItemNode
					if pan, _ := safely(func() { l = ast.NewListNode(args...) }); !pan {
						items = append(items, l)
						h.add("list sharing two pooled items", snapItem(l))
						args[0], args[1] = b, ast.NewEmptyItemNode()
						log("NewListNode(shared items) then args overwritten")
					}
				}
			case 3: // message with caller-held system bytes
				it := items[r.Intn(len(items))]
				sys := []byte{byte(r.Intn(256)), 2, 3, 4}
				var m *ast.DataMessage
				if len(it.Variables()) == 0 && r.Intn(2) == 0 {
					m = ast.NewHSMSDataMessage("m", 1, 1, r.Intn(2), "H->E", it, r.Intn(65536), sys)
				} else {
					m = ast.NewDataMessage("m", 1, 1, 2, "H->E", it).SetSessionIDAndSystemBytes(r.Intn(65536), sys)
				}
				msgs = append(msgs, m)
				h.add("message with caller-held system bytes", snapMsg(m))
				scramble(r, sys)
				log("message created, then the system-bytes argument overwritten")
			case 4: // producers
				if len(msgs) > 0 {
					m := msgs[r.Intn(len(msgs))]
					var m2 *ast.DataMessage
					sys := []byte{9, byte(r.Intn(256)), 9, 9}
					switch r.Intn(3) {
					case 0:
						m2 = m.SetWaitBit(false)
						log("SetWaitBit")
					case 1:
						m2 = m.SetSessionIDAndSystemBytes(r.Intn(65536)-1, sys)
						log("SetSessionIDAndSystemBytes")
						scramble(r, sys)
					default:
						m2 = m.FillVariables(map[string]interface{}{"nokey": 1})
						log("FillVariables(unknown key)")
					}
					msgs = append(msgs, m2)
					h.add("message derived by a producer", snapMsg(m2))
				}
			case 5: // returned system bytes overwritten
				if len(msgs) > 0 {
					b := msgs[r.Intn(len(msgs))].SystemBytes()
					scramble(r, b)
					log("SystemBytes() result overwritten")
				}
			case 6: // returned encodings overwritten
				var b []byte
				switch r.Intn(3) {
				case 0:
					b = items[r.Intn(len(items))].ToBytes()
				case 1:
					if len(msgs) > 0 {
						b = msgs[r.Intn(len(msgs))].ToBytes()
					}
				default:
					if len(ctrls) > 0 {
						b = ctrls[r.Intn(len(ctrls))].ToBytes()
					}
				}
				scramble(r, b)
				log("ToBytes() result overwritten (%d bytes)", len(b))
			case 7: // returned variable lists overwritten / sorted
				var v []string
				if r.Intn(2) == 0 || len(msgs) == 0 {
					v = items[r.Intn(len(items))].Variables()
				} else {
					v = msgs[r.Intn(len(msgs))].Variables()
				}
				sort.Strings(v)
				for i := range v {
					v[i] = "overwritten"
				}
				log("Variables() result sorted and overwritten")
			case 8: // fill with a map and values that are changed afterwards
				it := items[r.Intn(len(items))]
				vars := it.Variables()
				env := map[string]interface{}{}
				for _, v := range vars {
					if !strings.HasPrefix(v, "...") && r.Intn(2) == 0 {
						env[v] = "renamed" + fmt.Sprint(s) + "_" + fmt.Sprint(len(env))
					}
				}
				// one call may rename some variables and give values to others: numbers of one Go
				// type for all of them, whichever the item accepts
				numeric := []interface{}{int(1 + s%50), float64(s) + 0.5, s%2 == 0, uint8(s % 200)}[r.Intn(4)]
				for _, v := range vars {
					if _, ok := env[v]; !ok && !strings.HasPrefix(v, "...") && r.Intn(2) == 0 {
						env[v] = numeric
					}
				}
				var it2 ast.ItemNode
				if pan, _ := safely(func() { it2 = it.FillVariables(env) }); !pan {
					items = append(items, it2)
					h.add("item produced by FillVariables", snapItem(it2))
					for k := range env {
						env[k] = 12345
					}
					log("FillVariables(map) then the map overwritten")
				}
			case 9: // control messages from caller-held slices
				hd := make([]byte, 10)
				r.Read(hd)
				hd[4], hd[5] = 0, byte(pick(r, 1, 3, 5))
				req := ast.NewHSMSControlMessage(hd)
				ctrls = append(ctrls, req)
				h.add("control message from a caller-held header", snapCtrl(req))
				scramble(r, hd)
				sys := []byte{1, 2, 3, 4}
				sr := ast.NewHSMSMessageSelectReq(uint16(r.Intn(65536)), sys)
				ctrls = append(ctrls, sr)
				h.add("select.req from caller-held system bytes", snapCtrl(sr))
				scramble(r, sys)
				log("control messages created, arguments overwritten")
			case 10: // responses built from pooled requests
				if len(ctrls) > 0 {
					req := ctrls[r.Intn(len(ctrls))]
					var rsp ast.HSMSMessage
					safely(func() {
						switch req.Type() {
						case "select.req":
							rsp = ast.NewHSMSMessageSelectRsp(req, byte(r.Intn(256)))
						case "deselect.req":
							rsp = ast.NewHSMSMessageDeselectRsp(req, byte(r.Intn(256)))
						case "linktest.req":
							rsp = ast.NewHSMSMessageLinktestRsp(req)
						}
					})
					if rsp != nil {
						ctrls = append(ctrls, rsp)
						h.add("response built from a pooled request", snapCtrl(rsp))
						log("response from %s", req.Type())
					}
				}
			case 11: // decode, then overwrite the input
				if len(msgs) > 0 {
					b := msgs[r.Intn(len(msgs))].ToBytes()
					if len(b) > 0 {
						buf := make([]byte, len(b), len(b)+16) // spare capacity behind the input
						copy(buf, b)
						if m, ok := hsms.Parse(buf); ok {
							if dm, isD := m.(*ast.DataMessage); isD {
								msgs = append(msgs, dm)
								h.add("message decoded from a buffer", snapMsg(dm))
							}
						}
						scramble(r, buf)
						log("hsms.Parse(buf) then buf overwritten")
					}
				}
			case 12: // parse SML of a pooled message
				if len(msgs) > 0 {
					ms, _, _ := sml.Parse(msgs[r.Intn(len(msgs))].String())
					for _, m := range ms {
						msgs = append(msgs, m)
						h.add("message parsed from SML", snapMsg(m))
					}
					log("sml.Parse(printed message)")
				}
			default: // pure observers
				for _, it := range items {
					_ = fmt.Sprint(it)
					_ = it.Size()
				}
				log("observers")
			}
		})
		if v := h.check(); v != "" {
			return v, h.steps
		}
	}
	return "", h.steps
}

func suiteC11(c *Ctx) []Suite {
	return []Suite{
		{Name: "alias/templates-filled-again", Gen: func(c *Ctx) []Case {
			// one template, filled several times with tables that rename some variables and give
			// values to others: no earlier result and not the template may change
			var out []Case
			for i := 0; i < c.N(300); i++ {
				k := arrayKinds[c.R.Intn(len(arrayKinds))]
				n := genArray(c.R, &GenOpt{MaxSlots: 5, PVar: 0.7, names: &nameGen{}}, k.k, k.w)
				if i%4 == 0 {
					n = &Node{Kind: "L", Slots: []Slot{{Child: n}, {Child: &Node{Kind: "A", Str: []byte("t")}}}}
				}
				var tmpl ast.ItemNode
				if pan, _ := safely(func() { tmpl = n.Build() }); pan || len(tmpl.Variables()) < 2 {
					continue
				}
				res := ""
				first := showItem(tmpl)
				type kept struct {
					it   ast.ItemNode
					show string
				}
				var results []kept
				for round := 0; round < 6 && res == ""; round++ {
					env := map[string]interface{}{}
					var num interface{}
					switch k.k {
					case "F":
						num = float64(round) + 1.25
					case "BO":
						num = round%2 == 0
					default:
						num = 1 + round
					}
					for vi, v := range tmpl.Variables() {
						switch (vi + round + c.R.Intn(2)) % 3 {
						case 0:
							env[v] = fmt.Sprintf("r%d_%d", round, vi)
						case 1:
							env[v] = num
						}
					}
					var it2 ast.ItemNode
					if pan, _ := safely(func() { it2 = tmpl.FillVariables(env) }); pan {
						continue
					}
					results = append(results, kept{it2, showItem(it2)})
					if now := showItem(tmpl); now != first {
						res = "the template changed when it was filled: " + firstDiff(now, first)
					}
					for q, kp := range results {
						if now := showItem(kp.it); now != kp.show {
							res = fmt.Sprintf("the result of fill %d changed when the template was filled again (fill %d): %s", q, round, firstDiff(now, kp.show))
						}
					}
				}
				out = append(out, Case{Detail: "template " + n.Proto() + " filled six times", Oracle: res, Nontrivial: true, Tags: []string{"refill:" + k.k}})
			}
			return out
		}},
		{Name: "alias/histories", Gen: func(c *Ctx) []Case {
			var out []Case
			for i := 0; i < c.N(400); i++ {
				seed := c.R.Int63()
				steps := 10 + c.R.Intn(50)
				v, trace := runHistory(rand.New(rand.NewSource(seed)), steps)
				cs := Case{Detail: fmt.Sprintf("history seed=%d steps=%d", seed, steps), Nontrivial: true, Tags: []string{fmt.Sprintf("steps:%s", sizeTag(len(trace)))}}
				if v != "" {
					if len(trace) > 12 {
						trace = trace[len(trace)-12:]
					}
					cs.Oracle = v + " after: " + strings.Join(trace, "; ")
				}
				out = append(out, cs)
			}
			return out
		}},
	}
}

// ---------- C17: concurrency ----------

// concWorker runs the concurrent workload (race-detector build) and prints DIFF lines when a
// concurrent call returned something else than the same call alone.
func concWorker(seed int64, rounds int) {
	guardOff = true
	lastOpTried = true // no last-operation file here: its bookkeeping is not meant for several goroutines
	r := rand.New(rand.NewSource(seed))
	for round := 0; round < rounds; round++ {
		// shared objects
		var items []ast.ItemNode
		var nodes []*Node
		for len(items) < 6 {
			n := genItem(r, GenOpt{MaxDepth: 3, MaxSlots: 4, PVar: 0.3, PEllipsis: 0.2})
			if pan, _ := safely(func() { items = append(items, n.Build()) }); !pan {
				nodes = append(nodes, n)
			}
		}
		var msgs []*ast.DataMessage
		var texts []string
		var encs [][]byte
		deeps := map[int][]byte{} // decoded and re-encoded only: printing such a message is cubic in its depth
		for i, it := range items {
			m := ast.NewDataMessage(fmt.Sprintf("m%d", i), 1, 1, 2, "H->E", it)
			msgs = append(msgs, m)
			texts = append(texts, m.String())
			closed := genItem(r, GenOpt{MaxDepth: 3, MaxSlots: 4})
			cm := completeMsgDesc(r, closed)
			encs = append(encs, frame(cm.Sid, cm.S, cm.F, cm.W, cm.Sys, encodeVariant(closed, nil)))
			if i%4 == 1 {
				// a frame nested hundreds of lists deep: several of them are decoded at the same time
				// (whatever a decoder keeps per process - a depth counter, a scratch stack - adds up)
				depth := 400 + 300*(i%3)
				text := bytes.Repeat([]byte{0x01, 0x01}, depth)
				text = append(text, 0xA5, 0x01, byte(i))
				deeps[i] = frame(cm.Sid, cm.S, cm.F, cm.W, cm.Sys, text)
			}
		}
		sharedReq := ast.NewHSMSMessageSelectReq(uint16(round+1), []byte{1, 2, 3, byte(round)})
		sharedLt := ast.NewHSMSMessageLinktestReq([]byte{9, 9, 9, byte(round)})
		type job func(salt string) string
		var jobs []job
		for i := range items {
			it, m, text, enc := items[i], msgs[i], texts[i], encs[i]
			wire := enc
			if d, ok := deeps[i]; ok {
				wire = d
			}
			// arguments shared by all goroutines: a fill-in table (ellipsis counts, renames),
			// system bytes, an encoded message; reading them concurrently is legal Go, so any
			// race or changed result means a producer wrote to its argument
			sharedEnv := map[string]interface{}{"nokey": 1}
			for k, v := range it.Variables() {
				if strings.HasPrefix(v, "...") {
					sharedEnv[v] = 1 + k%2
				} else if k%3 == 0 {
					sharedEnv[v] = fmt.Sprintf("shared%d_%d", i, k)
				}
			}
			sharedSys := []byte{9, 8, 7, byte(i)}
			jobs = append(jobs,
				func(string) string {
					out := "PANIC"
					safely(func() { out = showItem(it.FillVariables(sharedEnv)) })
					return out
				},
				func(string) string {
					out := "PANIC"
					safely(func() { out = showMsg(m.FillVariables(sharedEnv)) })
					return out
				},
				func(string) string { return showMsg(m.SetSessionIDAndSystemBytes(7, sharedSys)) },
				func(string) string {
					out := "PANIC"
					safely(func() {
						if m2, ok := hsms.Parse(wire); ok {
							out = hx(m2.ToBytes())
						} else {
							out = "fail"
						}
					})
					return out
				},
				func(string) string { return showItem(it) },
				func(string) string { return showMsg(m) },
				func(salt string) string {
					// fills that mint names never seen before (ellipsis expansion and renames)
					env := map[string]interface{}{}
					for k, v := range it.Variables() {
						if strings.HasPrefix(v, "...") {
							env[v] = 2
						} else if k%2 == 0 {
							env[v] = "n" + salt + fmt.Sprint(k)
						}
					}
					out := "PANIC"
					safely(func() { out = showItem(it.FillVariables(env)) })
					return out
				},
				func(string) string { return showMsg(m.SetWaitBit(false).SetSessionIDAndSystemBytes(5, []byte{1, 2, 3, 4})) },
				func(salt string) string { return implSML(strings.ReplaceAll(text, "\n.", " // "+salt+"\n.")) },
				func(salt string) string {
					// a text whose variable names are new in every call
					return implSML("S1F1 W H->E\n<L\n  <U1 v" + salt + " w" + salt + "[3]>\n  <A[2..5] a" + salt + ">\n  ...\n>\n.")
				},
				func(string) string { return implDec(enc) },
				func(string) string {
					// what Variables() hands out is the caller's: sorted, extended, overwritten
					vs := it.Variables()
					sort.Strings(vs)
					vs = append(vs, "extra")
					for k := range vs {
						vs[k] = "mine"
					}
					return fmt.Sprint(len(vs)) + " " + hxList(it.Variables())
				},
				func(string) string {
					// a request that is answered by several goroutines and read by others
					out := "PANIC"
					safely(func() {
						rsp := ast.NewHSMSMessageSelectRsp(sharedReq, byte(i))
						lt := ast.NewHSMSMessageLinktestRsp(sharedLt)
						out = showCtrl(rsp) + " " + showCtrl(lt) + " " + showCtrl(sharedReq) + " " + showCtrl(sharedLt)
					})
					return out
				},
				func(string) string {
					// a receive loop: the frame is decoded from a buffer that is refilled while
					// another goroutine is still working with the decoded message
					buf := make([]byte, len(enc))
					copy(buf, enc)
					out := "fail"
					safely(func() {
						m2, ok := hsms.Parse(buf)
						if !ok {
							return
						}
						done := make(chan string, 1)
						go func() {
							res := "PANIC"
							safely(func() { res = hx(m2.ToBytes()) })
							done <- res
						}()
						for i := range buf {
							buf[i] = 0xEE
						}
						out = <-done
					})
					return out
				},
			)
		}
		type rec struct {
			job       int
			salt, got string
		}
		var wg sync.WaitGroup
		var mu sync.Mutex
		var recs []rec
		for g := 0; g < 8; g++ {
			wg.Add(1)
			go func(g int) {
				defer wg.Done()
				rr := rand.New(rand.NewSource(seed + int64(g)))
				for k := 0; k < 60; k++ {
					i := rr.Intn(len(jobs))
					salt := fmt.Sprintf("r%dg%dk%d", round, g, k)
					got := jobs[i](salt)
					mu.Lock()
					recs = append(recs, rec{i, salt, got})
					mu.Unlock()
				}
			}(g)
		}
		wg.Wait()
		// every concurrent result must equal the result of the same call made alone
		for _, r := range recs {
			if want := jobs[r.job](r.salt); want != r.got {
				fmt.Printf("DIFF job %d: concurrent result differs from the result alone: %s\n", r.job, firstDiff(r.got, want))
			}
		}
	}
	fmt.Println("DONE")
}

func suiteC17(c *Ctx) []Suite {
	return []Suite{
		{Name: "conc/race-detector-workload", Gen: func(c *Ctx) []Case {
			bin := os.Getenv("SECS_RACE_BIN")
			if bin == "" {
				return []Case{{Detail: "race-detector binary missing", Oracle: "harness was not built with the race detector (SECS_RACE_BIN unset)", Nontrivial: true}}
			}
			var out []Case
			for w := 0; w < c.N(3); w++ {
				seed := c.R.Int63()
				// a run takes a few seconds; one that is still going after three minutes is blocked
				// (a lock that is never released, goroutines waiting for each other)
				ctx, cancel := context.WithTimeout(context.Background(), 3*time.Minute)
				cmd := exec.CommandContext(ctx, bin, "concworker", fmt.Sprint(seed), "6")
				cmd.Env = append(os.Environ(), "GORACE=halt_on_error=1 exitcode=66")
				b, err := cmd.CombinedOutput()
				timedOut := ctx.Err() != nil
				cancel()
				cs := Case{Detail: fmt.Sprintf("8 goroutines x 60 calls x 6 rounds over shared items/messages/parsers, seed %d", seed), Nontrivial: true, Tags: []string{"conc-run"}}
				s := string(b)
				switch {
				case timedOut:
					cs.Oracle = "the concurrent workload did not finish within 3 minutes: calls on shared objects block each other forever (or one never returns)"
				case strings.Contains(s, "DATA RACE"):
					i := strings.Index(s, "DATA RACE")
					end := i + 900
					if end > len(s) {
						end = len(s)
					}
					cs.Oracle = "data race reported by the race detector: " + strings.ReplaceAll(s[i:end], "\n", " | ")
				case strings.Contains(s, "fatal error"):
					cs.Oracle = "process aborted: " + s[strings.Index(s, "fatal error"):][:120]
				case strings.Contains(s, "DIFF"):
					cs.Oracle = s[strings.Index(s, "DIFF"):][:300]
				case err != nil || !strings.Contains(s, "DONE"):
					cs.Oracle = fmt.Sprintf("concurrent workload failed: %v %.200s", err, s)
				}
				out = append(out, cs)
			}
			return out
		}},
	}
}
