package main

import (
	"encoding/hex"
	"fmt"
	"math"
	"strconv"
	"strings"

	"github.com/wolimst/lib-secs2-hsms-go/pkg/ast"
)

// Node is the harness' own description of an item template. It is what generators
// produce; it is serialised to the driver protocol and built through the real factories.
type Node struct {
	Kind  string // L A AV B BO I U F E
	W     int    // width for I U F
	Slots []Slot // for L B BO I U F
	Str   []byte // for A
	Name  string // for AV
	Min   int
	Max   int
}

// Slot is a value or a variable name. For L the value is Child.
type Slot struct {
	IsVar bool
	Name  string
	Child *Node   // L
	I     int64   // I, B
	U     uint64  // U
	Bits  uint64  // F (bit pattern in the item's width)
	B     bool    // BO
}

func hx(b []byte) string {
	if len(b) == 0 {
		return "-"
	}
	return hex.EncodeToString(b)
}

func hxs(s string) string { return hx([]byte(s)) }

func hxList(xs []string) string {
	if len(xs) == 0 {
		return "-"
	}
	out := make([]string, len(xs))
	for i, x := range xs {
		if x == "" {
			out[i] = "."
		} else {
			out[i] = hex.EncodeToString([]byte(x))
		}
	}
	return strings.Join(out, ",")
}

// Proto renders the node in the driver's prefix notation.
func (n *Node) Proto() string {
	var sb strings.Builder
	n.proto(&sb)
	return sb.String()
}

func (n *Node) proto(sb *strings.Builder) {
	switch n.Kind {
	case "E":
		sb.WriteString("E")
	case "A":
		sb.WriteString("A " + hx(n.Str))
	case "AV":
		fmt.Fprintf(sb, "AV $%s %d %d", hex.EncodeToString([]byte(n.Name)), n.Min, n.Max)
	case "L":
		fmt.Fprintf(sb, "L %d", len(n.Slots))
		for _, s := range n.Slots {
			sb.WriteString(" ")
			if s.IsVar {
				sb.WriteString("$" + hex.EncodeToString([]byte(s.Name)))
			} else {
				s.Child.proto(sb)
			}
		}
	default:
		k := n.Kind
		if k == "I" || k == "U" || k == "F" {
			k += strconv.Itoa(n.W)
		}
		fmt.Fprintf(sb, "%s %d", k, len(n.Slots))
		for _, s := range n.Slots {
			sb.WriteString(" ")
			if s.IsVar {
				sb.WriteString("$" + hex.EncodeToString([]byte(s.Name)))
				continue
			}
			switch n.Kind {
			case "B", "I":
				sb.WriteString(strconv.FormatInt(s.I, 10))
			case "U":
				sb.WriteString(strconv.FormatUint(s.U, 10))
			case "F":
				sb.WriteString(strconv.FormatUint(s.Bits, 10))
			case "BO":
				if s.B {
					sb.WriteString("1")
				} else {
					sb.WriteString("0")
				}
			}
		}
	}
}

// Build constructs the item through the real factories using canonical Go argument types
// (int64 for I, uint64 for U, float32/float64 by pattern for F, int for B, bool for BO).
// Panics propagate to the caller.
func (n *Node) Build() ast.ItemNode {
	switch n.Kind {
	case "E":
		return ast.NewEmptyItemNode()
	case "A":
		return ast.NewASCIINode(string(n.Str))
	case "AV":
		return ast.NewASCIINodeVariable(n.Name, n.Min, n.Max)
	}
	args := make([]interface{}, len(n.Slots))
	for i, s := range n.Slots {
		if s.IsVar {
			args[i] = s.Name
			continue
		}
		switch n.Kind {
		case "L":
			args[i] = s.Child.Build()
		case "B":
			args[i] = int(s.I)
		case "BO":
			args[i] = s.B
		case "I":
			args[i] = s.I
		case "U":
			args[i] = s.U
		case "F":
			if n.W == 4 {
				args[i] = math.Float32frombits(uint32(s.Bits))
			} else {
				args[i] = math.Float64frombits(s.Bits)
			}
		}
	}
	// the argument slice is the caller's: it is overwritten once the factory has returned
	defer func() {
		for i := range args {
			args[i] = "overwritten_by_the_caller"
		}
	}()
	switch n.Kind {
	case "L":
		return ast.NewListNode(args...)
	case "B":
		return ast.NewBinaryNode(args...)
	case "BO":
		return ast.NewBooleanNode(args...)
	case "I":
		return ast.NewIntNode(n.W, args...)
	case "U":
		return ast.NewUintNode(n.W, args...)
	case "F":
		return ast.NewFloatNode(n.W, args...)
	}
	panic("harness: unknown node kind " + n.Kind)
}

// Closed reports whether the description has no variables and no E inside.
func (n *Node) Closed() bool {
	switch n.Kind {
	case "E", "AV":
		return false
	case "A":
		return true
	}
	for _, s := range n.Slots {
		if s.IsVar {
			return false
		}
		if n.Kind == "L" && !s.Child.Closed() {
			return false
		}
	}
	return true
}

// Count returns the number of nodes in the tree.
func (n *Node) Count() int {
	c := 1
	if n.Kind == "L" {
		for _, s := range n.Slots {
			if !s.IsVar {
				c += s.Child.Count()
			}
		}
	}
	return c
}

func (n *Node) Depth() int {
	d := 0
	if n.Kind == "L" {
		for _, s := range n.Slots {
			if !s.IsVar {
				if x := s.Child.Depth(); x > d {
					d = x
				}
			}
		}
	}
	return d + 1
}

// safely runs f and reports whether it panicked.
func safely(f func()) (panicked bool, val interface{}) {
	defer func() {
		if r := recover(); r != nil {
			panicked = true
			val = r
		}
	}()
	f()
	return false, nil
}

// showItem is the impl-side canonical rendering (same shape as the driver's showItem).
// encTwice: what ToBytes returns is the caller's. It is overwritten and the encoding asked for
// again: the second answer is the one reported (an encoder that hands out a cached slice
// reports what the caller wrote into it).
func encTwice(f func() []byte) []byte {
	b1 := f()
	if len(b1) == 0 || len(b1) > 1<<20 {
		return b1
	}
	for i := range b1 {
		b1[i] ^= 0x3C
	}
	return f()
}

func showItem(it ast.ItemNode) string {
	// fisl: FillInStringLength of an ASCII node - (-2,-2) for a value, the declared bounds for a variable
	fisl := "-"
	if a, ok := it.(*ast.ASCIINode); ok {
		mn, mx := a.FillInStringLength()
		fisl = fmt.Sprintf("%d,%d", mn, mx)
	}
	return fmt.Sprintf("bytes=%s str=%s vars=%s size=%d fisl=%s",
		hx(keep(encTwice(it.ToBytes))), hxs(fmt.Sprint(it)), hxList(it.Variables()), it.Size(), fisl) + earlierResults()
}

// handedOut: byte slices the library returned earlier; it must never write to them again
// (a later ToBytes reusing a shared buffer would).
var handedOut []struct {
	b    []byte
	copy string
}

// guardOff: set (before any goroutine starts) by the concurrency worker, which must not share
// harness state between goroutines
var guardOff bool

func keep(b []byte) []byte {
	if !guardOff && len(b) > 0 && len(b) <= 4096 {
		if len(handedOut) >= 8 {
			handedOut = handedOut[1:]
		}
		handedOut = append(handedOut, struct {
			b    []byte
			copy string
		}{b, string(b)})
	}
	return b
}

// earlierResults reports " EARLIER-RESULT-OVERWRITTEN" when a slice handed out before changed.
func earlierResults() string {
	if guardOff {
		return ""
	}
	for _, h := range handedOut {
		if string(h.b) != h.copy {
			handedOut = nil
			return " EARLIER-RESULT-OVERWRITTEN"
		}
	}
	return ""
}

func showMsg(m *ast.DataMessage) string {
	w := map[string]int{"false": 0, "true": 1, "optional": 2}[m.WaitBit()]
	// what SystemBytes() returns is the caller's: read it, then overwrite it
	sb := m.SystemBytes()
	sys := hx(sb)
	for i := range sb {
		sb[i] ^= 0x5A
	}
	return fmt.Sprintf("name=%s s=%d f=%d w=%d dir=%s sid=%d sys=%s hdr=%s str=%s vars=%s bytes=%s type=%s",
		hxs(m.Name()), m.StreamCode(), m.FunctionCode(), w, hxs(m.Direction()), m.SessionID(),
		sys, hxs(m.Header()), hxs(m.String()), hxList(m.Variables()), hx(keep(encTwice(m.ToBytes))), hxs(ast.HSMSMessage(m).Type())) + earlierResults()
}

// implItem builds n and renders it, mapping any panic to PANIC.
func implItem(n *Node) (res string, it ast.ItemNode) {
	p, _ := safely(func() {
		it = n.Build()
		res = showItem(it)
	})
	if p {
		return "PANIC", nil
	}
	return res, it
}
