package main

import (
	"regexp"
	"fmt"
	"math"
	"math/big"
	"math/rand"
	"strconv"
	"strings"
)

// SML text generation at the token level. A message is a list of tokens; a layout decides the
// separators, comments and letter case. Tokens carry what they denote so that oracles can be
// computed independently of the parser under test.

type STok struct {
	Text    string // canonical surface
	Glue    int    // 1: may touch the following token, 2: may touch the preceding token, 3: both
	CaseVar bool   // letter case of the surface may be varied (keywords, prefixes)
}

const (
	glueNext = 1
	gluePrev = 2
)

func caseVary(r *rand.Rand, s string) string {
	switch r.Intn(3) {
	case 0:
		return strings.ToLower(s)
	case 1:
		return strings.ToUpper(s)
	}
	b := []byte(s)
	for i := range b {
		if r.Intn(2) == 0 {
			b[i] = byte(strings.ToLower(string(b[i]))[0])
		} else {
			b[i] = byte(strings.ToUpper(string(b[i]))[0])
		}
	}
	return string(b)
}

// ---- literal forms ----

func intLiteral(r *rand.Rand, v *big.Int, signedOK bool) string {
	neg := v.Sign() < 0
	abs := new(big.Int).Abs(v)
	var body string
	switch r.Intn(6) {
	case 0:
		body = "0x" + abs.Text(16)
	case 1:
		body = "0b" + abs.Text(2)
	case 2:
		body = "0o" + abs.Text(8)
	case 3:
		if abs.Sign() != 0 {
			body = "0" + abs.Text(8)
		} else {
			body = "0"
		}
	default:
		body = abs.Text(10)
	}
	if neg {
		return "-" + body
	}
	if signedOK && r.Intn(6) == 0 {
		return "+" + body
	}
	return body
}

// binaryLiteral: a byte of a B item; the literal is read by ParseInt, so a sign is allowed
func binaryLiteral(r *rand.Rand, v int64) string {
	s := intLiteral(r, big.NewInt(v), true)
	if v == 0 && r.Intn(4) == 0 && !strings.HasPrefix(s, "+") {
		return "-" + s
	}
	return s
}

func floatLiteral(r *rand.Rand, bits uint64, w int) string {
	var v float64
	if w == 4 {
		v = float64(math.Float32frombits(uint32(bits)))
	} else {
		v = math.Float64frombits(bits)
	}
	if v == 0 && r.Intn(2) == 0 {
		// zero has many spellings; the sign of a negative zero is kept
		z := []string{"0e5", "0.0E+10", "0e0", ".0e-3", "0.", "00.00", "0E-400", "0x0p0"}[r.Intn(7)]
		if math.Signbit(v) {
			return "-" + z
		}
		return z
	}
	switch r.Intn(5) {
	case 0:
		return strconv.FormatFloat(v, 'e', -1, w*8)
	case 1:
		s := strconv.FormatFloat(v, 'f', -1, w*8)
		if len(s) < 60 {
			return s
		}
	case 2:
		s := strconv.FormatFloat(v, 'g', -1, w*8)
		if !strings.ContainsAny(s, ".e") {
			return s + "." // "5." is a float literal too
		}
		return s
	case 3:
		// exact decimal expansion of the binary value (long): denotes it without rounding
		s := new(big.Float).SetFloat64(v).Text('e', 40)
		return s
	}
	return strconv.FormatFloat(v, 'g', -1, w*8)
}

// itemTokens renders a node as tokens. forms: vary literal forms (C05) instead of the printer's.
func itemTokens(r *rand.Rand, n *Node, forms bool, out *[]STok) {
	add := func(t string, g int, cv bool) { *out = append(*out, STok{t, g, cv}) }
	add("<", glueNext, false)
	switch n.Kind {
	case "L":
		add("L", 0, true)
		if r.Intn(3) == 0 {
			hasVar := false
			for _, s := range n.Slots {
				if s.IsVar {
					hasVar = true
				}
			}
			if !hasVar {
				add(fmt.Sprintf("[%d]", len(n.Slots)), 0, false)
			}
		}
		for _, s := range n.Slots {
			if s.IsVar {
				nm := s.Name
				if strings.HasPrefix(nm, "...") && r.Intn(2) == 0 {
					nm = "..."
				}
				add(nm, 0, false)
			} else {
				itemTokens(r, s.Child, forms, out)
			}
		}
	case "A":
		add("A", 0, true)
		// split into quoted runs and character codes
		i := 0
		for i < len(n.Str) {
			ch := n.Str[i]
			if ch < 32 || ch == 127 || ch == '"' || (forms && r.Intn(12) == 0) {
				switch {
				case forms && r.Intn(3) == 0:
					add(strconv.Itoa(int(ch)), 0, false)
				case forms && r.Intn(3) == 0:
					add("0b"+strconv.FormatInt(int64(ch), 2), 0, true)
				default:
					add(fmt.Sprintf("0x%02X", ch), 0, true)
				}
				i++
				continue
			}
			j := i
			for j < len(n.Str) && !(n.Str[j] < 32 || n.Str[j] == 127 || n.Str[j] == '"') && (j == i || !forms || r.Intn(10) > 0) {
				j++
			}
			add(`"`+string(n.Str[i:j])+`"`, 0, false)
			i = j
		}
	case "AV":
		add("A", 0, true)
		switch {
		case n.Min == 0 && n.Max == -1:
		case n.Min == n.Max:
			add(fmt.Sprintf("[%d]", n.Max), 0, false)
		case n.Max == -1:
			add(fmt.Sprintf("[%d..]", n.Min), 0, false)
		case n.Min == 0 && r.Intn(2) == 0:
			add(fmt.Sprintf("[..%d]", n.Max), 0, false)
		default:
			add(fmt.Sprintf("[%d..%d]", n.Min, n.Max), 0, false)
		}
		add(n.Name, 0, false)
	case "E":
		*out = (*out)[:len(*out)-1]
		return
	default:
		ty := n.Kind
		switch n.Kind {
		case "BO":
			ty = "BOOLEAN"
		case "I", "U", "F":
			ty = n.Kind + strconv.Itoa(n.W)
		}
		add(ty, 0, true)
		if r.Intn(2) == 0 {
			add(fmt.Sprintf("[%d]", len(n.Slots)), 0, false)
		}
		for _, s := range n.Slots {
			if s.IsVar {
				add(s.Name, 0, false)
				continue
			}
			switch n.Kind {
			case "B":
				if forms {
					add(binaryLiteral(r, s.I), 0, true)
				} else {
					add("0b"+strconv.FormatInt(s.I, 2), 0, true)
				}
			case "BO":
				add(map[bool]string{true: "T", false: "F"}[s.B], 0, true)
			case "I":
				if forms {
					add(intLiteral(r, big.NewInt(s.I), true), 0, true)
				} else {
					add(strconv.FormatInt(s.I, 10), 0, false)
				}
			case "U":
				if forms {
					add(intLiteral(r, new(big.Int).SetUint64(s.U), false), 0, true)
				} else {
					add(strconv.FormatUint(s.U, 10), 0, false)
				}
			case "F":
				if forms {
					add(floatLiteral(r, s.Bits, n.W), 0, true)
				} else {
					var v float64
					if n.W == 4 {
						v = float64(math.Float32frombits(uint32(s.Bits)))
					} else {
						v = math.Float64frombits(s.Bits)
					}
					add(strconv.FormatFloat(v, 'g', -1, n.W*8), 0, true)
				}
			}
		}
	}
	add(">", gluePrev|glueNext, false)
}

var sizeDeclRe = regexp.MustCompile(`^\[(\d*)(\.\.)?(\d*)\]$`)

// spellSize respells a size declaration without changing what it denotes: leading zeros on the
// bounds (they are decimal), and blanks, tabs, line breaks inside the brackets where the
// lexer allows them (after '[', after a number, after '..').
func spellSize(r *rand.Rand, decl string, zeros, ws, crlf bool) string {
	m := sizeDeclRe.FindStringSubmatch(decl)
	if m == nil {
		return decl
	}
	gap := func() string {
		if !ws || r.Intn(2) == 0 {
			return ""
		}
		nl := "\n"
		if crlf {
			nl = "\r\n"
		}
		return []string{" ", "\t", nl, "  ", " " + nl, "\r"}[r.Intn(6)]
	}
	num := func(d string) string {
		if d == "" {
			return ""
		}
		if zeros && r.Intn(2) == 0 {
			d = strings.Repeat("0", 1+r.Intn(3)) + d
		}
		return d + gap()
	}
	out := "[" + gap() + num(m[1])
	if m[2] != "" {
		out += ".." + gap() + num(m[3])
	}
	return out + "]"
}

// msgTokens renders a whole message.
func msgTokens(r *rand.Rand, m *MsgDesc, forms bool) []STok {
	var out []STok
	out = append(out, STok{fmt.Sprintf("S%dF%d", m.S, m.F), 0, true})
	switch m.W {
	case 1:
		out = append(out, STok{"W", 0, true})
	case 2:
		out = append(out, STok{"[W]", 0, true})
	}
	if !(forms && m.Dir == "H<->E" && r.Intn(3) == 0) { // the default direction may be left out
		out = append(out, STok{m.Dir, 0, true})
	}
	if m.Name != "" {
		out = append(out, STok{m.Name, 0, false})
	}
	if m.Item != nil && m.Item.Kind != "E" {
		itemTokens(r, m.Item, forms, &out)
	}
	out = append(out, STok{".", gluePrev, false})
	return out
}

// Layout decides separators, comments and case.
type Layout struct {
	R        *rand.Rand
	Compact  bool // allow zero-width gaps where tokens may touch
	Comments bool
	EndComment bool // a comment without line end closes the text
	CRLF     bool
	VaryCase bool
	SizeWs   bool // white space inside size declarations
	SizeZero bool // leading zeros on size bounds
	EOLAfter int  // > 0: the line ends in front of this token index (blanks and a comment may come first)
}

var commentTexts = []string{"", " note", " voilà", " \xa0", " x\x85", " tab\there", " // nested", ` "quote`, " <L x>", " S1F1 W .", " trailing   ", " \t ", "日本語", " \xff\xfe", " 100% \v", " a\fb", " é", " …", " Ω  ",
	// a carriage return inside a comment does not end it (only the line feed does)
	" was:\r2", " old\r\"CD\"", " cr\r<I2 7> ", " \r256", " x\r", " \r>",
	// what other languages use for comments and quoting means nothing inside a line comment
	" /* see below", " */", " /* both */", " end */ x", " <!--", " -->", " #", " \\", " (* ", " *)", " ''"}

func (l *Layout) gap(first bool) string { return l.gapAfter(first, false) }

// gapAfter: glue = the comment that opens the gap may stand directly behind the previous token
func (l *Layout) gapAfter(first bool, glue bool) string {
	r := l.R
	var sb strings.Builder
	n := 1 + r.Intn(3)
	if first {
		n = r.Intn(3)
	}
	for i := 0; i < n; i++ {
		switch r.Intn(6) {
		case 0:
			sb.WriteString("\t")
		case 1:
			if l.CRLF {
				sb.WriteString("\r\n")
			} else {
				sb.WriteString("\n")
			}
		case 2:
			if l.Comments {
				if glue && i == 0 && r.Intn(2) == 0 {
					// no blank between the token and the comment
					sb.WriteString("//" + commentTexts[r.Intn(len(commentTexts))])
				} else {
					sb.WriteString(" //" + commentTexts[r.Intn(len(commentTexts))])
				}
				if l.CRLF {
					sb.WriteString("\r\n")
				} else {
					sb.WriteString("\n")
				}
			} else {
				sb.WriteString("  ")
			}
		default:
			sb.WriteString(" ")
		}
	}
	return sb.String()
}

// render returns the text and the (line, col) of every token start, plus the end position.
func (l *Layout) render(toks []STok) (string, [][2]int) {
	var sb strings.Builder
	pos := make([][2]int, 0, len(toks)+1)
	line, col := 1, 1
	write := func(s string) {
		sb.WriteString(s)
		for _, r := range s {
			if r == '\n' {
				line++
				col = 1
			} else {
				col++
			}
		}
	}
	for i, t := range toks {
		// tokens may touch only where that cannot merge them: after '<' or '>', before '>',
		// and the terminator right after '>'
		touch := false
		if l.Compact && i > 0 && l.R.Intn(2) == 0 {
			prev := toks[i-1].Text
			touch = prev == "<" || prev == ">" && (t.Text == "<" || t.Text == ">" || t.Text == ".") || t.Text == ">" && prev != "<"
			if prev == ">" && t.Text != "<" && t.Text != ">" && t.Text != "." {
				touch = false
			}
		}
		if i == 0 {
			write(l.gap(true))
		} else if l.EOLAfter > 0 && i == l.EOLAfter {
			// blanks, possibly a comment without a double quote, then the line end
			write([]string{"", " ", "\t", "  "}[l.R.Intn(4)])
			if l.Comments && l.R.Intn(2) == 0 {
				ct := commentTexts[l.R.Intn(len(commentTexts))]
				for strings.Contains(ct, `"`) {
					ct = commentTexts[l.R.Intn(len(commentTexts))]
				}
				write(" //" + ct)
			}
			if l.CRLF {
				write("\r\n")
			} else {
				write("\n")
			}
		} else if !touch {
			write(l.gapAfter(false, !strings.HasSuffix(toks[i-1].Text, "/")))
		}
		pos = append(pos, [2]int{line, col})
		s := t.Text
		if (l.SizeWs || l.SizeZero) && strings.HasPrefix(s, "[") {
			s = spellSize(l.R, s, l.SizeZero, l.SizeWs, l.CRLF)
		}
		if l.VaryCase && t.CaseVar {
			s = caseVary(l.R, s)
		}
		write(s)
	}
	if l.R.Intn(2) == 0 {
		write(l.gap(true))
	}
	if l.Comments && l.EndComment {
		// the input ends inside a comment (no line end after it)
		ct := commentTexts[l.R.Intn(len(commentTexts))]
		for strings.Contains(ct, "\r") {
			ct = commentTexts[l.R.Intn(len(commentTexts))]
		}
		write(" //" + ct)
	}
	pos = append(pos, [2]int{line, col})
	return sb.String(), pos
}

func plainLayout(r *rand.Rand) *Layout { return &Layout{R: r} }

func randomLayout(r *rand.Rand) *Layout {
	return &Layout{R: r, Compact: r.Intn(2) == 0, Comments: r.Intn(3) > 0, CRLF: r.Intn(3) == 0, VaryCase: r.Intn(2) == 0,
		SizeWs: r.Intn(3) == 0, SizeZero: r.Intn(4) == 0}
}

// expressible message descriptions: names the header lexer reads as one name token
var smlNames = []string{"", "", "AreYouThere", "OnLineData", "ERN", "名前", "a.b", "x/y", "Lot#1", "né", "n_1", "q-1", "Z[0]", "a\"b", "\xff\xfe", "it's",
	"Are\x00You", "esc\x1bname", "del\x7f", "c1\u009f", "zw\u200bsp", "bom\ufeff", "\x01\x02",
	"Yield%", "100%Done", "50%%", "%d", "%s%v", "%!v(MISSING)", "a%[1]d", "\\n", "{0}",
	// letters whose UTF-8 encoding contains the bytes 0x85 or 0xA0 (white space as Latin-1 runes)
	"Voilà", "Ångström", "状態", "выход",
	// names that end in the character that ends a message
	"Rev1.", "etc.", "x.", "Abort..",
	// names that hold (but do not begin with) the characters that open and close an item
	"Temp<100", "a<->b", "x<y>", "Alarm<", "p>q"}

func genSMLMsg(r *rand.Rand, item *Node) *MsgDesc {
	m := genMsgDesc(r, item, 0)
	m.Name = smlNames[r.Intn(len(smlNames))]
	return m
}

// smlItemOpt: templates expressible in SML (ellipsis variables named in order of appearance,
// names that are not keywords).
func genSMLItem(r *rand.Rand, pvar float64, big bool) *Node {
	o := GenOpt{MaxDepth: 4, MaxSlots: 5, PVar: pvar, PEllipsis: pvar / 2, Big: big}
	for {
		n := genItem(r, o)
		if n.Kind == "L" || r.Intn(3) == 0 {
			return n
		}
	}
}
