package main

import (
	"encoding/json"
	"flag"
	"fmt"
	"os"
	"strconv"
)

var baseTrusted = []string{
	"Lean 4.33 kernel; axioms limited to propext, Classical.choice, Quot.sound (audited per theorem with #print axioms)",
	"hand-written Lean model of /repo tied to the code only by this correspondence run and by the regenerated facts (Generated/Facts.lean)",
	"this harness (generators, canonicalisation, oracles) and the fact extractor",
	"Go semantics assumed: deferred recover catches run-time panics; integer conversions wrap; map iteration order is arbitrary",
}

func props() map[string]PropDef {
	m := map[string]PropDef{}
	add := func(d PropDef) {
		if d.Level == "" {
			d.Level = "proof"
		}
		d.Trusted = append(append([]string{}, baseTrusted...), d.Trusted...)
		m[d.ID] = d
	}
	add(PropDef{ID: "C01", Suites: func() []Suite { return suiteC01(nil) },
		Rule: "complete messages over structure-directed random closed item trees (all 14 formats, nesting <= 4, element counts incl. 254..257 and 65535/65536), built via NewHSMSDataMessage and via NewDataMessage+SetWaitBit+SetSessionIDAndSystemBytes, plus every format at every length-byte boundary; oracle = encode/decode/re-encode on the real code; each op also compared with the Lean model; non-trivial = item has at least one element; distinct = distinct operation line"})
	add(PropDef{ID: "C02", Suites: func() []Suite { return suiteC02(nil) },
		Rule: "items (closed and with variables) and message programs (complete and incomplete in each way); implementation ToBytes compared byte for byte with the Lean encoder, which Props/C02 proves equal to the wire-format relation; all I1/U1 values, I2/U2 values (stride 17 quick, every value thorough); non-trivial = every case; distinct = distinct operation line"})
	add(PropDef{ID: "C03", Suites: func() []Suite { return suiteC03(nil) },
		Rule: "byte strings: valid encodings (minimal and randomly non-minimal length bytes, non-canonical booleans), 6 structured corruptions of each base message (truncation, appended bytes, message length, PType/SType, W/stream/function, text byte, format byte, length byte, bit flip, double), every truncation point of small messages, unstructured bytes; accept/reject, header fields and re-encoding compared with the Lean decoder, which Props/C03 relates to the wire-format relation; non-trivial = input of at least 14 bytes"})
	add(PropDef{ID: "C13", Suites: func() []Suite { return suiteC13(nil) },
		Rule: "header bytes of all 14 formats: windows of +-40 around every boundary and random sizes against the Lean model; the exported header routine against the closed form for every size 0..limit+64 (stride 997 quick, every size thorough); real ASCII items of 255/256/65535/65536 (and 16,777,215 thorough) characters through factory, ToBytes and hsms.Parse"})
	add(PropDef{ID: "C14", Suites: func() []Suite { return suiteC14(nil) },
		Rule: "control messages: (PType,SType) pairs (all 65,536 in thorough; a covering subset in quick) through NewHSMSControlMessage/Type/ToBytes and hsms.Parse; each constructor over session ids (all 65,536 in thorough), system bytes incl. short slices, all 256 status codes against right and wrong request kinds; raw headers of length 0..12; decode round trip of random headers with defined SType"})
	add(PropDef{ID: "C18", Suites: func() []Suite { return suiteC18(nil) },
		Rule: "messages (complete or not, 5% with an out-of-range field) x sequences of 1-3 (thorough 1-8) producer calls SetWaitBit / SetSessionIDAndSystemBytes with valid and rejected arguments; frame conditions checked on the real code before/after every step; every program also compared with the Lean model"})
	add(PropDef{ID: "C12", Suites: func() []Suite {
		return append(suiteC12(nil), Suite{Name: "ctor/fill-out-of-domain", Gen: fillOutOfDomain})
	},
		Rule: "factory calls with typed Go arguments: random argument lists over all accepted and unaccepted Go types; the full grid factory x width x Go integer type x boundary value; float32/float64 patterns incl. NaN, Inf, MaxFloat32 neighbours, subnormals; binary strings; every byte as a character and in a name; name grammar cases; list factory with items, names, ellipses, emptyItemNode; message constructors with 50% out-of-range fields; fills of every node kind dominated by out-of-domain and wrongly typed values (stored/refused exactly as the factory); result (PANIC or printed/encoded values) compared with the Lean factories"})
	add(PropDef{ID: "C16", Suites: func() []Suite { return suiteC16(nil) },
		Rule: "item templates with variables in any position (30% variable slots, ellipses, nested lists, ASCII variables) and messages around them; oracle on the real code: Variables() has no duplicate, equals the order of the names in String(), ToBytes non-empty iff no variables, Size = printed element count; Variables/Size also compared with the Lean model"})
	registerMore(add)
	return m
}

func main() {
	if len(os.Args) < 2 {
		fmt.Println("usage: secsharness check <prop> [-tier quick|thorough] [-seed n] [-lean status.json] | replay <file> | eval <op...> | extract <out.lean>")
		os.Exit(2)
	}
	switch os.Args[1] {
	case "smlworker":
		smlWorker()
		return
	case "decworker":
		decWorker()
		return
	case "concworker":
		seed, _ := strconv.ParseInt(os.Args[2], 10, 64)
		rounds, _ := strconv.Atoi(os.Args[3])
		concWorker(seed, rounds)
		return
	case "check":
		fs := flag.NewFlagSet("check", flag.ExitOnError)
		tier := fs.String("tier", "quick", "")
		seed := fs.Int64("seed", 1, "")
		lean := fs.String("lean", "", "")
		fs.Parse(os.Args[3:])
		if s := os.Getenv("VERIF_SEED"); s != "" {
			if v, err := strconv.ParseInt(s, 10, 64); err == nil {
				*seed = v
			}
		}
		def, ok := props()[os.Args[2]]
		if !ok {
			fmt.Println("unknown property", os.Args[2])
			os.Exit(2)
		}
		os.Exit(runCheck(def, *tier, *seed, *lean))
	case "replay":
		b, err := os.ReadFile(os.Args[2])
		if err != nil {
			fmt.Println(err)
			os.Exit(2)
		}
		var rp map[string]interface{}
		json.Unmarshal(b, &rp)
		op, _ := rp["op"].(string)
		fmt.Println("property:", rp["property"], "suite:", rp["suite"])
		fmt.Println("note:", rp["note"])
		if op == "" {
			fmt.Println("no operation line recorded; detail:", rp["detail"])
			os.Exit(1)
		}
		d, err := StartDriver()
		if err != nil {
			fmt.Println(err)
			os.Exit(2)
		}
		defer d.Close()
		impl, model := implEval(op), d.One(op)
		fmt.Println("op:   ", op)
		fmt.Println("impl: ", impl)
		fmt.Println("model:", model)
		if o := oracleForOp(fmt.Sprint(rp["property"]), op); o != "" {
			fmt.Println("oracle:", o)
			os.Exit(1)
		}
		if impl != model {
			fmt.Println("DIFFERENT:", firstDiff(impl, model))
			os.Exit(1)
		}
		fmt.Println("same")
	case "eval":
		d, err := StartDriver()
		if err != nil {
			fmt.Println(err)
			os.Exit(2)
		}
		defer d.Close()
		op := ""
		for i, a := range os.Args[2:] {
			if i > 0 {
				op += " "
			}
			op += a
		}
		fmt.Println("impl: ", implEval(op))
		fmt.Println("model:", d.One(op))
	case "extract":
		repo := "/repo"
		if len(os.Args) > 3 {
			repo = os.Args[3]
		}
		if err := extractFacts(os.Args[2], repo); err != nil {
			fmt.Println("extract:", err)
			os.Exit(1)
		}
	default:
		fmt.Println("unknown command")
		os.Exit(2)
	}
}
