package main

import (
	"fmt"
	"strings"
	"unicode"

	"github.com/wolimst/lib-secs2-hsms-go/pkg/ast"
)

func registerMore(add func(PropDef)) {
	add(PropDef{ID: "C09", Suites: func() []Suite { return suiteC09(nil) },
		Rule: "templates of all node kinds (nesting <= 4, 35% variable slots, no ellipsis) x assignments (each variable skipped with probability 1/4, typed Go values of every accepted kind, 25% of the cases with out-of-domain or wrongly typed values, unknown keys) x splits of the assignment into 2-4 successive fills; oracles on the real code: filled = directly constructed (values substituted in the template description and built through the factories), several steps = one step; every operation also compared with the Lean model; messages: fill + producers in both orders vs NewHSMSDataMessage"})
	add(PropDef{ID: "C10", Suites: func() []Suite { return suiteC10(nil) },
		Rule: "list templates with nested ellipses (depth <= 3, counts 0..3; deeper and counts up to 12 in a second suite) x partial or total assignments of repeat counts; result compared with the Lean model of the expansion; oracles on the real code: count law (n+1)*p + (len-p-1), no duplicate names, remaining ellipses renumbered in order, every generated name addressable by a later fill"})
}

// implEvalMore: operations added after the first round.
func implEvalMore(t []string) (string, bool) {
	p := &toks{t: t[1:]}
	switch t[0] {
	case "isname":
		name := string(p.hexb())
		valid, _ := safely(func() { ast.NewASCIINodeVariable(name, 0, -1) })
		valid = !valid
		ell := false
		if !valid {
			pn, _ := safely(func() { ast.NewListNode(ast.NewASCIINode(""), name) })
			ell = !pn
		}
		return fmt.Sprintf("%v %v", valid, ell), true
	case "runes":
		s := string(p.hexb())
		var out []string
		for _, r := range s {
			out = append(out, fmt.Sprintf("%d:%v", r, unicode.IsSpace(r)))
		}
		return strings.Join(out, " "), true
	}
	return "", false
}

// oracleForOp re-evaluates the intrinsic oracle of a property for a recorded operation.
func oracleForOp(prop, op string) string { return "" }

