package main

import (
	"fmt"
	"strings"
	"unicode"

	"github.com/wolimst/lib-secs2-hsms-go/pkg/ast"
)

func registerMore(add func(PropDef)) {}

// implEvalMore: operations added after the first round.
func implEvalMore(t []string) (string, bool) {
	p := &toks{t: t[1:]}
	switch t[0] {
	case "isname":
		name := string(p.hexb())
		valid, _ := safely(func() { ast.NewASCIINodeVariable(name, 0, -1) })
		valid = !valid
		ell := false
		if !valid {
			pn, _ := safely(func() { ast.NewListNode(ast.NewASCIINode(""), name) })
			ell = !pn
		}
		return fmt.Sprintf("%v %v", valid, ell), true
	case "runes":
		s := string(p.hexb())
		var out []string
		for _, r := range s {
			out = append(out, fmt.Sprintf("%d:%v", r, unicode.IsSpace(r)))
		}
		return strings.Join(out, " "), true
	}
	return "", false
}

// oracleForOp re-evaluates the intrinsic oracle of a property for a recorded operation.
func oracleForOp(prop, op string) string { return "" }

