package main

import (
	"fmt"
	"strings"
	"unicode"

	"github.com/wolimst/lib-secs2-hsms-go/pkg/ast"
)

func registerMore(add func(PropDef)) {
	add(PropDef{ID: "C09", Suites: func() []Suite { return suiteC09(nil) },
		Rule: "templates of all node kinds (nesting <= 4, 35% variable slots, no ellipsis) x assignments (each variable skipped with probability 1/4, typed Go values of every accepted kind, 25% of the cases with out-of-domain or wrongly typed values, unknown keys) x splits of the assignment into 2-4 successive fills; oracles on the real code: filled = directly constructed (values substituted in the template description and built through the factories), several steps = one step; every operation also compared with the Lean model; messages: fill + producers in both orders vs NewHSMSDataMessage"})
	add(PropDef{ID: "C04", Level: "proof", Suites: func() []Suite { return suiteC04(nil) },
		Rule: "messages expressible in SML (all header variants, names incl. non-ASCII and invalid UTF-8, item trees with values, variables, length-constrained ASCII variables, nested ellipses) built through the factories, printed, re-parsed: one message, no diagnostics, same fields/variables/printed form, same bytes once completed; every ASCII character 0..127 in four string contexts; accepted random-layout texts: printed form is a fixed point; every text also compared with the Lean lexer+parser model"})
	add(PropDef{ID: "C05", Suites: func() []Suite { return suiteC05(nil) },
		Rule: "texts rendered from item descriptions with varied literal forms (decimal/hex/octal/leading-0 octal/binary with sign and letter case, floats as e/f/g/exact 40-digit forms, strings split into quoted runs and character codes): parsed values must equal the described values (built independently through the factories); one unrepresentable literal (out of range, wrong syntax, wrong type, non-ASCII) in each of three positions for all item types: at least one error and no message; results also compared with the Lean model (decisive on messages and error kinds)"})
	add(PropDef{ID: "C06", Suites: func() []Suite { return suiteC06(nil) },
		Rule: "hostile inputs parsed in an isolated worker process (6 GiB address-space limit, 20 s watchdog): token soups over the SML vocabulary with exotic white space / invalid UTF-8 / huge numbers and sizes, byte-level mutations of valid texts, random bytes, deep nesting and the known hostile sizes; outcome must be a normal return with errors => no messages and every diagnostic position inside the input; results compared with the Lean model"})
	add(PropDef{ID: "C08", Level: "proof", Suites: func() []Suite { return suiteC08(nil) },
		Rule: "token sequences (valid messages, mutated invalid ones, several messages) rendered under a plain and a random layout (blank kinds and amounts, CRLF, comments with arbitrary bytes incl. UTF-8 tails 0x85/0xA0, \\v, \\f, keyword/prefix case): messages equal and diagnostics equal after mapping positions to the tokens they point at; comments with random bytes appended to any line of printed messages; both renderings compared with the Lean model"})
	add(PropDef{ID: "C15", Suites: func() []Suite { return suiteC15(nil) },
		Rule: "all four declaration forms x 14 item types x (lower, upper, count) in [0,4]^3 (thorough [0,6]^3, quick a random third): accepted iff within bounds, error at the declaration otherwise; huge and overflowing bounds against big-integer arithmetic; ASCII variables in all four forms: bounds printed back, fills of every length 0..max+1 accepted iff inside; compared with the Lean model"})
	add(PropDef{ID: "C19", Level: "proof", Suites: func() []Suite { return suiteC19(nil) },
		Rule: "2-3 accepted texts (printed or randomly laid out, deliberately reusing variable names and ellipses) joined by separators (nothing, blanks, line breaks, comments): same messages in order as parsing each alone, no errors; compared with the Lean model"})
	add(PropDef{ID: "C07", Suites: func() []Suite { return suiteC07(nil) },
		Rule: "byte strings decoded in an isolated worker process (8 GiB address-space limit, 30 s watchdog) with runtime.MemStats.TotalAlloc measured per call: short inputs declaring huge lengths for all 14 formats x 1/2/3 length bytes x nesting depths 0..100 (thorough ..1000) x three tails; chains of list headers declaring huge counts; valid messages, their structured corruptions, random bytes; 1 KB / 64 KB / 1 MB strings complete and truncated; bound checked: allocated <= 1024*len + 65536 (worst measured on the unchanged tree: 324 B per input byte); inputs up to 4 KB are also compared with the Lean decoder"})
	add(PropDef{ID: "C11", Level: "proof", Suites: func() []Suite { return suiteC11(nil) },
		Rule: "random histories (10-60 steps) over a growing pool of items, data messages and control messages: factories fed caller-held slices that are overwritten afterwards, producers, accessors and encoders whose results are overwritten or sorted, fills whose map is overwritten, responses built from pooled requests, decoding from a buffer with spare capacity that is then overwritten, SML parsing; after every step every pooled object is compared with its first snapshot (String, ToBytes, Variables, Size, header accessors)"})
	add(PropDef{ID: "C17", Level: "other", Suites: func() []Suite { return suiteC17(nil) },
		Rule: "race-detector build of the harness: 8 goroutines x 60 calls x 6 rounds per run on shared items and messages (print, encode, list, fill incl. ellipsis expansion minting new names, producers) and concurrent sml.Parse / hsms.Parse; every concurrent result compared with the same call alone; any DATA RACE report, fatal error or differing result is a violation"})
	add(PropDef{ID: "C10", Suites: func() []Suite { return suiteC10(nil) },
		Rule: "list templates with nested ellipses (depth <= 3, counts 0..3; deeper and counts up to 12 in a second suite) x partial or total assignments of repeat counts; result compared with the Lean model of the expansion; oracles on the real code: count law (n+1)*p + (len-p-1), no duplicate names, remaining ellipses renumbered in order, every generated name addressable by a later fill"})
}

// implEvalMore: operations added after the first round.
func implEvalMore(t []string) (string, bool) {
	p := &toks{t: t[1:]}
	switch t[0] {
	case "isname":
		name := string(p.hexb())
		valid, _ := safely(func() { ast.NewASCIINodeVariable(name, 0, -1) })
		valid = !valid
		ell := false
		if !valid {
			pn, _ := safely(func() { ast.NewListNode(ast.NewASCIINode(""), name) })
			ell = !pn
		}
		return fmt.Sprintf("%v %v", valid, ell), true
	case "sml":
		return implSML(string(p.hexb())), true
	case "runes":
		s := string(p.hexb())
		var out []string
		for _, r := range s {
			out = append(out, fmt.Sprintf("%d:%v", r, unicode.IsSpace(r)))
		}
		return strings.Join(out, " "), true
	}
	return "", false
}

// oracleForOp re-evaluates the intrinsic oracle of a property for a recorded operation.
func oracleForOp(prop, op string) string { return "" }

