package main

import (
	"crypto/sha1"
	"encoding/hex"
	"encoding/json"
	"fmt"
	"math/rand"
	"os"
	"path/filepath"
	"sort"
	"strings"
	"time"
)

// Case is one explored input. Op (when non-empty) is interpreted by both sides and the two
// results compared (correspondence). Decisive means that the model's answer is the answer
// the property's specification determines (Lean proves model = spec), so a difference is a
// concrete violation. Oracle is the verdict of an intrinsic oracle evaluated on the real
// code alone (empty = holds).
type Case struct {
	Suite      string   `json:"suite"`
	Op         string   `json:"op,omitempty"`
	Impl       string   `json:"impl,omitempty"`
	Model      string   `json:"model,omitempty"`
	Decisive   bool     `json:"decisive,omitempty"`
	Oracle     string   `json:"oracle,omitempty"`
	Detail     string   `json:"detail,omitempty"` // human-readable rendering of the input
	Nontrivial bool     `json:"-"`
	Tags       []string `json:"-"`
	cmpKeys    string   // result keys whose values the specification determines (decisive cases)
}

type Ctx struct {
	R     *rand.Rand
	Tier  string
	Seed  int64
	Scale int // 1 quick, larger for thorough
	Prop  string
}

// N scales a quick-tier budget.
func (c *Ctx) N(quick int) int { return quick * c.Scale }

type Suite struct {
	Name string
	Gen  func(c *Ctx) []Case
}

type Finding struct {
	Property  string `json:"property"`
	Status    string `json:"status"` // known | fixed
	Suite     string `json:"suite,omitempty"`
	Signature string `json:"signature"` // exact op line, or a named predicate
	Commit    string `json:"commit,omitempty"`
	What      string `json:"what"`
}

func loadFindings() []Finding {
	var fs []Finding
	b, err := os.ReadFile("/verif/KNOWN_FINDINGS.json")
	if err != nil {
		return nil
	}
	var wrap struct {
		Findings []Finding `json:"findings"`
	}
	if json.Unmarshal(b, &wrap) == nil {
		fs = wrap.Findings
	}
	return fs
}

type Report struct {
	Prop        string
	Cases       int
	Distinct    map[string]bool
	Tags        map[string]int
	Samples     []string
	Violations  []Case // oracle failures and decisive mismatches
	Mismatches  []Case // non-decisive correspondence mismatches
	Known       []string
	SuiteCounts map[string]int
}

func hashKey(s string) string {
	h := sha1.Sum([]byte(s))
	return hex.EncodeToString(h[:8])
}

// evalCases fills Impl (when the suite left it empty) and Model for all cases.
func evalCases(d *Driver, cases []Case) error {
	ops := []string{}
	idx := []int{}
	for i := range cases {
		if cases[i].Op == "" {
			continue
		}
		if cases[i].Impl == "" {
			cases[i].Impl = implEval(cases[i].Op)
		}
		ops = append(ops, cases[i].Op)
		idx = append(idx, i)
	}
	if f := os.Getenv("VERIF_DUMP_OPS"); f != "" {
		fh, _ := os.OpenFile(f, os.O_APPEND|os.O_CREATE|os.O_WRONLY, 0o644)
		fh.WriteString(strings.Join(ops, "\n") + "\n")
		fh.Close()
	}
	res, err := d.Query(ops)
	if err != nil {
		return err
	}
	for k, i := range idx {
		cases[i].Model = res[k]
	}
	return nil
}

func runSuites(c *Ctx, d *Driver, suites []Suite, rep *Report) error {
	for _, s := range suites {
		t0 := time.Now()
		cases := s.Gen(c)
		if os.Getenv("VERIF_DEBUG") != "" {
			fmt.Fprintf(os.Stderr, "suite %s: generated %d cases in %.1fs\n", s.Name, len(cases), time.Since(t0).Seconds())
		}
		for i := range cases {
			if cases[i].Suite == "" {
				cases[i].Suite = s.Name
			}
		}
		if err := evalCases(d, cases); err != nil {
			return err
		}
		if os.Getenv("VERIF_DEBUG") != "" {
			fmt.Fprintf(os.Stderr, "suite %s: evaluated in %.1fs\n", s.Name, time.Since(t0).Seconds())
		}
		for _, cs := range cases {
			rep.Cases++
			rep.SuiteCounts[cs.Suite]++
			key := cs.Op
			if key == "" {
				key = cs.Detail
			}
			if cs.Nontrivial {
				rep.Distinct[hashKey(cs.Suite+"|"+key)] = true
			}
			for _, t := range cs.Tags {
				rep.Tags[t]++
			}
			if len(rep.Samples) < 12 && rep.SuiteCounts[cs.Suite] <= 2 {
				smp := cs.Suite + ": " + key
				if len(smp) > 300 {
					smp = smp[:300] + "…"
				}
				rep.Samples = append(rep.Samples, smp)
			}
			if cs.Oracle != "" {
				rep.Violations = append(rep.Violations, cs)
				continue
			}
			if cs.Op != "" && cs.Impl != cs.Model && !(strings.HasPrefix(cs.cmpKeys, "=") && project(cs.Impl, cs.cmpKeys) == project(cs.Model, cs.cmpKeys)) {
				if cs.Model == "BADOP" || cs.Impl == "BADOP" {
					return fmt.Errorf("harness bug: BADOP for %q (impl=%q model=%q)", cs.Op, cs.Impl, cs.Model)
				}
				if cs.Decisive && project(cs.Impl, cs.cmpKeys) != project(cs.Model, cs.cmpKeys) {
					rep.Violations = append(rep.Violations, cs)
				} else {
					rep.Mismatches = append(rep.Mismatches, cs)
				}
			}
		}
	}
	return nil
}

func writeReplay(prop string, cs Case, note string, seed int64, tier string) string {
	os.MkdirAll("/verif/replays", 0o755)
	body := map[string]interface{}{
		"property": prop, "suite": cs.Suite, "op": cs.Op, "impl": cs.Impl, "model": cs.Model,
		"decisive": cs.Decisive, "oracle": cs.Oracle, "detail": cs.Detail, "note": note,
		"seed": seed, "tier": tier,
		"how_to_replay": "cd /verif && bin/check --replay <this file>",
	}
	b, _ := json.MarshalIndent(body, "", " ")
	name := fmt.Sprintf("/verif/replays/%s-%s.json", prop, hashKey(cs.Suite+cs.Op+cs.Detail+cs.Oracle+note))
	os.WriteFile(name, b, 0o644)
	return name
}

func firstDiff(a, b string) string {
	fa, fb := strings.Fields(a), strings.Fields(b)
	for i := 0; i < len(fa) && i < len(fb); i++ {
		if fa[i] != fb[i] {
			ka, va, _ := strings.Cut(fa[i], "=")
			kb, vb, _ := strings.Cut(fb[i], "=")
			if ka == kb && len(va) > 40 {
				da, e1 := hex.DecodeString(va)
				db, e2 := hex.DecodeString(vb)
				if e1 == nil && e2 == nil {
					j := 0
					for j < len(da) && j < len(db) && da[j] == db[j] {
						j++
					}
					lo := j - 20
					if lo < 0 {
						lo = 0
					}
					hiA, hiB := j+20, j+20
					if hiA > len(da) {
						hiA = len(da)
					}
					if hiB > len(db) {
						hiB = len(db)
					}
					return fmt.Sprintf("%s differs at byte %d: impl %q model %q", ka, j, da[lo:hiA], db[lo:hiB])
				}
			}
			return fmt.Sprintf("field %d: impl %.120s model %.120s", i, fa[i], fb[i])
		}
	}
	return fmt.Sprintf("impl %.160s | model %.160s", a, b)
}

type Evidence struct {
	PropertyID  string                 `json:"property_id"`
	Tier        string                 `json:"tier"`
	Seed        int64                  `json:"seed"`
	Level       string                 `json:"level"`
	Coverage    map[string]interface{} `json:"coverage"`
	Assumptions []string               `json:"assumptions"`
	WallS       float64                `json:"wall_s"`
	Violations  int                    `json:"violations"`
}

// PropDef describes how one property is decided.
type PropDef struct {
	ID          string
	Level       string // proof | other
	Suites      func() []Suite
	Theorems    []string // fully qualified names audited with #print axioms
	Module      string   // Lean module holding them
	Trusted     []string
	Assumptions []string
	Rule        string
}

func sortedKeys(m map[string]int) []string {
	ks := make([]string, 0, len(m))
	for k := range m {
		ks = append(ks, k)
	}
	sort.Strings(ks)
	return ks
}

// leanStatus is produced by bin/check before the harness runs: which obligations exist and
// which were discharged (built + axioms audited).
type LeanStatus struct {
	Built       bool              `json:"built"`
	Obligations int               `json:"obligations"`
	Discharged  int               `json:"discharged"`
	Failed      []string          `json:"failed"`
	Axioms      map[string]string `json:"axioms"`
	CheckerCmd  string            `json:"checker_cmd"`
	Log         string            `json:"log"`
}

func loadLeanStatus(path string) *LeanStatus {
	b, err := os.ReadFile(path)
	if err != nil {
		return nil
	}
	var s LeanStatus
	if json.Unmarshal(b, &s) != nil {
		return nil
	}
	return &s
}

func runCheck(def PropDef, tier string, seed int64, leanStatusPath string) int {
	start := time.Now()
	scale := 1
	if tier == "thorough" {
		scale = 20
	}
	d, err := StartDriver()
	if err != nil {
		fmt.Println("cannot start model driver:", err)
		return 2
	}
	defer d.Close()
	rep := &Report{Prop: def.ID, Distinct: map[string]bool{}, Tags: map[string]int{}, SuiteCounts: map[string]int{}}
	ctx := &Ctx{R: rand.New(rand.NewSource(seed)), Tier: tier, Seed: seed, Scale: scale, Prop: def.ID}

	// corpus first
	corpus := loadCorpus(def.ID)
	if len(corpus) > 0 {
		if err := runSuites(ctx, d, []Suite{{Name: "corpus", Gen: func(*Ctx) []Case { return corpus }}}, rep); err != nil {
			fmt.Println("ERROR:", err)
			return 2
		}
	}
	if err := runSuites(ctx, d, def.Suites(), rep); err != nil {
		fmt.Println("ERROR:", err)
		return 2
	}

	ls := loadLeanStatus(leanStatusPath)
	leanBroken := ls == nil || !ls.Built || ls.Discharged != ls.Obligations

	// If the proof obligations or the correspondence broke but no concrete violation has been
	// seen yet, widen the search before giving the verdict.
	if os.Getenv("VERIF_DEBUG") != "" {
		for i, v := range rep.Mismatches {
			if i >= 8 {
				break
			}
			fmt.Fprintf(os.Stderr, "MISMATCH %s: %s\n   op: %.300s\n", v.Suite, firstDiff(v.Impl, v.Model), v.Op)
		}
	}
	if len(rep.Violations) == 0 && (leanBroken || len(rep.Mismatches) > 0) && tier != "thorough" && os.Getenv("VERIF_NOWIDEN") == "" {
		fmt.Printf("note: %d correspondence mismatches, lean ok=%v: widening the search for a failing input\n", len(rep.Mismatches), !leanBroken)
		for k := int64(1); k <= 2 && len(rep.Violations) == 0; k++ {
			wctx := &Ctx{R: rand.New(rand.NewSource(seed*1000003 + k)), Tier: "quick", Seed: seed, Scale: 3, Prop: def.ID}
			if err := runSuites(wctx, d, def.Suites(), rep); err != nil {
				fmt.Println("ERROR:", err)
				return 2
			}
		}
	}

	findings := loadFindings()
	exit := 0
	reported := 0
	seenSig := map[string]bool{}
	for _, v := range rep.Violations {
		sig := v.Suite + "|" + v.Op + "|" + v.Detail
		if seenSig[sig] {
			continue
		}
		seenSig[sig] = true
		known := false
		for _, f := range findings {
			if f.Property == def.ID && f.Status == "known" && (f.Signature == v.Op || f.Signature == v.Detail) {
				fmt.Printf("KNOWN-FINDING: property=%s %s\n", def.ID, f.What)
				rep.Known = append(rep.Known, f.What)
				known = true
			}
		}
		if known {
			continue
		}
		exit = 1
		if reported < 5 {
			what := v.Oracle
			if what == "" {
				what = "implementation differs from the specification-determined answer: " + firstDiff(v.Impl, v.Model)
			}
			path := writeReplay(def.ID, v, what, seed, tier)
			fmt.Printf("VIOLATION property=%s replay=%s\n", def.ID, path)
			fmt.Printf("  suite=%s %s\n  input: %.300s\n", v.Suite, what, v.Op+v.Detail)
		}
		reported++
	}
	if exit == 0 && len(rep.Mismatches) > 0 {
		v := rep.Mismatches[0]
		path := writeReplay(def.ID, v, "correspondence broken (model no longer describes the code): "+firstDiff(v.Impl, v.Model)+fmt.Sprintf("; %d mismatching operations in total; no input violating the property itself was found", len(rep.Mismatches)), seed, tier)
		fmt.Printf("VIOLATION property=%s replay=%s no-failing-input-found\n", def.ID, path)
		fmt.Printf("  correspondence suite=%s %s\n  input: %.300s\n", v.Suite, firstDiff(v.Impl, v.Model), v.Op)
		exit = 1
	}
	if exit == 0 && leanBroken {
		failed := "lean build did not run"
		if ls != nil {
			failed = strings.Join(ls.Failed, ", ") + " " + ls.Log
		}
		cs := Case{Suite: "lean", Detail: "proof obligations not discharged: " + failed}
		path := writeReplay(def.ID, cs, "theorem(s) no longer check: "+failed, seed, tier)
		fmt.Printf("VIOLATION property=%s replay=%s no-failing-input-found\n", def.ID, path)
		fmt.Printf("  %s\n", cs.Detail)
		exit = 1
	}

	// evidence
	cov := map[string]interface{}{
		"evaluations":         rep.Cases,
		"distinct_nontrivial": len(rep.Distinct),
		"rule":                def.Rule,
		"samples":             rep.Samples,
		"suite_counts":        rep.SuiteCounts,
		"input_distribution":  rep.Tags,
		"model_operations":    d.N,
		"trusted_base":        def.Trusted,
		"correspondence_mismatches": len(rep.Mismatches),
		"known_findings_hit":  append([]string{}, rep.Known...),
	}
	if ls != nil {
		cov["obligations"] = ls.Obligations
		cov["discharged"] = ls.Discharged
		cov["checker_cmd"] = ls.CheckerCmd
		cov["axioms"] = ls.Axioms
		ths := []string{}
		for k := range ls.Axioms {
			ths = append(ths, k)
		}
		sort.Strings(ths)
		cov["theorems"] = ths
	} else {
		cov["obligations"] = len(def.Theorems)
		cov["discharged"] = 0
		cov["checker_cmd"] = "bin/check (lean status missing)"
	}
	if def.Level == "other" {
		cov["explanation"] = def.Rule
	}
	assumptions := append([]string{
		"the Lean model describes the code as far as the correspondence run explored and the regenerated facts pin it",
		"Go: a deferred recover catches every run-time panic; integer conversions wrap; map iteration order is arbitrary",
		"library behaviour taken as parameters (strconv float formatting/parsing, unicode tables) is cross-checked against the Go standard library, not proved",
	}, def.Assumptions...)
	def.Assumptions = assumptions
	ev := Evidence{PropertyID: def.ID, Tier: tier, Seed: seed, Level: def.Level, Coverage: cov,
		Assumptions: def.Assumptions, WallS: time.Since(start).Seconds(), Violations: reported}
	if exit == 1 && reported == 0 {
		ev.Violations = 1
	}
	// evidence of the tree under test: /repo's goes to /verif/evidence; a run against another
	// checkout (VERIF_REPO: seeded changes, the pinned tree) never overwrites it
	evDir := "/verif/evidence"
	if r := os.Getenv("VERIF_REPO"); r != "" && filepath.Clean(r) != "/repo" {
		evDir = "/verif/.work/evidence-other-tree"
	}
	os.MkdirAll(evDir, 0o755)
	b, _ := json.MarshalIndent(ev, "", " ")
	os.WriteFile(filepath.Join(evDir, def.ID+".json"), b, 0o644)
	fmt.Printf("%s %s: %d cases (%d distinct non-trivial), %d model ops, %d violations, %d mismatches, lean %v, %.1fs\n",
		def.ID, tier, rep.Cases, len(rep.Distinct), d.N, reported, len(rep.Mismatches), !leanBroken, time.Since(start).Seconds())
	return exit
}

// corpus: /verif/corpus/<prop>.ops — one op line per line; "#" comments; "!" prefix = decisive.
func loadCorpus(prop string) []Case {
	b, err := os.ReadFile("/verif/corpus/" + prop + ".ops")
	if err != nil {
		return nil
	}
	var out []Case
	for _, l := range strings.Split(string(b), "\n") {
		l = strings.TrimSpace(l)
		if l == "" || strings.HasPrefix(l, "#") {
			continue
		}
		dec := false
		if strings.HasPrefix(l, "!") {
			dec = true
			l = strings.TrimSpace(l[1:])
		}
		cs := Case{Suite: "corpus", Op: l, Decisive: dec, Nontrivial: true}
		cs.Oracle = oracleForOp(prop, l)
		out = append(out, cs)
	}
	return out
}
