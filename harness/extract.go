package main

import (
	"fmt"
	"go/ast"
	"go/constant"
	"go/importer"
	"go/parser"
	"go/token"
	"go/types"
	"os"
	"path/filepath"
	"sort"
	"strconv"
	"strings"
)

// The fact extractor (DESIGN.md section 2.3): type-checks the three packages of the tree under
// test and writes the constants, tables, dispatch and aliasing/purity facts as Lean
// definitions. Props/*.lean contain obligations over these definitions, so a change of a
// table, a bound, a regexp or of the aliasing discipline breaks a proof obligation.

type pkgInfo struct {
	fset  *token.FileSet
	files []*ast.File
	info  *types.Info
	pkg   *types.Package
}

func loadPkg(repo, rel string) (*pkgInfo, error) {
	fset := token.NewFileSet()
	dir := filepath.Join(repo, rel)
	pkgs, err := parser.ParseDir(fset, dir, func(fi os.FileInfo) bool {
		return !strings.HasSuffix(fi.Name(), "_test.go") && !strings.HasPrefix(fi.Name(), "verif_")
	}, parser.ParseComments)
	if err != nil {
		return nil, err
	}
	var files []*ast.File
	for _, p := range pkgs {
		names := make([]string, 0, len(p.Files))
		for n := range p.Files {
			names = append(names, n)
		}
		sort.Strings(names)
		for _, n := range names {
			files = append(files, p.Files[n])
		}
	}
	info := &types.Info{Types: map[ast.Expr]types.TypeAndValue{}, Defs: map[*ast.Ident]types.Object{}, Uses: map[*ast.Ident]types.Object{}, Selections: map[*ast.SelectorExpr]*types.Selection{}}
	conf := types.Config{Importer: importer.ForCompiler(fset, "source", nil), Error: func(error) {}}
	pkg, _ := conf.Check(rel, fset, files, info)
	return &pkgInfo{fset, files, info, pkg}, nil
}

func (p *pkgInfo) funcDecl(recv, name string) *ast.FuncDecl {
	for _, f := range p.files {
		for _, d := range f.Decls {
			fd, ok := d.(*ast.FuncDecl)
			if !ok || fd.Name.Name != name {
				continue
			}
			r := ""
			if fd.Recv != nil && len(fd.Recv.List) > 0 {
				r = recvTypeName(fd.Recv.List[0].Type)
			}
			if r == recv {
				return fd
			}
		}
	}
	return nil
}

func recvTypeName(e ast.Expr) string {
	switch t := e.(type) {
	case *ast.StarExpr:
		return recvTypeName(t.X)
	case *ast.Ident:
		return t.Name
	}
	return "?"
}

func (p *pkgInfo) constInt(e ast.Expr) (int64, bool) {
	tv, ok := p.info.Types[e]
	if !ok || tv.Value == nil {
		return 0, false
	}
	v, exact := constant.Int64Val(constant.ToInt(tv.Value))
	return v, exact
}

func (p *pkgInfo) constStr(e ast.Expr) (string, bool) {
	tv, ok := p.info.Types[e]
	if !ok || tv.Value == nil || tv.Value.Kind() != constant.String {
		return "", false
	}
	return constant.StringVal(tv.Value), true
}

// mapLiteral returns the entries of the first map[string]int composite literal assigned to a
// variable of the given name inside fn.
func (p *pkgInfo) mapLiteral(fn *ast.FuncDecl, varName string) map[string]int64 {
	var out map[string]int64
	ast.Inspect(fn, func(n ast.Node) bool {
		as, ok := n.(*ast.AssignStmt)
		if !ok || len(as.Lhs) != 1 || len(as.Rhs) != 1 {
			return true
		}
		id, ok := as.Lhs[0].(*ast.Ident)
		if !ok || id.Name != varName {
			return true
		}
		cl, ok := as.Rhs[0].(*ast.CompositeLit)
		if !ok {
			return true
		}
		out = map[string]int64{}
		for _, el := range cl.Elts {
			kv := el.(*ast.KeyValueExpr)
			k, _ := p.constStr(kv.Key)
			v, _ := p.constInt(kv.Value)
			out[k] = v
		}
		return false
	})
	return out
}

func leanStr(s string) string {
	var sb strings.Builder
	sb.WriteByte('"')
	for _, b := range []byte(s) {
		switch {
		case b == '"' || b == '\\':
			sb.WriteByte('\\')
			sb.WriteByte(b)
		case b >= 32 && b < 127:
			sb.WriteByte(b)
		default:
			fmt.Fprintf(&sb, "\\x%02x", b)
		}
	}
	sb.WriteByte('"')
	return sb.String()
}

func leanStrList(xs []string) string {
	q := make([]string, len(xs))
	for i, x := range xs {
		q[i] = leanStr(x)
	}
	return "[" + strings.Join(q, ", ") + "]"
}

func leanIntList(xs []int64) string {
	q := make([]string, len(xs))
	for i, x := range xs {
		q[i] = strconv.FormatInt(x, 10)
	}
	return "[" + strings.Join(q, ", ") + "]"
}

var typeNameOrder = []string{"list", "binary", "boolean", "ascii", "i8", "i1", "i2", "i4", "f8", "f4", "u8", "u1", "u2", "u4"}

func tableInOrder(m map[string]int64) ([]int64, bool) {
	if len(m) != len(typeNameOrder) {
		return nil, false
	}
	out := make([]int64, len(typeNameOrder))
	for i, k := range typeNameOrder {
		v, ok := m[k]
		if !ok {
			return nil, false
		}
		out[i] = v
	}
	return out, true
}

// constsWithPrefix lists package-level integer constants whose name starts with prefix.
func (p *pkgInfo) constsWithPrefix(prefix string) []string {
	var out []string
	sc := p.pkg.Scope()
	for _, n := range sc.Names() {
		if c, ok := sc.Lookup(n).(*types.Const); ok && strings.HasPrefix(n, prefix) {
			v, _ := constant.Int64Val(constant.ToInt(c.Val()))
			out = append(out, fmt.Sprintf("(%s, %d)", leanStr(n), v))
		}
	}
	return out
}

func exprString(fset *token.FileSet, e ast.Node) string {
	var sb strings.Builder
	ast.Inspect(e, func(n ast.Node) bool {
		switch x := n.(type) {
		case *ast.Ident:
			sb.WriteString(x.Name + " ")
		case *ast.BasicLit:
			sb.WriteString(x.Value + " ")
		}
		return true
	})
	return strings.TrimSpace(sb.String())
}

// rootIdent returns the identifier at the root of a selector/index chain.
func rootIdent(e ast.Expr) *ast.Ident {
	for {
		switch x := e.(type) {
		case *ast.Ident:
			return x
		case *ast.SelectorExpr:
			e = x.X
		case *ast.IndexExpr:
			e = x.X
		case *ast.StarExpr:
			e = x.X
		case *ast.ParenExpr:
			e = x.X
		case *ast.SliceExpr:
			e = x.X
		default:
			return nil
		}
	}
}

func isSliceOrMap(t types.Type) bool {
	if t == nil {
		return false
	}
	switch t.Underlying().(type) {
	case *types.Slice, *types.Map:
		return true
	}
	return false
}

// scratch types are per-call mutable state that never escapes the call that created them.
var scratchTypes = map[string]bool{"fillState": true, "lexer": true, "parser": true}

type aliasFacts struct {
	pkgVars        []string
	goStmts        int
	badImports     []string
	receiverWrites []string // writes through a receiver/parameter outside scratch types
	exposes        []string // accessor returns a slice/map field as is
	storesParam    []string // struct literal stores a slice/map parameter as is
	sharesField    []string // struct literal stores a slice/map field of another object
	unknownStores  []string
}

func (p *pkgInfo) collectAlias(pkgName string, af *aliasFacts) {
	for _, f := range p.files {
		for _, im := range f.Imports {
			path, _ := strconv.Unquote(im.Path.Value)
			if path == "sync" || path == "unsafe" || path == "reflect" || path == "sync/atomic" {
				af.badImports = append(af.badImports, pkgName+":"+path)
			}
		}
		for _, d := range f.Decls {
			switch dd := d.(type) {
			case *ast.GenDecl:
				if dd.Tok == token.VAR {
					for _, s := range dd.Specs {
						for _, n := range s.(*ast.ValueSpec).Names {
							af.pkgVars = append(af.pkgVars, pkgName+"."+n.Name)
						}
					}
				}
			case *ast.FuncDecl:
				p.funcAlias(pkgName, dd, af)
			}
		}
	}
}

func (p *pkgInfo) funcAlias(pkgName string, fd *ast.FuncDecl, af *aliasFacts) {
	if fd.Body == nil {
		return
	}
	recvName, recvType := "", ""
	if fd.Recv != nil && len(fd.Recv.List) > 0 {
		recvType = recvTypeName(fd.Recv.List[0].Type)
		if len(fd.Recv.List[0].Names) > 0 {
			recvName = fd.Recv.List[0].Names[0].Name
		}
	}
	fname := pkgName + "." + fd.Name.Name
	if recvType != "" {
		fname = pkgName + "." + recvType + "." + fd.Name.Name
	}
	params := map[string]bool{}
	for _, fl := range fd.Type.Params.List {
		for _, n := range fl.Names {
			params[n.Name] = true
		}
	}
	// locals known to be freshly allocated in this function
	fresh := map[string]bool{}
	isFreshExpr := func(e ast.Expr) bool {
		switch x := e.(type) {
		case *ast.CallExpr:
			if id, ok := x.Fun.(*ast.Ident); ok && id.Name == "make" {
				return true
			}
			if id, ok := x.Fun.(*ast.Ident); ok && id.Name == "append" && len(x.Args) > 0 {
				if cl, ok := x.Args[0].(*ast.CompositeLit); ok && len(cl.Elts) == 0 {
					return true
				}
			}
		case *ast.CompositeLit:
			return true
		}
		return false
	}
	ast.Inspect(fd.Body, func(n ast.Node) bool {
		switch x := n.(type) {
		case *ast.GoStmt:
			af.goStmts++
		case *ast.ValueSpec:
			for i, id := range x.Names {
				if i < len(x.Values) && isFreshExpr(x.Values[i]) {
					fresh[id.Name] = true
				}
			}
		case *ast.AssignStmt:
			for i, lhs := range x.Lhs {
				if id, ok := lhs.(*ast.Ident); ok {
					if i < len(x.Rhs) && isFreshExpr(x.Rhs[i]) && (x.Tok == token.DEFINE || x.Tok == token.ASSIGN) {
						fresh[id.Name] = true
					}
					continue
				}
				// write through a selector/index: whose memory is it?
				root := rootIdent(lhs)
				if root == nil {
					continue
				}
				isRecvOrParam := root.Name == recvName || params[root.Name]
				if !isRecvOrParam {
					continue
				}
				owner := recvType
				if params[root.Name] {
					if obj := p.info.Uses[root]; obj != nil {
						owner = strings.TrimPrefix(strings.TrimPrefix(obj.Type().String(), "*"), pkgName+".")
						if i := strings.LastIndex(owner, "."); i >= 0 {
							owner = owner[i+1:]
						}
					}
				}
				if scratchTypes[owner] {
					continue
				}
				af.receiverWrites = append(af.receiverWrites, fname+": "+exprString(p.fset, lhs))
			}
		case *ast.IncDecStmt:
			root := rootIdent(x.X)
			if root != nil && (root.Name == recvName || params[root.Name]) && !scratchTypes[recvType] {
				if _, isIdent := x.X.(*ast.Ident); !isIdent {
					af.receiverWrites = append(af.receiverWrites, fname+": "+exprString(p.fset, x.X))
				}
			}
		case *ast.ReturnStmt:
			for _, r := range x.Results {
				if sel, ok := r.(*ast.SelectorExpr); ok {
					if root := rootIdent(sel); root != nil && root.Name == recvName && recvName != "" && !scratchTypes[recvType] {
						if isSliceOrMap(p.info.TypeOf(sel)) {
							af.exposes = append(af.exposes, fname+": "+exprString(p.fset, sel))
						}
					}
				}
			}
		case *ast.CompositeLit:
			// struct literal of one of the immutable types
			tn := ""
			switch t := x.Type.(type) {
			case *ast.Ident:
				tn = t.Name
			}
			if tn == "" || scratchTypes[tn] {
				return true
			}
			st, ok := p.info.TypeOf(x).Underlying().(*types.Struct)
			if !ok {
				return true
			}
			for i, el := range x.Elts {
				var val ast.Expr
				fieldName := ""
				if kv, ok := el.(*ast.KeyValueExpr); ok {
					val = kv.Value
					fieldName = kv.Key.(*ast.Ident).Name
				} else {
					val = el
					if i < st.NumFields() {
						fieldName = st.Field(i).Name()
					}
				}
				if !isSliceOrMap(p.info.TypeOf(val)) {
					continue
				}
				desc := fname + ": " + tn + "." + fieldName
				switch v := val.(type) {
				case *ast.Ident:
					switch {
					case params[v.Name]:
						af.storesParam = append(af.storesParam, desc+" = param "+v.Name)
					case fresh[v.Name]:
						// fine: fresh allocation
					default:
						af.unknownStores = append(af.unknownStores, desc+" = "+v.Name)
					}
				case *ast.SelectorExpr:
					af.sharesField = append(af.sharesField, desc+" = "+exprString(p.fset, v))
				default:
					if !isFreshExpr(val) {
						af.unknownStores = append(af.unknownStores, desc+" = "+exprString(p.fset, val))
					}
				}
			}
		}
		return true
	})
}

func extractFacts(out string, repo string) error {
	astP, err := loadPkg(repo, "pkg/ast")
	if err != nil {
		return err
	}
	hsmsP, err := loadPkg(repo, "pkg/parser/hsms")
	if err != nil {
		return err
	}
	smlP, err := loadPkg(repo, "pkg/parser/sml")
	if err != nil {
		return err
	}
	var sb strings.Builder
	w := func(f string, a ...interface{}) { fmt.Fprintf(&sb, f+"\n", a...) }
	w("/- GENERATED by `secsharness extract` from the source tree under test. Do not edit. -/")
	w("namespace Secs.Generated")

	// 1. MAX_BYTE_SIZE
	if c, ok := astP.pkg.Scope().Lookup("MAX_BYTE_SIZE").(*types.Const); ok {
		v, _ := constant.Int64Val(constant.ToInt(c.Val()))
		w("def maxByteSize : Int := %d", v)
	} else {
		w("def maxByteSize : Int := -1")
	}
	// 2. the two tables, in the fixed order of the 14 type names (keysOk = exactly those keys)
	bpv, ok1 := tableInOrder(astP.mapLiteral(astP.funcDecl("", "getDataByteLength"), "bytePerValue"))
	fc, ok2 := tableInOrder(astP.mapLiteral(astP.funcDecl("", "getHeaderBytes"), "formatCode"))
	w("def tableKeysOk : Bool := %v", ok1 && ok2)
	w("def bytePerValue : List Int := %s", leanIntList(bpv))
	w("def formatCode : List Int := %s", leanIntList(fc))
	// 3. constants
	w("def astSTypes : List (String × Int) := [%s]", strings.Join(astP.constsWithPrefix("sType"), ", "))
	w("def hsmsSTypes : List (String × Int) := [%s]", strings.Join(hsmsP.constsWithPrefix("sType"), ", "))
	w("def hsmsFormatCodes : List (String × Int) := [%s]", strings.Join(hsmsP.constsWithPrefix("formatCode"), ", "))

	// 4. decoder dispatch: case constant -> (function, width) ; inline bodies are named by the
	// factory they call
	var disp []string
	if fn := hsmsP.funcDecl("parser", "parseMessageText"); fn != nil {
		ast.Inspect(fn, func(n ast.Node) bool {
			sw, ok := n.(*ast.SwitchStmt)
			if !ok {
				return true
			}
			if id, ok := sw.Tag.(*ast.Ident); !ok || id.Name != "formatCode" {
				return true
			}
			for _, st := range sw.Body.List {
				cc := st.(*ast.CaseClause)
				for _, ce := range cc.List {
					code, _ := hsmsP.constInt(ce)
					target, width := "", int64(0)
					ast.Inspect(cc, func(m ast.Node) bool {
						if call, ok := m.(*ast.CallExpr); ok {
							if sel, ok := call.Fun.(*ast.SelectorExpr); ok {
								name := sel.Sel.Name
								if strings.HasPrefix(name, "parse") && name != "parseMessageText" && target == "" {
									target = name
									if len(call.Args) > 0 {
										width, _ = hsmsP.constInt(call.Args[0])
									}
								}
								if strings.HasPrefix(name, "New") && strings.HasSuffix(name, "Node") && name != "NewEmptyItemNode" && target == "" {
									target = name
								}
							}
						}
						return true
					})
					disp = append(disp, fmt.Sprintf("(%d, %s, %d)", code, leanStr(target), width))
				}
			}
			return false
		})
	}
	sort.Strings(disp)
	w("def decoderDispatch : List (Int × String × Int) := [%s]", strings.Join(disp, ", "))

	// 5. ControlMessage.Type switch
	var tsw []string
	if fn := astP.funcDecl("ControlMessage", "Type"); fn != nil {
		ast.Inspect(fn, func(n ast.Node) bool {
			cc, ok := n.(*ast.CaseClause)
			if !ok {
				return true
			}
			ret := ""
			for _, s := range cc.Body {
				if r, ok := s.(*ast.ReturnStmt); ok && len(r.Results) == 1 {
					ret, _ = astP.constStr(r.Results[0])
				}
			}
			if cc.List == nil {
				tsw = append(tsw, fmt.Sprintf("(-1, %s)", leanStr(ret)))
			}
			for _, ce := range cc.List {
				v, _ := astP.constInt(ce)
				tsw = append(tsw, fmt.Sprintf("(%d, %s)", v, leanStr(ret)))
			}
			return true
		})
	}
	w("def ctrlTypeSwitch : List (Int × String) := [%s]", strings.Join(tsw, ", "))

	// 6. integer literals of DataMessage.checkRep and parseStreamFunctionCode, in source order
	intLits := func(p *pkgInfo, fn *ast.FuncDecl) []int64 {
		var out []int64
		if fn == nil {
			return out
		}
		ast.Inspect(fn.Body, func(n ast.Node) bool {
			if u, ok := n.(*ast.UnaryExpr); ok && u.Op == token.SUB {
				if v, ok := p.constInt(u); ok {
					out = append(out, v)
					return false
				}
			}
			if bl, ok := n.(*ast.BasicLit); ok && bl.Kind == token.INT {
				v, _ := p.constInt(bl)
				out = append(out, v)
			}
			return true
		})
		return out
	}
	w("def msgCheckRepInts : List Int := %s", leanIntList(intLits(astP, astP.funcDecl("DataMessage", "checkRep"))))
	w("def smlStreamFunctionInts : List Int := %s", leanIntList(intLits(smlP, smlP.funcDecl("parser", "parseStreamFunctionCode"))))

	// 7/8. rune and keyword case clauses of the two main lexer states
	caseLits := func(fnName string) (runes [][]int64, strs [][]string) {
		fn := smlP.funcDecl("", fnName)
		if fn == nil {
			return
		}
		ast.Inspect(fn.Body, func(n ast.Node) bool {
			cc, ok := n.(*ast.CaseClause)
			if !ok || len(cc.List) == 0 {
				return true
			}
			var rs []int64
			var ss []string
			for _, ce := range cc.List {
				if s, ok := smlP.constStr(ce); ok {
					ss = append(ss, s)
				} else if v, ok := smlP.constInt(ce); ok {
					rs = append(rs, v)
				}
			}
			if len(rs) > 1 {
				runes = append(runes, rs)
			}
			if len(ss) > 0 {
				strs = append(strs, ss)
			}
			return true
		})
		return
	}
	hr, _ := caseLits("lexMessageHeader")
	tr, ts := caseLits("lexMessageText")
	flat := func(x [][]int64) string {
		q := make([]string, len(x))
		for i, r := range x {
			q[i] = leanIntList(r)
		}
		return "[" + strings.Join(q, ", ") + "]"
	}
	w("def lexHeaderRuneCases : List (List Int) := %s", flat(hr))
	w("def lexTextRuneCases : List (List Int) := %s", flat(tr))
	kq := make([]string, len(ts))
	for i, s := range ts {
		kq[i] = leanStrList(s)
	}
	w("def lexTextKeywordCases : List (List String) := [%s]", strings.Join(kq, ", "))

	// 9. regexps, 10. accept sets, 11. channel capacity
	var res, accepts []string
	chanCap := int64(-1)
	for _, pk := range []struct {
		name string
		p    *pkgInfo
	}{{"ast", astP}, {"hsms", hsmsP}, {"sml", smlP}} {
		for _, f := range pk.p.files {
			for _, d := range f.Decls {
				fd, ok := d.(*ast.FuncDecl)
				if !ok || fd.Body == nil {
					continue
				}
				ast.Inspect(fd.Body, func(n ast.Node) bool {
					call, ok := n.(*ast.CallExpr)
					if !ok {
						return true
					}
					if sel, ok := call.Fun.(*ast.SelectorExpr); ok {
						if x, ok := sel.X.(*ast.Ident); ok && x.Name == "regexp" && sel.Sel.Name == "MustCompile" && len(call.Args) == 1 {
							s, _ := pk.p.constStr(call.Args[0])
							res = append(res, fmt.Sprintf("(%s, %s)", leanStr(pk.name+"."+fd.Name.Name), leanStr(s)))
						}
						if (sel.Sel.Name == "accept" || sel.Sel.Name == "acceptRun") && len(call.Args) == 1 && pk.name == "sml" {
							if s, ok := pk.p.constStr(call.Args[0]); ok {
								accepts = append(accepts, fmt.Sprintf("(%s, %s)", leanStr(fd.Name.Name+"."+sel.Sel.Name), leanStr(s)))
							}
						}
					}
					if id, ok := call.Fun.(*ast.Ident); ok && id.Name == "make" && len(call.Args) == 2 {
						if _, isChan := call.Args[0].(*ast.ChanType); isChan {
							chanCap, _ = pk.p.constInt(call.Args[1])
						}
					}
					return true
				})
			}
		}
	}
	w("def regexps : List (String × String) := [%s]", strings.Join(res, ",\n  "))
	w("def lexAcceptSets : List (String × String) := [%s]", strings.Join(accepts, ",\n  "))
	w("def tokenChanCap : Int := %d", chanCap)

	// 12. aliasing and purity facts
	af := &aliasFacts{}
	astP.collectAlias("ast", af)
	hsmsP.collectAlias("hsms", af)
	smlP.collectAlias("sml", af)
	w("def pkgVars : List String := %s", leanStrList(af.pkgVars))
	w("def goStmts : Nat := %d", af.goStmts)
	w("def badImports : List String := %s", leanStrList(af.badImports))
	w("def receiverWrites : List String := %s", leanStrList(af.receiverWrites))
	w("def exposedFields : List String := %s", leanStrList(af.exposes))
	w("def storedParams : List String := %s", leanStrList(af.storesParam))
	w("def sharedFields : List String := %s", leanStrList(af.sharesField))
	w("def unknownStores : List String := %s", leanStrList(af.unknownStores))
	w("end Secs.Generated")
	return os.WriteFile(out, []byte(sb.String()), 0o644)
}
