package main

import (
	"bytes"
	"fmt"
	"math"
	"math/rand"
	"strconv"
	"strings"
	"unicode/utf8"

	"github.com/wolimst/lib-secs2-hsms-go/pkg/ast"
)

// SML-expressible templates name their ellipses "...[k]" in order of appearance (that is what
// the parser assigns; the printed form always says "...").
func normEllipsisNames(n *Node, k *int) {
	if n.Kind != "L" {
		return
	}
	for i := range n.Slots {
		s := &n.Slots[i]
		if s.IsVar {
			if strings.HasPrefix(s.Name, "...") {
				s.Name = fmt.Sprintf("...[%d]", *k)
				*k++
			}
		} else {
			normEllipsisNames(s.Child, k)
		}
	}
}

func smlTemplate(r *rand.Rand, pvar float64, big bool) *Node {
	n := genSMLItem(r, pvar, big)
	k := 0
	normEllipsisNames(n, &k)
	return n
}

const msgKeys = "name s f w dir sid sys str vars"

// sameMessage compares two messages on everything observable.
func sameMessage(a, b *ast.DataMessage) string {
	if x, y := project(showMsg(a), msgKeys), project(showMsg(b), msgKeys); x != y {
		return firstDiff(x, y)
	}
	return ""
}

// completedBytes: wait bit and session set; empty when variables remain.
func completedBytes(m *ast.DataMessage) []byte {
	var out []byte
	safely(func() { out = m.SetWaitBit(false).SetSessionIDAndSystemBytes(7, []byte{1, 2, 3, 4}).ToBytes() })
	return out
}

// ---------- C04 ----------

func roundTripTextOracle(msg *ast.DataMessage) string {
	text := msg.String()
	res := parseSML(text)
	switch {
	case res.panicked:
		return "panic while parsing a printed message"
	case len(res.errs) > 0:
		return "printed message does not re-parse: " + res.errs[0]
	case len(res.warns) > 0:
		return "printed message re-parses with a warning: " + res.warns[0]
	case len(res.msgs) != 1:
		return fmt.Sprintf("printed message re-parses to %d messages", len(res.msgs))
	}
	if d := sameMessage(res.msgs[0], msg); d != "" {
		return "re-parsed message differs: " + d
	}
	if !bytes.Equal(completedBytes(res.msgs[0]), completedBytes(msg)) {
		return "re-parsed message encodes differently once completed"
	}
	return ""
}

func suiteC04(c *Ctx) []Suite {
	return []Suite{
		{Name: "sml/print-parse", Gen: func(c *Ctx) []Case {
			var out []Case
			for i := 0; i < c.N(2000); i++ {
				pvar := 0.0
				if i%2 == 0 {
					pvar = 0.25
				}
				item := smlTemplate(c.R, pvar, i%15 == 0)
				if i%12 == 0 {
					item = &Node{Kind: "E"}
				}
				m := genSMLMsg(c.R, item)
				msg, p := buildMsg(m)
				if p {
					out = append(out, Case{Detail: m.newStep(), Oracle: "constructor panicked on an in-domain message", Nontrivial: true})
					continue
				}
				text := msg.String()
				out = append(out, Case{Op: smlOp(text), Oracle: roundTripTextOracle(msg), Nontrivial: true,
					Tags: append(itemTags("", item), fmt.Sprintf("w:%d", m.W))})
			}
			return out
		}},
		{Name: "sml/longest-ascii-item", Gen: func(c *Ctx) []Case {
			// an ASCII item of 16,777,214 and of 16,777,215 characters (the longest there is) prints
			// and re-parses to itself (judged on the real code: the model driver is not fed 16 MB lines)
			var out []Case
			for _, n := range []int{16777214, 16777215} {
				res := ""
				safely(func() {
					it := ast.NewASCIINode(strings.Repeat("m", n))
					msg := ast.NewDataMessage("Long", 1, 1, 1, "H->E", ast.NewListNode(ast.NewUintNode(1, 3), it))
					r := parseSML(msg.String())
					switch {
					case r.panicked:
						res = "panic"
					case len(r.errs) != 0 || len(r.msgs) != 1:
						res = fmt.Sprintf("the printed form of a message with an ASCII item of %d characters is refused: %v", n, r.errs)
					case len(completedBytes(r.msgs[0])) != len(completedBytes(msg)):
						res = fmt.Sprintf("the re-parsed message with an ASCII item of %d characters encodes to %d bytes instead of %d", n, len(completedBytes(r.msgs[0])), len(completedBytes(msg)))
					}
				})
				out = append(out, Case{Detail: fmt.Sprintf("print -> parse of an ASCII item of %d characters", n), Oracle: res, Nontrivial: true, Tags: []string{"longest-ascii"}})
			}
			return out
		}},
		{Name: "sml/ascii-every-character", Gen: func(c *Ctx) []Case {
			var out []Case
			for ch := 0; ch < 128; ch++ {
				for _, s := range [][]byte{{byte(ch)}, {'a', byte(ch), 'b'}, {byte(ch), byte(ch)}, {' ', byte(ch)}} {
					item := &Node{Kind: "L", Slots: []Slot{{Child: &Node{Kind: "A", Str: s}}}}
					m := &MsgDesc{S: 1, F: 1, W: 0, Dir: "H->E", Item: item}
					msg, _ := buildMsg(m)
					out = append(out, Case{Op: smlOp(msg.String()), Oracle: roundTripTextOracle(msg), Nontrivial: true, Tags: []string{"ascii-char"}})
				}
			}
			return out
		}},
		{Name: "sml/many-ellipses", Gen: func(c *Ctx) []Case {
			// messages with 2..14 ellipses (the parser numbers them ...[0], ...[1], …, ...[13])
			var out []Case
			for n := 2; n <= 14; n++ {
				top := &Node{Kind: "L"}
				for k := 0; k < n; k++ {
					inner := &Node{Kind: "L", Slots: []Slot{{Child: &Node{Kind: "U", W: 1, Slots: []Slot{{IsVar: true, Name: fmt.Sprintf("v%d", k)}}}}, {IsVar: true, Name: fmt.Sprintf("...[%d]", k)}}}
					top.Slots = append(top.Slots, Slot{Child: inner})
				}
				m := &MsgDesc{S: 1, F: 1, W: 0, Dir: "H->E", Item: top}
				msg, p := buildMsg(m)
				if p {
					out = append(out, Case{Detail: fmt.Sprintf("%d ellipses", n), Oracle: "a template with distinct, correctly numbered ellipses cannot be constructed", Nontrivial: true})
					continue
				}
				out = append(out, Case{Op: smlOp(msg.String()), Oracle: roundTripTextOracle(msg), Nontrivial: true, Tags: []string{fmt.Sprintf("ellipses:%d", n)}})
			}
			return out
		}},
		{Name: "sml/fixed-point-of-accepted-texts", Gen: func(c *Ctx) []Case {
			var out []Case
			for i := 0; i < c.N(1200); i++ {
				item := smlTemplate(c.R, 0.2, false)
				m := genSMLMsg(c.R, item)
				toks := msgTokens(c.R, m, true)
				text, _ := randomLayout(c.R).render(toks)
				res := parseSML(text)
				cs := Case{Op: smlOp(text), Nontrivial: true, Tags: []string{fmt.Sprintf("accepted:%v", len(res.errs) == 0 && !res.panicked)}}
				if !res.panicked && len(res.errs) == 0 {
					for _, pm := range res.msgs {
						if o := roundTripTextOracle(pm); o != "" {
							cs.Oracle = "accepted text, but its printed form is not a fixed point: " + o
						}
					}
				}
				out = append(out, cs)
			}
			return out
		}},
	}
}

// ---------- C05 ----------

func suiteC05(c *Ctx) []Suite {
	return []Suite{
		{Name: "sml/literals-denote-values", Gen: func(c *Ctx) []Case {
			var out []Case
			for i := 0; i < c.N(2500); i++ {
				item := smlTemplate(c.R, 0.1, false)
				if i%30 == 11 {
					// the same spellings in an F4 and in an F8 item of one message, in either order:
					// each denotes the nearest value of its own width
					lits := [][2]uint64{}
					for _, f := range []float64{0.1, 0.3, 16777217, 1e-3, 3.3, 2.7, 1e10} {
						lits = append(lits, [2]uint64{uint64(math.Float32bits(float32(f))), math.Float64bits(f)})
					}
					c.R.Shuffle(len(lits), func(a, b int) { lits[a], lits[b] = lits[b], lits[a] })
					lits = lits[:2+c.R.Intn(3)]
					f4 := &Node{Kind: "F", W: 4}
					f8 := &Node{Kind: "F", W: 8}
					for _, l := range lits {
						f4.Slots = append(f4.Slots, Slot{Bits: l[0]})
						f8.Slots = append(f8.Slots, Slot{Bits: l[1]})
					}
					item = &Node{Kind: "L", Slots: []Slot{{Child: f4}, {Child: f8}}}
					if c.R.Intn(2) == 0 {
						item = &Node{Kind: "L", Slots: []Slot{{Child: f8}, {Child: f4}}}
					}
				}
				depth := 0
				if i%25 == 7 && item.Kind != "E" {
					// the literals stand deep inside nested lists, with siblings on the way down
					depth = pick(c.R, 3, 40, 63, 64, 65, 66, 100, 127, 128, 129, 200)
					for d := 0; d < depth; d++ {
						w := &Node{Kind: "L", Slots: []Slot{{Child: item}}}
						if d%16 == 5 {
							w.Slots = append(w.Slots, Slot{Child: &Node{Kind: "U", W: 1, Slots: []Slot{{U: uint64(d)}}}})
						}
						item = w
					}
				}
				m := genSMLMsg(c.R, item)
				toks := msgTokens(c.R, m, true)
				lay := plainLayout(c.R)
				lay.VaryCase = c.R.Intn(2) == 0
				lay.Comments = c.R.Intn(3) == 0 // comments (with any bytes, CR included) never add or change a value
				text, _ := lay.render(toks)
				cs := Case{Op: smlOp(text), Decisive: true, Nontrivial: true, Tags: itemTags("", item)}.fields("n str vars err")
				if depth > 0 {
					cs.Tags = append(cs.Tags, fmt.Sprintf("literals-at-depth:%d", depth))
				}
				if depth > 130 {
					cs.Op, cs.Detail = "", fmt.Sprintf("literals at depth %d (judged on the real code: the model's printer is cubic in the depth)", depth)
				}
				res := parseSML(text)
				want, _ := implItem(item)
				switch {
				case res.panicked:
					cs.Oracle = "panic"
				case len(res.errs) > 0 || len(res.msgs) != 1:
					cs.Oracle = fmt.Sprintf("well-formed text with in-range literals rejected: %v", res.errs)
				default:
					_, got, _ := strings.Cut(res.msgs[0].String(), "\n")
					exp := ""
					if item.Kind != "E" {
						b, _ := unhx(strings.TrimPrefix(strings.Fields(want)[1], "str="))
						exp = string(b) + "\n."
					} else {
						exp = "."
					}
					if got != exp {
						cs.Oracle = "parsed values differ from what the literals denote: " + firstDiff("x="+hxs(got), "x="+hxs(exp))
					}
				}
				out = append(out, cs)
			}
			return out
		}},
		{Name: "sml/ascii-in-pieces", Gen: func(c *Ctx) []Case {
			// an A item written in several pieces (quoted strings and character codes) holds the
			// pieces one after the other, whether or not white space stands between them - two
			// quoted strings that touch are two strings, not an escaped quote
			var out []Case
			pieces := [][]string{{`"ab"`, `"cd"`}, {`""`, `""`}, {`"a"`, `""`, `"b"`}, {`"x"`, "0x22", `"y"`}, {`""`, `"q"`}, {`"ab"`, `"cd"`, `"ef"`},
				{`"a"`, "65", `"b"`}, {"0x41", "0x42"}, {`"say "`, "0x22", `"hi"`, "0x22"}, {`"\\"`, `"n"`}, {`"'"`, `"'"`}}
			for _, ps := range pieces {
				want := ""
				for _, p := range ps {
					if strings.HasPrefix(p, `"`) {
						want += p[1 : len(p)-1]
					} else {
						v, _ := strconv.ParseInt(p, 0, 32)
						want += string(rune(v))
					}
				}
				for _, sep := range []string{"", " ", "\n", "\t", " //c\n"} {
					if sep == "" {
						// two numbers written without a gap are one (malformed) number
						glued := false
						for i := 1; i < len(ps); i++ {
							if !strings.HasPrefix(ps[i-1], `"`) && !strings.HasPrefix(ps[i], `"`) {
								glued = true
							}
						}
						if glued {
							continue
						}
					}
					for _, frame := range []string{"S1F1 W H->E <A %s>.", "S1F1 W H->E\n<L\n  <U1 1>\n  <A %s>\n>\n.", "S1F1 W <A[" + fmt.Sprint(len(want)) + "] %s> ."} {
						text := fmt.Sprintf(frame, strings.Join(ps, sep))
						res := parseSML(text)
						oracle := ""
						if res.panicked || len(res.errs) != 0 || len(res.msgs) != 1 {
							oracle = fmt.Sprintf("pieces %v rejected: %v", ps, res.errs)
						} else if it := findASCII(res.msgs[0].String()); it != want {
							oracle = fmt.Sprintf("pieces %v joined by %q hold %q, want %q", ps, sep, it, want)
						}
						out = append(out, Case{Op: smlOp(text), Decisive: true, Oracle: oracle, Nontrivial: true, Tags: []string{fmt.Sprintf("pieces:%d sep:%q", len(ps), sep)}}.fields("n err warn str"))
					}
				}
			}
			return out
		}},
		{Name: "sml/unrepresentable-literals", Gen: func(c *Ctx) []Case {
			// one literal the item type cannot represent, in every position: an error and no message
			var out []Case
			type badLit struct{ ty, lit, why string }
			var bads []badLit
			for _, w := range []int{1, 2, 4, 8} {
				hi := new(bigInt).Lsh(bigOne, uint(8*w-1))
				bads = append(bads,
					badLit{fmt.Sprintf("I%d", w), hi.String(), "above range"},
					badLit{fmt.Sprintf("I%d", w), "-" + new(bigInt).Add(hi, bigOne).String(), "below range"},
					badLit{fmt.Sprintf("I%d", w), "0x" + hi.Text(16), "hex above range"},
					badLit{fmt.Sprintf("U%d", w), new(bigInt).Lsh(bigOne, uint(8*w)).String(), "above range"},
					badLit{fmt.Sprintf("U%d", w), "-1", "sign on unsigned"},
					badLit{fmt.Sprintf("U%d", w), "+1", "sign on unsigned"},
					badLit{fmt.Sprintf("U%d", w), "-0", "sign on unsigned"},
					badLit{fmt.Sprintf("I%d", w), "1.5", "fraction in integer"},
					badLit{fmt.Sprintf("U%d", w), "1e3", "exponent in integer"},
					badLit{fmt.Sprintf("I%d", w), "08", "bad octal"},
					badLit{fmt.Sprintf("I%d", w), "0b", "empty binary"},
					badLit{fmt.Sprintf("U%d", w), "0x", "empty hex"},
					badLit{fmt.Sprintf("I%d", w), "T", "boolean in integer"},
					badLit{fmt.Sprintf("U%d", w), `"1"`, "string in integer"},
				)
			}
			// digits outside the radix of a prefixed literal, digit separators, trailing garbage
			for _, ty := range []string{"B", "I1", "I4", "U1", "U8", "A"} {
				bads = append(bads,
					badLit{ty, "0b102", "digit outside radix"}, badLit{ty, "0b12", "digit outside radix"}, badLit{ty, "0o78", "digit outside radix"},
					badLit{ty, "0o8", "digit outside radix"}, badLit{ty, "089", "digit outside radix"}, badLit{ty, "1_0", "digit separator"},
					badLit{ty, "0x1G", "letter after number"}, badLit{ty, "12ab", "letter after number"}, badLit{ty, "1é", "letter after number"},
					badLit{ty, "0b10000019", "digit outside radix"}, badLit{ty, "1..2", "two dots"}, badLit{ty, "1e5e5", "two exponents"})
			}
			for _, ty := range []string{"F4", "F8"} {
				bads = append(bads, badLit{ty, "1e5e5", "two exponents"}, badLit{ty, "1.5x", "letter after number"},
					badLit{ty, "1_0.5", "digit separator"}, badLit{ty, "0b1.1", "binary float"}, badLit{ty, "1e+", "empty exponent"})
			}
			bads = append(bads,
				badLit{"B", "256", "above range"}, badLit{"B", "-1", "negative"}, badLit{"B", "1.5", "fraction"}, badLit{"B", "0b", "empty binary"},
				badLit{"B", "0b100000000", "above range"}, badLit{"B", "1e2", "exponent"}, badLit{"B", "T", "boolean"},
				badLit{"BOOLEAN", "1", "number in boolean"}, badLit{"BOOLEAN", `"T"`, "string in boolean"}, badLit{"BOOLEAN", "0b1", "number in boolean"},
				badLit{"F4", "3.5e38", "above range"}, badLit{"F4", "-1e39", "below range"}, badLit{"F8", "1e309", "above range"},
				badLit{"F8", "-1.8e308", "below range"}, badLit{"F4", "0x10", "hex in float"}, badLit{"F8", "0b1", "binary in float"},
				badLit{"F8", "1e", "empty exponent"}, badLit{"F4", "T", "boolean in float"}, badLit{"F8", "0o7", "octal in float"},
				badLit{"A", "128", "code above 127"}, badLit{"A", "0x80", "code above 127"}, badLit{"A", "-1", "negative code"},
				badLit{"A", `"é"`, "non-ASCII"}, badLit{"A", "\"\xff\"", "invalid UTF-8"}, badLit{"A", "1.5", "fraction code"}, badLit{"A", "T", "boolean in ASCII"},
				badLit{"A", "99999999999999999999", "huge code"},
				badLit{"A", "255", "code above 127"}, badLit{"A", "256", "code above 255"}, badLit{"A", "321", "code above 255"}, badLit{"A", "0x131", "code above 255"},
				badLit{"A", "0X232", "code above 255"}, badLit{"A", "65601", "code above 65535"}, badLit{"A", "4294967361", "code above 2^32"}, badLit{"A", "0b100000000", "code above 255"},
				badLit{"A", "18446744073709551681", "code above 2^64"}, badLit{"A", "-191", "negative code"}, badLit{"A", "0o501", "code above 255"},
				badLit{"B", "257", "above range"}, badLit{"B", "511", "above range"}, badLit{"B", "0x141", "above range"}, badLit{"B", "65537", "above range"}, badLit{"B", "4294967297", "above range"},
				badLit{"U1", "257", "above range"}, badLit{"U1", "0x101", "above range"}, badLit{"U2", "65537", "above range"}, badLit{"U4", "4294967297", "above range"}, badLit{"U8", "18446744073709551617", "above range"},
				badLit{"I1", "257", "above range"}, badLit{"I1", "-257", "below range"}, badLit{"I2", "65537", "above range"}, badLit{"I4", "4294967297", "above range"}, badLit{"I8", "18446744073709551617", "above range"},
			)
			// a variable name among the values of an ASCII item (before, between, after them): the
			// values are never dropped in favour of the variable
			bads = append(bads, badLit{"A", "x", "variable among ASCII values"}, badLit{"A", "MDLN", "variable among ASCII values"},
				badLit{"A", "x y", "two variables in an ASCII item"}, badLit{"A", "x 300", "variable and bad code"})
			// a character that is no part of any literal spliced into a literal: never dropped
			for _, x := range []string{"\ufeff", "\u200b", "\u00a0", "\u0085", "\x00", "\u2028", "\u00ad", "\u200d", "\x7f", "\x1b"} {
				if x[0] >= 0x80 { // 7-bit control characters are legitimate inside a quoted string
					bads = append(bads, badLit{"A", `"ab` + x + `cd"`, "exotic character inside a string"})
				}
				bads = append(bads,
					badLit{"U2", "12" + x + "34", "exotic character inside a number"},
					badLit{"F8", "1." + x + "5", "exotic character inside a number"}, badLit{"F4", "1" + x + "e3", "exotic character inside a number"},
					badLit{"I4", "-" + x + "5", "exotic character inside a number"}, badLit{"B", "0x" + x + "1F", "exotic character inside a number"},
					badLit{"BOOLEAN", "T" + x, "exotic character after a literal"}, badLit{"U1", x + "7", "exotic character before a number"},
					badLit{"U1", "va" + x + "r", "exotic character inside a name"})
			}
			good := map[string][]string{"I": {"1", "-1", "0x7f"}, "U": {"1", "0", "0x7f"}, "B": {"0b1", "255", "0"}, "BOOLEAN": {"T", "F"}, "F": {"1.5", "-2", "1e3"}, "A": {`"ok"`, "65"}}
			for _, b := range bads {
				key := b.ty
				if key != "BOOLEAN" && key != "B" && key != "A" {
					key = key[:1]
				}
				g := good[key]
				for pos := 0; pos < 3; pos++ {
					vals := []string{g[c.R.Intn(len(g))], g[c.R.Intn(len(g))], g[c.R.Intn(len(g))]}
					vals[pos] = b.lit
					text := fmt.Sprintf("S1F1 W H->E\n<L\n  <%s %s>\n>\n.", b.ty, strings.Join(vals, " "))
					res := parseSML(text)
					cs := Case{Op: smlOp(text), Decisive: true, Nontrivial: true, Tags: []string{"bad:" + b.why}}.fields("n err")
					switch {
					case res.panicked:
						cs.Oracle = "panic"
					case len(res.errs) == 0 || len(res.msgs) != 0:
						cs.Oracle = fmt.Sprintf("literal %s (%s) in a %s item: %d errors, %d messages", b.lit, b.why, b.ty, len(res.errs), len(res.msgs))
						if len(res.msgs) == 1 {
							cs.Oracle += "; stored as " + res.msgs[0].String()
						}
					}
					out = append(out, cs)
				}
			}
			return out
		}},
		{Name: "sml/literals-beyond-the-capacity-of-an-item", Gen: func(c *Ctx) []Case {
			// a string literal of 16,777,216 characters (one more than an A item can hold), written
			// as one quoted string or as a string and a character code, alone, inside a list, or in
			// the second message of a text: an error and no message (judged on the real code: the
			// model driver is not fed 16 MB lines)
			var out []Case
			long := strings.Repeat("k", 16777215)
			for _, cse := range []struct{ what, text string }{
				{"one quoted string", "S1F1 W H->E\n<A \"" + long + "k\">\n."},
				{"string and character code", "S1F1 W H->E\n<A \"" + long + "\" 65>\n."},
				{"inside lists", "S1F1 W H->E\n<L\n  <U1 1>\n  <L\n    <A \"" + long + "k\">\n  >\n>\n."},
				{"second message of the text", "S1F1 W H->E First\n<U1 1>\n.\nS1F3 W H->E Second\n<A \"" + long + "k\">\n."},
				{"two strings", "S1F1 W H->E\n<A \"" + long[:9000000] + "\" \"" + long[:7777216] + "\">\n."},
			} {
				res := parseSML(cse.text)
				o := ""
				switch {
				case res.panicked:
					o = "panic"
				case len(res.errs) == 0 || len(res.msgs) != 0:
					o = fmt.Sprintf("a string literal of 16,777,216 characters (%s): %d errors, %d messages", cse.what, len(res.errs), len(res.msgs))
				}
				out = append(out, Case{Detail: "string literal one character beyond the capacity of an A item, " + cse.what, Oracle: o, Nontrivial: true, Tags: []string{"literal-beyond-capacity"}})
			}
			// the longest literal there is is accepted
			res := parseSML("S1F1 W H->E\n<A \"" + long + "\">\n.")
			o := ""
			if res.panicked || len(res.errs) != 0 || len(res.msgs) != 1 || res.msgs[0].String() == "" {
				o = fmt.Sprintf("a string literal of 16,777,215 characters: %d errors, %d messages", len(res.errs), len(res.msgs))
			}
			out = append(out, Case{Detail: "string literal of exactly the capacity of an A item", Oracle: o, Nontrivial: true, Tags: []string{"literal-at-capacity"}})
			return out
		}},
		{Name: "sml/results-kept-across-calls", Gen: func(c *Ctx) []Case {
			// what Parse returned for one text is the caller's: parsing other texts afterwards
			// changes neither the list of messages nor the values in them
			var out []Case
			for i := 0; i < c.N(60); i++ {
				type kept struct {
					text string
					msgs []*ast.DataMessage
					show string
				}
				var table []kept
				show := func(ms []*ast.DataMessage) string {
					var sb strings.Builder
					for _, m := range ms {
						sb.WriteString(m.String() + "|" + hx(completedBytes(m)) + "\n")
					}
					return sb.String()
				}
				res := ""
				for k := 0; k < 5 && res == ""; k++ {
					var text string
					for j := 0; j <= c.R.Intn(3); j++ {
						msg, p := buildMsg(genSMLMsg(c.R, smlTemplate(c.R, 0.1, false)))
						if !p {
							text += msg.String() + "\n"
						}
					}
					r := parseSML(text)
					if r.panicked || len(r.errs) > 0 {
						continue
					}
					table = append(table, kept{text, r.msgs, show(r.msgs)})
					for q, kp := range table {
						if now := show(kp.msgs); now != kp.show {
							res = fmt.Sprintf("the messages returned for text %d changed after text %d was parsed: %s", q, k, firstDiff("x="+hxs(now), "x="+hxs(kp.show)))
						}
					}
				}
				out = append(out, Case{Detail: fmt.Sprintf("%d texts parsed one after the other, every result kept", len(table)), Oracle: res, Nontrivial: true, Tags: []string{"results-kept"}})
			}
			return out
		}},
	}
}

// ---------- C06 ----------

var soupVocab = []string{"S1F1", "S1F2", "s0f0", "S127F255", "S128F256", "S99999999999999999999F1", "W", "[W]", "w", "H->E", "H<-E", "H<->E", "h->e", "Name", ".", "<", ">", "L", "A", "B", "BOOLEAN", "F4", "F8", "I1", "I2", "I4", "I8", "U1", "U2", "U4", "U8",
	"[2]", "[1..3]", "[..3]", "[2..]", "[ 1 .. 2 ]", "[99999999999999]", "[99999999999999999999..]", "[..99999999999999999999]", "[3..1]", "[]", "[..]", "[", "]", "0", "1", "-1", "255", "256", "0x7F", "0xFFFFFFFFFFFFFFFFFF", "0b101", "0o17", "017", "08", "1.5", "1e3", "1e400", "-1e400", "1e-400", ".5", "5.", "+", "-", "1x", "0b2",
	"T", "F", "t", "x", "var", "var[0]", "var[1][2]", "x[", "...", "...[0]", "...[1]", "...[99]", "....", "..", `"str"`, `""`, `"a\b"`, `"é"`, "\"\xff\"", `"unclosed`, "\"line\nbreak\"", "// comment\n", "//", "// à\n", "// x\v\n", "\n", "\r\n", "\t", " ", "\v", "\f", " ", "\u0085", " ", " ", " ", " ", " ", " ", "　", "\ufeff", "\x00", "\xff", "\xc3", "\xe2\x82", "é", "名", "٣", "１", ",", ";", "(", "#", "'", "\\"}

func genSoup(r *rand.Rand) string {
	var sb strings.Builder
	n := 1 + r.Intn(14)
	for i := 0; i < n; i++ {
		sb.WriteString(soupVocab[r.Intn(len(soupVocab))])
		if r.Intn(3) > 0 {
			sb.WriteString([]string{" ", " ", "\n", "\t", ""}[r.Intn(5)])
		}
	}
	return sb.String()
}

// mutateText: byte-level mutation of a valid text.
func mutateText(r *rand.Rand, s string) string {
	b := []byte(s)
	if len(b) == 0 {
		return genSoup(r)
	}
	for k := 0; k < 1+r.Intn(3); k++ {
		i := r.Intn(len(b))
		switch r.Intn(6) {
		case 0:
			b = append(b[:i], b[i+1:]...)
		case 1:
			ins := soupVocab[r.Intn(len(soupVocab))]
			b = append(b[:i], append([]byte(ins), b[i:]...)...)
		case 2:
			b[i] = byte(r.Intn(256))
		case 3:
			b = b[:i]
		case 4:
			j := r.Intn(len(b))
			b[i], b[j] = b[j], b[i]
		default:
			b = append(b, b[i:]...)
		}
		if len(b) == 0 {
			break
		}
	}
	return string(b)
}

// totalityOracle checks the C06 laws on one result.
func totalityOracle(text string, res parseResult) string {
	if res.panicked {
		return "panic escaped sml.Parse"
	}
	if len(res.errs) > 0 && len(res.msgs) > 0 {
		return "errors reported but messages returned"
	}
	lines := strings.Split(text, "\n")
	for _, d := range append(append([]string{}, res.errs...), res.warns...) {
		m := diagRe.FindStringSubmatch(d)
		if m == nil {
			return "diagnostic not of the form 'Ln x, Col y: text': " + d
		}
		var ln, col int
		fmt.Sscan(m[1], &ln)
		fmt.Sscan(m[2], &col)
		if ln < 1 || ln > len(lines) {
			return fmt.Sprintf("diagnostic line %d outside the input (%d lines): %s", ln, len(lines), d)
		}
		if col < 1 || col > 1+utf8.RuneCountInString(lines[ln-1]) {
			return fmt.Sprintf("diagnostic column %d outside line %d: %s", col, ln, d)
		}
	}
	return ""
}

func suiteC06(c *Ctx) []Suite {
	return []Suite{
		{Name: "sml/hostile-isolated", Gen: func(c *Ctx) []Case {
			// run in a worker process: a violation here may kill the process
			var texts []string
			for i := 0; i < c.N(4000); i++ {
				switch i % 4 {
				case 0, 1:
					texts = append(texts, genSoup(c.R))
				case 2:
					item := smlTemplate(c.R, 0.2, false)
					t, _ := randomLayout(c.R).render(msgTokens(c.R, genSMLMsg(c.R, item), true))
					texts = append(texts, mutateText(c.R, t))
				default:
					b := make([]byte, c.R.Intn(60))
					c.R.Read(b)
					texts = append(texts, string(b))
				}
			}
			// targeted hostile sizes and nesting
			texts = append(texts,
				"S1F1 H->E <L <A x> <A[99999999999999] x>>.",
				"S1F1 W <A[400000000] \"x\"> .",
				"S1F1 W <A[99999999999999] \"x\"> .",
				"S1F1 \vW\n.", "S1F1  foo\n.", "S1F1 W <A \"x\"> .٣", "S1F1 W // voilà\n.",
				"S1F1 "+strings.Repeat("<L ", 2000)+strings.Repeat(">", 2000)+".",
				"S1F1 <L "+strings.Repeat("<A[16777215] v"+"> ", 3)+">.",
				"S1F1 <B "+strings.Repeat("1 ", 5000)+">.",
				"S1F1 <L "+strings.Repeat("x ", 300)+strings.Repeat("<A x> ", 40)+">.",
			)
			// stream/function codes at and beyond their ranges with every wait-bit form: whatever the
			// header says, the message constructor is only called with what it accepts
			for _, sf := range []string{"S1F256", "S1F999", "S128F2", "S200F300", "S1F0", "S0F0", "S127F254", "S127F255", "S128F255", "S1F18446744073709551616", "S99999999999999999999F2"} {
				for _, w := range []string{"W", "[W]", "w", ""} {
					texts = append(texts, sf+" "+w+" .", sf+" "+w+" H->E Name <L>.", sf+" "+w+"\n<U1 1>\n.")
				}
			}
			// nesting with variables at the bottom (their names are collected again at every
			// level): the work must stay polynomial in the depth
			for _, d := range []int{22, 26, 32, 48, 120, 600} {
				for _, leaf := range []string{"<U1 x>", "<A name>", "x", "<L y <B z>>", "<BOOLEAN a b c> ..."} {
					texts = append(texts, "S1F1 W "+strings.Repeat("<L ", d)+leaf+strings.Repeat(">", d)+".")
				}
			}
			// every kind of lexing error at every place of a message, at the very end of the input
			// and followed by more
			for _, bad := range []string{`"oops`, `"`, "[1", "[", "[..", "[1..", "1x", "0xZ", "@", "$", "-", "+", ".5x", "'", "]", "1e", "..", "....", "\"a\rb\""} {
				for _, place := range []string{"S1F1 W H->E %s .", "S1F1 W <A \"ok\"> %s .", "S1F1 W <A \"ok\"> %s", "S1F1 W <A \"ok\">%s", "S1F1 W <L <A %s> > .", "S1F1 W <L <A \"ok\"> %s",
					"S1F1 W <A \"ok\">. %s", "%s", "S1F1 %s W .", "S1F1 W <A[2] %s", "S1F1 W <L[1] %s", "S1F1 W <U1 1 %s", "S1F1 W <L x %s"} {
					for _, tail := range []string{"", "\n", " ", "\r\n//c"} {
						texts = append(texts, fmt.Sprintf(place, bad)+tail)
					}
				}
			}
			results := runIsolated(texts)
			var out []Case
			for i, t := range texts {
				r := results[i]
				if r.show == "SKIPPED" {
					continue
				}
				cs := Case{Op: smlOp(t), Impl: r.show, Decisive: true, Nontrivial: len(t) > 3, Tags: []string{"outcome:" + r.class}}.fields("=n err warn")
				if strings.Count(t, "<") > 300 {
					// the model's printer is cubic in the nesting depth: deep inputs are judged by the
					// oracle on the real code only
					cs.Op, cs.Detail = "", fmt.Sprintf("deep input, %d bytes: %.60q…", len(t), t)
				}
				if r.class != "normal" {
					cs.Oracle = "sml.Parse did not return normally: " + r.class
				} else {
					cs.Oracle = totalityOracle(t, r.res)
				}
				out = append(out, cs)
			}
			return out
		}},
	}
}

// ---------- C08 ----------

// diagTokens rewrites diagnostics "L:C:kind" as "tok#i:kind" using the token start positions.
func diagTokens(res parseResult, pos [][2]int, toks []STok) []string {
	var out []string
	conv := func(tag, d string) {
		n := normDiag(d)
		parts := strings.SplitN(n, ":", 3)
		var ln, col int
		fmt.Sscan(parts[0], &ln)
		fmt.Sscan(parts[1], &col)
		kind := parts[len(parts)-1]
		for i, p := range pos {
			width := 1
			if i < len(toks) {
				width = utf8.RuneCountInString(toks[i].Text)
				if width == 0 {
					width = 1
				}
			}
			if p[0] == ln && p[1] <= col && col < p[1]+width {
				out = append(out, fmt.Sprintf("%s@tok%d+%d:%s", tag, i, col-p[1], kind))
				return
			}
		}
		out = append(out, fmt.Sprintf("%s@%d:%d(between tokens):%s", tag, ln, col, kind))
	}
	for _, e := range res.errs {
		conv("e", e)
	}
	for _, w := range res.warns {
		conv("w", w)
	}
	return out
}

func mutateTokens(r *rand.Rand, toks []STok) []STok {
	out := append([]STok{}, toks...)
	if len(out) == 0 {
		return out
	}
	i := r.Intn(len(out))
	switch r.Intn(4) {
	case 0:
		out = append(out[:i], out[i+1:]...)
	case 1:
		ins := []STok{{"<", glueNext, false}, {">", gluePrev | glueNext, false}, {"5", 0, false}, {"x9", 0, false}, {"T", 0, true}, {"...", 0, false}, {`"s"`, 0, false}, {"[2]", 0, false}, {"U1", 0, true}, {".", gluePrev, false}, {"W", 0, true}}[r.Intn(11)]
		out = append(out[:i], append([]STok{ins}, out[i:]...)...)
	case 2:
		j := r.Intn(len(out))
		out[i], out[j] = out[j], out[i]
	default:
		out = append(out, out[i])
	}
	return out
}

func suiteC08(c *Ctx) []Suite {
	return []Suite{
		{Name: "sml/layout-metamorphic", Gen: func(c *Ctx) []Case {
			var out []Case
			for i := 0; i < c.N(2000); i++ {
				item := smlTemplate(c.R, 0.2, false)
				m := genSMLMsg(c.R, item)
				toks := msgTokens(c.R, m, i%2 == 0)
				eolAfter := 0
				if i%3 == 0 && !strings.Contains(m.Name, `"`) {
					// (a name with a double quote in it, moved into the item by the mutation, would open
					// a string there: where it ends then depends on the line breaks, which is the grammar)
					toks = mutateTokens(c.R, toks) // invalid messages too
				}
				if i%3 == 1 {
					// invalid messages whose token structure is intact (every layout applies):
					// one value replaced by a literal no item type accepts, or a size made wrong
					var cand []int
					inItem := false // values stand inside the item; a message name may look like one
					for k, t := range toks {
						if t.Text == "<" {
							inItem = true
						}
						if inItem && len(t.Text) > 0 && (t.Text[0] >= '0' && t.Text[0] <= '9' || t.Text[0] == '-' || t.Text == "T" || t.Text == "F") {
							cand = append(cand, k)
						}
					}
					if len(cand) > 0 {
						toks = append([]STok{}, toks...)
						k := cand[c.R.Intn(len(cand))]
						// literals that some or no item types accept, in spellings whose letters may
						// change case
						wrong := []string{"1e999", "1e999", "0x10", "0b1", "0o7", "0xfe", "-0x1", "1e5", "99999999999999999999999", "0b102", "1.5e-3", "-1e999", "0x"}[c.R.Intn(13)]
						toks[k] = STok{wrong, 0, true}
						if len(cand) > 1 && c.R.Intn(3) == 0 {
							// the same mistake twice: two diagnostics with the same text
							toks[cand[c.R.Intn(len(cand))]] = STok{wrong, 0, true}
						}
						if c.R.Intn(3) == 0 {
							toks[k] = STok{`"unclosed`, 0, false} // a string that is not closed on its line
							eolAfter = k + 1
						}
					}
				}
				if i%7 == 3 && len(toks) > 2 && toks[len(toks)-1].Text == "." {
					// an invalid message whose stray token stands between the closing '>' and the
					// terminator: whatever separates them, the item text has not ended
					stray := []STok{{"t", 0, false}, {"T", 0, true}, {"...", 0, false}, {`"a b"`, 0, false}, {"[1]", 0, false}, {"x9", 0, false}, {"5", 0, false}, {"f", 0, false}, {"W", 0, false}, {"S1F1", 0, false}}[c.R.Intn(10)]
					toks = append(append(append([]STok{}, toks[:len(toks)-1]...), stray), toks[len(toks)-1])
				}
				dupVar := false
				if i%6 == 4 && len(toks) > 4 && toks[len(toks)-1].Text == "." && toks[len(toks)-2].Text == ">" {
					// an invalid message that uses one variable name twice (in a list, in an item of
					// the list, or both): the diagnostic names the variable and nothing of the layout
					root := -1
					for k, t := range toks {
						if t.Text == "<" {
							root = k
							break
						}
					}
					if root >= 0 && root+1 < len(toks) && toks[root+1].Text == "L" {
						nm := []string{"again", "dupv", "MDLN", "x9"}[c.R.Intn(4)]
						ins := [][]STok{
							{{nm, 0, false}, {nm, 0, false}},
							{{"<", glueNext, false}, {"U1", 0, true}, {nm, 0, false}, {">", gluePrev, false}, {nm, 0, false}},
							{{nm, 0, false}, {"<", glueNext, false}, {"BOOLEAN", 0, true}, {"T", 0, true}, {nm, 0, false}, {">", gluePrev, false}},
							{{"<", glueNext, false}, {"A", 0, true}, {nm, 0, false}, {">", gluePrev, false}, {"<", glueNext, false}, {"I2", 0, true}, {"7", 0, false}, {nm, 0, false}, {">", gluePrev, false}},
						}[c.R.Intn(4)]
						at := len(toks) - 2
						toks = append(append(append([]STok{}, toks[:at]...), ins...), toks[at:]...)
						dupVar = true
					}
				}
				if i%5 == 0 { // several messages in one text
					toks = append(toks, msgTokens(c.R, genSMLMsg(c.R, smlTemplate(c.R, 0.2, false)), false)...)
				}
				lay1 := plainLayout(c.R)
				lay1.EOLAfter = eolAfter
				t1, p1 := lay1.render(toks)
				lay2 := randomLayout(c.R)
				lay2.EOLAfter = eolAfter
				lay2.EndComment = i%4 == 2 && i%5 != 0
				if i%3 == 0 || dupVar {
					// in a mutated sequence tokens stand where gluing or a case change would alter
					// the token sequence itself: vary only the separators and comments
					lay2.Compact, lay2.VaryCase = false, false
					lay2.SizeWs, lay2.SizeZero = false, false
				}
				t2, p2 := lay2.render(toks)
				r1, r2 := parseSML(t1), parseSML(t2)
				cs := Case{Op: smlOp(t2), Nontrivial: true, Tags: []string{fmt.Sprintf("valid:%v", len(r1.errs) == 0)}}
				if dupVar {
					cs.Tags = append(cs.Tags, "variable-used-twice")
				}
				switch {
				case r1.panicked || r2.panicked:
					cs.Oracle = "panic"
				case len(r1.msgs) != len(r2.msgs):
					cs.Oracle = fmt.Sprintf("layout changes the number of messages: %d vs %d (errors %v vs %v)", len(r1.msgs), len(r2.msgs), r1.errs, r2.errs)
				default:
					for k := range r1.msgs {
						if d := sameMessage(r1.msgs[k], r2.msgs[k]); d != "" {
							cs.Oracle = "layout changes a parsed message: " + d
						}
					}
					d1, d2 := strings.Join(diagTokens(r1, p1, toks), " "), strings.Join(diagTokens(r2, p2, toks), " ")
					if cs.Oracle == "" && d1 != d2 {
						cs.Oracle = "layout changes the diagnostics (text or token they point at): " + d1 + " | " + d2
					}
					// the full diagnostic texts (positions aside) are the same when only
					// separators and comments differ
					if cs.Oracle == "" && !lay2.VaryCase && !lay2.SizeWs && !lay2.SizeZero {
						strip := func(ds []string) string {
							var o []string
							for _, d := range ds {
								if k := strings.Index(d, ": "); k >= 0 {
									d = d[k+2:]
								}
								o = append(o, d)
							}
							return strings.Join(o, " | ")
						}
						if a, b := strip(append(append([]string{}, r1.errs...), r1.warns...)), strip(append(append([]string{}, r2.errs...), r2.warns...)); a != b {
							cs.Oracle = "separators/comments change a diagnostic's text: " + firstDiff("x="+hxs(b), "x="+hxs(a))
						}
					}
				}
				out = append(out, cs, Case{Op: smlOp(t1), Nontrivial: true, Tags: []string{"plain-layout"}})
			}
			return out
		}},
		{Name: "sml/comment-bytes", Gen: func(c *Ctx) []Case {
			// a comment with any content at the end of any line of a valid text
			var out []Case
			for i := 0; i < c.N(600); i++ {
				item := smlTemplate(c.R, 0.1, false)
				msg, p := buildMsg(genSMLMsg(c.R, item))
				if p {
					continue
				}
				base := msg.String()
				lines := strings.Split(base, "\n")
				k := c.R.Intn(len(lines))
				cb := make([]byte, c.R.Intn(8))
				for j := range cb {
					cb[j] = byte(c.R.Intn(256))
					if cb[j] == '\n' {
						cb[j] = ' '
					}
				}
				comment := " //" + commentTexts[c.R.Intn(len(commentTexts))] + string(cb)
				if k == len(lines)-1 {
					switch c.R.Intn(3) {
					case 0:
						comment += "\n"
					case 1:
						comment = " //" // an empty comment as the last bytes of the input
					}
				}
				lines[k] += comment
				text := strings.Join(lines, "\n")
				r1, r2 := parseSML(base), parseSML(text)
				cs := Case{Op: smlOp(text), Nontrivial: true, Tags: []string{"comment-any-bytes"}}
				switch {
				case r2.panicked:
					cs.Oracle = "panic"
				case len(r1.msgs) != 1 || len(r2.msgs) != 1 || len(r2.errs) != 0 || len(r2.warns) != len(r1.warns):
					cs.Oracle = fmt.Sprintf("appending the comment %q to line %d changes the result: %d messages, errors %v", comment, k+1, len(r2.msgs), r2.errs)
				default:
					if d := sameMessage(r1.msgs[0], r2.msgs[0]); d != "" {
						cs.Oracle = "comment changes the parsed message: " + d
					}
				}
				out = append(out, cs)
			}
			return out
		}},
	}
}

// ---------- C15 ----------

// characters that look like escape sequences when they follow a backslash
const escChars = `\\\\tnx41a'0`

func suiteC15(c *Ctx) []Suite {
	types := []struct{ ty, elem string }{{"L", "<U1 1>"}, {"A", ""}, {"B", "1"}, {"BOOLEAN", "T"}, {"I1", "1"}, {"I2", "1"}, {"I4", "1"}, {"I8", "1"}, {"U1", "1"}, {"U2", "1"}, {"U4", "1"}, {"U8", "1"}, {"F4", "1.5"}, {"F8", "1.5"}}
	return []Suite{
		{Name: "size/literal-items-exhaustive-small", Gen: func(c *Ctx) []Case {
			var out []Case
			max := 4
			if c.Tier == "thorough" {
				max = 6
			}
			for _, t := range types {
				for lo := 0; lo <= max; lo++ {
					for hi := 0; hi <= max; hi++ {
						for n := 0; n <= max; n++ {
							for form := 0; form < 4; form++ {
								var decl string
								var okWant bool
								switch form {
								case 0:
									if hi != 0 {
										continue
									}
									decl, okWant = fmt.Sprintf("[%d]", lo), n == lo
								case 1:
									decl, okWant = fmt.Sprintf("[%d..%d]", lo, hi), lo <= n && n <= hi
								case 2:
									if hi != 0 {
										continue
									}
									decl, okWant = fmt.Sprintf("[%d..]", lo), n >= lo
								default:
									if lo != 0 {
										continue
									}
									decl, okWant = fmt.Sprintf("[..%d]", hi), n <= hi
								}
								if c.Tier != "thorough" && c.R.Intn(3) > 0 {
									continue
								}
								var body string
								if t.ty == "A" {
									if n > 0 {
										// every character counts as one, a backslash and what follows it included
										chars := make([]byte, n)
										for k := range chars {
											chars[k] = 'x'
											if c.R.Intn(2) == 0 {
												chars[k] = escChars[c.R.Intn(len(escChars))]
											}
										}
										if c.R.Intn(3) == 0 {
											// only sequences another language would read as escapes
											units := []string{`\t`, `\n`, `\\`, `\a`, `\x41`, `\101`, "x", "1"}
											for tries := 0; tries < 50; tries++ {
												cand := ""
												for len(cand) < n {
													cand += units[c.R.Intn(len(units))]
												}
												if len(cand) == n {
													chars = []byte(cand)
													break
												}
											}
										}
										body = ` "` + string(chars) + `"`
									}
								} else {
									body = strings.Repeat(" "+t.elem, n)
								}
								variant := ""
								switch {
								case t.ty == "L" && n >= 2 && c.R.Intn(3) == 0:
									// an ellipsis (and a list variable) are children like any other
									variant = "ellipsis"
									body = strings.Repeat(" "+t.elem, n-1) + " ..."
									if n >= 3 && c.R.Intn(2) == 0 {
										body = strings.Repeat(" "+t.elem, n-2) + " v ..."
									}
									if n >= 3 && c.R.Intn(3) == 0 {
										body = strings.Repeat(" "+t.elem, n-2) + " ... " + t.elem
									}
								case (t.ty[0] == 'I' || t.ty[0] == 'F') && n >= 2 && c.R.Intn(4) == 0:
									// elements that need no white space between them: the next one starts with
									// a sign or a dot
									variant = "glued"
									next := []string{"-1", "+1", "-0x1f", "+0b1"}
									if t.ty[0] == 'F' {
										next = []string{"-1.5", ".5", "+1e2", "-.5e-1", ".25"}
									}
									body = " " + t.elem
									for k := 1; k < n; k++ {
										body += next[c.R.Intn(len(next))]
									}
								}
								// one time in six an element the type cannot hold stands among the others: it
								// is reported where it stands and still counts as an element
								badElem := ""
								if lit, ok := map[string]string{"F4": "1e99", "F8": "1e999", "U1": "256", "U2": "65536", "U4": "4294967296", "U8": "18446744073709551616",
									"I1": "128", "I2": "-32769", "I4": "2147483648", "I8": "9223372036854775808", "B": "256"}[t.ty]; ok && n > 0 && variant == "" && c.R.Intn(6) == 0 {
									badElem = lit
									k := c.R.Intn(n)
									body = strings.Repeat(" "+t.elem, k) + " " + lit + strings.Repeat(" "+t.elem, n-1-k)
								}
								text := fmt.Sprintf("S1F1 H->E\n<L\n  <%s%s%s>\n>\n.", t.ty, decl, body)
								res := parseSML(text)
								cs := Case{Op: smlOp(text), Decisive: true, Nontrivial: true, Tags: []string{fmt.Sprintf("form:%d ok:%v", form, okWant)}}.fields("n err warn")
								if variant != "" {
									cs.Tags = append(cs.Tags, "elements:"+variant)
								}
								sizeErr := 0
								for _, e := range res.errs {
									if strings.Contains(e, "data item size overflow") {
										sizeErr++
										if !strings.HasPrefix(e, fmt.Sprintf("Ln 3, Col %d:", 4+len(t.ty))) {
											cs.Oracle = "size error is not reported at the declaration: " + e
										}
									}
								}
								switch {
								case res.panicked:
									cs.Oracle = "panic"
								case badElem != "":
									if want := map[bool]int{true: 0, false: 1}[okWant]; sizeErr != want || len(res.errs) != want+1 || len(res.msgs) != 0 {
										cs.Oracle = fmt.Sprintf("%s item with %d elements, one of them %s, declared %s: %d size errors among %d errors, %d messages", t.ty, n, badElem, decl, sizeErr, len(res.errs), len(res.msgs))
									}
								case okWant && (len(res.errs) != 0 || len(res.msgs) != 1):
									cs.Oracle = fmt.Sprintf("%s item with %d elements declared %s rejected: %v", t.ty, n, decl, res.errs)
								case !okWant && (sizeErr != 1 || len(res.msgs) != 0):
									cs.Oracle = fmt.Sprintf("%s item with %d elements declared %s: %d size errors, %d messages", t.ty, n, decl, sizeErr, len(res.msgs))
								}
								out = append(out, cs)
							}
						}
					}
				}
			}
			return out
		}},
		{Name: "size/huge-and-overflowing-bounds", Gen: func(c *Ctx) []Case {
			var out []Case
			// the longest ASCII literal there is, inside and outside its declared bounds (judged on
			// the real code)
			for _, d := range []struct {
				decl string
				ok   bool
			}{{"[16777215]", true}, {"[1..16777215]", true}, {"[1..]", true}, {"[..16777214]", false}, {"[16777216..]", false}} {
				res := ""
				safely(func() {
					text := "S1F1 W H->E\n<A" + d.decl + " \"" + strings.Repeat("z", 16777215) + "\">\n."
					r := parseSML(text)
					sizeAt := 0
					for _, e := range r.errs {
						if strings.Contains(e, "data item size overflow") && strings.HasPrefix(e, "Ln 2, Col 3:") {
							sizeAt++
						}
					}
					switch {
					case r.panicked:
						res = "panic"
					case d.ok && (len(r.errs) != 0 || len(r.msgs) != 1):
						res = fmt.Sprintf("an ASCII literal of 16,777,215 characters declared %s is refused: %v", d.decl, r.errs)
					case !d.ok && (sizeAt != 1 || len(r.errs) != 1 || len(r.msgs) != 0):
						res = fmt.Sprintf("an ASCII literal of 16,777,215 characters declared %s: errors %v", d.decl, r.errs)
					}
				})
				out = append(out, Case{Detail: "longest ASCII literal declared " + d.decl, Oracle: res, Nontrivial: true, Tags: []string{"longest-literal"}})
			}
			huge := []string{"16777215", "16777216", "4294967296", "9223372036854775807", "9223372036854775808", "99999999999999999999", "000000000000000000002"}
			for _, h := range huge {
				for _, form := range []string{"[%s]", "[%s..]", "[..%s]", "[1..%s]", "[%s..%s]", "[ %s ]", "[\r\n%s\r\n]"} {
					decl := strings.ReplaceAll(form, "%s", h)
					for _, n := range []int{0, 2} {
						text := fmt.Sprintf("S1F1 H->E\n<U1%s%s>\n.", decl, strings.Repeat(" 7", n))
						hv := new(bigInt)
						hv.SetString(h, 10)
						var lo, hi *bigInt
						switch {
						case strings.HasPrefix(form, "[..") :
							lo, hi = new(bigInt), hv
						case strings.HasPrefix(form, "[1.."):
							lo, hi = bigOne, hv
						case strings.HasSuffix(form, "..]"):
							lo, hi = hv, nil
						default:
							lo, hi = hv, hv
						}
						nb := new(bigInt).SetInt64(int64(n))
						okWant := lo.Cmp(nb) <= 0 && (hi == nil || nb.Cmp(hi) <= 0)
						res := parseSML(text)
						cs := Case{Op: smlOp(text), Decisive: true, Nontrivial: true, Tags: []string{"huge-bound"}}.fields("n err")
						if res.panicked {
							cs.Oracle = "panic"
						} else if okWant != (len(res.errs) == 0 && len(res.msgs) == 1) {
							cs.Oracle = fmt.Sprintf("%d elements declared %s: accepted=%v, want %v", n, decl, len(res.errs) == 0, okWant)
						}
						out = append(out, cs)
					}
				}
			}
			return out
		}},
		{Name: "size/bound-spellings", Gen: func(c *Ctx) []Case {
			// bounds are decimal whatever their spelling (leading zeros), and white space or
			// line breaks (LF, CRLF, lone CR) inside the brackets change nothing
			var out []Case
			vals := []int{0, 1, 2, 3, 7, 8, 9, 10, 11}
			for i := 0; i < c.N(1500); i++ {
				t := types[c.R.Intn(len(types))]
				lo, hi := vals[c.R.Intn(len(vals))], vals[c.R.Intn(len(vals))]
				n := pick(c.R, lo, hi, lo+1, hi+1, lo-1, hi-1, 8, 0)
				if n < 0 {
					n = 0
				}
				var decl string
				var okWant bool
				switch c.R.Intn(4) {
				case 0:
					decl, okWant = fmt.Sprintf("[%d]", lo), n == lo
				case 1:
					decl, okWant = fmt.Sprintf("[%d..%d]", lo, hi), lo <= n && n <= hi
				case 2:
					decl, okWant = fmt.Sprintf("[%d..]", lo), n >= lo
				default:
					decl, okWant = fmt.Sprintf("[..%d]", hi), n <= hi
				}
				spelled := spellSize(c.R, decl, c.R.Intn(3) > 0, c.R.Intn(2) == 0, c.R.Intn(2) == 0)
				var body string
				if t.ty == "A" {
					if n > 0 {
						body = ` "` + strings.Repeat("x", n) + `"`
					}
				} else {
					body = strings.Repeat(" "+t.elem, n)
				}
				text := fmt.Sprintf("S1F1 H->E\n<L\n  <%s%s%s>\n>\n.", t.ty, spelled, body)
				res := parseSML(text)
				cs := Case{Op: smlOp(text), Decisive: true, Nontrivial: true, Tags: []string{fmt.Sprintf("spelled ok:%v", okWant)}}.fields("n err warn")
				sizeErr := 0
				for _, e := range res.errs {
					if strings.Contains(e, "data item size overflow") {
						sizeErr++
					}
				}
				switch {
				case res.panicked:
					cs.Oracle = "panic"
				case okWant && (len(res.errs) != 0 || len(res.msgs) != 1):
					cs.Oracle = fmt.Sprintf("%s item with %d elements declared %q (= %s) rejected: %v", t.ty, n, spelled, decl, res.errs)
				case !okWant && (sizeErr != 1 || len(res.msgs) != 0):
					cs.Oracle = fmt.Sprintf("%s item with %d elements declared %q (= %s): %d size errors, %d messages", t.ty, n, spelled, decl, sizeErr, len(res.msgs))
				}
				out = append(out, cs)
				// the same spelling on an ASCII variable: the bounds are printed back in plain decimal
				if i%3 == 0 && !(strings.Contains(decl, "..") && !strings.HasSuffix(decl, "..]") && hi < lo && !strings.HasPrefix(decl, "[..")) {
					vt := fmt.Sprintf("S1F1 H->E\n<L\n  <A%s name>\n>\n.", spelled)
					out = append(out, Case{Op: smlOp(vt), Decisive: true, Nontrivial: true, Tags: []string{"spelled-variable"}}.fields("n err warn str"))
				}
			}
			return out
		}},
		{Name: "size/several-violations-on-one-line", Gen: func(c *Ctx) []Case {
			// several items on one line, each with a violated declaration and all with the same
			// element count (so that their error texts are equal): every one is reported at its own
			// declaration
			var out []Case
			for i := 0; i < c.N(300); i++ {
				n := 2 + c.R.Intn(3)
				cnt := 1 + c.R.Intn(3)
				line := "S1F1 W H->E <L"
				var cols []int
				for k := 0; k < n; k++ {
					ty := []string{"B", "U1", "I2", "U4", "BOOLEAN", "A"}[c.R.Intn(6)]
					body := strings.Repeat(" 1", cnt)
					if ty == "BOOLEAN" {
						body = strings.Repeat(" T", cnt)
					} else if ty == "A" {
						body = " \"" + strings.Repeat("q", cnt) + "\""
					}
					decl := []string{fmt.Sprintf("[%d]", cnt+1+c.R.Intn(2)), fmt.Sprintf("[..%d]", cnt-1), fmt.Sprintf("[%d..]", cnt+1), fmt.Sprintf("[%d..%d]", cnt+1, cnt+3)}[c.R.Intn(4)]
					line += " <" + ty
					cols = append(cols, utf8.RuneCountInString(line)+1)
					line += decl + body + ">"
				}
				// the enclosing list violates its own declaration with the same count, one time in two
				text := line + ">."
				if c.R.Intn(2) == 0 && n == cnt {
					text = strings.Replace(line, "<L", fmt.Sprintf("<L[%d]", n+1), 1) + ">."
					shift := len(fmt.Sprintf("[%d]", n+1))
					for k := range cols {
						cols[k] += shift
					}
					cols = append(cols, len("S1F1 W H->E <L")+1)
				}
				res := parseSML(text)
				cs := Case{Op: smlOp(text), Decisive: true, Nontrivial: true, Tags: []string{fmt.Sprintf("one-line violations:%d", len(cols))}}.fields("n err warn")
				var got, exp []string
				for _, e := range res.errs {
					if strings.Contains(e, "data item size overflow") {
						got = append(got, e[:strings.IndexByte(e, ':')])
					}
				}
				for _, col := range cols {
					exp = append(exp, fmt.Sprintf("Ln 1, Col %d", col))
				}
				if res.panicked {
					cs.Oracle = "panic"
				} else if strings.Join(got, "; ") != strings.Join(exp, "; ") {
					cs.Oracle = fmt.Sprintf("size errors reported at [%s], the violated declarations are at [%s]", strings.Join(got, "; "), strings.Join(exp, "; "))
				}
				out = append(out, cs)
			}
			return out
		}},
		{Name: "size/nested-declarations", Gen: func(c *Ctx) []Case {
			// a list whose own declaration is violated while its descendants carry (correct or
			// violated) declarations of their own: every size error is reported at the
			// declaration of the item it belongs to
			var out []Case
			nvar := 0
			leaf := func() (string, bool) {
				ok := c.R.Intn(4) > 0
				switch c.R.Intn(6) {
				case 4: // an ASCII variable (its declaration is kept, never violated at parse time)
					nvar++
					return []string{fmt.Sprintf(`<A v%d>`, nvar), fmt.Sprintf(`<A[2..4] v%d>`, nvar), fmt.Sprintf(`<A[3] v%d>`, nvar)}[c.R.Intn(3)], true
				case 5: // a variable of another type
					nvar++
					return []string{fmt.Sprintf(`<U1 v%d>`, nvar), fmt.Sprintf(`<BOOLEAN[1] v%d>`, nvar), fmt.Sprintf(`<I4[2] 5 v%d>`, nvar)}[c.R.Intn(3)], true
				case 0:
					return fmt.Sprintf(`<A[%d] "ab">`, map[bool]int{true: 2, false: 3}[ok]), ok
				case 1:
					return fmt.Sprintf(`<U1[%d..%d] 1 2 3>`, map[bool]int{true: 1, false: 4}[ok], 5), ok
				case 2:
					if c.R.Intn(3) == 0 {
						// a declaration written over several lines (line breaks are blanks inside it)
						return fmt.Sprintf("<B[..\n   %d\n ] 1 2>", map[bool]int{true: 2, false: 1}[ok]), ok
					}
					return fmt.Sprintf(`<B[..%d] 1 2>`, map[bool]int{true: 2, false: 1}[ok]), ok
				}
				return `<I2 7>`, true
			}
			for i := 0; i < c.N(600); i++ {
				var lines []string
				type want struct{ line, col int }
				var wants []want
				// one time in three the header stands on the line of the first list, with a name or
				// separators of several bytes per character: columns count characters
				hdr := ""
				if c.R.Intn(3) == 0 {
					hdr = []string{"S1F1 W H->E Größe ", "S1F1 W H->E 名前テスト ", "S1F1\u00a0W\u00a0H->E\u00a0né\u3000", "S1F1 W H->E plain "}[c.R.Intn(4)]
				} else {
					// one time in three an earlier message with a mistake of its own stands first:
					// what follows it is still read and reported
					switch c.R.Intn(9) {
					case 0:
						lines = append(lines, "S2F2 W H->E", "<U1[2] 1>", ".")
						wants = append(wants, want{2, 4})
					case 1:
						lines = append(lines, "S2F2 W", ".") // a reply that asks for a reply
					case 2:
						lines = append(lines, "S6F11 W H<-E first", "<L[1]", "  <I1 300>", "  <A[1] \"\">", ">", ".")
						wants = append(wants, want{4, 5}, want{2, 3})
					}
					lines = append(lines, "S1F1 W H->E")
				}
				var build func(depth, indent int)
				build = func(depth, indent int) {
					n := 1 + c.R.Intn(3)
					declared := n
					bad := c.R.Intn(2) == 0
					if bad {
						declared = n + 1 + c.R.Intn(2)
					}
					pad := strings.Repeat("  ", indent)
					first := ""
					if len(lines) == 0 {
						first = hdr
					}
					lines = append(lines, fmt.Sprintf("%s%s<L[%d]", first, pad, declared))
					myLine := len(lines)
					if c.R.Intn(4) == 0 {
						// the list's own declaration over three lines
						lines[len(lines)-1] = fmt.Sprintf("%s%s<L[", first, pad)
						lines = append(lines, fmt.Sprintf("%s    %d", pad, declared), pad+"  ]")
					}
					var kids []want
					for k := 0; k < n; k++ {
						if depth < 2 && c.R.Intn(3) == 0 {
							before := len(wants)
							build(depth+1, indent+1)
							kids = append(kids, wants[before:]...)
							wants = wants[:before]
						} else {
							t, ok := leaf()
							parts := strings.Split(t, "\n")
							lines = append(lines, pad+"  "+parts[0])
							if !ok {
								kids = append(kids, want{len(lines), len(pad) + 2 + strings.IndexByte(t, '[') + 1})
							}
							lines = append(lines, parts[1:]...)
						}
					}
					lines = append(lines, pad+">")
					// errors are reported in the order the items are completed: children first
					wants = append(wants, kids...)
					if bad {
						wants = append(wants, want{myLine, utf8.RuneCountInString(first) + len(pad) + 3})
					}
				}
				build(0, 0)
				lines = append(lines, ".")
				text := strings.Join(lines, "\n")
				res := parseSML(text)
				cs := Case{Op: smlOp(text), Decisive: true, Nontrivial: true, Tags: []string{fmt.Sprintf("nested-decl errors:%d", len(wants))}}.fields("n err warn")
				var got []string
				for _, e := range res.errs {
					if strings.Contains(e, "data item size overflow") {
						got = append(got, e[:strings.IndexByte(e, ':')])
					}
				}
				var exp []string
				for _, w := range wants {
					exp = append(exp, fmt.Sprintf("Ln %d, Col %d", w.line, w.col))
				}
				if res.panicked {
					cs.Oracle = "panic"
				} else if strings.Join(got, "; ") != strings.Join(exp, "; ") {
					cs.Oracle = fmt.Sprintf("size errors reported at [%s], the violated declarations are at [%s]", strings.Join(got, "; "), strings.Join(exp, "; "))
				}
				out = append(out, cs)
			}
			return out
		}},
		{Name: "size/ascii-variable-under-ellipsis", Gen: func(c *Ctx) []Case { return ellipsisCases(c, c.N(1500), 3, 3) }},
		{Name: "size/ascii-variable-bounds", Gen: func(c *Ctx) []Case {
			var out []Case
			// several ASCII variables whose names and bounds run into each other when written side by
			// side (`lot1` [2..30] and `lot` [12..30], `w2` [3..] and `w` [23..], `id1` [1] and `id` [11]):
			// every variable keeps its own name and its own bounds, in one text and across texts
			for _, pr := range [][2]string{{"<A[2..30] lot1>", "<A[12..30] lot>"}, {"<A[3..] wafer2>", "<A[23..] wafer>"}, {"<A[1] id1>", "<A[11] id>"},
				{"<A[..7] x_1>", "<A[..17] x_>"}, {"<A[0..5] p1>", "<A[10..5] p>"}, {"<A[12..30] lot>", "<A[2..30] lot1>"}, {"<A[2] k11>", "<A[12] k1>"}} {
				for _, text := range []string{
					"S1F1 H->E\n<L\n  " + pr[0] + "\n  " + pr[1] + "\n>\n.",
					"S1F1 H->E\n<L " + pr[0] + ">\n.\nS1F3 H->E\n<L " + pr[1] + ">\n.",
					"S1F1 H->E " + pr[0] + " .\nS1F3 H->E " + pr[1] + " .\nS1F5 H->E " + pr[0] + " .",
				} {
					out = append(out, Case{Op: smlOp(text), Decisive: true, Nontrivial: true, Tags: []string{"look-alike-variables"}}.fields("n err warn str vars"))
				}
			}
			max := 4
			if c.Tier == "thorough" {
				max = 6
			}
			for lo := 0; lo <= max; lo++ {
				for hi := -1; hi <= max; hi++ {
					for form := 0; form < 4; form++ {
						var decl string
						wlo, whi := lo, hi
						switch form {
						case 0:
							if hi != -1 {
								continue
							}
							decl, whi = fmt.Sprintf("[%d]", lo), lo
						case 1:
							if hi < lo {
								continue
							}
							decl = fmt.Sprintf("[%d..%d]", lo, hi)
						case 2:
							if hi != -1 {
								continue
							}
							decl = fmt.Sprintf("[%d..]", lo)
						default:
							if lo != 0 || hi < 0 {
								continue
							}
							decl = fmt.Sprintf("[..%d]", hi)
						}
						text := fmt.Sprintf("S1F1 H->E\n<L\n  <A%s v>\n>\n.", decl)
						res := parseSML(text)
						// fills of every length 0..max+1
						var fillOps []string
						oracle := ""
						if res.panicked || len(res.errs) != 0 || len(res.msgs) != 1 {
							oracle = fmt.Sprintf("ASCII variable declared %s rejected: %v", decl, res.errs)
						} else {
							printed := res.msgs[0].String()
							re := parseSML(printed)
							if re.panicked || len(re.msgs) != 1 || re.msgs[0].String() != printed {
								oracle = "declared bounds are not printed back: " + printed
							}
							for n := 0; n <= max+1; n++ {
								s := strings.Repeat("y", n)
								pan, _ := safely(func() { res.msgs[0].FillVariables(map[string]interface{}{"v": s}) })
								want := n >= wlo && (whi == -1 || n <= whi)
								if pan == want && oracle == "" {
									oracle = fmt.Sprintf("variable declared %s filled with %d characters: refused=%v", decl, n, pan)
								}
								fillOps = append(fillOps, fmt.Sprintf("1 76 s:%s", hxs(s)))
							}
						}
						out = append(out, Case{Op: smlOp(text), Decisive: true, Oracle: oracle, Nontrivial: true, Tags: []string{fmt.Sprintf("avform:%d", form)}}.fields("n err warn str"))
						wmax := whi
						out = append(out, Case{Op: fmt.Sprintf("fillitem AV $76 %d %d | %s", wlo, wmax, strings.Join(fillOps, " | ")), Decisive: true, Nontrivial: true, Tags: []string{"avfill"}}.fields(itemKeys))
					}
				}
			}
			// bounds the wrong way round: no length lies in [lo..hi], the declaration is an error
			for lo := 1; lo <= max; lo++ {
				for hi := 0; hi < lo; hi++ {
					text := fmt.Sprintf("S1F1 H->E\n<L\n  <A[%d..%d] v>\n>\n.", lo, hi)
					res := parseSML(text)
					oracle := ""
					if res.panicked {
						oracle = "panic"
					} else if len(res.errs) == 0 {
						oracle = fmt.Sprintf("ASCII variable declared [%d..%d] (no length fits) accepted", lo, hi)
						if len(res.msgs) == 1 {
							oracle += " as " + strings.ReplaceAll(res.msgs[0].String(), "\n", " ")
						}
					}
					out = append(out, Case{Op: smlOp(text), Decisive: true, Oracle: oracle, Nontrivial: true, Tags: []string{"av-reversed"}}.fields("n err warn str"))
				}
			}
			// bounds beyond every item size: kept, enforced and printed back as they were given
			for _, b := range []string{"16777215", "16777216", "20000000", "4294967296", "9223372036854775807"} {
				for _, form := range []string{"[%s]", "[2..%s]", "[..%s]", "[%s..]"} {
					decl := strings.ReplaceAll(form, "%s", b)
					text := fmt.Sprintf("S1F1 H->E\n<L\n  <A%s v>\n>\n.", decl)
					res := parseSML(text)
					oracle := ""
					if res.panicked {
						oracle = "panic"
					} else if len(res.errs) == 0 && len(res.msgs) == 1 {
						printed := res.msgs[0].String()
						if !strings.Contains(printed, b) {
							oracle = "declared bound " + b + " is not printed back: " + strings.ReplaceAll(printed, "\n", " ")
						} else if re := parseSML(printed); re.panicked || len(re.msgs) != 1 || re.msgs[0].String() != printed {
							oracle = "printed form with the huge bound does not parse back to itself"
						}
					}
					out = append(out, Case{Op: smlOp(text), Decisive: true, Oracle: oracle, Nontrivial: true, Tags: []string{"av-huge-bound"}}.fields("n err warn str"))
				}
			}
			return out
		}},
	}
}

// ---------- C19 ----------

var separators = []string{"\f", "\n\f\n", "\v", "\u0085", "\u00a0", " \u2028", "\u3000\n", "\r", "\f// page 2\n",
	"// rev A\r rev B\n", "// was:\rS9F9 W H->E Old .\n", " //\r\r\n", "", " ", "\n", "\r\n", "\t", "  \n\n", "// c\n", " // c\r\n", "\n// first\n// second\n", " //\n", "// S9F9 W .\n", "\n\n\n"}

func suiteC19(c *Ctx) []Suite {
	return []Suite{
		{Name: "sml/concatenation", Gen: func(c *Ctx) []Case {
			var out []Case
			for i := 0; i < c.N(1500); i++ {
				k := 2 + c.R.Intn(2)
				var texts []string
				var singles [][]*ast.DataMessage
				okAll := true
				names := &nameGen{}
				_ = names
				var prev *MsgDesc
				for j := 0; j < k; j++ {
					// variable names and ellipses are reused across messages on purpose
					rr := rand.New(rand.NewSource(int64(i*7 + j%2)))
					item := smlTemplate(rr, 0.3, false)
					if c.R.Intn(6) == 0 {
						item = &Node{Kind: "E"} // a header-only message
					}
					m := genSMLMsg(c.R, item)
					// one time in four the message belongs to the one before it: its reply (next
					// function code, no wait bit) or a repetition, written without a direction
					related := j > 0 && prev != nil && c.R.Intn(4) == 0
					if related {
						m.S, m.F, m.Dir = prev.S, prev.F, "H<->E"
						if prev.F%2 == 1 && prev.F < 255 && c.R.Intn(4) > 0 {
							m.F, m.W = prev.F+1, 0
						}
						if c.R.Intn(2) == 0 {
							m.Name = prev.Name
						}
					}
					prev = m
					var t string
					if related {
						var toks []STok
						for q, tk := range msgTokens(c.R, m, true) {
							if q <= 2 && tk.Text == "H<->E" {
								continue
							}
							toks = append(toks, tk)
						}
						t, _ = randomLayout(c.R).render(toks)
						t = strings.TrimRight(t, " \t\r\n")
						if strings.Contains(t[strings.LastIndex(t, "\n")+1:], "//") {
							t += "\n"
						}
					} else if c.R.Intn(2) == 0 {
						msg, p := buildMsg(m)
						if p {
							okAll = false
							break
						}
						t = msg.String()
					} else {
						t, _ = randomLayout(c.R).render(msgTokens(c.R, m, true))
						t = strings.TrimRight(t, " \t\r\n")
						if strings.Contains(t[strings.LastIndex(t, "\n")+1:], "//") {
							t += "\n" // a text may not end inside a comment
						}
					}
					if m.Name != "" && (m.Item == nil || m.Item.Kind == "E") && c.R.Intn(2) == 0 {
						// the terminator glued to the name is part of the name: such a text is
						// not accepted on its own and never reaches the concatenation
						if k := strings.LastIndex(t, m.Name); k >= 0 {
							t = t[:k+len(m.Name)] + "."
						}
					}
					// a later text may start with whatever the parser accepts at the start of a text
					// (byte order mark, exotic blanks, a comment): if the text is accepted with
					// it, the concatenation has to cope with it too
					if j > 0 && c.R.Intn(5) == 0 {
						cand := []string{"\ufeff", "\ufeff\n", "\u00a0", "\v", "\f", "\u2028", "// first line\n", "\r\n\t", "\x00"}[c.R.Intn(9)] + t
						if rc := parseSML(cand); !rc.panicked && len(rc.errs) == 0 {
							t = cand
						}
					}
					// an earlier text may end with whatever the parser accepts at the end of a text
					// (an end-of-file mark, an opened block comment, a stray control byte): if the
					// text is accepted with it, what follows it is still read
					if j < k-1 && c.R.Intn(4) == 0 {
						cand := t + []string{"\n/* end of the first file\n", "\x1a", "\x1a\n", "\n\x04", "\n#eof\n", "\n;\n", "\n\x00", "\n---\n", "\n*/\n", "\x0c",
						// a message end character that ends nothing (an empty record)
						"\n.", " .", "\n.\n.\n", ".", "\n// end\n.\n"}[c.R.Intn(15)]
						if rc := parseSML(cand); !rc.panicked && len(rc.errs) == 0 {
							t = cand
						}
					}
					r := parseSML(t)
					out = append(out, Case{Op: smlOp(t), Nontrivial: true, Tags: []string{fmt.Sprintf("single-text accepted:%v", !r.panicked && len(r.errs) == 0)}})
					if r.panicked || len(r.errs) != 0 {
						okAll = false
						break
					}
					texts = append(texts, t)
					singles = append(singles, r.msgs)
				}
				if !okAll {
					continue
				}
				if i%40 == 5 && len(texts) >= 2 {
					// the same literals in an F4 item of one text and an F8 item of the next
					lits := []string{"0.1 1e-3 3.3 -2.7", "0.3 16777217 1e10", "3.4028235e38 0.7"}[c.R.Intn(3)]
					a, b := "F4", "F8"
					if c.R.Intn(2) == 0 {
						a, b = b, a
					}
					t0 := fmt.Sprintf("S1F1 W H->E\n<%s %s>\n.", a, lits)
					t1 := fmt.Sprintf("S1F3 W H->E\n<L <%s %s>>\n.", b, lits)
					if r0, r1 := parseSML(t0), parseSML(t1); !r0.panicked && !r1.panicked && len(r0.errs) == 0 && len(r1.errs) == 0 {
						texts[0], texts[1] = t0, t1
						singles[0], singles[1] = r0.msgs, r1.msgs
					}
				}
				var sb strings.Builder
				for j, t := range texts {
					sb.WriteString(t)
					if j < len(texts)-1 {
						sb.WriteString(separators[c.R.Intn(len(separators))])
					}
				}
				all := parseSML(sb.String())
				cs := Case{Op: smlOp(sb.String()), Nontrivial: true, Tags: []string{fmt.Sprintf("texts:%d", k)}}
				var want []*ast.DataMessage
				for _, s := range singles {
					want = append(want, s...)
				}
				switch {
				case all.panicked:
					cs.Oracle = "panic"
				case len(all.errs) != 0:
					cs.Oracle = "concatenation of accepted texts rejected: " + all.errs[0]
				case len(all.msgs) != len(want):
					cs.Oracle = fmt.Sprintf("concatenation returns %d messages, the texts alone %d", len(all.msgs), len(want))
				default:
					for j := range want {
						if d := sameMessage(all.msgs[j], want[j]); d != "" {
							cs.Oracle = fmt.Sprintf("message %d differs from the one parsed alone: %s", j, d)
						}
					}
				}
				out = append(out, cs)
			}
			return out
		}},
		{Name: "sml/concatenation-of-many-messages", Gen: func(c *Ctx) []Case {
			// texts of many messages, each with a warning or two (no direction, a numbered
			// ellipsis): nothing counts up across messages or texts
			var out []Case
			for _, n := range []int{20, 60, 110} {
				mk := func(sf string) string {
					var sb strings.Builder
					for i := 0; i < n; i++ {
						switch i % 3 {
						case 0:
							sb.WriteString(sf + " .\n")
						case 1:
							sb.WriteString(sf + " W <L <U1 x> ...[3]>.\n")
						default:
							sb.WriteString(sf + " name" + fmt.Sprint(i) + "\n<A \"t\">\n.\n")
						}
					}
					return sb.String()
				}
				a, b := mk("S1F1"), mk("S2F3")
				ra, rb, rab := parseSML(a), parseSML(b), parseSML(a+b)
				cs := Case{Op: smlOp(a + b), Nontrivial: true, Tags: []string{fmt.Sprintf("many-messages:%d", 2*n)}}
				switch {
				case ra.panicked || rb.panicked || rab.panicked:
					cs.Oracle = "panic"
				case len(ra.errs)+len(rb.errs) != 0 || len(ra.msgs) != n || len(rb.msgs) != n:
					cs.Oracle = fmt.Sprintf("%d warned messages alone: %d and %d messages, errors %v %v", n, len(ra.msgs), len(rb.msgs), ra.errs, rb.errs)
				case len(rab.errs) != 0 || len(rab.msgs) != 2*n || len(rab.warns) != len(ra.warns)+len(rb.warns):
					cs.Oracle = fmt.Sprintf("two accepted texts of %d messages each: the concatenation gives %d messages, %d warnings (alone %d + %d), errors %v", n, len(rab.msgs), len(rab.warns), len(ra.warns), len(rb.warns), rab.errs)
				default:
					for j := range rab.msgs {
						w := ra.msgs
						k := j
						if j >= n {
							w, k = rb.msgs, j-n
						}
						if d := sameMessage(rab.msgs[j], w[k]); d != "" {
							cs.Oracle = fmt.Sprintf("message %d differs from the one parsed alone: %s", j, d)
						}
					}
				}
				out = append(out, cs)
			}
			return out
		}},
		{Name: "sml/concatenation-after-a-long-text", Gen: func(c *Ctx) []Case {
			// the second text stands more than 16 MiB into the input: offsets are no sizes
			// (judged on the real code only; the model driver is not fed 16 MB lines)
			var out []Case
			first := "S1F1 W H->E Long\n<A \"first\">\n.\n//" + strings.Repeat(" padding", 2100000) + "\n"
			for _, second := range []string{"S1F3 W H->E\n<L <A \"quoted\"> <U2 65535> <F8 0.1>>\n.", "S1F5 <A[3] \"abc\" > ."} {
				r1, r2 := parseSML(first), parseSML(second)
				all := parseSML(first + second)
				res := ""
				switch {
				case r1.panicked || r2.panicked || all.panicked:
					res = "panic"
				case len(r1.errs) != 0 || len(r2.errs) != 0:
					res = "" // not accepted alone: outside the property
				case len(all.errs) != 0:
					res = "concatenation of accepted texts rejected: " + all.errs[0]
				case len(all.msgs) != len(r1.msgs)+len(r2.msgs):
					res = fmt.Sprintf("concatenation returns %d messages, the texts alone %d", len(all.msgs), len(r1.msgs)+len(r2.msgs))
				default:
					for j, m := range append(append([]*ast.DataMessage{}, r1.msgs...), r2.msgs...) {
						if d := sameMessage(all.msgs[j], m); d != "" {
							res = fmt.Sprintf("message %d differs from the one parsed alone: %s", j, d)
						}
					}
				}
				out = append(out, Case{Detail: fmt.Sprintf("a %d-byte first text followed by %q", len(first), second), Oracle: res, Nontrivial: true, Tags: []string{"long-first-text"}})
			}
			return out
		}},
	}
}

// findASCII recovers the characters of the (last) A item from a printed message: quoted runs and
// 0xNN codes between "<A" and the closing ">".
func findASCII(printed string) string {
	i := strings.LastIndex(printed, "<A")
	if i < 0 {
		return "?"
	}
	rest := printed[i+2:]
	if j := strings.Index(rest, "]"); strings.HasPrefix(rest, "[") && j > 0 {
		rest = rest[j+1:]
	}
	out := ""
	for len(rest) > 0 {
		switch {
		case rest[0] == '"':
			j := strings.IndexByte(rest[1:], '"')
			if j < 0 {
				return "?"
			}
			out += rest[1 : 1+j]
			rest = rest[j+2:]
		case strings.HasPrefix(rest, "0x"):
			j := 2
			for j < len(rest) && strings.IndexByte("0123456789abcdefABCDEF", rest[j]) >= 0 {
				j++
			}
			v, _ := strconv.ParseInt(rest[2:j], 16, 32)
			out += string(rune(v))
			rest = rest[j:]
		case rest[0] == '>':
			return out
		default:
			rest = rest[1:]
		}
	}
	return out
}
