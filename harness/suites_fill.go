package main

import (
	"fmt"
	"math"
	"math/rand"
	"sort"
	"strings"

	"github.com/wolimst/lib-secs2-hsms-go/pkg/ast"
)

// ---------- protocol: environments ----------

func (p *toks) env() map[string]interface{} {
	n := p.nat()
	m := map[string]interface{}{}
	for i := 0; i < n; i++ {
		name := string(p.hexb())
		m[name] = p.goVal()
	}
	return m
}

// envSnapshot renders a fill-in table (keys, Go types, values; item values by identity and
// content) so that a producer writing to its argument is observed.
func envSnapshot(env map[string]interface{}) string {
	keys := make([]string, 0, len(env))
	for k := range env {
		keys = append(keys, k)
	}
	sort.Strings(keys)
	var sb strings.Builder
	for _, k := range keys {
		v := env[k]
		if it, ok := v.(ast.ItemNode); ok {
			fmt.Fprintf(&sb, "%q=%p:%s;", k, it, showItem(it))
		} else {
			fmt.Fprintf(&sb, "%q=%T:%v;", k, v, v)
		}
	}
	return sb.String()
}

// variedEnv: the same keys with other values of the same Go types
func variedEnv(env map[string]interface{}) map[string]interface{} {
	out := map[string]interface{}{}
	for k, v := range env {
		switch x := v.(type) {
		case bool:
			out[k] = !x
		case int:
			if strings.HasPrefix(k, "...") {
				out[k] = x
			} else {
				out[k] = x ^ 1
			}
		case int8:
			out[k] = x ^ 1
		case int16:
			out[k] = x ^ 1
		case int32:
			out[k] = x ^ 1
		case int64:
			out[k] = x ^ 1
		case uint:
			out[k] = x ^ 1
		case uint8:
			out[k] = x ^ 1
		case uint16:
			out[k] = x ^ 1
		case uint32:
			out[k] = x ^ 1
		case uint64:
			out[k] = x ^ 1
		case float32:
			out[k] = -x
		case float64:
			out[k] = -x
		default:
			out[k] = v
		}
	}
	return out
}

func implFillItem(t []string) string {
	steps := splitSteps(t)
	p := &toks{t: steps[0]}
	var cur ast.ItemNode
	if pan, r := safely(func() { cur = p.node().Build() }); pan {
		if b, ok := r.(badOp); ok {
			panic(b)
		}
		return "PANIC"
	}
	outs := []string{showItem(cur)}
	for _, st := range steps[1:] {
		sp := &toks{t: st}
		var env map[string]interface{}
		if pan, r := safely(func() { env = sp.env() }); pan {
			if b, ok := r.(badOp); ok {
				panic(b)
			}
			outs = append(outs, "PANIC") // a fill-in item value that cannot even be built
			continue
		}
		var next ast.ItemNode
		before := envSnapshot(env)
		tmplBefore := showItem(cur)
		pan, _ := safely(func() { next = cur.FillVariables(env) })
		mut := ""
		if envSnapshot(env) != before {
			mut = " ARGMUT" // the caller's fill-in table was written to
		}
		if tmplAfter := showItem(cur); tmplAfter != tmplBefore {
			mut += " TEMPLATE-CHANGED" // the template that was filled is no longer what it was
		} else if !pan {
			// a second fill of the same template with other values leaves the first result alone
			firstResult := showItem(next)
			safely(func() { cur.FillVariables(variedEnv(env)) })
			if showItem(next) != firstResult {
				mut += " EARLIER-RESULT-CHANGED"
			}
			// ... and filling the same template again gives the same item
			var again ast.ItemNode
			if p2, _ := safely(func() { again = cur.FillVariables(env) }); p2 || showItem(again) != showItem(next) {
				mut += " SECOND-FILL-DIFFERS"
			}
		}
		if pan {
			outs = append(outs, "PANIC"+mut)
			continue
		}
		cur = next
		outs = append(outs, showItem(cur)+mut)
	}
	return strings.Join(outs, " | ")
}

// ---------- fill values ----------

// FillVal is a typed fill-in value: its protocol token and, when the value can be written
// directly into a template description, the slot it amounts to.
type FillVal struct {
	Tok  string
	Slot *Slot // nil: no direct-construction equivalent (wrong type, rename, ...)
	Str  []byte
	IsA  bool // value for an ASCII variable (replaces the node by an A node)
	Open []varRef // variables of a fill-in item that is itself a template
}

func genFillVal(r *rand.Rand, n *Node, pbad float64, names *nameGen) FillVal {
	bad := r.Float64() < pbad
	if bad && r.Intn(3) == 0 { // wrong Go type altogether
		return FillVal{Tok: []string{"x", "b:1", "f64:4607182418800017408", "i:0:7", "s:" + hxs("0b1")}[r.Intn(5)]}
	}
	// a string value for a numeric, boolean, binary or list slot renames the variable: to a new
	// name, or (one time in three) to a name the template already uses — itself, a sibling of
	// the same node, or a variable of another node (refused as a duplicate unless that very
	// variable is replaced in the same call)
	if n.Kind != "AV" && names != nil && r.Intn(12) == 0 {
		nm := names.fresh(r)
		if r.Intn(3) == 0 && len(names.used) > 1 {
			nm = names.used[r.Intn(len(names.used)-1)]
		}
		return FillVal{Tok: strTok(nm), Slot: &Slot{IsVar: true, Name: nm}, Open: []varRef{{n, -2, nm}}}
	}
	switch n.Kind {
	case "I":
		if r.Intn(3) == 0 {
			k := pick(r, 0, 8, 16, 32, 64)
			v := clampU(k, uBoundaries[r.Intn(len(uBoundaries))])
			if !bad && n.W < 8 {
				v = clampU(k, uint64(r.Intn(1<<uint(8*n.W-1))))
			}
			if v > math.MaxInt64 {
				return FillVal{Tok: uintTok(k, v)}
			}
			return FillVal{Tok: uintTok(k, v), Slot: &Slot{I: int64(v)}}
		}
		k := pick(r, 0, 8, 16, 32, 64)
		v := clampS(k, genIntVal(r, n.W, bad))
		return FillVal{Tok: sintTok(k, v), Slot: &Slot{I: v}}
	case "U":
		if r.Intn(3) == 0 {
			k := pick(r, 0, 8, 16, 32, 64)
			v := clampS(k, int64(genUintVal(r, n.W, bad)>>1))
			if bad {
				v = -1 - int64(r.Intn(5))
			}
			if v < 0 {
				return FillVal{Tok: sintTok(k, clampS(k, v))}
			}
			return FillVal{Tok: sintTok(k, v), Slot: &Slot{U: uint64(v)}}
		}
		k := pick(r, 0, 8, 16, 32, 64)
		v := clampU(k, genUintVal(r, n.W, bad))
		return FillVal{Tok: uintTok(k, v), Slot: &Slot{U: v}}
	case "F":
		if n.W == 4 && r.Intn(2) == 0 {
			b := genFloatBits(r, 4, bad)
			return FillVal{Tok: fmt.Sprintf("f32:%d", b), Slot: &Slot{Bits: b}}
		}
		b := genFloatBits(r, 8, bad)
		if n.W == 4 && r.Intn(3) == 0 {
			b = f64Edge[r.Intn(len(f64Edge))] // around MaxFloat32 and the smallest subnormal
		} else if n.W == 4 && !bad && r.Intn(4) > 0 {
			b = math.Float64bits(float64(math.Float32frombits(uint32(genFloatBits(r, 4, false)))))
		}
		if n.W == 8 {
			return FillVal{Tok: fmt.Sprintf("f64:%d", b), Slot: &Slot{Bits: b}}
		}
		v := math.Float64frombits(b)
		if math.IsNaN(v) || math.IsInf(v, 0) || math.Abs(v) > math.MaxFloat32 {
			return FillVal{Tok: fmt.Sprintf("f64:%d", b)}
		}
		return FillVal{Tok: fmt.Sprintf("f64:%d", b), Slot: &Slot{Bits: uint64(math.Float32bits(float32(v)))}}
	case "B":
		if r.Intn(3) == 0 {
			v := r.Intn(256)
			return FillVal{Tok: strTok("0b" + fmt.Sprintf("%b", v)), Slot: &Slot{I: int64(v)}}
		}
		v := int64(r.Intn(256))
		if bad {
			v = int64(pick(r, -1, 256, 1000))
		}
		return FillVal{Tok: sintTok(0, v), Slot: &Slot{I: v}}
	case "BO":
		b := r.Intn(2) == 0
		return FillVal{Tok: fmt.Sprintf("b:%d", map[bool]int{true: 1, false: 0}[b]), Slot: &Slot{B: b}}
	case "AV":
		ln := n.Min
		if n.Max > n.Min {
			ln += r.Intn(n.Max - n.Min + 1)
		} else if n.Max == -1 {
			ln += r.Intn(6)
		}
		if bad {
			ln = pick(r, n.Min-1, n.Max+1, 0, 40)
			if ln < 0 {
				ln = 0
			}
		}
		s := make([]byte, ln)
		for i := range s {
			s[i] = byte(32 + r.Intn(95))
		}
		if bad && ln > 0 && r.Intn(2) == 0 {
			s[0] = 200
		}
		fv := FillVal{Tok: strTok(string(s)), IsA: true, Str: s}
		if ln >= n.Min && (n.Max == -1 || ln <= n.Max) {
			fv.Slot = &Slot{}
		}
		return fv
	}
	// a list's own variable: an item, closed or (two times in five) itself a template
	co := &GenOpt{MaxDepth: 2, MaxSlots: 3, names: names}
	if r.Intn(5) < 2 {
		co.PVar = 0.5
	}
	child := genNode(r, co, 1)
	fv := FillVal{Tok: "t " + child.Proto(), Slot: &Slot{Child: child}}
	collectVars(child, &fv.Open)
	return fv
}

type varRef struct {
	node *Node // owning node
	idx  int   // slot index, or -1 for AV
	name string
}

func collectVars(n *Node, out *[]varRef) {
	switch n.Kind {
	case "AV":
		*out = append(*out, varRef{n, -1, n.Name})
	case "A", "E":
	default:
		for i := range n.Slots {
			s := &n.Slots[i]
			if s.IsVar {
				*out = append(*out, varRef{n, i, s.Name})
			} else if n.Kind == "L" {
				collectVars(s.Child, out)
			}
		}
	}
}

func cloneNode(n *Node) *Node {
	c := *n
	c.Str = append([]byte{}, n.Str...)
	c.Slots = make([]Slot, len(n.Slots))
	for i, s := range n.Slots {
		c.Slots[i] = s
		if s.Child != nil {
			c.Slots[i].Child = cloneNode(s.Child)
		}
	}
	return &c
}

// substitute returns a copy of the template with the assignment written in place, or nil
// when some value has no direct equivalent.
func substitute(tmpl *Node, asg map[string]FillVal) *Node {
	c := cloneNode(tmpl)
	ok := true
	var walk func(n *Node)
	walk = func(n *Node) {
		if n.Kind == "AV" {
			if fv, has := asg[n.Name]; has {
				if fv.Slot == nil {
					ok = false
					return
				}
				*n = Node{Kind: "A", Str: fv.Str}
			}
			return
		}
		for i := range n.Slots {
			s := &n.Slots[i]
			if s.IsVar {
				if fv, has := asg[s.Name]; has {
					if fv.Slot == nil {
						ok = false
						return
					}
					n.Slots[i] = *fv.Slot
				}
			} else if n.Kind == "L" {
				walk(s.Child)
			}
		}
	}
	walk(c)
	if !ok {
		return nil
	}
	return c
}

func envTokens(asg map[string]FillVal, keys []string) string {
	parts := []string{fmt.Sprint(len(keys))}
	for _, k := range keys {
		parts = append(parts, hxs(k), asg[k].Tok)
	}
	return strings.Join(parts, " ")
}

func lastField(res string) string {
	parts := strings.Split(res, " | ")
	return parts[len(parts)-1]
}

// ---------- C09 ----------

// fillOutOfDomain: fills dominated by out-of-domain and wrongly typed values (C12: a fill stores
// exactly what was passed or refuses, as the factory does)
func fillOutOfDomain(c *Ctx) []Case {
	var out []Case
	for i := 0; i < c.N(2500); i++ {
		names := &nameGen{}
		o := GenOpt{MaxDepth: 3, MaxSlots: 4, PVar: 0.5, names: names}
		tmpl := genNode(c.R, &o, 0)
		var vars []varRef
		collectVars(tmpl, &vars)
		if len(vars) == 0 {
			continue
		}
		asg := map[string]FillVal{}
		var keys []string
		for _, v := range vars {
			if c.R.Intn(3) == 0 {
				continue
			}
			asg[v.name] = genFillVal(c.R, v.node, 0.6, names)
			keys = append(keys, v.name)
		}
		op := "fillitem " + tmpl.Proto() + " | " + envTokens(asg, keys)
		impl := implEval(op)
		cs := Case{Op: op, Impl: impl, Decisive: true, Nontrivial: len(keys) > 0, Tags: []string{"fill-bad:" + map[bool]string{true: "refused", false: "stored"}[lastField(impl) == "PANIC"]}}.fields(itemKeys)
		if direct := substitute(tmpl, asg); direct != nil {
			want, _ := implItem(direct)
			if got := lastField(impl); got != want {
				cs.Oracle = "a fill stores or refuses differently from the factory: " + firstDiff(got, want)
			}
		}
		out = append(out, cs)
	}
	// a variable renamed onto the name of a sibling in the same node (which stays): refused as
	// the factory refuses a repeated name; renamed onto a sibling that is replaced in the same
	// call: accepted
	for i := 0; i < c.N(400); i++ {
		names := &nameGen{}
		k := arrayKinds[c.R.Intn(len(arrayKinds))]
		n := genArray(c.R, &GenOpt{MaxSlots: 5, PVar: 0.7, names: names}, k.k, k.w)
		var vars []varRef
		collectVars(n, &vars)
		if len(vars) < 2 {
			continue
		}
		a, b := vars[c.R.Intn(len(vars))], vars[c.R.Intn(len(vars))]
		asg := map[string]FillVal{a.name: {Tok: strTok(b.name), Slot: &Slot{IsVar: true, Name: b.name}}}
		keys := []string{a.name}
		if c.R.Intn(3) == 0 && a.name != b.name {
			asg[b.name] = genFillVal(c.R, n, 0, nil)
			keys = append(keys, b.name)
		}
		tmpl := n
		if c.R.Intn(2) == 0 {
			tmpl = &Node{Kind: "L", Slots: []Slot{{Child: &Node{Kind: "A", Str: []byte("x")}}, {Child: n}}}
		}
		op := "fillitem " + tmpl.Proto() + " | " + envTokens(asg, keys)
		impl := implEval(op)
		cs := Case{Op: op, Impl: impl, Decisive: true, Nontrivial: true, Tags: []string{"sibling-rename:" + map[bool]string{true: "refused", false: "stored"}[lastField(impl) == "PANIC"]}}.fields(itemKeys)
		if direct := substitute(tmpl, asg); direct != nil {
			want, _ := implItem(direct)
			if got := lastField(impl); got != want {
				cs.Oracle = "a renaming fill stores or refuses differently from the factory: " + firstDiff(got, want)
			}
		}
		out = append(out, cs)
	}
	return out
}

// simultaneousRenames: one fill that renames several variables of ONE array node at once - swaps,
// rotations, a name handed over to a neighbour that gets a value in the same call - in every node
// kind, bare, inside lists and through a message. The fill is a simultaneous substitution: what
// counts is the set of names afterwards, not an order in which the entries are applied.
func simultaneousRenames(c *Ctx, viaMessage bool) []Case {
	var out []Case
	type kind struct {
		k   string
		w   int
		val string
		lit Slot
	}
	kinds := []kind{
		{"U", 1, uintTok(8, 7), Slot{U: 9}}, {"U", 8, uintTok(64, 1<<63), Slot{U: 9}}, {"I", 2, sintTok(0, -7), Slot{I: -9}}, {"I", 8, sintTok(64, -1<<63), Slot{I: 9}},
		{"F", 4, "f64:4609434218613702656", Slot{Bits: 1069547520}}, {"F", 8, "f64:4609434218613702656", Slot{Bits: 4609434218613702656}},
		{"B", 0, sintTok(0, 200), Slot{I: 1}}, {"BO", 0, "b:1", Slot{B: false}},
	}
	type fl struct{ k, v string }
	for _, kd := range kinds {
		leaf := func() *Node {
			return &Node{Kind: kd.k, W: kd.w, Slots: []Slot{{IsVar: true, Name: "a"}, kd.lit, {IsVar: true, Name: "b"}, {IsVar: true, Name: "c"}}}
		}
		fills := [][]fl{
			{{"a", strTok("b")}, {"b", strTok("a")}},                               // swap
			{{"b", strTok("a")}, {"a", strTok("b")}},                               // swap, other order of entries
			{{"a", strTok("b")}, {"b", strTok("c")}, {"c", strTok("a")}},           // rotation
			{{"a", strTok("b")}, {"b", kd.val}},                                    // name handed to the left, its owner gets a value
			{{"b", strTok("a")}, {"a", kd.val}},                                    // ... to the right
			{{"c", strTok("a")}, {"a", strTok("fresh")}},                           // name freed in the same call
			{{"a", strTok("b")}},                                                   // collision: refused
			{{"a", strTok("c")}, {"b", strTok("c")}},                               // two onto one: refused
			{{"a", strTok("a")}},                                                   // onto itself: nothing changes
			{{"a", strTok("b")}, {"b", strTok("a")}, {"c", kd.val}},                // swap next to a value
		}
		shapes := []func() *Node{
			leaf,
			func() *Node { return &Node{Kind: "L", Slots: []Slot{{Child: leaf()}, {Child: &Node{Kind: "A", Str: []byte("end")}}}} },
			func() *Node {
				return &Node{Kind: "L", Slots: []Slot{{Child: &Node{Kind: "L", Slots: []Slot{{Child: leaf()}}}}, {IsVar: true, Name: "tail"}}}
			},
		}
		for si, mk := range shapes {
			for _, f := range fills {
				parts := []string{fmt.Sprint(len(f))}
				for _, e := range f {
					parts = append(parts, hxs(e.k), e.v)
				}
				if viaMessage {
					m := genMsgDesc(c.R, mk(), 0)
					out = append(out, Case{Op: "mprog " + m.newStep() + " | fill " + strings.Join(parts, " ") + " | wait 0 | sess 3 00000009", Decisive: true, Nontrivial: true,
						Tags: []string{"simultaneous-rename:" + kd.k}})
				} else {
					out = append(out, Case{Op: "fillitem " + mk().Proto() + " | " + strings.Join(parts, " "), Decisive: true, Nontrivial: true,
						Tags: []string{fmt.Sprintf("simultaneous-rename:%s/shape%d", kd.k, si)}}.fields(itemKeys))
				}
			}
		}
	}
	return out
}

func suiteC09(c *Ctx) []Suite {
	return []Suite{
		{Name: "fill/simultaneous-renames", Gen: func(c *Ctx) []Case { return simultaneousRenames(c, false) }},
		{Name: "fill/renames-and-refusals", Gen: fillOutOfDomain},
		// templates with numbered ellipses: counts under names that name none of them (the other
		// spelling of one that exists, one index too far) are unknown keys like any other
		{Name: "fill/unknown-ellipsis-keys", Gen: func(c *Ctx) []Case { return ellipsisCases(c, c.N(600), 3, 3) }},
		{Name: "fill/ellipsis-count-and-values-in-one-call", Gen: func(c *Ctx) []Case { return ellipsisOneCall(c, c.N(500)) }},
		{Name: "fill/many-variables", Gen: func(c *Ctx) []Case {
			// items with 9 to 40 variables, filled partly, in one and in two steps: what is left
			// stays in its original order
			var out []Case
			for i := 0; i < c.N(150); i++ {
				names := &nameGen{}
				k := arrayKinds[c.R.Intn(len(arrayKinds))]
				n := genArray(c.R, &GenOpt{MaxSlots: 40, PVar: 0.9, names: names}, k.k, k.w)
				var vars []varRef
				collectVars(n, &vars)
				if len(vars) < 9 {
					continue
				}
				asg := map[string]FillVal{}
				var keys []string
				for _, v := range vars {
					if c.R.Intn(3) == 0 {
						fv := genFillVal(c.R, v.node, 0, nil)
						asg[v.name] = fv
						keys = append(keys, v.name)
					}
				}
				c.R.Shuffle(len(keys), func(a, b int) { keys[a], keys[b] = keys[b], keys[a] })
				tmpl := n
				if c.R.Intn(2) == 0 {
					tmpl = &Node{Kind: "L", Slots: []Slot{{Child: n}, {Child: &Node{Kind: "A", Str: []byte("x")}}}}
				}
				op := "fillitem " + tmpl.Proto() + " | " + envTokens(asg, keys)
				if len(keys) > 2 {
					op = "fillitem " + tmpl.Proto() + " | " + envTokens(asg, keys[:len(keys)/2]) + " | " + envTokens(asg, keys[len(keys)/2:])
				}
				out = append(out, Case{Op: op, Decisive: true, Nontrivial: true, Tags: []string{fmt.Sprintf("many-vars:%d", len(vars)/10*10)}}.fields(itemKeys))
			}
			return out
		}},
		{Name: "fill/substitution-and-composition", Gen: func(c *Ctx) []Case {
			var out []Case
			for i := 0; i < c.N(2500); i++ {
				names := &nameGen{}
				o := GenOpt{MaxDepth: 4, MaxSlots: 5, PVar: 0.35, names: names}
				tmpl := genNode(c.R, &o, 0)
				if tmpl.Kind != "L" && c.R.Intn(3) > 0 {
					tmpl = genNode(c.R, &o, 0)
				}
				var vars []varRef
				collectVars(tmpl, &vars)
				pbad := 0.0
				if i%4 == 0 {
					pbad = 0.25
				}
				asg := map[string]FillVal{}
				var keys []string
				for _, v := range vars {
					if c.R.Intn(4) == 0 {
						continue // left unfilled
					}
					asg[v.name] = genFillVal(c.R, v.node, pbad, names)
					keys = append(keys, v.name)
				}
				// keys naming the variables of a fill-in item are unknown to the template: the
				// item is inserted as it is (substitution is simultaneous)
				open := false
				for _, k := range append([]string{}, keys...) {
					for _, iv := range asg[k].Open {
						open = true
						if c.R.Intn(5) < 3 {
							asg[iv.name] = genFillVal(c.R, iv.node, 0, names)
							asg[iv.name] = FillVal{Tok: asg[iv.name].Tok}
							keys = append(keys, iv.name)
						}
					}
				}
				// a key shaped like an ellipsis that names no variable of the template is an
				// unknown key like any other, whatever its value
				if c.R.Intn(4) == 0 {
					hasEll := false
					for _, v := range vars {
						if strings.HasPrefix(v.name, "...") {
							hasEll = true
						}
					}
					if !hasEll {
						k := []string{"...", "...[0]", "...[7]"}[c.R.Intn(3)]
						asg[k] = FillVal{Tok: []string{sintTok(0, 2), sintTok(64, 2), strTok("x"), "x", "b:1", "t U1 1 5", "f64:0"}[c.R.Intn(7)]}
						keys = append(keys, k)
					}
				}
				// unknown keys are ignored
				if c.R.Intn(3) == 0 {
					k := "unknown_" + fmt.Sprint(i)
					asg[k] = FillVal{Tok: sintTok(0, 5)}
					keys = append(keys, k)
				}
				c.R.Shuffle(len(keys), func(a, b int) { keys[a], keys[b] = keys[b], keys[a] })
				once := "fillitem " + tmpl.Proto() + " | " + envTokens(asg, keys)
				implOnce := implEval(once)
				cs := Case{Op: once, Impl: implOnce, Decisive: true, Nontrivial: len(keys) > 0,
					Tags: append(itemTags("", tmpl), fmt.Sprintf("filled:%d/%d", len(keys), len(vars)))}.fields(itemKeys)
				// oracle 1: same as constructing directly with the values in place
				if direct := substitute(tmpl, asg); direct != nil {
					want, _ := implItem(direct)
					if got := lastField(implOnce); got != want {
						cs.Oracle = "filling differs from constructing directly: " + firstDiff(got, want)
					}
				}
				out = append(out, cs)
				// oracle 2: filling in several steps = filling once (values are closed here)
				if len(keys) >= 2 && pbad == 0 && !open {
					k := 2 + c.R.Intn(3)
					if k > len(keys) {
						k = len(keys)
					}
					steps := []string{}
					per := (len(keys) + k - 1) / k
					for a := 0; a < len(keys); a += per {
						b := a + per
						if b > len(keys) {
							b = len(keys)
						}
						steps = append(steps, envTokens(asg, keys[a:b]))
					}
					multi := "fillitem " + tmpl.Proto() + " | " + strings.Join(steps, " | ")
					implMulti := implEval(multi)
					cm := Case{Op: multi, Impl: implMulti, Decisive: true, Nontrivial: true, Tags: []string{fmt.Sprintf("split:%d", len(steps))}}.fields(itemKeys)
					if lastField(implOnce) == "PANIC" {
						if !strings.Contains(implMulti, "PANIC") {
							cm.Oracle = "filling once is refused but the same values are accepted in several steps"
						}
					} else if strings.Contains(implMulti, "PANIC") {
						cm.Oracle = "filling once is accepted but a step of the split fill is refused"
					} else if lastField(implMulti) != lastField(implOnce) {
						cm.Oracle = "filling in several steps differs from filling once: " + firstDiff(lastField(implMulti), lastField(implOnce))
					}
					out = append(out, cm)
				}
			}
			return out
		}},
		{Name: "fill/messages", Gen: func(c *Ctx) []Case {
			// complete messages via fill: same bytes as the directly constructed one
			var out []Case
			for i := 0; i < c.N(800); i++ {
				names := &nameGen{}
				o := GenOpt{MaxDepth: 3, MaxSlots: 4, PVar: 0.35, names: names}
				tmpl := genNode(c.R, &o, 0)
				var vars []varRef
				collectVars(tmpl, &vars)
				asg := map[string]FillVal{}
				var keys []string
				for _, v := range vars {
					fv := genFillVal(c.R, v.node, 0, names)
					for len(fv.Open) > 0 { // complete messages: closed fill-in items only
						fv = genFillVal(c.R, v.node, 0, names)
					}
					asg[v.name] = fv
					keys = append(keys, v.name)
				}
				m := completeMsgDesc(c.R, tmpl)
				if c.R.Intn(4) == 0 {
					// system bytes of another length than four: the template's producer and the
					// direct construction normalise them in the same way
					m.Sys = make([]byte, pick(c.R, 0, 1, 2, 3, 5, 7, 8))
					c.R.Read(m.Sys)
				}
				sessFirst := c.R.Intn(2) == 0
				steps := []string{m.newStep()}
				if sessFirst {
					steps = append(steps, m.sessSteps(c.R))
				}
				half := len(keys) / 2
				if c.R.Intn(2) == 0 && half > 0 {
					steps = append(steps, "fill "+envTokens(asg, keys[:half]), "fill "+envTokens(asg, keys[half:]))
				} else {
					steps = append(steps, "fill "+envTokens(asg, keys))
				}
				if !sessFirst {
					steps = append(steps, m.sessSteps(c.R))
				}
				if c.R.Intn(3) == 0 {
					// a driver that sets the wait bit unconditionally: on a message whose wait bit
					// is fixed this is a no-op, whatever is asked for
					at := 1 + c.R.Intn(len(steps))
					steps = append(steps[:at], append([]string{fmt.Sprintf("wait %d", c.R.Intn(2))}, steps[at:]...)...)
				}
				op := "mprog " + strings.Join(steps, " | ")
				impl := implEval(op)
				cs := Case{Op: op, Impl: impl, Decisive: true, Nontrivial: true, Tags: []string{fmt.Sprintf("sessFirst:%v", sessFirst)}}.fields("name s f w dir sid sys bytes vars")
				if direct := substitute(tmpl, asg); direct != nil {
					dm := *m
					dm.Item = direct
					dm.HSMS = true
					want := implEval("mprog " + dm.newStep())
					if wb, gb := project(want, "bytes sid sys s f w"), project(lastField(impl), "bytes sid sys s f w"); wb != gb {
						cs.Oracle = "filled message differs from the directly constructed one: " + firstDiff(gb, wb)
					}
				}
				out = append(out, cs)
			}
			return out
		}},
	}
}

// ---------- C10 ----------

// genEllTemplate builds a list template with nested ellipses.
func genEllTemplate(r *rand.Rand, names *nameGen, depth, maxDepth int, ells *[]string) *Node {
	n := &Node{Kind: "L"}
	cnt := 1 + r.Intn(4)
	ellAt := -1
	if r.Intn(3) > 0 {
		ellAt = 1 + r.Intn(cnt)
	}
	for i := 0; i < cnt || i == ellAt; i++ {
		if i == ellAt {
			nm := "..."
			if len(*ells) > 0 || r.Intn(2) == 0 {
				nm = fmt.Sprintf("...[%d]", len(*ells))
			}
			*ells = append(*ells, nm)
			n.Slots = append(n.Slots, Slot{IsVar: true, Name: nm})
			if i >= cnt {
				break
			}
			continue
		}
		switch x := r.Intn(10); {
		case x < 3 && depth < maxDepth:
			n.Slots = append(n.Slots, Slot{Child: genEllTemplate(r, names, depth+1, maxDepth, ells)})
		case x < 5:
			n.Slots = append(n.Slots, Slot{IsVar: true, Name: names.fresh(r)})
		case x < 7:
			av := &Node{Kind: "AV", Name: names.fresh(r), Min: r.Intn(3), Max: -1}
			switch r.Intn(4) { // all four declaration forms: [a..], [n], [a..b], [..b]
			case 1:
				av.Max = av.Min
			case 2:
				av.Max = av.Min + 1 + r.Intn(4)
			case 3:
				av.Min, av.Max = 0, 1+r.Intn(5)
			}
			n.Slots = append(n.Slots, Slot{Child: av})
		case x < 9:
			k := arrayKinds[r.Intn(len(arrayKinds))]
			n.Slots = append(n.Slots, Slot{Child: genArray(r, &GenOpt{MaxSlots: 3, PVar: 0.5, names: names}, k.k, k.w)})
		default:
			n.Slots = append(n.Slots, Slot{Child: &Node{Kind: "A", Str: []byte("x")}})
		}
	}
	return n
}

// expandedSize: number of nodes and variable slots of the template after expanding the
// ellipses that have a count in asg (own ellipsis: items before it repeated count+1 times).
func expandedSize(n *Node, asg map[string]int) int {
	if n.Kind != "L" {
		k := 1
		for _, s := range n.Slots {
			if s.IsVar {
				k++
			}
		}
		return k
	}
	before, after, reps := 0, 0, 1
	seen := false
	for _, s := range n.Slots {
		sz := 1
		if s.Child != nil {
			sz = expandedSize(s.Child, asg)
		} else if s.IsVar && strings.HasPrefix(s.Name, "...") {
			if v, ok := asg[s.Name]; ok && !seen {
				seen = true
				reps = v + 1
				continue
			}
		}
		if seen {
			after += sz
		} else {
			before += sz
		}
	}
	if !seen {
		return 1 + before
	}
	return 1 + reps*before + after
}

// ellipsisOracle: intrinsic laws on the real code for one fill of the top-level ellipsis.
func ellipsisOracle(tmpl *Node, asg map[string]int) string {
	var it, res ast.ItemNode
	if pan, _ := safely(func() { it = tmpl.Build() }); pan {
		return ""
	}
	env := map[string]interface{}{}
	for k, v := range asg {
		env[k] = v
	}
	if pan, _ := safely(func() { res = it.FillVariables(env) }); pan {
		return "ellipsis expansion panicked for non-negative counts on a template with unindexed base names"
	}
	// count law for the top list
	p := -1
	for i, s := range tmpl.Slots {
		if s.IsVar && strings.HasPrefix(s.Name, "...") {
			p = i
		}
	}
	if p >= 0 {
		if n, ok := asg[tmpl.Slots[p].Name]; ok {
			want := (n+1)*p + (len(tmpl.Slots) - p - 1)
			if res.Size() != want {
				return fmt.Sprintf("ellipsis at position %d of %d filled with %d: size %d, want %d", p, len(tmpl.Slots), n, res.Size(), want)
			}
		} else if res.Size() != len(tmpl.Slots) {
			return "unfilled top ellipsis changed the list size"
		}
	}
	vars := res.Variables()
	seen := map[string]bool{}
	for _, v := range vars {
		if seen[v] {
			return "duplicate variable name after expansion: " + v
		}
		seen[v] = true
	}
	// remaining ellipses are renumbered in order of appearance
	var ells []string
	for _, v := range vars {
		if strings.HasPrefix(v, "...") {
			ells = append(ells, v)
		}
	}
	if len(asg) > 0 && len(ells) > 1 {
		for i, e := range ells {
			if e != fmt.Sprintf("...[%d]", i) {
				return fmt.Sprintf("remaining ellipses are %v, not renumbered in order of appearance", ells)
			}
		}
	}
	return ""
}

func ellipsisCases(c *Ctx, n int, maxDepth int, maxCount int) []Case {
	{
		var out []Case
		for i := 0; i < n; i++ {
			names := &nameGen{}
			var ells []string
			tmpl := genEllTemplate(c.R, names, 0, maxDepth, &ells)
			// plain (unindexed) base names: strip generated index suffixes
			asg := map[string]int{}
			var keys []string
			for _, e := range ells {
				if c.R.Intn(4) > 0 {
					asg[e] = c.R.Intn(maxCount + 1)
					keys = append(keys, e)
				}
			}
			// keep the expanded tree small enough for the (quadratic) duplicate-name check of the
			// model: nested counts multiply, 13^5 copies would keep the driver busy for hours
			for expandedSize(tmpl, asg) > 2500 {
				for _, k := range keys {
					asg[k] /= 2
				}
			}
			sort.Strings(keys)
			parts := []string{}
			wrongType := ""
			for _, k := range keys {
				tok := sintTok(0, int64(asg[k]))
				if c.R.Intn(25) == 0 && wrongType == "" {
					// a repeat count that is not a Go int is not a repeat count
					tok = []string{sintTok(64, int64(asg[k])), uintTok(8, uint64(asg[k])), "f64:4611686018427387904", strTok(fmt.Sprint(asg[k])), "b:1", sintTok(32, int64(asg[k]))}[c.R.Intn(6)]
					wrongType = tok
				}
				parts = append(parts, hxs(k), tok)
			}
			// one time in six a count under a name that names no ellipsis of this template - the
			// unindexed or the indexed spelling of one that exists, or one index too far: ignored
			nkeys := len(keys)
			if c.R.Intn(6) == 0 {
				has := map[string]bool{}
				for _, e := range ells {
					has[e] = true
				}
				for _, alias := range []string{"...", "...[0]", fmt.Sprintf("...[%d]", len(ells)), "...[1]"} {
					if !has[alias] {
						parts = append(parts, hxs(alias), sintTok(0, int64(1+c.R.Intn(2))))
						nkeys++
						break
					}
				}
			}
			op := "fillitem " + tmpl.Proto() + " | " + fmt.Sprint(nkeys) + " " + strings.Join(parts, " ")
			op = strings.TrimSpace(op)
			if nkeys > 0 && c.R.Intn(8) == 0 {
				// the same table applied to the result once more: the ellipses that are left have been
				// renumbered, a stale name expands whatever carries it now and nothing else
				op += " | " + fmt.Sprint(nkeys) + " " + strings.Join(parts, " ")
				wrongType = "second-step"
			}
			cs := Case{Op: op, Decisive: true, Nontrivial: len(keys) > 0,
				Tags: []string{fmt.Sprintf("ellipses:%d filled:%d depth:%d", len(ells), len(keys), tmpl.Depth())}}.fields(itemKeys)
			hasIdx := false
			for _, nm := range names.used {
				if strings.Contains(nm, "[") {
					hasIdx = true
				}
			}
			if !hasIdx && wrongType == "" {
				cs.Oracle = ellipsisOracle(tmpl, asg)
			}
			if wrongType == "second-step" {
				cs.Tags = append(cs.Tags, "same-table-twice")
			} else if wrongType != "" {
				cs.Tags = append(cs.Tags, "count-of-wrong-type")
			}
			if nkeys > len(keys) {
				cs.Tags = append(cs.Tags, "alias-key")
			}
			out = append(out, cs)
		}
		return out
	}
}

func suiteC10(c *Ctx) []Suite {
	mk := ellipsisCases
	return []Suite{
		{Name: "ellipsis/random", Gen: func(c *Ctx) []Case { return mk(c, c.N(3000), 3, 3) }},
		{Name: "ellipsis/deep-and-large", Gen: func(c *Ctx) []Case { return mk(c, c.N(300), 5, 12) }},
		{Name: "ellipsis/long-tail", Gen: func(c *Ctx) []Case {
			// the items behind an ellipsis appear once, however many there are and however often the
			// items in front of it are repeated (judged on the real code)
			var out []Case
			for _, tn := range [][2]int{{4100, 4100}, {5000, 3400}, {9000, 1900}, {30, 5}} {
				res := ""
				safely(func() {
					args := []interface{}{ast.NewUintNode(1, 1), "..."}
					for i := 0; i < tn[0]; i++ {
						args = append(args, ast.NewUintNode(1, 2))
					}
					var got ast.ItemNode
					if pan, _ := safely(func() { got = ast.NewListNode(args...).FillVariables(map[string]interface{}{"...": tn[1]}) }); pan {
						res = fmt.Sprintf("a list of one item, an ellipsis and %d more items refuses the count %d (the result has %d items)", tn[0], tn[1], tn[1]+1+tn[0])
						return
					}
					if got.Size() != tn[1]+1+tn[0] || len(got.Variables()) != 0 {
						res = fmt.Sprintf("a list of one item, an ellipsis and %d more items filled with %d has %d items, %d variables", tn[0], tn[1], got.Size(), len(got.Variables()))
					}
				})
				out = append(out, Case{Detail: fmt.Sprintf("ellipsis with a tail of %d items filled with %d", tn[0], tn[1]), Oracle: res, Nontrivial: true, Tags: []string{"long-tail"}})
			}
			return out
		}},
		{Name: "ellipsis/numbered-in-sml-text", Gen: func(c *Ctx) []Case {
			// templates written as SML text: the ellipses are numbered in the order in which they
			// appear, also when one is followed by a list that holds another
			var out []Case
			texts := []string{
				"S1F1 W <L <U1 xa> ... <L <U1 xb> ...>>.",
				"S1F1 W <L <L <U1 a> ...> <U1 b> ... <L <U1 c> ... <L d ...>> <L e ...>>.",
				"S1F1 W <L x ... <L y ... <L z ...>>>.",
			}
			for i := 0; i < c.N(700); i++ {
				item := smlTemplate(c.R, 0.6, false)
				if i%2 == 0 {
					// an ellipsis in the middle of its list, a list with its own ellipsis behind it
					k := 0
					inner := &Node{Kind: "L", Slots: []Slot{{Child: item}, {IsVar: true, Name: "..."}}}
					if c.R.Intn(2) == 0 {
						inner = &Node{Kind: "L", Slots: []Slot{{IsVar: true, Name: "tail"}, {IsVar: true, Name: "..."}, {Child: item}}}
					}
					item = &Node{Kind: "L", Slots: []Slot{{IsVar: true, Name: "head"}, {IsVar: true, Name: "..."}, {Child: inner}}}
					normEllipsisNames(item, &k)
				}
				t, _ := plainLayout(c.R).render(msgTokens(c.R, genSMLMsg(c.R, item), true))
				texts = append(texts, t)
				_ = i
			}
			for _, t := range texts {
				out = append(out, Case{Op: smlOp(t), Decisive: true, Nontrivial: true, Tags: []string{fmt.Sprintf("ellipses-in-text:%d", imin(strings.Count(t, "..."), 4))}}.fields("n str vars err"))
			}
			return out
		}},
		{Name: "ellipsis/then-fill-generated-names", Gen: func(c *Ctx) []Case {
			// each generated name can then be filled individually
			var out []Case
			for i := 0; i < c.N(600); i++ {
				names := &nameGen{}
				var ells []string
				tmpl := genEllTemplate(c.R, names, 0, 2, &ells)
				if len(ells) == 0 {
					continue
				}
				parts := []string{}
				for _, e := range ells {
					parts = append(parts, hxs(e), sintTok(0, int64(c.R.Intn(3))))
				}
				step1 := fmt.Sprint(len(ells)) + " " + strings.Join(parts, " ")
				// learn the generated names from the real code, then fill every one of them
				var it ast.ItemNode
				env := map[string]interface{}{}
				for k := 0; k < len(parts); k += 2 {
					b, _ := unhx(parts[k])
					var v int
					fmt.Sscanf(parts[k+1], "i:0:%d", &v)
					env[string(b)] = v
				}
				oracle := ""
				var gen []string
				if pan, _ := safely(func() { it = tmpl.Build().FillVariables(env); gen = it.Variables() }); pan {
					continue
				}
				step2 := []string{}
				for _, g := range gen {
					// a value that every slot kind refuses or accepts consistently: a closed item
					// for list slots is only right for list variables, so use the model for the verdict
					step2 = append(step2, hxs(g), "t A 66696c6c6564")
				}
				op := "fillitem " + tmpl.Proto() + " | " + step1 + " | " + fmt.Sprint(len(gen)) + " " + strings.Join(step2, " ")
				// individually: renaming every generated variable must be possible (names exist, are distinct)
				for _, g := range gen {
					g := g
					if pan, _ := safely(func() {
						r2 := it.FillVariables(map[string]interface{}{g: "renamed_" + fmt.Sprint(i)})
						for _, v := range r2.Variables() {
							if v == g {
								oracle = "generated name " + g + " cannot be addressed by a later fill"
							}
						}
					}); pan && !strings.HasPrefix(g, "...") {
						// renaming an ASCII variable is refused by design (needs a string value of right length): ignore panics
					}
				}
				out = append(out, Case{Op: strings.TrimSpace(op), Decisive: true, Oracle: oracle, Nontrivial: true, Tags: []string{"two-step"}}.fields(itemKeys))
			}
			return out
		}},
		{Name: "ellipsis/message-one-call", Gen: func(c *Ctx) []Case {
			// DataMessage.FillVariables with ONE table holding the repeat counts and values for
			// the names the expansion generates: the message-level result is the item-level one
			var out []Case
			for i := 0; i < c.N(500); i++ {
				names := &nameGen{}
				var ells []string
				tmpl := genEllTemplate(c.R, names, 0, 2, &ells)
				if len(ells) == 0 {
					continue
				}
				env := map[string]interface{}{}
				parts := []string{}
				for _, e := range ells {
					n := 1 + c.R.Intn(2)
					env[e] = n
					parts = append(parts, hxs(e), sintTok(0, int64(n)))
				}
				var gen []string
				if pan, _ := safely(func() { gen = tmpl.Build().FillVariables(env).Variables() }); pan {
					continue
				}
				// rename every generated (indexed) name in the same call
				cnt := len(ells)
				for k, g := range gen {
					if strings.Contains(g, "[") && !strings.HasPrefix(g, "...") && c.R.Intn(3) > 0 {
						nn := fmt.Sprintf("gen%d_%d", i, k)
						env[g] = nn
						parts = append(parts, hxs(g), strTok(nn))
						cnt++
					}
				}
				table := fmt.Sprint(cnt) + " " + strings.Join(parts, " ")
				m := genMsgDesc(c.R, tmpl, 0)
				m.HSMS = false
				op := "mprog " + m.newStep() + " | fill " + table
				impl := implEval(op)
				cs := Case{Op: op, Impl: impl, Decisive: true, Nontrivial: cnt > len(ells), Tags: []string{fmt.Sprintf("one-call generated:%d", cnt-len(ells))}}.fields("vars")
				// oracle on the real code: the item-level fill with the same table
				itemRes := implEval("fillitem " + tmpl.Proto() + " | " + table)
				if a, b := project(lastField(impl), "vars"), project(lastField(itemRes), "vars"); a != b && !strings.Contains(impl, "PANIC") {
					cs.Oracle = "message-level fill differs from the item-level fill with the same table: " + firstDiff(a, b)
				}
				out = append(out, cs)
			}
			return out
		}},
	}
}

// ellipsisOneCall: a message whose list holds an ellipsis, filled through the MESSAGE with one
// assignment that carries the repeat count together with values for the names the expansion
// creates (svid[0], svid[1], ...). Oracles on the real code: the message's variables after the
// fill are those of the item filled with the same map; one call = count first, values second;
// once everything is filled the message encodes like the directly constructed one.
func ellipsisOneCall(c *Ctx, n int) []Case {
	var out []Case
	for i := 0; i < n; i++ {
		names := &nameGen{}
		rep := &Node{Kind: "L"}
		k := 1 + c.R.Intn(3)
		for j := 0; j < k; j++ {
			switch c.R.Intn(5) {
			case 0:
				rep.Slots = append(rep.Slots, Slot{IsVar: true, Name: names.fresh(c.R)})
			case 1:
				rep.Slots = append(rep.Slots, Slot{Child: &Node{Kind: "AV", Name: names.fresh(c.R), Min: 0, Max: -1}})
			case 2:
				inner := genArray(c.R, &GenOpt{MaxSlots: 2, PVar: 0.7, names: names}, "U", 2)
				rep.Slots = append(rep.Slots, Slot{Child: &Node{Kind: "L", Slots: []Slot{{Child: inner}, {Child: &Node{Kind: "A", Str: []byte("k")}}}}})
			default:
				ak := arrayKinds[c.R.Intn(len(arrayKinds))]
				rep.Slots = append(rep.Slots, Slot{Child: genArray(c.R, &GenOpt{MaxSlots: 3, PVar: 0.6, names: names}, ak.k, ak.w)})
			}
		}
		ell := []string{"...", "...[0]"}[c.R.Intn(2)]
		cnt := c.R.Intn(4)
		tmpl := cloneNode(rep)
		tmpl.Slots = append(tmpl.Slots, Slot{IsVar: true, Name: ell})
		trail := c.R.Intn(2) == 0
		if trail {
			tmpl.Slots = append(tmpl.Slots, Slot{Child: &Node{Kind: "A", Str: []byte("end")}})
		}
		if c.R.Intn(3) == 0 {
			tmpl = &Node{Kind: "L", Slots: []Slot{{Child: &Node{Kind: "U", W: 1, Slots: []Slot{{U: uint64(cnt)}}}}, {Child: tmpl}}}
		}
		// the names after the expansion, from the real item-level fill with the count alone
		var it ast.ItemNode
		var after []string
		if pan, _ := safely(func() {
			it = tmpl.Build()
			after = it.FillVariables(map[string]interface{}{ell: cnt}).Variables()
		}); pan {
			continue
		}
		// value for an expanded name: by the type of the variable it was copied from
		var vars []varRef
		collectVars(tmpl, &vars)
		base := map[string]varRef{}
		for _, v := range vars {
			base[v.name] = v
		}
		asg := map[string]FillVal{ell: {Tok: sintTok(0, int64(cnt))}}
		keys := []string{ell}
		var valueKeys []string
		all := true
		for _, nm := range after {
			b := nm
			if _, exact := base[nm]; !exact {
				if j := strings.IndexByte(nm, '['); j > 0 {
					b = nm[:j]
				}
			}
			v, ok := base[b]
			if !ok || strings.HasPrefix(nm, "...") {
				all = false
				continue
			}
			if c.R.Intn(5) == 0 {
				all = false
				continue
			}
			fv := genFillVal(c.R, v.node, 0, nil)
			for len(fv.Open) > 0 {
				fv = genFillVal(c.R, v.node, 0, nil)
			}
			asg[nm] = fv
			keys = append(keys, nm)
			valueKeys = append(valueKeys, nm)
		}
		c.R.Shuffle(len(keys), func(a, b int) { keys[a], keys[b] = keys[b], keys[a] })
		m := genMsgDesc(c.R, tmpl, 0)
		m.HSMS = false
		one := "mprog " + m.newStep() + " | fill " + envTokens(asg, keys) + " | wait 0 | sess 3 00000009"
		implOne := implEval(one)
		cs := Case{Op: one, Impl: implOne, Decisive: true, Nontrivial: len(valueKeys) > 0,
			Tags: []string{fmt.Sprintf("one-call count:%d all:%v", cnt, all)}}
		parts := strings.Split(implOne, " | ")
		itemRes := implEval("fillitem " + tmpl.Proto() + " | " + envTokens(asg, keys))
		if len(parts) >= 2 && !strings.Contains(implOne, "PANIC") && !strings.Contains(itemRes, "PANIC") {
			if mv, iv := project(parts[1], "vars"), project(lastField(itemRes), "vars"); mv != iv {
				cs.Oracle = "the message filled with one assignment lists " + mv + ", its item filled with the same assignment " + iv
			}
			two := "mprog " + m.newStep() + " | fill 1 " + hxs(ell) + " " + sintTok(0, int64(cnt)) + " | fill " + envTokens(asg, valueKeys) + " | wait 0 | sess 3 00000009"
			if implTwo := implEval(two); cs.Oracle == "" && !strings.Contains(implTwo, "PANIC") {
				if a, b := project(lastField(implOne), "vars bytes str"), project(lastField(implTwo), "vars bytes str"); a != b {
					cs.Oracle = "count and values in one call differ from count first, values second: " + firstDiff(a, b)
				}
			}
			if all && cs.Oracle == "" && m.W != 2 && project(lastField(implOne), "bytes") == "bytes=-" {
				cs.Oracle = "every variable was given a value, wait bit and session id are set, and the message does not encode"
			}
		}
		out = append(out, cs)
	}
	return out
}
