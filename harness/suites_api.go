package main

import (
	"bytes"
	"fmt"
	"math"
	"math/rand"
	"regexp"
	"sort"
	"strings"

	"github.com/wolimst/lib-secs2-hsms-go/pkg/ast"
)

// ---------- C18: message producers change exactly what they name ----------

type msgObs struct {
	name, dir, wait, item string
	s, f, sid             int
	sys                   []byte
	vars                  []string
}

func observe(m *ast.DataMessage) msgObs {
	_, item, _ := strings.Cut(m.String(), "\n")
	return msgObs{m.Name(), m.Direction(), m.WaitBit(), item, m.StreamCode(), m.FunctionCode(), m.SessionID(), append([]byte{}, m.SystemBytes()...), m.Variables()}
}

func (a msgObs) diff(b msgObs, ignore string) string {
	var d []string
	chk := func(field string, same bool) {
		if !same && !strings.Contains(ignore, field) {
			d = append(d, field)
		}
	}
	chk("name", a.name == b.name)
	chk("direction", a.dir == b.dir)
	chk("wait", a.wait == b.wait)
	chk("item", a.item == b.item && strings.Join(a.vars, "\x00") == strings.Join(b.vars, "\x00"))
	chk("stream", a.s == b.s)
	chk("function", a.f == b.f)
	chk("sid", a.sid == b.sid)
	chk("sys", bytes.Equal(a.sys, b.sys))
	return strings.Join(d, ",")
}

func pad4(b []byte) []byte {
	out := make([]byte, 4)
	copy(out, b)
	return out
}

// producerOracle runs the steps on the real code and checks the frame conditions.
// scribble overwrites everything the accessors of a message hand out.
func scribble(m *ast.DataMessage) {
	sb := m.SystemBytes()
	for i := range sb {
		sb[i] ^= 0xA5
	}
	vs := m.Variables()
	for i := range vs {
		vs[i] = "scribbled"
	}
	hb := m.ToBytes()
	for i := range hb {
		hb[i] = 0xEE
	}
}

func producerOracle(m *MsgDesc, steps [][2]string) string {
	cur, p := buildMsg(m)
	if p {
		return ""
	}
	// one fill-in table for all fill steps of the program (the caller may reuse it)
	shared := map[string]interface{}{}
	for _, v := range cur.Variables() {
		if strings.HasPrefix(v, "...") {
			shared[v] = 1
		}
	}
	for _, st := range steps {
		before := observe(cur)
		var next *ast.DataMessage
		var pan bool
		switch st[0] {
		case "wait":
			w := st[1] == "1"
			pan, _ = safely(func() { next = cur.SetWaitBit(w) })
			mustPanic := before.wait == "optional" && w && before.f%2 == 0
			if pan != mustPanic {
				return fmt.Sprintf("SetWaitBit(%v) on %s function %d: panicked=%v", w, before.wait, before.f, pan)
			}
			if pan {
				continue
			}
			after := observe(next)
			if before.wait != "optional" {
				if d := before.diff(after, ""); d != "" {
					return "SetWaitBit on a decided wait bit changed: " + d
				}
			} else {
				if d := before.diff(after, "wait"); d != "" {
					return "SetWaitBit changed other fields: " + d
				}
				if want := map[bool]string{true: "true", false: "false"}[w]; after.wait != want {
					return "SetWaitBit did not resolve the wait bit to " + want
				}
			}
		case "sess":
			var sid int
			var sysHex string
			fmt.Sscanf(st[1], "%d %s", &sid, &sysHex)
			sys, _ := unhx(sysHex)
			pan, _ = safely(func() { next = cur.SetSessionIDAndSystemBytes(sid, append([]byte{}, sys...)) })
			mustPanic := sid < -1 || sid > 65535
			if pan != mustPanic {
				return fmt.Sprintf("SetSessionIDAndSystemBytes(%d): panicked=%v", sid, pan)
			}
			if pan {
				continue
			}
			after := observe(next)
			if d := before.diff(after, "sid sys"); d != "" {
				return "SetSessionIDAndSystemBytes changed other fields: " + d
			}
			if after.sid != sid || !bytes.Equal(after.sys, pad4(sys)) {
				return fmt.Sprintf("SetSessionIDAndSystemBytes(%d, %x) stored %d %x", sid, sys, after.sid, after.sys)
			}
		case "fill":
			if strings.HasPrefix(st[1], "...") {
				shared[st[1]] = 1 // an ellipsis is filled with a repeat count
			} else {
				shared[st[1]] = "x_renamed"
			}
			tableBefore := envSnapshot(shared)
			pan, _ = safely(func() { next = cur.FillVariables(shared) })
			if envSnapshot(shared) != tableBefore {
				return "FillVariables wrote to the fill-in table it was given: " + firstDiff(envSnapshot(shared), tableBefore)
			}
			if pan {
				continue // an ASCII variable refuses a string outside its bounds; not a producer concern
			}
			after := observe(next)
			if d := before.diff(after, "item"); d != "" {
				return "FillVariables changed other fields: " + d
			}
			// a producer is a function of the message and its arguments: the same call again
			// gives an equal message
			var again *ast.DataMessage
			if p2, _ := safely(func() { again = cur.FillVariables(shared) }); p2 {
				return "FillVariables is refused the second time it is called with the same message and table"
			} else if d := after.diff(observe(again), ""); d != "" {
				return "FillVariables with the same message and table gives a different result the second time: " + d
			}
		}
		// the message the producer was called on is untouched
		if d := before.diff(observe(cur), ""); d != "" {
			return "producer " + st[0] + " changed the message it was called on: " + d
		}
		// … and what the accessors of either message hand out is the caller's to overwrite
		afterNext := observe(next)
		scribble(next)
		scribble(cur)
		if d := before.diff(observe(cur), ""); d != "" {
			return "overwriting accessor results (after " + st[0] + ") changed the message the producer was called on: " + d
		}
		if d := afterNext.diff(observe(next), ""); d != "" {
			return "overwriting accessor results (after " + st[0] + ") changed the produced message: " + d
		}
		// the result passes the validity rules of a fresh construction
		if p2, _ := safely(func() {
			ast.NewDataMessage(next.Name(), next.StreamCode(), next.FunctionCode(), map[string]int{"false": 0, "true": 1, "optional": 2}[next.WaitBit()], next.Direction(), ast.NewEmptyItemNode())
		}); p2 {
			return "producer result does not pass the constructor's validity rules"
		}
		cur = next
	}
	return ""
}

func suiteC18(c *Ctx) []Suite {
	return []Suite{
		{Name: "producers/simultaneous-renames", Gen: func(c *Ctx) []Case { return simultaneousRenames(c, true) }},
		{Name: "producers/refused-renames-and-counts", Gen: func(c *Ctx) []Case {
			// FillVariables on a message refuses what the list factory refuses: two variables of one
			// list that end up under one name (a string value renames a list variable), a name that
			// collides with a nested variable, and a repeat count below zero - alone or next to
			// ordinary fills; a refused call changes nothing, the producers behind it still work
			var out []Case
			u1 := func(v string) *Node { return &Node{Kind: "U", W: 1, Slots: []Slot{{U: 5}, {IsVar: true, Name: v}}} }
			lv := func(names ...string) []Slot {
				var s []Slot
				for _, n := range names {
					s = append(s, Slot{IsVar: true, Name: n})
				}
				return s
			}
			flat := func() *Node { return &Node{Kind: "L", Slots: append(lv("status", "payload", "seq"), Slot{Child: u1("a")})} }
			deep := func() *Node {
				return &Node{Kind: "L", Slots: []Slot{{Child: &Node{Kind: "A", Str: []byte("hdr")}}, {Child: flat()}, {IsVar: true, Name: "tail"}}}
			}
			type fl struct{ k, v string }
			renames := [][]fl{
				{{"status", strTok("payload")}}, {{"payload", strTok("status")}}, {{"seq", strTok("status")}},
				{{"status", strTok("z")}, {"payload", strTok("z")}}, {{"status", strTok("z")}, {"seq", strTok("z")}},
				{{"status", strTok("z")}, {"payload", strTok("z")}, {"seq", strTok("z")}},
				{{"status", strTok("a")}}, {{"status", strTok("tail")}}, {{"tail", strTok("status")}}, {{"tail", strTok("a")}},
				{{"status", strTok("payload")}, {"payload", strTok("status")}}, {{"status", strTok("status")}},
				{{"status", strTok("fresh")}}, {{"status", strTok("payload")}, {"a", uintTok(8, 7)}},
				{{"status", strTok("payload")}, {"payload", strTok("other")}},
			}
			for _, mk := range []func() *Node{flat, deep} {
				for _, rn := range renames {
					m := genMsgDesc(c.R, mk(), 0)
					parts := []string{fmt.Sprint(len(rn))}
					for _, f := range rn {
						parts = append(parts, hxs(f.k), f.v)
					}
					fill := "fill " + strings.Join(parts, " ")
					for _, tail := range []string{" | wait 0 | sess 3 00000009", " | fill 1 " + hxs("a") + " " + uintTok(8, 9) + " | wait 1", " | " + fill + " | sess 1 01020304"} {
						out = append(out, Case{Op: "mprog " + m.newStep() + " | " + fill + tail, Decisive: true, Nontrivial: true, Tags: []string{"rename-collision"}})
					}
				}
			}
			ell := func(key string) *Node {
				return &Node{Kind: "L", Slots: []Slot{{Child: u1("a")}, {Child: &Node{Kind: "A", Str: []byte("end")}}, {IsVar: true, Name: key}}}
			}
			nested := func() *Node {
				return &Node{Kind: "L", Slots: []Slot{{Child: &Node{Kind: "L", Slots: []Slot{{Child: u1("a")}, {IsVar: true, Name: "...[0]"}}}}, {IsVar: true, Name: "...[1]"}}}
			}
			for _, cnt := range []int64{-1, -2, -3, -1000, math.MinInt32, math.MinInt64, 0, 1} {
				for _, key := range []string{"...", "...[0]"} {
					for _, extra := range []string{"", " " + hxs("a") + " " + uintTok(8, 9)} {
						m := genMsgDesc(c.R, ell(key), 0)
						n := 1
						if extra != "" {
							n = 2
						}
						out = append(out, Case{Op: fmt.Sprintf("mprog %s | fill %d %s %s%s | wait 0 | sess 3 00000009 | fill 1 %s %s", m.newStep(), n, hxs(key), sintTok(0, cnt), extra, hxs("a"), uintTok(8, 3)),
							Decisive: true, Nontrivial: true, Tags: []string{"negative-count"}})
					}
				}
				for _, which := range [][2]int64{{cnt, 2}, {2, cnt}, {cnt, cnt}} {
					m := genMsgDesc(c.R, nested(), 0)
					out = append(out, Case{Op: fmt.Sprintf("mprog %s | fill 2 %s %s %s %s | wait 0 | sess 3 00000009", m.newStep(), hxs("...[0]"), sintTok(0, which[0]), hxs("...[1]"), sintTok(0, which[1])),
						Decisive: true, Nontrivial: true, Tags: []string{"negative-count"}})
				}
			}
			return out
		}},
		{Name: "producers/fill-at-float-edges", Gen: func(c *Ctx) []Case {
			// FillVariables on a message refuses a float exactly as the factory does: float64 values
			// around the largest float32, the smallest subnormals, NaN and the infinities, for F4 and F8
			var out []Case
			for _, w := range []int{4, 8} {
				for _, nested := range []bool{false, true} {
					var toks []string
					for _, b := range append(append(append([]uint64{}, f8Special...), f8Bad...), f64Edge...) {
						toks = append(toks, fmt.Sprintf("f64:%d", b))
					}
					for _, b := range append(append([]uint64{}, f4Special...), f4Bad...) {
						toks = append(toks, fmt.Sprintf("f32:%d", b))
					}
					for _, tok := range toks {
						fl := &Node{Kind: "F", W: w, Slots: []Slot{{Bits: 0}, {IsVar: true, Name: "x"}}}
						item := fl
						if nested {
							item = &Node{Kind: "L", Slots: []Slot{{Child: &Node{Kind: "L", Slots: []Slot{{Child: fl}}}}}}
						}
						m := genMsgDesc(c.R, item, 0)
						out = append(out, Case{Op: "mprog " + m.newStep() + " | fill 1 " + hxs("x") + " " + tok + " | wait 0 | sess 3 00000009", Decisive: true, Nontrivial: true,
							Tags: []string{fmt.Sprintf("float-edge:F%d", w)}})
					}
				}
			}
			return out
		}},
		{Name: "producers/fill-against-ascii-bounds", Gen: func(c *Ctx) []Case {
			// FillVariables on a message refuses exactly the strings the variable's bounds exclude,
			// at every depth and in the copies an ellipsis makes; a refused call changes nothing
			var out []Case
			for _, bd := range [][2]int{{0, -1}, {2, -1}, {4, -1}, {3, 3}, {1, 4}, {0, 2}, {0, 0}} {
				for shape := 0; shape < 3; shape++ {
					for n := 0; n <= 6; n++ {
						av := &Node{Kind: "AV", Name: "id", Min: bd[0], Max: bd[1]}
						item, key := av, "id"
						var pre []string
						onecall := ""
						switch shape {
						case 1:
							item = &Node{Kind: "L", Slots: []Slot{{Child: &Node{Kind: "L", Slots: []Slot{{Child: av}, {Child: &Node{Kind: "U", W: 2, Slots: []Slot{{U: 7}}}}}}}}}
						case 2:
							item = &Node{Kind: "L", Slots: []Slot{{Child: av}, {IsVar: true, Name: "...[0]"}}}
							pre, key = []string{"fill 1 " + hxs("...[0]") + " " + sintTok(0, 1)}, "id[1]"
							if n%2 == 1 {
								// the repeat count and the value for a name it creates, in one call
								pre = nil
								onecall = "fill 2 " + hxs("...[0]") + " " + sintTok(0, 1) + " " + hxs("id[1]") + " " + strTok(strings.Repeat("s", n))
							}
						}
						m := genMsgDesc(c.R, item, 0)
						steps := append([]string{m.newStep()}, pre...)
						if onecall != "" {
							steps = append(steps, onecall, "wait 0", "sess 9 00000001")
						} else {
							steps = append(steps, "fill 1 "+hxs(key)+" "+strTok(strings.Repeat("s", n)), "wait 0", "sess 9 00000001")
						}
						out = append(out, Case{Op: "mprog " + strings.Join(steps, " | "), Decisive: true, Nontrivial: true,
							Tags: []string{fmt.Sprintf("bounds:%d..%d len:%d", bd[0], bd[1], n)}})
					}
				}
			}
			return out
		}},
		{Name: "producers/sequences", Gen: func(c *Ctx) []Case {
			var out []Case
			for i := 0; i < c.N(2500); i++ {
				o := GenOpt{MaxDepth: 2, MaxSlots: 4}
				if i%3 == 0 {
					o.PVar = 0.2
				}
				if i%6 == 0 {
					o.PVar, o.PEllipsis = 0.3, 0.3
				}
				item := genItem(c.R, o)
				if i%10 == 0 {
					item = &Node{Kind: "E"}
				}
				if i%25 == 7 {
					// an expansion that leaves several ellipses behind (renumbered from 0 in every call)
					inner := func(v string, k int) *Node {
						return &Node{Kind: "L", Slots: []Slot{{Child: &Node{Kind: "U", W: 1, Slots: []Slot{{IsVar: true, Name: v}}}}, {IsVar: true, Name: fmt.Sprintf("...[%d]", k)}}}
					}
					item = &Node{Kind: "L", Slots: []Slot{{Child: inner("a", 0)}, {Child: inner("b", 1)}, {IsVar: true, Name: "...[2]"}}}
				}
				m := genMsgDesc(c.R, item, 0.05)
				if i%5 == 0 {
					m.HSMS = !(m.W == 2) && item.Closed()
				}
				n := 1 + c.R.Intn(3)
				if c.Tier == "thorough" {
					n = 1 + c.R.Intn(8)
				}
				ops := []string{m.newStep()}
				var steps [][2]string
				lastSid, lastSys := 0, []byte(nil)
				for k := 0; k < n; k++ {
					if x := c.R.Intn(5); x == 0 {
						// FillVariables: fill one variable of the item (if any) with a rename, or an unknown key
						var vars []varRef
						collectVars(item, &vars)
						key, val := "nokey", sintTok(0, 1)
						if c.R.Intn(3) == 0 {
							// a count under a name that names no ellipsis of this item: nothing changes
							key = []string{"...[9]", "...", "...[0]", "...[1]"}[c.R.Intn(4)]
							for _, v := range func() []varRef { var vs []varRef; collectVars(item, &vs); return vs }() {
								if v.name == key {
									key = "...[17]"
								}
							}
						}
						if len(vars) > 0 && c.R.Intn(4) > 0 {
							v := vars[c.R.Intn(len(vars))]
							key, val = v.name, strTok(fmt.Sprintf("ren%d_%d", i, k))
							if strings.HasPrefix(key, "...") {
								val = sintTok(0, 1)
							} else if v.node.Kind == "AV" {
								// strings of every length against the variable's bounds
								val = strTok(strings.Repeat("s", pick(c.R, 0, 1, 2, 3, 5, 9)))
							} else if v.idx >= 0 && c.R.Intn(2) == 0 {
								// a value of the slot's type, at and beyond the edges of its range
								val = genFillVal(c.R, v.node, 0.15, nil).Tok
							}
						}
						a := "1 " + hxs(key) + " " + val
						ops = append(ops, "fill "+a)
						steps = append(steps, [2]string{"fill", key})
					} else if x < 3 {
						b := fmt.Sprint(c.R.Intn(2))
						ops = append(ops, "wait "+b)
						steps = append(steps, [2]string{"wait", b})
					} else {
						sid := pick(c.R, 0, 1, 65535, -1, c.R.Intn(65536), c.R.Intn(65536))
						if c.R.Intn(10) == 0 {
							sid = pick(c.R, -2, 65536, 1<<31)
						}
						sys := make([]byte, pick(c.R, 4, 4, 4, 4, 0, 1, 3, 5, 8))
						c.R.Read(sys)
						if lastSys != nil && c.R.Intn(4) == 0 {
							// the same session id again, with a prefix of the bytes stamped before
							sid, sys = lastSid, append([]byte{}, lastSys[:c.R.Intn(len(lastSys)+1)]...)
						}
						if sid >= -1 && sid <= 65535 {
							lastSid, lastSys = sid, pad4(sys)
						}
						a := fmt.Sprintf("%d %s", sid, hx(sys))
						ops = append(ops, "sess "+a)
						steps = append(steps, [2]string{"sess", a})
					}
				}
				out = append(out, Case{Op: "mprog " + strings.Join(ops, " | "), Oracle: producerOracle(m, steps), Nontrivial: true,
					Tags: []string{fmt.Sprintf("steps:%d", n), "wait0:" + fmt.Sprint(m.W)}})
			}
			return out
		}},
	}
}

// ---------- C12: constructors store exactly what was passed or refuse ----------

func sintTok(k int, v int64) string   { return fmt.Sprintf("i:%d:%d", k, v) }
func uintTok(k int, v uint64) string  { return fmt.Sprintf("u:%d:%d", k, v) }
func strTok(s string) string          { return "s:" + hxs(s) }

func clampS(k int, v int64) int64 {
	if k == 0 || k == 64 {
		return v
	}
	mn, mx := -(int64(1) << uint(k-1)), int64(1)<<uint(k-1)-1
	if v < mn {
		return mn
	}
	if v > mx {
		return mx
	}
	return v
}

func clampU(k int, v uint64) uint64 {
	if k == 0 || k == 64 {
		return v
	}
	if mx := uint64(1)<<uint(k) - 1; v > mx {
		return mx
	}
	return v
}

var sBoundaries = []int64{0, 1, -1, 127, 128, -128, -129, 255, 256, 32767, 32768, -32768, -32769, 65535, 65536,
	1<<31 - 1, 1 << 31, -(1 << 31), -(1 << 31) - 1, 1<<32 - 1, 1 << 32, math.MaxInt64, math.MinInt64, math.MaxInt64 - 1, math.MinInt64 + 1, 1 << 53, 1<<53 + 1, 1<<24 + 1}
var uBoundaries = []uint64{0, 1, 127, 128, 255, 256, 32767, 32768, 65535, 65536, 1<<31 - 1, 1 << 31, 1<<32 - 1, 1 << 32,
	1<<63 - 1, 1 << 63, 1<<63 + 1, math.MaxUint64, math.MaxUint64 - 1, 1<<53 + 1, 1<<24 + 1}

func genNumTok(r *rand.Rand) string {
	switch r.Intn(5) {
	case 0, 1:
		k := pick(r, 0, 8, 16, 32, 64)
		v := sBoundaries[r.Intn(len(sBoundaries))]
		if r.Intn(4) == 0 {
			v = int64(r.Uint64())
		}
		return sintTok(k, clampS(k, v))
	case 2, 3:
		k := pick(r, 0, 8, 16, 32, 64)
		v := uBoundaries[r.Intn(len(uBoundaries))]
		if r.Intn(4) == 0 {
			v = r.Uint64()
		}
		return uintTok(k, clampU(k, v))
	}
	return genFloatTok(r)
}

var f64Edge = []uint64{0x47EFFFFFE0000000, 0x47EFFFFFE0000001, 0x47EFFFFFEFFFFFFF, 0x47EFFFFFF0000000, 0x47F0000000000000, 0xC7EFFFFFE0000000, 0xC7EFFFFFE0000001,
	0x36A0000000000000, 0x3690000000000000, 0x3690000000000001, 0x369FFFFFFFFFFFFF, 0x380FFFFFFFFFFFFF, 0x3810000000000000, 0x3FB999999999999A, 0x3FF0000010000000, 0x3FF0000030000000, 0x3FF0000010000001}

func genFloatTok(r *rand.Rand) string {
	if r.Intn(2) == 0 {
		b := f4Special[r.Intn(len(f4Special))]
		switch r.Intn(4) {
		case 0:
			b = f4Bad[r.Intn(len(f4Bad))]
		case 1:
			b = uint64(r.Uint32())
		}
		return fmt.Sprintf("f32:%d", b)
	}
	b := f8Special[r.Intn(len(f8Special))]
	switch r.Intn(5) {
	case 0:
		b = f8Bad[r.Intn(len(f8Bad))]
	case 1:
		b = r.Uint64()
	case 2:
		b = f64Edge[r.Intn(len(f64Edge))]
	}
	return fmt.Sprintf("f64:%d", b)
}

var binStrings = []string{"0b0", "0b1", "0b101", "0b11111111", "0b100000000", "0b", "0bxyz", "0b2", "0b1_0", "0b_1", "0b1__0", "0b1_", "0b00000001",
	"0b" + strings.Repeat("1", 63), "0b" + strings.Repeat("1", 64), "0b" + strings.Repeat("1", 70), "0b" + strings.Repeat("1", 70) + "x", "0b12", "0B1", "0b-1", "0b 1", "0b1 ",
	// values of 2^63, 2^64 and more whose low bits look harmless; long runs of leading zeros
	"0b1" + strings.Repeat("0", 63), "0b1" + strings.Repeat("0", 64), "0b1" + strings.Repeat("0", 56) + "11111111", "0b1" + strings.Repeat("0", 127) + "1",
	"0b" + strings.Repeat("0", 60) + "101", "0b" + strings.Repeat("0", 200) + "11111111", "0b" + strings.Repeat("0", 200) + "100000000"}

func genArgTok(r *rand.Rand, kind string, names *nameGen, o *GenOpt) string {
	x := r.Intn(20)
	switch {
	case x == 0:
		return "x"
	case x == 1:
		return fmt.Sprintf("b:%d", r.Intn(2))
	case x < 5:
		return strTok(names.name(r, o))
	}
	switch kind {
	case "binary":
		switch r.Intn(4) {
		case 0:
			return strTok(binStrings[r.Intn(len(binStrings))])
		case 1:
			return genNumTok(r)
		}
		return sintTok(0, int64(pick(r, 0, 1, 255, 256, -1, 128, r.Intn(256))))
	case "boolean":
		if r.Intn(6) == 0 {
			return genNumTok(r)
		}
		return fmt.Sprintf("b:%d", r.Intn(2))
	}
	return genNumTok(r)
}

const itemKeys = "bytes str vars size fisl"

func suiteC12(c *Ctx) []Suite {
	return []Suite{
		{Name: "ctor/arrays", Gen: func(c *Ctx) []Case {
			var out []Case
			kinds := []string{"int", "uint", "float", "binary", "boolean"}
			for i := 0; i < c.N(6000); i++ {
				kind := kinds[c.R.Intn(len(kinds))]
				names := &nameGen{}
				o := &GenOpt{PBad: 0.15}
				n := c.R.Intn(4)
				if c.R.Intn(3) == 0 {
					n = 1
				}
				args := make([]string, n)
				for k := range args {
					args[k] = genArgTok(c.R, kind, names, o)
				}
				op := "ctor " + kind
				switch kind {
				case "int", "uint":
					op += fmt.Sprintf(" %d", pick(c.R, 1, 2, 4, 8, 1, 2, 4, 8, 1, 2, 4, 8, 0, 3, 16))
				case "float":
					op += fmt.Sprintf(" %d", pick(c.R, 4, 8, 4, 8, 4, 8, 4, 8, 0, 2, 16))
				}
				op += fmt.Sprintf(" %d %s", n, strings.Join(args, " "))
				out = append(out, Case{Op: strings.TrimSpace(op), Decisive: true, Nontrivial: n > 0, Tags: []string{"ctor:" + kind}}.fields(itemKeys))
			}
			return out
		}},
		{Name: "ctor/boundary-grid", Gen: func(c *Ctx) []Case {
			// every integer factory x every Go integer type x every boundary value
			var out []Case
			for _, kind := range []string{"int", "uint", "float"} {
				ws := []int{1, 2, 4, 8}
				if kind == "float" {
					ws = []int{4, 8}
				}
				for _, w := range ws {
					for _, k := range []int{0, 8, 16, 32, 64} {
						for _, v := range sBoundaries {
							if clampS(k, v) != v {
								continue
							}
							out = append(out, Case{Op: fmt.Sprintf("ctor %s %d 1 %s", kind, w, sintTok(k, v)), Decisive: true, Nontrivial: true, Tags: []string{"grid:" + kind}}.fields(itemKeys))
						}
						for _, v := range uBoundaries {
							if clampU(k, v) != v {
								continue
							}
							out = append(out, Case{Op: fmt.Sprintf("ctor %s %d 1 %s", kind, w, uintTok(k, v)), Decisive: true, Nontrivial: true, Tags: []string{"grid:" + kind}}.fields(itemKeys))
						}
					}
				}
			}
			for _, w := range []int{4, 8} {
				for _, b := range append(append(append([]uint64{}, f8Special...), f8Bad...), f64Edge...) {
					out = append(out, Case{Op: fmt.Sprintf("ctor float %d 1 f64:%d", w, b), Decisive: true, Nontrivial: true, Tags: []string{"grid:float64"}}.fields(itemKeys))
				}
				for _, b := range append(append([]uint64{}, f4Special...), f4Bad...) {
					out = append(out, Case{Op: fmt.Sprintf("ctor float %d 1 f32:%d", w, b), Decisive: true, Nontrivial: true, Tags: []string{"grid:float32"}}.fields(itemKeys))
				}
			}
			// Go values of the wrong kind for a factory: whole-number floats for integers, integers
			// for booleans, booleans for numbers
			for _, w := range []int{1, 2, 4, 8} {
				for _, tok := range []string{"f64:4607182418800017408", "f64:4895412794951729152", "f64:9218868437227405312", "f32:1065353216", "b:1", "f64:0", "f64:4890909195324358656"} {
					for _, kind := range []string{"int", "uint"} {
						out = append(out, Case{Op: fmt.Sprintf("ctor %s %d 1 %s", kind, w, tok), Decisive: true, Nontrivial: true, Tags: []string{"grid:wrong-go-type"}}.fields(itemKeys))
					}
				}
			}
			for _, tok := range []string{"i:0:1", "u:8:0", "f64:0", "s:" + hxs("T")} {
				out = append(out, Case{Op: "ctor boolean 1 " + tok, Decisive: true, Nontrivial: true, Tags: []string{"grid:wrong-go-type"}}.fields(itemKeys))
			}
			for _, s := range binStrings {
				out = append(out, Case{Op: "ctor binary 1 " + strTok(s), Decisive: true, Nontrivial: true, Tags: []string{"grid:binstr"}}.fields(itemKeys))
			}
			for v := -2; v <= 257; v++ {
				out = append(out, Case{Op: "ctor binary 1 " + sintTok(0, int64(v)), Decisive: true, Nontrivial: true, Tags: []string{"grid:binary"}}.fields(itemKeys))
			}
			return out
		}},
		{Name: "ctor/ascii-and-names", Gen: func(c *Ctx) []Case {
			var out []Case
			for i := 0; i < c.N(1500); i++ {
				o := GenOpt{PBad: 0.2, Big: true}
				s := genASCII(c.R, &o)
				out = append(out, Case{Op: "ctor ascii " + hx(s), Decisive: true, Nontrivial: true, Tags: []string{"ctor:ascii"}}.fields(itemKeys))
			}
			// every single byte value as a one-character string and as a one-character name
			for b := 0; b < 256; b++ {
				out = append(out, Case{Op: "ctor ascii " + hx([]byte{byte(b)}), Decisive: true, Nontrivial: true, Tags: []string{"ctor:ascii-1"}}.fields(itemKeys))
				out = append(out, Case{Op: fmt.Sprintf("ctor asciivar %s 0 -1", hx([]byte{byte(b)})), Decisive: true, Nontrivial: true, Tags: []string{"ctor:name-1"}}.fields(itemKeys))
				out = append(out, Case{Op: fmt.Sprintf("ctor asciivar %s 0 -1", hx([]byte{'a', byte(b)})), Decisive: true, Nontrivial: true, Tags: []string{"ctor:name-2"}}.fields(itemKeys))
			}
			names := append([]string{"a", "_", "a1", "a_b", "A[0]", "a[12][3]", "a[0]x", "a[]", "[0]", "a[0", "a0]", "a[-1]", "a[1.5]", "a[ 1]", "...", "...[0]", "....", "a\n", "\na"}, badNames...)
			for _, nm := range names {
				for _, lim := range [][2]int{{0, -1}, {0, 0}, {2, 2}, {2, 5}, {5, 2}, {-1, -1}, {0, -2}, {3, -1}, {1 << 40, -1}} {
					out = append(out, Case{Op: fmt.Sprintf("ctor asciivar %s %d %d", hxs(nm), lim[0], lim[1]), Decisive: true, Nontrivial: true, Tags: []string{"ctor:asciivar"}}.fields(itemKeys))
				}
			}
			return out
		}},
		{Name: "ctor/lists", Gen: func(c *Ctx) []Case {
			var out []Case
			for i := 0; i < c.N(2500); i++ {
				names := &nameGen{}
				o := &GenOpt{MaxDepth: 2, MaxSlots: 3, PVar: 0.3, PBad: 0.1, PEllipsis: 0.2, names: names}
				n := c.R.Intn(5)
				args := make([]string, n)
				for k := range args {
					switch x := c.R.Intn(10); {
					case x < 5:
						child := genNode(c.R, &GenOpt{MaxDepth: 2, MaxSlots: 3, PVar: 0.3, PBad: 0.03, PEllipsis: 0.2, names: names}, 1)
						args[k] = "t " + child.Proto()
					case x < 7:
						args[k] = strTok(names.name(c.R, o))
					case x == 7:
						args[k] = strTok([]string{"...", "...[0]", "...[1]", "...[12]", "....", "...[", "..."}[c.R.Intn(7)])
					case x == 8:
						args[k] = "t E"
					default:
						args[k] = genArgTok(c.R, "int", names, o)
					}
				}
				out = append(out, Case{Op: strings.TrimSpace(fmt.Sprintf("ctor list %d %s", n, strings.Join(args, " "))), Decisive: true, Nontrivial: n > 0, Tags: []string{"ctor:list"}}.fields(itemKeys))
			}
			return out
		}},
		{Name: "ctor/messages", Gen: func(c *Ctx) []Case {
			var out []Case
			for i := 0; i < c.N(2500); i++ {
				item := genItem(c.R, GenOpt{MaxDepth: 2, MaxSlots: 3, PVar: 0.15})
				m := genMsgDesc(c.R, item, 0.5)
				m.HSMS = c.R.Intn(2) == 0
				out = append(out, Case{Op: "mprog " + m.newStep(), Decisive: true, Nontrivial: true, Tags: []string{fmt.Sprintf("ctor:msg hsms=%v", m.HSMS)}}.fields("name s f w dir sid sys bytes"))
			}
			return out
		}},
		{Name: "ctor/control-messages", Gen: func(c *Ctx) []Case {
			// the control-message constructors keep what they were given (the header, the system
			// bytes) and nothing of the caller's memory: the arguments are overwritten after the call
			var out []Case
			for i := 0; i < c.N(300); i++ {
				hdr := make([]byte, pick(c.R, 10, 10, 10, 10, 0, 3, 9))
				c.R.Read(hdr)
				sys := make([]byte, pick(c.R, 4, 4, 4, 0, 1, 2, 3, 5, 6))
				c.R.Read(sys)
				sid := c.R.Intn(65536)
				op := []string{
					"ctrl raw " + hx(hdr),
					fmt.Sprintf("ctrl selectreq %d %s", sid, hx(sys)),
					fmt.Sprintf("ctrl deselectreq %d %s", sid, hx(sys)),
					"ctrl linktestreq " + hx(sys),
					fmt.Sprintf("ctrl separatereq %d %s", sid, hx(sys)),
					fmt.Sprintf("ctrl rejectreq %d %d %d %s %d", sid, c.R.Intn(256), c.R.Intn(256), hx(sys), c.R.Intn(256)),
					fmt.Sprintf("ctrl selectrsp %s %d", hx(hdr), c.R.Intn(256)),
					fmt.Sprintf("ctrl deselectrsp %s %d", hx(hdr), c.R.Intn(256)),
					"ctrl linktestrsp " + hx(hdr),
				}[c.R.Intn(9)]
				if len(hdr) == 10 && c.R.Intn(2) == 0 {
					// a request of the right kind as it may come from the wire (any byte 2 and 3)
					hdr[4], hdr[5] = 0, []byte{1, 3, 5}[c.R.Intn(3)]
					op = fmt.Sprintf("ctrl %s %s %d", map[byte]string{1: "selectrsp", 3: "deselectrsp", 5: "linktestrsp"}[hdr[5]], hx(hdr), c.R.Intn(256))
					if hdr[5] == 5 {
						op = "ctrl linktestrsp " + hx(hdr)
					}
				}
				out = append(out, Case{Op: op, Decisive: true, Nontrivial: true, Tags: []string{"ctrl-ctor"}})
			}
			return out
		}},
		{Name: "ctor/ellipsis-count-types", Gen: func(c *Ctx) []Case { return ellipsisCases(c, c.N(600), 2, 3) }},
		{Name: "ctor/fill-in-items-are-stored-as-passed", Gen: func(c *Ctx) []Case {
			// FillVariables is a constructor of lists too: an item passed as the value of a list
			// variable is stored as it is, also when the same table has a value for a variable inside it
			var out []Case
			y := Slot{IsVar: true, Name: "y"}
			inner := []*Node{
				{Kind: "U", W: 1, Slots: []Slot{y}},
				{Kind: "I", W: 2, Slots: []Slot{y, {I: 3}}},
				{Kind: "L", Slots: []Slot{{Child: &Node{Kind: "U", W: 1, Slots: []Slot{y}}}}},
				{Kind: "AV", Name: "y", Min: 0, Max: -1},
				{Kind: "F", W: 8, Slots: []Slot{y}},
			}
			vals := []string{"i:0:5", "i:0:300", "u:8:7", "s:" + hxs("txt"), "f64:4609434218613702656"}
			x := Slot{IsVar: true, Name: "x"}
			tmpls := []*Node{
				{Kind: "L", Slots: []Slot{x, {Child: &Node{Kind: "U", W: 1, Slots: []Slot{{U: 1}}}}}},
				{Kind: "L", Slots: []Slot{{Child: &Node{Kind: "L", Slots: []Slot{x, {Child: &Node{Kind: "A", Str: []byte("ab")}}}}}}},
				{Kind: "L", Slots: []Slot{{Child: &Node{Kind: "U", W: 1, Slots: []Slot{{U: 2}}}}, x, {IsVar: true, Name: "z"}}},
			}
			for _, in := range inner {
				for _, v := range vals {
					for _, tmpl := range tmpls {
						out = append(out, Case{Op: "fillitem " + tmpl.Proto() + " | 2 " + hxs("x") + " t " + in.Proto() + " " + hxs("y") + " " + v, Decisive: true, Nontrivial: true, Tags: []string{"fill-in-item"}}.fields(itemKeys))
					}
				}
			}
			return out
		}},
		{Name: "ctor/message-setters", Gen: func(c *Ctx) []Case {
			// the setters are constructors too: a wait bit on an even function, a session id
			// outside 16 bits are refused exactly as NewDataMessage / NewHSMSDataMessage refuse them
			var out []Case
			for i := 0; i < c.N(1500); i++ {
				item := genItem(c.R, GenOpt{MaxDepth: 2, MaxSlots: 3, PVar: 0.1})
				m := genMsgDesc(c.R, item, 0)
				m.W = pick(c.R, 2, 2, 2, 0, 1)
				if m.W == 1 {
					m.F |= 1
				}
				steps := []string{m.newStep()}
				for k := 0; k < 1+c.R.Intn(3); k++ {
					if x := c.R.Intn(5); x < 2 {
						steps = append(steps, fmt.Sprintf("wait %d", c.R.Intn(2)))
					} else if x == 2 {
						// FillVariables is a constructor too: what the message carries (session id,
						// system bytes, wait bit) is stored in the result as it was passed on
						steps = append(steps, "fill 1 "+hxs("nokey")+" "+sintTok(0, 1))
					} else {
						sys := make([]byte, pick(c.R, 4, 4, 0, 3, 5))
						c.R.Read(sys)
						steps = append(steps, fmt.Sprintf("sess %d %s", pick(c.R, 0, 65535, 65536, -1, -2, 1<<31, c.R.Intn(65536)), hx(sys)))
					}
				}
				out = append(out, Case{Op: "mprog " + strings.Join(steps, " | "), Decisive: true, Nontrivial: true,
					Tags: []string{fmt.Sprintf("setter w=%d even=%v", m.W, m.F%2 == 0)}}.fields("name s f w dir sid sys bytes"))
			}
			return out
		}},
	}
}

// ---------- C16: variable listing, printed order, encodability, size ----------

var quotedRe = regexp.MustCompile(`"[^"]*"`)
var sizeRe = regexp.MustCompile(`^<[A-Z0-9]+\[(\d+)\]`)

// printedNames extracts, in order, the tokens of a printed item that are not type heads,
// numbers, quoted strings or brackets.
func printedNames(s string) []string {
	s = quotedRe.ReplaceAllString(s, " ")
	s = strings.NewReplacer(">", " > ").Replace(s)
	var out []string
	for _, f := range strings.Fields(s) {
		if strings.HasPrefix(f, "<") || f == ">" {
			continue
		}
		out = append(out, f)
	}
	return out
}

func varsOracle(n *Node, it ast.ItemNode) string {
	vars := it.Variables()
	seen := map[string]bool{}
	for _, v := range vars {
		if seen[v] {
			return "variable listed twice: " + v
		}
		seen[v] = true
	}
	// the list is the caller's: sorting or overwriting it must not disturb the next call
	scratch := it.Variables()
	sort.Strings(scratch)
	for i := range scratch {
		scratch[i] = "overwritten"
	}
	if again := it.Variables(); strings.Join(again, "\x00") != strings.Join(vars, "\x00") {
		return fmt.Sprintf("Variables() returns %q after the caller sorted/overwrote the previous result %q", again, vars)
	}
	printed := fmt.Sprint(it)
	var got []string
	for _, t := range printedNames(printed) {
		if seen[t] || t == "..." {
			got = append(got, t)
		}
	}
	want := make([]string, len(vars))
	for i, v := range vars {
		want[i] = v
		if strings.HasPrefix(v, "...") {
			want[i] = "..."
		}
	}
	if strings.Join(got, " ") != strings.Join(want, " ") {
		return fmt.Sprintf("Variables() %q but names appear in the printed form as %q", want, got)
	}
	if (len(it.ToBytes()) != 0) != (len(vars) == 0) {
		return fmt.Sprintf("encodable=%v but %d variables", len(it.ToBytes()) != 0, len(vars))
	}
	// reported size = number of elements it prints
	want_size := 0
	switch n.Kind {
	case "A":
		want_size = len(n.Str)
	case "AV":
		want_size = -1
	default:
		want_size = len(n.Slots)
	}
	if it.Size() != want_size {
		return fmt.Sprintf("Size() = %d, printed elements %d", it.Size(), want_size)
	}
	if m := sizeRe.FindStringSubmatch(printed); m != nil && n.Kind != "AV" {
		if m[1] != fmt.Sprint(it.Size()) {
			return fmt.Sprintf("printed size [%s] but Size() = %d", m[1], it.Size())
		}
	}
	if n.Kind != "L" && n.Kind != "A" && n.Kind != "AV" && n.Kind != "E" && len(n.Slots) > 0 {
		// element tokens between the head and '>'
		body := strings.TrimSuffix(printed[strings.IndexByte(printed, ' ')+1:], ">")
		if len(strings.Fields(body)) != it.Size() {
			return fmt.Sprintf("prints %d elements but Size() = %d", len(strings.Fields(body)), it.Size())
		}
	}
	return ""
}

func suiteC16(c *Ctx) []Suite {
	return []Suite{
		{Name: "vars/filled-at-the-size-limit", Gen: func(c *Ctx) []Case {
			// whatever a fill returns, it encodes iff it lists no variable - also when the value
			// filled in is as long as an item can be, or one byte longer (judged on the real code)
			var out []Case
			for _, n := range []int{16777215, 16777216} {
				for _, shape := range []string{"item", "nested", "message"} {
					res := ""
					val := map[string]interface{}{"v": strings.Repeat("k", n)}
					safely(func() {
						var tmpl ast.ItemNode = ast.NewASCIINodeVariable("v", 0, -1)
						if shape != "item" {
							tmpl = ast.NewListNode(ast.NewUintNode(2, 9), ast.NewListNode(tmpl))
						}
						nv, nb := 0, 0
						if shape == "message" {
							m := ast.NewHSMSDataMessage("M", 1, 1, 1, "H->E", tmpl, 7, []byte{0, 0, 0, 1})
							var got *ast.DataMessage
							if pan, _ := safely(func() { got = m.FillVariables(val) }); pan {
								return
							}
							nv, nb = len(got.Variables()), len(got.ToBytes())
							if nv == 0 && nb > 0 && nb < n {
								res = fmt.Sprintf("a message filled with %d characters lists no variable and encodes to %d bytes: its text is missing", n, nb)
							}
						} else {
							var got ast.ItemNode
							if pan, _ := safely(func() { got = tmpl.FillVariables(val) }); pan {
								return
							}
							nv, nb = len(got.Variables()), len(got.ToBytes())
						}
						if res == "" && (nv == 0) != (nb > 0) {
							res = fmt.Sprintf("filled with %d characters: %d variables listed, encodes to %d bytes", n, nv, nb)
						}
					})
					out = append(out, Case{Detail: fmt.Sprintf("ASCII variable (%s) filled with %d characters", shape, n), Oracle: res, Nontrivial: true, Tags: []string{"filled-at-limit"}})
				}
			}
			// one element more than fits: whatever a factory hands out encodes iff it lists no variable
			for _, f := range []struct {
				name string
				n    int
				mk   func(args []interface{}) ast.ItemNode
			}{
				{"F8", 16777215/8 + 1, func(a []interface{}) ast.ItemNode { return ast.NewFloatNode(8, a...) }},
				{"F4", 16777215/4 + 1, func(a []interface{}) ast.ItemNode { return ast.NewFloatNode(4, a...) }},
				{"I8", 16777215/8 + 1, func(a []interface{}) ast.ItemNode { return ast.NewIntNode(8, a...) }},
				{"U8", 16777215/8 + 1, func(a []interface{}) ast.ItemNode { return ast.NewUintNode(8, a...) }},
			} {
				res := ""
				safely(func() {
					args := make([]interface{}, f.n)
					for i := range args {
						args[i] = 1
					}
					var it ast.ItemNode
					if pan, _ := safely(func() { it = f.mk(args) }); pan {
						return
					}
					if nv, nb := len(it.Variables()), len(it.ToBytes()); (nv == 0) != (nb > 0) {
						res = fmt.Sprintf("%s item of %d values: %d variables listed, encodes to %d bytes", f.name, f.n, nv, nb)
					}
				})
				out = append(out, Case{Detail: fmt.Sprintf("%s item of %d values (one more than fits)", f.name, f.n), Oracle: res, Nontrivial: true, Tags: []string{"factory-above-limit"}})
			}
			return out
		}},
		{Name: "vars/message-filled-in-one-call", Gen: func(c *Ctx) []Case { return ellipsisOneCall(c, c.N(400)) }},
		{Name: "vars/after-ellipsis-fills", Gen: func(c *Ctx) []Case { return ellipsisCases(c, c.N(700), 4, 3) }},
		{Name: "vars/items", Gen: func(c *Ctx) []Case {
			var out []Case
			// text that is no 7-bit ASCII never becomes an A item (its size in bytes and the characters
			// it prints would differ), neither through the factory nor through a fill
			for _, s := range []string{"\u00e9", "caf\u00e9", "25\u00b0C", "\u00ff", "\u0080", "a\u00b5b", "\u0100", "\u540d"} {
				out = append(out, Case{Op: "ctor ascii " + hxs(s), Decisive: true, Nontrivial: true, Tags: []string{"non-ascii-text"}}.fields("vars size bytes"))
				out = append(out, Case{Op: "fillitem " + (&Node{Kind: "L", Slots: []Slot{{Child: &Node{Kind: "AV", Name: "unit", Min: 0, Max: -1}}}}).Proto() + " | 1 " + hxs("unit") + " " + strTok(s), Decisive: true, Nontrivial: true, Tags: []string{"non-ascii-text"}}.fields("vars size bytes"))
			}
			// the empty item on its own (size 0, no variable, no bytes), and what an ASCII node tells
			// about the text it takes: (-2,-2) for a value, the declared bounds for a variable
			out = append(out, Case{Op: "item E", Decisive: true, Nontrivial: true, Tags: []string{"bare-empty-item"}}.fields("vars size bytes fisl"))
			for _, lim := range [][2]int{{0, -1}, {0, 0}, {1, 1}, {3, 3}, {0, 7}, {2, -1}, {2, 9}, {16777215, 16777215}, {0, 16777215}, {5, 4}, {1, 0}} {
				out = append(out, Case{Op: fmt.Sprintf("ctor asciivar %s %d %d", hxs("lot"), lim[0], lim[1]), Decisive: true, Nontrivial: true, Tags: []string{"fill-in-length"}}.fields("vars size fisl"))
				out = append(out, Case{Op: "item " + (&Node{Kind: "AV", Name: "lot", Min: lim[0], Max: lim[1]}).Proto(), Decisive: true, Nontrivial: true, Tags: []string{"fill-in-length"}}.fields("vars size fisl"))
			}
			for _, sv := range []string{"", "a", "LOT-0042"} {
				out = append(out, Case{Op: "ctor ascii " + hxs(sv), Decisive: true, Nontrivial: true, Tags: []string{"fill-in-length"}}.fields("vars size fisl"))
			}
			for i := 0; i < c.N(4000); i++ {
				o := GenOpt{MaxDepth: 4, MaxSlots: 5, PVar: 0.3, PEllipsis: 0.15}
				if i%5 == 0 {
					o.PVar = 0
				}
				item := genItem(c.R, o)
				res, it := implItem(item)
				cs := Case{Op: "item " + item.Proto(), Impl: res, Decisive: true, Nontrivial: !item.Closed(), Tags: itemTags("", item)}.fields("vars size")
				if it != nil {
					cs.Oracle = varsOracle(item, it)
				} else {
					cs.Oracle = "factory panicked on an in-domain template"
				}
				out = append(out, cs)
			}
			return out
		}},
		{Name: "vars/many-variables", Gen: func(c *Ctx) []Case {
			// items and lists holding hundreds of variables (mixed with values): order, no
			// repeats, nothing missing
			var out []Case
			counts := []int{255, 256, 257, 300, 700}
			if c.Tier == "thorough" {
				counts = append(counts, 1000, 4096, 65537)
			}
			for _, cnt := range counts {
				for _, k := range []struct {
					kind string
					w    int
				}{{"U", 2}, {"I", 8}, {"B", 1}, {"BO", 1}, {"F", 4}, {"L", 0}} {
					n := &Node{Kind: k.kind, W: k.w}
					perm := c.R.Perm(cnt) // names are not in position order
					for i := 0; i < cnt; i++ {
						if c.R.Intn(6) == 0 {
							if k.kind == "L" {
								n.Slots = append(n.Slots, Slot{Child: &Node{Kind: "U", W: 1, Slots: []Slot{{IsVar: true, Name: fmt.Sprintf("c%d", perm[i])}}}})
							} else {
								n.Slots = append(n.Slots, Slot{})
							}
							continue
						}
						n.Slots = append(n.Slots, Slot{IsVar: true, Name: fmt.Sprintf("v%d", perm[i])})
					}
					item := n
					if c.R.Intn(2) == 0 {
						item = &Node{Kind: "L", Slots: []Slot{{Child: &Node{Kind: "A", Str: []byte("x")}}, {Child: n}, {IsVar: true, Name: "tail"}}}
					}
					res, it := implItem(item)
					cs := Case{Op: "item " + item.Proto(), Impl: res, Decisive: true, Nontrivial: true, Tags: []string{fmt.Sprintf("many-vars:%s:%d", k.kind, cnt)}}.fields("vars size")
					if it != nil {
						cs.Oracle = varsOracle(item, it)
					} else {
						cs.Oracle = "factory panicked on an in-domain template with many variables"
					}
					out = append(out, cs)
				}
			}
			return out
		}},
		{Name: "vars/duplicate-attempts", Gen: func(c *Ctx) []Case {
			// names reused on purpose (within a node, between siblings, between nested lists):
			// either the factory refuses or the tree has no name twice
			var out []Case
			for i := 0; i < c.N(2500); i++ {
				item := genItem(c.R, GenOpt{MaxDepth: 4, MaxSlots: 4, PVar: 0.4, PBad: 0.12, PEllipsis: 0.1})
				res, it := implItem(item)
				cs := Case{Op: "item " + item.Proto(), Impl: res, Decisive: true, Nontrivial: !item.Closed(), Tags: []string{"dup-attempt:" + map[bool]string{true: "refused", false: "built"}[it == nil]}}.fields("vars size")
				if it != nil {
					seen := map[string]bool{}
					for _, v := range it.Variables() {
						if seen[v] {
							cs.Oracle = "a tree with the variable name " + v + " twice was constructed"
						}
						seen[v] = true
					}
				}
				out = append(out, cs)
			}
			return out
		}},
		{Name: "vars/float-edges", Gen: func(c *Ctx) []Case {
			// F4/F8 items built from float64 and float32 values at the edges of the formats (tiny,
			// subnormal, rounding to zero, largest finite): whatever is accepted has no variable
			// and therefore encodes
			var out []Case
			tiny := []uint64{0x3680000000000000, 0x367FFFFFFFFFFFFF, 0x3670000000000000, 0x0000000000000001, 0x8000000000000001, 0xB690000000000000, 0x36924C7A2E1A4B7E, 0x0010000000000000, 0x8000000000000000}
			for _, w := range []int{4, 8} {
				for _, b := range append(append(append([]uint64{}, f8Special...), f64Edge...), tiny...) {
					for _, n := range []int{1, 2} {
						op := fmt.Sprintf("ctor float %d %d f64:%d", w, n, b)
						if n == 2 {
							op += " f64:4607182418800017408"
						}
						res := implEval(op)
						cs := Case{Op: op, Impl: res, Decisive: true, Nontrivial: true, Tags: []string{"float-edge"}}.fields(itemKeys)
						if b := project(res, "bytes"); res != "PANIC" && project(res, "vars") == "vars=-" && (b == "bytes=" || b == "bytes=-") {
							cs.Oracle = "a float item without variables encodes to no bytes"
						}
						out = append(out, cs)
					}
				}
			}
			return out
		}},
		{Name: "vars/after-renaming-fills", Gen: func(c *Ctx) []Case {
			// fills that rename variables (string values), to fresh names and to names the tree
			// already uses, at every depth and without touching the enclosing lists' own
			// variables: either the fill is refused or no name is listed twice
			var out []Case
			for i := 0; i < c.N(1500); i++ {
				names := &nameGen{}
				tmpl := genNode(c.R, &GenOpt{MaxDepth: 4, MaxSlots: 4, PVar: 0.45, names: names}, 0)
				var vars []varRef
				collectVars(tmpl, &vars)
				if len(vars) < 2 {
					continue
				}
				asg := map[string]FillVal{}
				var keys []string
				for _, v := range vars {
					if v.node.Kind == "AV" || c.R.Intn(3) > 0 {
						continue
					}
					if v.node.Kind == "L" && c.R.Intn(2) == 0 {
						continue // often leave the lists' own variables alone
					}
					nm := names.fresh(c.R)
					if c.R.Intn(2) == 0 {
						nm = vars[c.R.Intn(len(vars))].name
					}
					asg[v.name] = FillVal{Tok: strTok(nm)}
					keys = append(keys, v.name)
				}
				if len(keys) == 0 {
					continue
				}
				op := "fillitem " + tmpl.Proto() + " | " + envTokens(asg, keys)
				impl := implEval(op)
				cs := Case{Op: op, Impl: impl, Decisive: true, Nontrivial: true,
					Tags: []string{"rename-fill:" + map[bool]string{true: "refused", false: "accepted"}[lastField(impl) == "PANIC"]}}.fields(itemKeys)
				seen := map[string]bool{}
				for _, v := range strings.Split(strings.TrimPrefix(project(lastField(impl), "vars"), "vars="), ",") {
					if v != "" && v != "-" && seen[v] {
						b, _ := unhx(v)
						cs.Oracle = "after a renaming fill the variable name " + string(b) + " is listed twice"
					}
					seen[v] = true
				}
				out = append(out, cs)
			}
			return out
		}},
		{Name: "vars/messages", Gen: func(c *Ctx) []Case {
			var out []Case
			for i := 0; i < c.N(800); i++ {
				item := genItem(c.R, GenOpt{MaxDepth: 3, MaxSlots: 4, PVar: 0.3, PEllipsis: 0.15})
				m := genMsgDesc(c.R, item, 0)
				msg, p := buildMsg(m)
				cs := Case{Op: "mprog " + m.newStep(), Decisive: true, Nontrivial: true, Tags: []string{"msg"}}.fields("vars")
				if p {
					cs.Oracle = "constructor panicked on an in-domain message"
				} else if strings.Join(msg.Variables(), "\x00") != strings.Join(msg.FillVariables(nil).Variables(), "\x00") {
					cs.Oracle = "message variables change under an empty fill"
				}
				out = append(out, cs)
				// the same message addressed and with the wait bit decided: bytes iff no variables
				if !p {
					op := fmt.Sprintf("mprog %s | %s | wait %d", m.newStep(), m.sessSteps(c.R), c.R.Intn(2))
					c2 := Case{Op: op, Decisive: true, Nontrivial: true, Tags: []string{"msg-addressed"}}.fields("vars bytes")
					var full *ast.DataMessage
					if pan, _ := safely(func() { full = msg.SetSessionIDAndSystemBytes(m.Sid, m.Sys).SetWaitBit(false) }); !pan {
						if (len(full.ToBytes()) != 0) != (len(full.Variables()) == 0) {
							c2.Oracle = fmt.Sprintf("addressed message with variables %q encodes to %d bytes", full.Variables(), len(full.ToBytes()))
						}
					}
					out = append(out, c2)
				}
			}
			// a message whose whole text is one unfilled variable of each kind
			for _, it := range []*Node{{Kind: "AV", Name: "MDLN", Min: 0, Max: 20}, {Kind: "AV", Name: "x", Min: 0, Max: -1},
				{Kind: "U", W: 1, Slots: []Slot{{IsVar: true, Name: "v"}}}, {Kind: "BO", Slots: []Slot{{IsVar: true, Name: "b"}}},
				{Kind: "L", Slots: []Slot{{IsVar: true, Name: "item"}}}, {Kind: "L", Slots: []Slot{{Child: &Node{Kind: "AV", Name: "a", Min: 1, Max: 1}}}}} {
				for w := 0; w < 3; w++ {
					m := &MsgDesc{Item: it, Name: "n", S: 1, F: 13, W: w, Dir: "H->E", Sid: 7, Sys: []byte{0, 0, 0, 1}}
					op := fmt.Sprintf("mprog %s | %s | wait 1", m.newStep(), m.sessSteps(c.R))
					out = append(out, Case{Op: op, Decisive: true, Nontrivial: true, Tags: []string{"msg-bare-variable"}}.fields("vars bytes"))
				}
			}
			return out
		}},
		{Name: "vars/messages-after-fill", Gen: func(c *Ctx) []Case {
			// a template message that was looked at (variables, bytes) and is then filled in one or
			// two steps: the filled message lists what is left and encodes once nothing is
			var out []Case
			for i := 0; i < c.N(500); i++ {
				names := &nameGen{}
				tmpl := genNode(c.R, &GenOpt{MaxDepth: 3, MaxSlots: 4, PVar: 0.4, names: names}, 0)
				var vars []varRef
				collectVars(tmpl, &vars)
				if len(vars) == 0 {
					continue
				}
				asg := map[string]FillVal{}
				var keys []string
				for _, v := range vars {
					fv := genFillVal(c.R, v.node, 0, names)
					for len(fv.Open) > 0 {
						fv = genFillVal(c.R, v.node, 0, names)
					}
					asg[v.name] = fv
					keys = append(keys, v.name)
				}
				m := completeMsgDesc(c.R, tmpl)
				m.HSMS = false
				half := 1 + c.R.Intn(len(keys))
				steps := []string{m.newStep(), m.sessSteps(c.R), "fill " + envTokens(asg, keys[:half])}
				if half < len(keys) {
					steps = append(steps, "fill "+envTokens(asg, keys[half:]))
				}
				op := "mprog " + strings.Join(steps, " | ")
				impl := implEval(op)
				cs := Case{Op: op, Impl: impl, Decisive: true, Nontrivial: true, Tags: []string{"msg-after-fill"}}.fields("vars bytes")
				last := lastField(impl)
				if b := project(last, "bytes"); last != "PANIC" && (project(last, "vars") == "vars=-") != (b != "bytes=" && b != "bytes=-") {
					cs.Oracle = "after the fills: " + project(last, "vars") + " but " + project(last, "bytes")[:imin(30, len(project(last, "bytes")))]
				}
				out = append(out, cs)
			}
			return out
		}},
		{Name: "vars/near-limit-encodable", Gen: nearLimitRoundTrip},
	}
}
