package main

import (
	"strings"
	"fmt"
	"math"
	"math/rand"
)

// GenOpt steers the structure-directed item generator.
type GenOpt struct {
	MaxDepth int
	MaxSlots int
	PVar     float64 // probability that a slot is a variable
	PBad     float64 // probability of an out-of-domain choice (value, name, width, duplicate)
	Big      bool    // allow element counts at the 255|256 boundaries
	Huge     bool    // also (rarely) 65535|65536
	PEllipsis float64
	names    *nameGen
}

type nameGen struct {
	n    int
	ell  int
	used []string
}

var nameStems = []string{"x", "y", "var", "_t", "Temp", "a1", "ppid", "V_2", "q", "alarm", "ABC", "z9"}

// keywords that the SML lexer reads as types or booleans; avoided for "expressible" names
var smlKeywords = map[string]bool{"L": true, "A": true, "B": true, "BOOLEAN": true, "F4": true, "F8": true,
	"I1": true, "I2": true, "I4": true, "I8": true, "U1": true, "U2": true, "U4": true, "U8": true, "T": true, "F": true}

// valid variable names that some conversion routine would also read as a value
// (none of them a keyword of the SML text state in any letter case, so they stay expressible)
var valueLikeNames = []string{"true", "false", "True", "TRUE", "False", "FALSE", "nan", "NaN", "Inf", "inf", "nil", "null",
	"e5", "E1", "_", "__", "b0", "x1F", "W", "H", "S1F1", "tt", "ff", "yes", "no",
	// close to a type name without being one
	"F1", "f2", "F3", "F16", "I3", "i16", "U16", "u3", "L1", "B2", "A1", "BOOL", "LIST"}

func (g *nameGen) fresh(r *rand.Rand) string {
	if r.Intn(25) == 0 {
		s := valueLikeNames[r.Intn(len(valueLikeNames))]
		dup := false
		for _, u := range g.used {
			dup = dup || u == s
		}
		if !dup {
			g.used = append(g.used, s)
			return s
		}
	}
	if r.Intn(30) == 0 && len(g.used) > 0 {
		// a name that differs from an earlier one in letter case only (names are case sensitive)
		u := g.used[r.Intn(len(g.used))]
		s := strings.ToUpper(u)
		if s == u {
			s = strings.ToLower(u)
		}
		dup := s == u
		for _, x := range g.used {
			dup = dup || x == s
		}
		if !dup {
			g.used = append(g.used, s)
			return s
		}
	}
	if r.Intn(20) == 0 && len(g.used) > 0 {
		// an earlier name with an index group of its own: what an expansion would generate for it
		s := g.used[r.Intn(len(g.used))] + fmt.Sprintf("[%d]", r.Intn(2))
		dup := false
		for _, x := range g.used {
			dup = dup || x == s
		}
		if !dup && !strings.HasPrefix(s, "...") {
			g.used = append(g.used, s)
			return s
		}
	}
	g.n++
	s := fmt.Sprintf("%s%d", nameStems[r.Intn(len(nameStems))], g.n)
	if r.Intn(6) == 0 {
		s += fmt.Sprintf("[%d]", r.Intn(12))
		if r.Intn(3) == 0 {
			s += fmt.Sprintf("[%d]", r.Intn(3))
		}
	}
	g.used = append(g.used, s)
	return s
}

var badNames = []string{"", "1a", "a b", "a[", "a[]", "a[1", "a]1", "é", "a-b", "a[1]b", "..", "....", "...[", "...[]", "...[a]", "a.b", "x\n", " x", "a[1][", "\xff"}

func (g *nameGen) name(r *rand.Rand, o *GenOpt) string {
	if r.Float64() < o.PBad {
		switch r.Intn(3) {
		case 0:
			return badNames[r.Intn(len(badNames))]
		case 1:
			if len(g.used) > 0 {
				return g.used[r.Intn(len(g.used))] // duplicate
			}
		default:
			kws := []string{"T", "F", "L", "B", "U1", "BOOLEAN", "t", "f4"}
			return kws[r.Intn(len(kws))]
		}
	}
	return g.fresh(r)
}

func pick(r *rand.Rand, xs ...int) int { return xs[r.Intn(len(xs))] }

func genCount(r *rand.Rand, o *GenOpt) int {
	if o.Big && r.Intn(40) == 0 {
		return pick(r, 254, 255, 256, 257)
	}
	if o.Huge && r.Intn(1500) == 0 {
		return pick(r, 65535, 65536)
	}
	if r.Intn(8) == 0 {
		return 0
	}
	return 1 + r.Intn(o.MaxSlots)
}

func genIntVal(r *rand.Rand, w int, bad bool) int64 {
	bits := uint(8 * w)
	var mn, mx int64
	if w == 8 {
		mn, mx = math.MinInt64, math.MaxInt64
	} else {
		mn, mx = -(1 << (bits - 1)), 1<<(bits-1)-1
	}
	if bad && w < 8 {
		return []int64{mn - 1, mx + 1, mx + 1 + r.Int63n(1000), mn - 1 - r.Int63n(1000), math.MaxInt64, math.MinInt64}[r.Intn(6)]
	}
	switch r.Intn(8) {
	case 0:
		return 0
	case 1:
		return mn
	case 2:
		return mx
	case 3:
		return -1
	case 4:
		return mn + int64(r.Intn(3))
	case 5:
		return mx - int64(r.Intn(3))
	}
	if w == 8 {
		return int64(r.Uint64())
	}
	return mn + r.Int63n(mx-mn+1)
}

func genUintVal(r *rand.Rand, w int, bad bool) uint64 {
	var mx uint64 = math.MaxUint64
	if w < 8 {
		mx = 1<<(8*uint(w)) - 1
	}
	if bad && w < 8 {
		return []uint64{mx + 1, mx + 1 + uint64(r.Intn(1000)), math.MaxUint64, 1 << 63}[r.Intn(4)]
	}
	switch r.Intn(6) {
	case 0:
		return 0
	case 1:
		return mx
	case 2:
		return mx - uint64(r.Intn(3))
	case 3:
		return uint64(r.Intn(3))
	}
	if w == 8 {
		return r.Uint64()
	}
	return r.Uint64() % (mx + 1)
}

var f4Special = []uint64{0, 0x80000000, 1, 0x80000001, 0x007FFFFF, 0x00800000, 0x7F7FFFFF, 0xFF7FFFFF, 0x3F800000, 0x3DCCCCCD, 0x4B000000, 0x461C4000, 0x3A83126F, 0x47C35000, 0x49742400, 0x38D1B717, 0x3727C5AC}
var f8Special = []uint64{0, 0x8000000000000000, 1, 0x000FFFFFFFFFFFFF, 0x0010000000000000, 0x7FEFFFFFFFFFFFFF, 0xFFEFFFFFFFFFFFFF, 0x3FF0000000000000, 0x3FB999999999999A, 0x4340000000000000, 0x40F86A0000000000, 0x412E848000000000, 0x3F1A36E2EB1C432D, 0x3EE4F8B588E368F1, 0x444B1AE4D6E2EF50, 0x47EFFFFFE0000000}
var f4Bad = []uint64{0x7F800000, 0xFF800000, 0x7FC00000, 0x7F800001, 0xFFFFFFFF}
var f8Bad = []uint64{0x7FF0000000000000, 0xFFF0000000000000, 0x7FF8000000000000, 0x7FF0000000000001, 0xFFFFFFFFFFFFFFFF}

func genFloatBits(r *rand.Rand, w int, bad bool) uint64 {
	if w == 4 {
		if bad {
			return f4Bad[r.Intn(len(f4Bad))]
		}
		if r.Intn(3) == 0 {
			return f4Special[r.Intn(len(f4Special))]
		}
		for {
			b := uint64(r.Uint32())
			if (b>>23)&0xFF != 0xFF {
				return b
			}
		}
	}
	if bad {
		return f8Bad[r.Intn(len(f8Bad))]
	}
	if r.Intn(3) == 0 {
		return f8Special[r.Intn(len(f8Special))]
	}
	if r.Intn(3) == 0 { // "human" numbers
		v := float64(r.Intn(2000000)-1000000) / math.Pow(10, float64(r.Intn(9)))
		return math.Float64bits(v)
	}
	for {
		b := r.Uint64()
		if (b>>52)&0x7FF != 0x7FF {
			return b
		}
	}
}

func genASCII(r *rand.Rand, o *GenOpt) []byte {
	n := 0
	switch r.Intn(10) {
	case 0:
		n = 0
	case 1:
		n = 1
	default:
		n = r.Intn(24)
	}
	if o.Big && r.Intn(30) == 0 {
		n = pick(r, 254, 255, 256, 257, 300)
	}
	if o.Huge && r.Intn(1200) == 0 {
		n = pick(r, 65535, 65536)
	}
	b := make([]byte, n)
	mode := r.Intn(4)
	for i := range b {
		switch mode {
		case 0: // printable text
			b[i] = byte(32 + r.Intn(95))
		case 1: // every 7-bit character
			b[i] = byte(r.Intn(128))
		case 2: // runs of control / printable incl. quote, backslash
			b[i] = []byte{'"', '\\', 'a', ' ', 0, 10, 13, 9, 127, 31, 32, '/', '.', '<', '>'}[r.Intn(15)]
		default:
			b[i] = byte('a' + r.Intn(26))
		}
	}
	if n > 0 && r.Float64() < o.PBad {
		b[r.Intn(n)] = byte(128 + r.Intn(128))
	}
	return b
}

var arrayKinds = []struct {
	k string
	w int
}{{"B", 0}, {"BO", 0}, {"I", 1}, {"I", 2}, {"I", 4}, {"I", 8}, {"U", 1}, {"U", 2}, {"U", 4}, {"U", 8}, {"F", 4}, {"F", 8}}

func genArray(r *rand.Rand, o *GenOpt, kind string, w int) *Node {
	n := &Node{Kind: kind, W: w}
	if (kind == "I" || kind == "U" || kind == "F") && r.Float64() < o.PBad/4 {
		n.W = pick(r, 0, 3, 16, 5)
	}
	cnt := genCount(r, o)
	for i := 0; i < cnt; i++ {
		if r.Float64() < o.PVar {
			n.Slots = append(n.Slots, Slot{IsVar: true, Name: o.names.name(r, o)})
			continue
		}
		bad := r.Float64() < o.PBad
		var s Slot
		switch kind {
		case "B":
			s.I = int64(r.Intn(256))
			if r.Intn(4) == 0 {
				s.I = int64(pick(r, 0, 1, 255, 128))
			}
			if bad {
				s.I = int64(pick(r, -1, 256, 1000, -128))
			}
		case "BO":
			s.B = r.Intn(2) == 0
		case "I":
			s.I = genIntVal(r, w, bad)
		case "U":
			s.U = genUintVal(r, w, bad)
		case "F":
			s.Bits = genFloatBits(r, w, bad)
		}
		n.Slots = append(n.Slots, s)
	}
	return n
}

func genLeaf(r *rand.Rand, o *GenOpt) *Node {
	switch r.Intn(14) {
	case 0, 1:
		if r.Float64() < o.PVar {
			mn, mx := 0, -1
			switch r.Intn(4) {
			case 0:
				mn = r.Intn(5)
				mx = mn
			case 1:
				mn = r.Intn(5)
			case 2:
				mn = r.Intn(5)
				mx = mn + r.Intn(5)
			}
			if r.Float64() < o.PBad {
				mn, mx = pick(r, -1, 3, 0), pick(r, -2, 2, -1)
			}
			return &Node{Kind: "AV", Name: o.names.name(r, o), Min: mn, Max: mx}
		}
		return &Node{Kind: "A", Str: genASCII(r, o)}
	}
	k := arrayKinds[r.Intn(len(arrayKinds))]
	return genArray(r, o, k.k, k.w)
}

func genNode(r *rand.Rand, o *GenOpt, depth int) *Node {
	if o.names == nil {
		o.names = &nameGen{}
	}
	if depth >= o.MaxDepth || r.Intn(3) != 0 {
		return genLeaf(r, o)
	}
	n := &Node{Kind: "L"}
	cnt := genCount(r, o)
	if cnt > 300 {
		cnt = pick(r, 255, 256)
	}
	ellipsisDone := false
	for i := 0; i < cnt; i++ {
		if r.Float64() < o.PEllipsis && ((i > 0 && !ellipsisDone) || r.Float64() < o.PBad) {
			ellipsisDone = true
			// ellipsis names must be unique in a tree: "...", then "...[k]" numbered in order
			nm := fmt.Sprintf("...[%d]", o.names.ell)
			if o.names.ell == 0 && r.Intn(2) == 0 {
				nm = "..."
			}
			o.names.ell++
			if r.Float64() < o.PBad {
				nm = []string{"...", "...[0]", "...[1]"}[r.Intn(3)]
			}
			n.Slots = append(n.Slots, Slot{IsVar: true, Name: nm})
			continue
		}
		if r.Float64() < o.PVar/2 {
			n.Slots = append(n.Slots, Slot{IsVar: true, Name: o.names.name(r, o)})
			continue
		}
		if cnt > 100 {
			n.Slots = append(n.Slots, Slot{Child: &Node{Kind: "BO", Slots: []Slot{{B: true}}}})
			continue
		}
		n.Slots = append(n.Slots, Slot{Child: genNode(r, o, depth+1)})
	}
	return n
}

// genItem returns a fresh item description; every call has its own name space.
func genItem(r *rand.Rand, o GenOpt) *Node {
	o.names = &nameGen{}
	if r.Intn(4) == 0 {
		return genNode(r, &o, 0)
	}
	// force a list at the top most of the time: that is what messages carry
	n := genNode(r, &o, 0)
	for tries := 0; n.Kind != "L" && tries < 3; tries++ {
		n = genNode(r, &o, 0)
	}
	return n
}

// kindTag classifies a node for the input-distribution histogram.
func kindTag(n *Node) string {
	if n.Kind == "I" || n.Kind == "U" || n.Kind == "F" {
		return fmt.Sprintf("%s%d", n.Kind, n.W)
	}
	return n.Kind
}

func sizeTag(n int) string {
	switch {
	case n == 0:
		return "0"
	case n <= 8:
		return "1-8"
	case n <= 64:
		return "9-64"
	case n <= 255:
		return "65-255"
	case n <= 65535:
		return "256-65535"
	}
	return ">65535"
}

func itemTags(prefix string, n *Node) []string {
	t := []string{prefix + "kind:" + kindTag(n), prefix + "nodes:" + sizeTag(n.Count()), fmt.Sprintf("%sdepth:%d", prefix, n.Depth())}
	if n.Closed() {
		t = append(t, prefix+"closed")
	} else {
		t = append(t, prefix+"open")
	}
	return t
}

// message header fields
type MsgDesc struct {
	Name      string
	S, F, W   int
	Dir       string
	Item      *Node
	Sid       int
	Sys       []byte
	HSMS      bool // use NewHSMSDataMessage
}

var msgNames = []string{"", "AreYouThere", "OnLineData", "ERN", "名前", "a.b", "x/y", "[x]", "Wafer#1", "né", "S", "H->", "\xff\xfe", "<", ".",
	"Are\x00You", "esc\x1bname", "del\x7f", "c1\u009f", "\x01", "zw\u200bsp", "bom\ufeff",
	"Yield%", "100%Done", "50%%", "%d", "%s%v", "%!v(MISSING)", "a%[1]d", "\\n", "{0}",
	// letters whose UTF-8 encoding contains the bytes 0x85 or 0xA0 (white space as Latin-1 runes)
	"Voilà", "Ångström", "状態", "выход",
	// names that end in the character that ends a message
	"Rev1.", "etc.", "x.", "Abort..",
	// names that hold the characters that open and close an item
	"Temp<100", "a<->b", "x<y>", "Alarm<", ">", "p>q", "<L>"}

func genMsgDesc(r *rand.Rand, item *Node, pbad float64) *MsgDesc {
	m := &MsgDesc{Item: item}
	m.Name = msgNames[r.Intn(len(msgNames))]
	if r.Intn(3) == 0 {
		m.Name = ""
	}
	m.S = pick(r, 0, 1, 2, 5, 6, 7, 64, 99, 126, 127, r.Intn(128))
	m.F = pick(r, 0, 1, 2, 3, 11, 12, 254, 255, r.Intn(256))
	m.W = r.Intn(3)
	if m.W == 1 && m.F%2 == 0 {
		m.F |= 1
	}
	m.Dir = []string{"H->E", "H<-E", "H<->E"}[r.Intn(3)]
	m.Sid = pick(r, 0, 1, 255, 256, 65535, 0x1234, r.Intn(65536))
	m.Sys = []byte{byte(r.Intn(256)), byte(r.Intn(256)), byte(r.Intn(256)), byte(r.Intn(256))}
	if r.Intn(4) == 0 {
		m.Sys = [][]byte{{0, 0, 0, 0}, {255, 255, 255, 255}, {0, 0, 0, 1}, {128, 0, 0, 0}}[r.Intn(4)]
	}
	if r.Float64() < pbad {
		switch r.Intn(8) {
		case 0:
			m.S = pick(r, -1, 128, 255, 1000)
		case 1:
			m.F = pick(r, -1, 256, 1000)
		case 2:
			m.W = pick(r, -1, 3, 1)
			if m.W == 1 {
				m.F &^= 1
			}
		case 3:
			m.Dir = []string{"", "E->H", "h->e", "H<>E", "H->E "}[r.Intn(5)]
		case 4:
			m.Name = []string{"a b", "x\ty", "n m", "q ", "line\nbreak", "　"}[r.Intn(6)]
		case 5:
			m.Sid = pick(r, -2, 65536, -1, 1<<20)
		case 6:
			m.Sys = [][]byte{{}, {1}, {1, 2, 3}, {1, 2, 3, 4, 5}, {9, 8, 7, 6, 5, 4, 3, 2}}[r.Intn(5)]
		case 7:
			m.W = 2
		}
	}
	return m
}

// sessSteps: the SetSessionIDAndSystemBytes step of a program; one time in three the message is
// first stamped with the same session id and other system bytes (a re-used template): the last
// stamp is the one that counts.
func (m *MsgDesc) sessSteps(r *rand.Rand) string {
	s := fmt.Sprintf("sess %d %s", m.Sid, hx(m.Sys))
	if r.Intn(3) == 0 && len(m.Sys) > 0 {
		other := append([]byte{}, m.Sys...)
		other[r.Intn(len(other))] ^= byte(1 + r.Intn(255))
		return fmt.Sprintf("sess %d %s | %s", m.Sid, hx(other), s)
	}
	return s
}

func (m *MsgDesc) newStep() string {
	if m.HSMS {
		return fmt.Sprintf("newh %s %d %d %d %s %d %s %s", hxs(m.Name), m.S, m.F, m.W, hxs(m.Dir), m.Sid, hx(m.Sys), m.Item.Proto())
	}
	return fmt.Sprintf("new %s %d %d %d %s %s", hxs(m.Name), m.S, m.F, m.W, hxs(m.Dir), m.Item.Proto())
}
