package main

// Items whose length field uses all three length bytes (65,536 bytes and more, up to the
// 16,777,215-byte limit) and messages beyond 2^24 bytes: shared by C01, C03 and C13.

import (
	"bytes"
	"encoding/binary"
	"fmt"
	"math/rand"

	"github.com/wolimst/lib-secs2-hsms-go/pkg/ast"
	"github.com/wolimst/lib-secs2-hsms-go/pkg/parser/hsms"
)

// rawItem builds the bytes of an item with `n` payload bytes (elements for a list) of the given
// format code, always with three length bytes.
func rawItem(r *rand.Rand, code byte, n int) []byte {
	out := []byte{code<<2 | 3, byte(n >> 16), byte(n >> 8), byte(n)}
	switch code {
	case 0o00: // list: n elements, alternating empty lists and one-byte items
		for i := 0; i < n; i++ {
			if i%3 == 0 {
				out = append(out, 0xA5, 0x01, byte(i))
			} else {
				out = append(out, 0x01, 0x00)
			}
		}
	case 0o20: // ASCII: 7-bit characters
		for i := 0; i < n; i++ {
			out = append(out, byte(r.Intn(128)))
		}
	case 0o44: // F4: finite values only
		for i := 0; i < n/4; i++ {
			out = append(out, 0x3f, byte(r.Intn(256)), byte(r.Intn(256)), byte(r.Intn(256)))
		}
	case 0o40: // F8: finite values only
		for i := 0; i < n/8; i++ {
			out = append(out, 0x3f, byte(r.Intn(256)), byte(r.Intn(256)), byte(r.Intn(256)), byte(r.Intn(256)), byte(r.Intn(256)), byte(r.Intn(256)), byte(r.Intn(256)))
		}
	default:
		for i := 0; i < n; i++ {
			out = append(out, byte(r.Intn(256)))
		}
	}
	return out
}

var largeCodes = []struct {
	name string
	code byte
	w    int
}{{"L", 0o00, 1}, {"A", 0o20, 1}, {"B", 0o10, 1}, {"BOOLEAN", 0o11, 1}, {"U1", 0o51, 1}, {"I2", 0o32, 2}, {"U4", 0o54, 4}, {"F4", 0o44, 4}, {"F8", 0o40, 8}, {"I8", 0o30, 8}}

// largeVsModel: items of 65,536 payload bytes and more decoded by code and model, and the
// same payloads under every plausible misreading of the three length bytes (all to be refused).
func largeVsModel(c *Ctx) []Case {
	sizes := []int{65536, 65537, 0x010203, 70000}
	codes := largeCodes[:4]
	if c.Tier == "thorough" {
		sizes = append(sizes, 0x020100, 0x01ff00, 0x0fffff, 1<<20+5)
		codes = largeCodes
	} else {
		codes = append(append([]struct {
			name string
			code byte
			w    int
		}{}, codes...), largeCodes[4+c.R.Intn(len(largeCodes)-4)])
	}
	var out []Case
	hdr := func(text []byte) []byte { return frame(c.R.Intn(65536), 1+c.R.Intn(127), 1, 0, []byte{1, 2, 3, 4}, text) }
	for _, k := range codes {
		for _, n := range sizes {
			n -= n % k.w
			if k.code == 0 && (n > 200000 || (c.Tier != "thorough" && n != 65537)) {
				continue // the model decoder is quadratic in the element count
			}
			text := rawItem(c.R, k.code, n)
			top := text
			if c.R.Intn(3) == 0 { // nested in a list, followed by a small sibling
				top = append([]byte{0x01, 0x02}, text...)
				top = append(top, 0x21, 0x01, 0x07)
			}
			out = append(out, Case{Op: "dec " + hx(hdr(top)), Decisive: true, Nontrivial: true, Tags: []string{fmt.Sprintf("large:%s:%d", k.name, n)}}.fields(decKeys))
			// the same payload with the length bytes misread in the ways a rewrite of the
			// length loop can go wrong: the declared length no longer matches and the
			// message must be refused
			b0, b1, b2 := n>>16, (n>>8)&255, n&255
			for _, mis := range []int{b0<<8 | b1<<8 | b2, b0<<16 | b1<<8 | b1, b1<<8 | b2, b2<<16 | b1<<8 | b0, b0<<16 | b2<<8 | b1, n + 1, n - 1, n + 256, n ^ 0x010000} {
				if mis == n || mis < 0 || mis > 0xffffff || (k.code == 0 && mis > 1000) {
					continue
				}
				mis -= mis % k.w
				// (a) the payload has the misread length, the header declares n
				t := append([]byte{}, text[:4]...)
				t = append(t, rawItem(c.R, k.code, mis)[4:]...)
				if len(t) < 400000 {
					out = append(out, Case{Op: "dec " + hx(hdr(t)), Decisive: true, Nontrivial: true, Tags: []string{"large-misread-length"}}.fields(decKeys))
				}
			}
		}
	}
	return out
}

// lightRoundTrip: encode, decode, re-encode on the real code without printing (16 MB items).
func lightRoundTrip(it ast.ItemNode, want []byte) string {
	var res string
	pan, _ := safely(func() {
		msg := ast.NewHSMSDataMessage("", 1, 1, 0, "H<->E", it, 0x0102, []byte{9, 8, 7, 6})
		b := msg.ToBytes()
		ib := it.ToBytes()
		if len(it.Variables()) == 0 && len(ib) == 0 {
			res = "an item without variables encodes to no bytes"
			return
		}
		if want != nil && !bytes.Equal(ib, want) {
			res = fmt.Sprintf("item encodes to %d bytes starting % x, expected %d bytes starting % x", len(ib), ib[:imin(8, len(ib))], len(want), want[:8])
			return
		}
		if len(b) != 14+len(ib) {
			res = fmt.Sprintf("complete message with %d bytes of text encodes to %d bytes", len(ib), len(b))
			return
		}
		if binary.BigEndian.Uint32(b) != uint32(10+len(ib)) {
			res = fmt.Sprintf("message length field % x for %d bytes of text", b[:4], len(ib))
			return
		}
		m2, ok := hsms.Parse(b)
		if !ok {
			res = fmt.Sprintf("decoder refuses the encoding of a complete message (%d bytes of text, item header % x)", len(ib), ib[:4])
			return
		}
		d, isData := m2.(*ast.DataMessage)
		if !isData {
			res = "decoded message is not a data message"
			return
		}
		if len(d.Variables()) != 0 || d.StreamCode() != 1 || d.FunctionCode() != 1 || d.SessionID() != 0x0102 {
			res = "decoded message differs in header or has variables"
			return
		}
		if !bytes.Equal(d.ToBytes(), b) {
			res = fmt.Sprintf("re-encoding the decoded message (%d bytes of text) gives different bytes", len(ib))
		}
	})
	if pan {
		return "panic while encoding or decoding a near-limit item"
	}
	return res
}

// nearLimitRoundTrip: the laws of C01/C03/C13 on the real code for items at the 16,777,215-byte
// limit and messages beyond 2^24 bytes. The model driver is not fed 16 MB lines; the theorems
// (`roundtrip`, `accept_iff`, `length_read_back`) are unbounded in size.
func nearLimitRoundTrip(c *Ctx) []Case {
	const max = 16777215
	type mk struct {
		name string
		f    func() (ast.ItemNode, []byte)
	}
	ascii := func(n int) mk {
		return mk{fmt.Sprintf("A[%d]", n), func() (ast.ItemNode, []byte) {
			s := bytes.Repeat([]byte{'x'}, n)
			return ast.NewASCIINode(string(s)), append([]byte{0x43, byte(n >> 16), byte(n >> 8), byte(n)}, s...)
		}}
	}
	ints := func(kind string, w, cnt int) mk {
		return mk{fmt.Sprintf("%s%d[%d]", kind, w, cnt), func() (ast.ItemNode, []byte) {
			args := make([]interface{}, cnt)
			for i := range args {
				if kind == "I" {
					args[i] = int8(-1)
				} else {
					args[i] = uint8(255)
				}
			}
			n := cnt * w
			code := map[string]map[int]byte{"I": {1: 0o31, 2: 0o32, 4: 0o34, 8: 0o30}, "U": {1: 0o51, 2: 0o52, 4: 0o54, 8: 0o50}}[kind][w]
			want := []byte{code<<2 | 3, byte(n >> 16), byte(n >> 8), byte(n)}
			if kind == "I" {
				want = append(want, bytes.Repeat([]byte{0xff}, n)...)
			} else {
				want = append(want, bytes.Repeat(append(make([]byte, w-1), 0xff), cnt)...)
			}
			if kind == "I" {
				return ast.NewIntNode(w, args...), want
			}
			return ast.NewUintNode(w, args...), want
		}}
	}
	binary := func(n int) mk {
		return mk{fmt.Sprintf("B[%d]", n), func() (ast.ItemNode, []byte) {
			args := make([]interface{}, n)
			for i := range args {
				args[i] = 0xA5
			}
			return ast.NewBinaryNode(args...), append([]byte{0x23, byte(n >> 16), byte(n >> 8), byte(n)}, bytes.Repeat([]byte{0xA5}, n)...)
		}}
	}
	list2 := mk{"L[2]{A[9000000] A[9000000]}", func() (ast.ItemNode, []byte) {
		s := string(bytes.Repeat([]byte{'y'}, 9000000))
		return ast.NewListNode(ast.NewASCIINode(s), ast.NewASCIINode(s)), nil
	}}
	// a list is limited in elements, not in bytes: two items that together pass 16,777,215 bytes,
	// one level down
	list3 := mk{"L[2]{U1[1] L[2]{A[8388603] A[8388603]}}", func() (ast.ItemNode, []byte) {
		s := string(bytes.Repeat([]byte{'z'}, 8388603))
		return ast.NewListNode(ast.NewUintNode(1, 7), ast.NewListNode(ast.NewASCIINode(s), ast.NewASCIINode(s))), nil
	}}
	cases := []mk{ascii(max), ascii(max - 3), ascii(max - 4), ints("I", 2, max/2), ints("U", 1, max), binary(max - 2), list2, list3}
	if c.Tier == "thorough" {
		cases = append(cases, ascii(max-1), ascii(max-2), ascii(max-10), ascii(max-14), ints("U", 1, max-1), ints("U", 4, max/4), ints("I", 8, max/8), ints("U", 2, max/2-1), binary(max))
	}
	var out []Case
	for _, k := range cases {
		var it ast.ItemNode
		var want []byte
		res := ""
		if pan, _ := safely(func() { it, want = k.f() }); pan {
			res = "an item within the 16,777,215-byte limit cannot be constructed: " + k.name
		} else {
			res = lightRoundTrip(it, want)
			if res != "" {
				res = k.name + ": " + res
			}
		}
		out = append(out, Case{Detail: "near-limit round trip " + k.name, Oracle: res, Nontrivial: true, Tags: []string{"near-limit:" + k.name}})
	}
	return out
}

func largeSuites() []Suite {
	return []Suite{
		{Name: "large/three-length-bytes-vs-model", Gen: largeVsModel},
		{Name: "large/near-limit-round-trip", Gen: nearLimitRoundTrip},
	}
}

// headerOnlyGrid: every SType with both PTypes, header bytes 2 and 3 over their boundary values,
// with and without message text — data messages with an empty text, control messages, undefined
// types (C03, C07, C14).
func headerOnlyGrid(r *rand.Rand) [][]byte {
	var out [][]byte
	b2s := []int{0, 1, 0x7f, 0x80, 0x81, 0xff}
	b3s := []int{0, 1, 2, 3, 0xfe, 0xff}
	for _, st := range []int{0, 1, 2, 3, 4, 5, 6, 7, 8, 9, 10, 255} {
		for _, pt := range []int{0, 1} {
			for _, b2 := range b2s {
				for _, b3 := range b3s {
					h := []byte{byte(r.Intn(256)), byte(r.Intn(256)), byte(b2), byte(b3), byte(pt), byte(st), 1, 2, 3, 4}
					out = append(out, append([]byte{0, 0, 0, 10}, h...))
					if (b2+b3+st)%3 == 0 {
						out = append(out, append(append([]byte{0, 0, 0, 12}, h...), 0x01, 0x00))
					}
				}
			}
		}
	}
	return out
}

// formatByteSweep: all 256 values of the first byte of an item, each with a few payloads.
func formatByteSweep(r *rand.Rand) [][]byte {
	var out [][]byte
	for fb := 0; fb < 256; fb++ {
		nlb := fb & 3
		for _, n := range []int{0, 1, 8} {
			text := []byte{byte(fb)}
			for i := nlb - 1; i >= 0; i-- {
				text = append(text, byte(n>>(8*i)))
			}
			if fb>>2 == 0 { // list: n elements
				for i := 0; i < n; i++ {
					text = append(text, 0x01, 0x00)
				}
			} else {
				for i := 0; i < n; i++ {
					text = append(text, byte(r.Intn(2)))
				}
			}
			out = append(out, frame(1, 1, 1, 0, []byte{0, 0, 0, 1}, text))
		}
	}
	return out
}

// asciiEveryByte: an ASCII item holding each of the 256 byte values, alone and among 7-bit
// characters, at top level and nested; plus valid multi-byte UTF-8 sequences.
func asciiEveryByte() [][]byte {
	var out [][]byte
	for v := 0; v < 256; v++ {
		for _, s := range [][]byte{{byte(v)}, {'a', 'b', byte(v), 'd', 'e'}, {byte(v), byte(v)}} {
			text := append([]byte{0x41, byte(len(s))}, s...)
			if v%2 == 1 {
				text = append([]byte{0x01, 0x02, 0xA5, 0x01, 0x07}, text...)
			}
			out = append(out, frame(1, 1, 1, 0, []byte{0, 0, 0, 1}, text))
		}
	}
	for _, s := range []string{"\u0080", "é", "߿", "日本", "\U0001F600", "\xc2", "\xc2\x80\x80", "a\xc2\x80"} {
		out = append(out, frame(1, 1, 1, 0, []byte{0, 0, 0, 1}, append([]byte{0x41, byte(len(s))}, s...)))
	}
	return out
}

func decCases(inputs [][]byte, tag string) []Case {
	var out []Case
	for _, b := range inputs {
		out = append(out, Case{Op: "dec " + hx(b), Decisive: true, Nontrivial: true, Tags: []string{tag}}.fields(decKeys))
	}
	return out
}

func gridSuites() []Suite {
	return []Suite{
		{Name: "decode/header-only-grid", Gen: func(c *Ctx) []Case { return decCases(headerOnlyGrid(c.R), "header-grid") }},
		{Name: "decode/format-byte-sweep", Gen: func(c *Ctx) []Case { return decCases(formatByteSweep(c.R), "format-byte") }},
		{Name: "decode/ascii-every-byte", Gen: func(c *Ctx) []Case { return decCases(asciiEveryByte(), "ascii-byte") }},
	}
}

func imin(a, b int) int {
	if a < b {
		return a
	}
	return b
}
