package main

import (
	"fmt"
	"regexp"
	"sort"
	"strings"
	"unicode"

	"github.com/wolimst/lib-secs2-hsms-go/pkg/ast"
	"github.com/wolimst/lib-secs2-hsms-go/pkg/parser/sml"
)

var diagRe = regexp.MustCompile(`(?s)^Ln (-?\d+), Col (-?\d+): (.*)$`)

// known diagnostic kinds: the fixed part of each message template of parser.go / lexer.go
var diagKinds = []string{
	"expected stream function, found",
	"wait bit cannot be true on reply message (function code is even)",
	"missing message direction",
	"expected message end character '.', found",
	"stream code range overflow, should be in range of [0, 128)",
	"function code range overflow, should be in range of [0, 256)",
	"expected '<' or '.', found",
	"expected '<', found",
	"Recovered from panic",
	"invalid data item type",
	"syntax error: unexpected character in data item",
	"syntax error: invalid number syntax",
	"syntax error: invalid data item size",
	"syntax error: unclosed quoted string",
	"expected '>', found",
	"data item size overflow, got size of",
	"duplicated variable name",
	"ellipsis cannot be the first item in list",
	"wrong ellipsis count",
	"expected child data item, variable, ellipsis, or '>', found",
	"expected ASCII characters, found",
	"expected ASCII number code, found",
	"overflows ASCII range, found",
	"variable cannot co-exist with other literals in ASCII data item",
	"expected quoted string, ASCII number code or variable, found",
	"binary value overflow, should be in range of [0, 256)",
	"expected number or variable, found",
	"expected boolean value or variable, found",
	"expected float or variable, found",
	"expected float, found",
	"expected integer or variable, found",
	"expected integer, found",
	"expected unsigned integer or variable, found",
	"expected unsigned integer, found",
}

var rangeRe = regexp.MustCompile(`^[FIU]\d range overflow$`)

// normDiag maps "Ln x, Col y: text" to "x:y:kind".
func normDiag(d string) string {
	m := diagRe.FindStringSubmatch(d)
	if m == nil {
		return "MALFORMED:" + strings.ReplaceAll(d, " ", "_")
	}
	text := m[3]
	kind := ""
	for _, k := range diagKinds {
		if strings.HasPrefix(text, k) {
			if len(k) > len(kind) {
				kind = k
			}
		}
	}
	if kind == "duplicated variable name" && !strings.HasPrefix(text, `duplicated variable name "`) {
		kind = "" // the text of a recovered factory panic, not the parser's own diagnostic
	}
	switch {
	case kind == "data item size overflow, got size of":
		kind = text // includes the number
	case kind == "" && rangeRe.MatchString(text):
		kind = text
	case kind == "":
		kind = "panic" // the text of a recovered factory panic
	}
	return m[1] + ":" + m[2] + ":" + strings.ReplaceAll(kind, " ", "_")
}

// alnumRunes lists the distinct non-ASCII runes of s that are letters or digits.
func alnumRunes(s string) string {
	set := map[rune]bool{}
	for _, r := range s {
		if r >= 128 && (unicode.IsLetter(r) || unicode.IsDigit(r)) {
			set[r] = true
		}
	}
	if len(set) == 0 {
		return "-"
	}
	var xs []int
	for r := range set {
		xs = append(xs, int(r))
	}
	sort.Ints(xs)
	parts := make([]string, len(xs))
	for i, x := range xs {
		parts[i] = fmt.Sprint(x)
	}
	return strings.Join(parts, ",")
}

func smlOp(text string) string { return "sml " + hxs(text) + " " + alnumRunes(text) }

type parseResult struct {
	msgs     []*ast.DataMessage
	errs     []string
	warns    []string
	panicked bool
}

func parseSML(text string) (res parseResult) {
	res.panicked, _ = safely(func() {
		res.msgs, res.errs, res.warns = sml.Parse(text)
	})
	return
}

func showParse(r parseResult) string {
	if r.panicked {
		return "PANIC"
	}
	var sb strings.Builder
	fmt.Fprintf(&sb, "n=%d", len(r.msgs))
	for _, m := range r.msgs {
		sb.WriteString(" M " + showMsg(m))
	}
	for _, e := range r.errs {
		sb.WriteString(" err=" + normDiag(e))
	}
	for _, w := range r.warns {
		sb.WriteString(" warn=" + normDiag(w))
	}
	return sb.String()
}

func implSML(text string) string { return showParse(parseSML(text)) }
