namespace Spike
def beEnc : Nat → Nat → List Nat
  | 0, _ => []
  | k+1, n => beEnc k (n / 256) ++ [n % 256]
def beDec (bs : List Nat) : Nat := bs.foldl (fun a b => a * 256 + b) 0
theorem beEnc_length (k n : Nat) : (beEnc k n).length = k := by
  induction k generalizing n with
  | zero => rfl
  | succ k ih => simp [beEnc, ih]
theorem beDec_append (xs : List Nat) (b : Nat) : beDec (xs ++ [b]) = beDec xs * 256 + b := by
  simp [beDec, List.foldl_append]
theorem beDec_beEnc (k n : Nat) (h : n < 256^k) : beDec (beEnc k n) = n := by
  induction k generalizing n with
  | zero => simp [beEnc, beDec] at *; omega
  | succ k ih =>
    rw [beEnc, beDec_append, ih]
    · omega
    · rw [Nat.pow_succ] at h; omega
def nLB (n : Nat) : Nat := if n ≤ 255 then 1 else if n ≤ 65535 then 2 else 3
theorem nLB_ok (n : Nat) (h : n ≤ 16777215) : n < 256 ^ nLB n := by
  unfold nLB; split
  · omega
  · split <;> omega
theorem nLB_pos (n : Nat) : 1 ≤ nLB n ∧ nLB n ≤ 3 := by unfold nLB; split; omega; split <;> omega

mutual
inductive Item where
  | list : Items → Item
  | bin : List Nat → Item
inductive Items where
  | nil : Items
  | cons : Item → Items → Items
end

def Items.len : Items → Nat
  | .nil => 0
  | .cons _ xs => xs.len + 1

def hdr (code n : Nat) : List Nat := (code*4 + nLB n) :: beEnc (nLB n) n

mutual
def enc : Item → List Nat
  | .list xs => hdr 0 xs.len ++ encs xs
  | .bin bs => hdr 8 bs.length ++ bs
def encs : Items → List Nat
  | .nil => []
  | .cons x xs => enc x ++ encs xs
end

mutual
def WF : Item → Prop
  | .list xs => xs.len ≤ 16777215 ∧ WFs xs
  | .bin bs => bs.length ≤ 16777215
def WFs : Items → Prop
  | .nil => True
  | .cons x xs => WF x ∧ WFs xs
end

-- decoder with fuel
mutual
def dec : Nat → List Nat → Option (Item × List Nat)
  | 0, _ => none
  | fuel+1, inp =>
    match inp with
    | [] => none
    | fb :: rest =>
      let k := fb % 4
      let code := fb / 4
      if k = 0 then none else
      if rest.length < k then none else
      let n := beDec (rest.take k)
      let rest := rest.drop k
      if code = 0 then
        match decs fuel n rest with
        | some (xs, r) => some (.list xs, r)
        | none => none
      else if code = 8 then
        if rest.length < n then none else some (.bin (rest.take n), rest.drop n)
      else none
def decs : Nat → Nat → List Nat → Option (Items × List Nat)
  | _, 0, inp => some (.nil, inp)
  | 0, _+1, _ => none
  | fuel+1, n+1, inp =>
    match dec fuel inp with
    | none => none
    | some (x, r) =>
      match decs fuel n r with
      | none => none
      | some (xs, r') => some (.cons x xs, r')
end

mutual
def sz : Item → Nat
  | .list xs => 1 + szs xs
  | .bin _ => 1
def szs : Items → Nat
  | .nil => 0
  | .cons x xs => sz x + szs xs + 1
end

theorem hdr_dec (code n : Nat) (hn : n ≤ 16777215) (hc : code < 64) (tail : List Nat) :
    ∃ k, hdr code n ++ tail = (code*4+k) :: (beEnc k n ++ tail) ∧ 1 ≤ k ∧ k ≤ 3 ∧ n < 256^k := by
  refine ⟨nLB n, ?_, (nLB_pos n).1, (nLB_pos n).2, nLB_ok n hn⟩
  simp [hdr]

mutual
theorem dec_enc (x : Item) (h : WF x) (rest : List Nat) (fuel : Nat) (hf : sz x ≤ fuel) :
    dec fuel (enc x ++ rest) = some (x, rest) := by
  cases x with
  | list xs =>
    obtain ⟨hl, hw⟩ := (by simpa [WF] using h : xs.len ≤ 16777215 ∧ WFs xs)
    obtain ⟨k, hk, k1, k3, kn⟩ := hdr_dec 0 xs.len hl (by omega) (encs xs ++ rest)
    cases fuel with
    | zero => simp [sz] at hf
    | succ fuel =>
      simp only [enc, List.append_assoc, hk]
      have h4 : (0*4 + k) % 4 = k := by omega
      have h5 : (0*4 + k) / 4 = 0 := by omega
      simp only [dec, h4, h5]
      have hk0 : ¬ k = 0 := by omega
      simp only [hk0, if_false, List.length_append, beEnc_length]
      have : ¬ (k + (encs xs ++ rest).length < k) := by omega
      simp only [this, if_false, List.take_left' (beEnc_length k xs.len), List.drop_left' (beEnc_length k xs.len), beDec_beEnc k _ kn]
      have := decs_encs xs hw rest fuel (by simp [sz] at hf; omega)
      simp [this]
  | bin bs =>
    have hl : bs.length ≤ 16777215 := by simpa [WF] using h
    obtain ⟨k, hk, k1, k3, kn⟩ := hdr_dec 8 bs.length hl (by omega) (bs ++ rest)
    cases fuel with
    | zero => simp [sz] at hf
    | succ fuel =>
      simp only [enc, List.append_assoc, hk]
      have h4 : (8*4 + k) % 4 = k := by omega
      have h5 : (8*4 + k) / 4 = 8 := by omega
      simp only [dec, h4, h5]
      have hk0 : ¬ k = 0 := by omega
      simp only [hk0, if_false, List.length_append, beEnc_length]
      have : ¬ (k + (bs.length + rest.length) < k) := by omega
      simp only [this, if_false, List.take_left' (beEnc_length k bs.length), List.drop_left' (beEnc_length k bs.length), beDec_beEnc k _ kn]
      simp
theorem decs_encs (xs : Items) (h : WFs xs) (rest : List Nat) (fuel : Nat) (hf : szs xs ≤ fuel) :
    decs fuel xs.len (encs xs ++ rest) = some (xs, rest) := by
  cases xs with
  | nil => simp [Items.len, encs, decs]
  | cons x xs =>
    obtain ⟨hx, hxs⟩ := (by simpa [WFs] using h : WF x ∧ WFs xs)
    cases fuel with
    | zero => simp [szs] at hf
    | succ fuel =>
      simp only [Items.len, encs, List.append_assoc, decs]
      rw [dec_enc x hx _ fuel (by simp [szs] at hf; omega)]
      simp only []
      rw [decs_encs xs hxs rest fuel (by simp [szs] at hf; omega)]
end
#print axioms dec_enc
end Spike
