-- spike: mini lexer with WF recursion; whitespace-skip and comment-content lemmas
namespace LSpike
abbrev Bytes := List UInt8

inductive Mode | header | text deriving DecidableEq, Repr
inductive Kind | comment | lab | rab | endm | name | var | err deriving DecidableEq, Repr
structure Tok where
  kind : Kind
  val : Bytes
  deriving DecidableEq, Repr

def isWs (b : UInt8) : Bool := b = 32 || b = 9 || b = 13 || b = 10
def isNameEnd (b : UInt8) : Bool := isWs b
def notNl (b : UInt8) : Bool := b != 10
def notNameEnd (b : UInt8) : Bool := !isNameEnd b
def isIdent (b : UInt8) : Bool := (65 ≤ b && b ≤ 90) || (97 ≤ b && b ≤ 122) || b = 95

/-- one call of a state function: skip blanks, then produce one token. -/
inductive Step where
  | eof
  | tok (t : Tok) (m : Mode) (rest : Bytes)

def spanP (p : UInt8 → Bool) : Bytes → Bytes × Bytes
  | [] => ([], [])
  | b :: bs => if p b then let (a, r) := spanP p bs; (b :: a, r) else ([], b :: bs)

theorem spanP_length (p) (bs : Bytes) : (spanP p bs).2.length ≤ bs.length := by
  induction bs with
  | nil => simp [spanP]
  | cons b bs ih => simp only [spanP]; split <;> simp <;> omega

def step (m : Mode) : Bytes → Step
  | [] => .eof
  | b :: bs =>
    if isWs b then step m bs
    else if b = 47 ∧ bs.head? = some 47 then        -- "//"
      let (c, r) := spanP notNl bs
      .tok ⟨.comment, b :: c⟩ m r
    else if b = 60 then .tok ⟨.lab, [b]⟩ .text bs
    else if b = 46 then .tok ⟨.endm, [b]⟩ .header bs
    else match m with
      | .header =>
        let (c, r) := spanP notNameEnd bs
        .tok ⟨.name, b :: c⟩ .header r
      | .text =>
        if b = 62 then .tok ⟨.rab, [b]⟩ .text bs
        else if isIdent b then
          let (c, r) := spanP isIdent bs
          .tok ⟨.var, b :: c⟩ .text r
        else .tok ⟨.err, [b]⟩ .text []

theorem step_decreases (m : Mode) (inp : Bytes) (t m' r) (h : step m inp = .tok t m' r) :
    r.length < inp.length := by
  induction inp with
  | nil => simp [step] at h
  | cons b bs ih =>
    simp only [step] at h
    split at h
    · have := ih h; simp; omega
    · split at h
      · injection h with _ _ hr; subst hr
        have := spanP_length notNl bs; simp; omega
      · split at h
        · injection h with _ _ hr; subst hr; simp
        · split at h
          · injection h with _ _ hr; subst hr; simp
          · cases m with
            | header =>
              simp only at h; injection h with _ _ hr; subst hr
              have := spanP_length notNameEnd bs; simp; omega
            | text =>
              simp only at h
              split at h
              · injection h with _ _ hr; subst hr; simp
              · split at h
                · injection h with _ _ hr; subst hr
                  have := spanP_length isIdent bs; simp; omega
                · injection h with _ _ hr; subst hr; simp

def lexAll (m : Mode) (inp : Bytes) : List Tok :=
  match h : step m inp with
  | .eof => []
  | .tok t m' r =>
    have : r.length < inp.length := step_decreases m inp t m' r h
    t :: lexAll m' r
termination_by inp.length

theorem step_ws (m : Mode) (ws r : Bytes) (h : ∀ b ∈ ws, isWs b = true) :
    step m (ws ++ r) = step m r := by
  induction ws with
  | nil => rfl
  | cons b bs ih =>
    have hb : isWs b = true := h b (by simp)
    simp only [List.cons_append, step, hb, if_true]
    exact ih (fun x hx => h x (by simp [hx]))

theorem lexAll_eq (m : Mode) (inp : Bytes) :
    lexAll m inp = (match step m inp with | .eof => [] | .tok t m' r => t :: lexAll m' r) := by
  rw [lexAll]
  split <;> rename_i h <;> simp [h]

theorem lexAll_ws (m : Mode) (ws r : Bytes) (h : ∀ b ∈ ws, isWs b = true) :
    lexAll m (ws ++ r) = lexAll m r := by
  rw [lexAll_eq, lexAll_eq m r, step_ws m ws r h]

-- comment content is irrelevant: any bytes without newline
theorem spanP_notNl (c r : Bytes) (hc : ∀ b ∈ c, b ≠ 10) :
    spanP notNl (c ++ 10 :: r) = (c, 10 :: r) := by
  induction c with
  | nil => simp [spanP, notNl]
  | cons b bs ih =>
    have hb : b ≠ 10 := hc b (by simp)
    simp [spanP, notNl, hb, ih (fun x hx => hc x (by simp [hx]))]

theorem lexAll_comment (m : Mode) (c r : Bytes) (hc : ∀ b ∈ c, b ≠ 10) :
    (lexAll m (47 :: 47 :: c ++ 10 :: r)).tail = lexAll m r := by
  rw [lexAll_eq]
  have h1 : isWs 47 = false := by decide
  have : spanP notNl (47 :: (c ++ 10 :: r)) = (47 :: c, 10 :: r) := by
    have := spanP_notNl (47 :: c) r (by intro b hb; simp at hb; rcases hb with rfl | hb; decide; exact hc b hb)
    simpa using this
  simp only [List.cons_append, step, h1, List.head?_cons, this]
  simp
  rw [lexAll_eq, lexAll_eq m r]
  have h2 : isWs 10 = true := by decide
  simp [step, h2]

#eval lexAll .header "S1F1 W // hi\n<L x>.".toUTF8.toList |>.map (fun t => (repr t.kind, String.fromUTF8! ⟨t.val.toArray⟩))
end LSpike
