/-
C01 — HSMS encode→decode round trip preserves every data message.

For every complete data message (any header fields, any well-formed variable-free item tree of
any shape and size) decoding the bytes it encodes to succeeds and returns the same stream,
function, wait bit, session id, system bytes and item tree; encoding the result gives the same
bytes. Unbounded: by structural induction over the (mutual) item tree.
-/
import SecsModel.Proofs.MsgCodec
import SecsModel.Generated.Facts
namespace Secs.C01
open Secs

/-- a complete data message as the API can produce it (checkRep holds, wait bit decided,
session id set, item well-formed and variable-free or absent). `small` is the only size
hypothesis: the 4-byte message length field must be able to hold the length (< 4 GiB). -/
structure Complete (m : Msg) : Prop where
  valid : m.valid = true
  complete : m.complete = true
  wf : m.item.wf = true
  closed : m.item.closed = true ∨ m.item = .empty
  small : m.item.enc.length + 10 < 2 ^ 32

/-- what the decoder returns: same fields, no name, direction "H<->E" -/
def decoded (m : Msg) : Msg := { m with name := [], direction := dirBoth }

/-- item trees: decode ∘ encode = id, for every well-formed closed tree, any trailing bytes,
any sufficient fuel -/
theorem item_roundtrip (t : Tmpl) (hw : t.wf = true) (hc : t.closed = true) (rest : Bytes) (fuel : Nat)
    (hf : t.sz ≤ fuel) : decItem fuel (t.enc ++ rest) = some (t, rest) :=
  decItem_enc t hw hc rest fuel hf

/-- the fuel the decoder uses (text length + 1) always suffices for an encoded item -/
theorem fuel_suffices (t : Tmpl) (hw : t.wf = true) (hc : t.closed = true) : t.sz ≤ t.enc.length + 1 := by
  have := sz_lt_enc t hw hc; omega

theorem mkHsms_ok (s f w sid : Int) (item : Tmpl) (a b c d : Nat)
    (hs : 0 ≤ s ∧ s < 128) (hf : 0 ≤ f ∧ f < 256) (hw : w = 0 ∨ w = 1)
    (hwf : ¬ (w = 1 ∧ f % 2 = 0)) (hsid : 0 ≤ sid ∧ sid < 65536) (hv : item.vars.isEmpty = true) :
    mkHsmsMsg [] s f w dirBoth item sid [a, b, c, d] = some ⟨[], s, f, w, dirBoth, item, sid, [a, b, c, d]⟩ := by
  have h1 : (w != 0 && w != 1) = false := by rcases hw with rfl | rfl <;> decide
  have h2 : (sid == -1) = false := by
    simp only [beq_eq_false_iff_ne, ne_eq]; omega
  have hvalid : Msg.valid ⟨[], s, f, w, dirBoth, item, sid, [a, b, c, d]⟩ = true := by
    simp only [Msg.valid, Bool.and_eq_true, decide_eq_true_eq, Bool.not_eq_true', Bool.and_eq_false_imp,
      beq_iff_eq]
    refine ⟨⟨⟨⟨⟨⟨⟨by decide, hs⟩, hf⟩, ?_⟩, ?_⟩, ?_⟩, by simp⟩, by decide⟩
    · intro h1; simp only [beq_eq_false_iff_ne, ne_eq]; intro h2; exact hwf ⟨h1, h2⟩
    · rcases hw with rfl | rfl <;> omega
    · omega
  simp [mkHsmsMsg, h1, h2, hv, pad4, checked, hvalid]

theorem roundtrip (m : Msg) (h : Complete m) : decode m.enc = some (.data (decoded m)) := by
  obtain ⟨hv, hcomp, hw, hcl, hsmall⟩ := h
  have hvv := hv
  simp only [Msg.valid, Bool.and_eq_true, decide_eq_true_eq, Bool.not_eq_true', beq_iff_eq] at hv
  obtain ⟨⟨⟨⟨⟨⟨⟨_, hs⟩, hf⟩, hwf⟩, hwb⟩, hsid⟩, hsys⟩, hdir⟩ := hv
  obtain ⟨a, b, c, d, hsb⟩ := length4 m.sysBytes hsys
  have hcc := hcomp
  simp only [Msg.complete, Bool.and_eq_true, bne_iff_ne, ne_eq] at hcomp
  obtain ⟨⟨hw2, hvars⟩, hsid1⟩ := hcomp
  have hL : m.item.enc.length + 10 < 256 ^ 4 := by
    have : (256 : Nat) ^ 4 = 2 ^ 32 := by decide
    omega
  rw [enc_frame m hcc a b c d hsb, decode_frame _ _ _ _ _ _ _ _ _ hL]
  have hwcases : m.waitBit = 0 ∨ m.waitBit = 1 := by omega
  have hb2 : (m.stream.toNat + (if m.waitBit == 1 then 128 else 0)) % 256
      = m.stream.toNat + (if m.waitBit == 1 then 128 else 0) := by
    split <;> omega
  have hstream : (((m.stream.toNat + (if m.waitBit == 1 then 128 else 0)) % 256 % 128 : Nat) : Int) = m.stream := by
    rw [hb2]; split <;> omega
  have hwait : (((m.stream.toNat + (if m.waitBit == 1 then 128 else 0)) % 256 / 128 : Nat) : Int) = m.waitBit := by
    rw [hb2]
    rcases hwcases with h0 | h1
    · simp [h0]; omega
    · simp [h1]; omega
  have hfn : ((m.function.toNat % 256 : Nat) : Int) = m.function := by omega
  have hsidv : ((beDec [m.sessionID.toNat / 256 % 256, m.sessionID.toNat % 256] : Nat) : Int) = m.sessionID := by
    simp [beDec]; omega
  rw [hstream, hwait, hfn, hsidv]
  have hwf' : ¬ (m.waitBit = 1 ∧ m.function % 2 = 0) := by
    rintro ⟨h1, h2⟩
    simp [h1, h2] at hwf
  have hmk := fun item hv => mkHsms_ok m.stream m.function m.waitBit m.sessionID item a b c d hs hf hwcases hwf'
    (by omega) hv
  rcases hcl with hcl | hemp
  · have h2 := enc_length_ge m.item hw hcl
    have hne : (m.item.enc.length + 10 == 10) = false := by
      simp only [beq_eq_false_iff_ne, ne_eq]; omega
    simp only [hne, Bool.false_eq_true, if_false, (decodeText_some _ _).mpr (decItem_text m.item hw hcl)]
    rw [hmk m.item hvars]
    simp only [Option.map, decoded, ← hsb]
  · have he : m.item.enc = [] := by rw [hemp]; rfl
    simp only [he, List.length_nil, Nat.zero_add, beq_self_eq_true, if_true]
    rw [hmk Tmpl.empty (by rfl)]
    simp only [Option.map, decoded, ← hsb, ← hemp]

/-- encoding the decoded message gives the same bytes again -/
theorem reencode (m : Msg) : (decoded m).enc = m.enc := by
  simp [decoded, Msg.enc, Msg.complete]

/-- the two together, as the property states it -/
theorem roundtrip_reencode (m : Msg) (h : Complete m) :
    ∃ m', decode m.enc = some (.data m') ∧ m'.stream = m.stream ∧ m'.function = m.function ∧
      m'.waitBit = m.waitBit ∧ m'.sessionID = m.sessionID ∧ m'.sysBytes = m.sysBytes ∧ m'.item = m.item ∧
      m'.enc = m.enc :=
  ⟨decoded m, roundtrip m h, rfl, rfl, rfl, rfl, rfl, rfl, reencode m⟩

/-! ### the tie to the source: tables and limit as extracted from the tree under test -/

theorem facts_tables :
    Generated.maxByteSize = (maxByteSize : Int) ∧ Generated.tableKeysOk = true ∧
    Generated.bytePerValue = Fmt.all.map (fun f => (f.width : Int)) ∧
    Generated.formatCode = Fmt.all.map (fun f => (f.code : Int)) := by decide

theorem facts_decoder_dispatch :
    Generated.decoderDispatch =
      [(0, "NewListNode", 0), (16, "NewASCIINode", 0), (24, "parseInt", 8), (25, "parseInt", 1),
       (26, "parseInt", 2), (28, "parseInt", 4), (32, "parseFloat", 8), (36, "parseFloat", 4),
       (40, "parseUint", 8), (41, "parseUint", 1), (42, "parseUint", 2), (44, "parseUint", 4),
       (8, "NewBinaryNode", 0), (9, "NewBooleanNode", 0)] := by decide

/-! ### non-vacuity: a three-level tree with every format and a 300-character string (2 length bytes) -/

def sampleItem : Tmpl :=
  .list (.item (.ascii (List.replicate 300 65))
    (.item (.list (.item (.binary [.val 0, .val 255]) (.item (.boolean [.val true, .val false])
      (.item (.list (.item (.int 1 [.val (-128)]) (.item (.int 2 [.val 32767]) (.item (.int 4 [.val (-1)])
        (.item (.int 8 [.val (-9223372036854775808)]) .nil))))) .nil))))
    (.item (.uint 1 [.val 255]) (.item (.uint 2 [.val 65535]) (.item (.uint 4 [.val 4294967295])
    (.item (.uint 8 [.val 18446744073709551615]) (.item (.float 4 [.val 0x3DCCCCCD]) (.item (.float 8 [.val 1])
    .nil))))))))

def sampleMsg : Msg := ⟨[], 1, 3, 1, dirBoth, sampleItem, 65535, [1, 2, 3, 4]⟩

set_option maxRecDepth 20000 in
example : sampleItem.wf = true ∧ sampleItem.closed = true := by decide +kernel
set_option maxRecDepth 20000 in
example : sampleMsg.valid = true ∧ sampleMsg.complete = true := by decide +kernel

end Secs.C01
