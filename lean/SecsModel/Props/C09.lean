/-
C09 — filling variables is pure substitution and composes.

Node level (`fillLeaf`, every array kind): a fill whose keys name no variable of the node
returns the node itself; otherwise the result IS the factory applied to the node's slots with
the bound variables replaced by the given values and everything else kept in place
(`fill_is_factory_on_substituted_slots`), so a fill-in value is refused exactly when the
constructor refuses it; rebuilding a well-formed node from its own slots gives the node back
(`rebuild_int`), which makes the substitution reading exact: unmentioned variables stay where
they were, in order.

Tree level (`ItemNode.FillVariables`, any nesting depth, proofs in Proofs/FillLaws.lean):
* `unknown_keys_ignored`: a table that names no variable of a well-formed ellipsis-free
  template gives the template back;
* `unmentioned_remain_in_order`: the variables of the filled item are the template's variables
  without the bound ones, in their original order;
* `compose`: if the first fill is accepted, filling its result with `e2` is filling the
  template once with the union `e1 ++ e2` — the same item or the same refusal — for
  ellipsis-free templates and closed fill-in values, exactly the property's quantifier;
* `compose_full`: the same as an equation of outcomes, refusals included:
  `fill t (e1 ++ e2) = (fill t e1).bind (fill · e2)` — a first step that is refused is refused
  in one step too (the offending value is still in the union);
* `compose_message`: the same for `DataMessage.FillVariables` (header fields are kept).

`compose` excludes float nodes (`noFloatT`): the float factory re-reads a stored 4-byte value
through float64, and the round trip f32 → f64 → f32 of the bit-level FloatLib model is not
proved; float templates are covered by the correspondence run and the "several steps = one
step" oracle on the real code.
-/
import SecsModel.Proofs.FillLaws
namespace Secs.C09
open Secs

/-! ### node level -/

theorem fill_unknown_keys (t : Tmpl) (env : Env) (hl : t.isList = false)
    (h : ∀ n ∈ t.vars, env.get? n = none) : fillLeaf t env = some t :=
  FillLeaf.fill_unknown_keys t env hl h

theorem fill_is_factory_on_substituted_slots (w : Nat) (env : Env) :
    (∀ xs, anyBound env xs = true → fillLeaf (.int w xs) env = mkInt w (xs.map (FillLeaf.substSlot (.sint 64) env))) ∧
    (∀ xs, anyBound env xs = true → fillLeaf (.uint w xs) env = mkUint w (xs.map (FillLeaf.substSlot (.uint 64) env))) ∧
    (∀ xs, anyBound env xs = true → fillLeaf (.boolean xs) env = mkBoolean (xs.map (FillLeaf.substSlot .bool env))) ∧
    (∀ xs, anyBound env xs = true → fillLeaf (.binary xs) env = mkBinary (xs.map (FillLeaf.substSlot (fun (v : Nat) => .sint 0 v) env))) :=
  FillLeaf.fill_is_factory_on_substituted_slots w env

theorem fill_ascii_var (n : Name) (mn mx : Int) (env : Env) (s : Bytes) (h : env.get? n = some (.str s)) :
    fillLeaf (.asciiVar n mn mx) env =
      if (s.length : Int) < mn ∨ (mx ≠ -1 ∧ mx < s.length) then none else mkAscii s :=
  FillLeaf.fill_ascii_var n mn mx env s h

theorem rebuild_int (w : Nat) (xs : List (Slot Int)) (hw : (Tmpl.int w xs).wf = true) :
    mkInt w (xs.map (FillLeaf.substSlot (.sint 64) [])) = some (.int w xs) :=
  FillLeaf.rebuild_int w xs hw

/-- on a well-formed node FillVariables is the factory on the substituted slots whether or not
a variable is bound: so "filled = constructed directly with the values in place" -/
theorem fill_is_construction (w : Nat) (e : Env) :
    (∀ xs, (Tmpl.int w xs).wf = true → fillLeaf (.int w xs) e = mkInt w (fillArgs (.sint 64) e xs)) ∧
    (∀ xs, (Tmpl.uint w xs).wf = true → fillLeaf (.uint w xs) e = mkUint w (fillArgs (.uint 64) e xs)) ∧
    (∀ xs, (Tmpl.boolean xs).wf = true → fillLeaf (.boolean xs) e = mkBoolean (fillArgs .bool e xs)) ∧
    (∀ xs, (Tmpl.binary xs).wf = true → fillLeaf (.binary xs) e = mkBinary (fillArgs (fun (v : Nat) => .sint 0 v) e xs)) :=
  ⟨fun xs h => fillLeaf_int w xs e h, fun xs h => fillLeaf_uint w xs e h,
   fun xs h => fillLeaf_boolean xs e h, fun xs h => fillLeaf_binary xs e h⟩

/-! ### tree level -/

/-- unknown keys are ignored at every nesting depth -/
theorem unknown_keys_ignored (t : Tmpl) (env : Env) (hw : t.wf = true) (hn : noEllT t = true)
    (hu : ∀ v ∈ t.vars, env.get? v = none) : t.fill env = some t :=
  Tmpl.fill_unknown t env hw hn hu

/-- unmentioned variables remain, in their original order: `Variables()` of the result is
`Variables()` of the template with the filled names struck out -/
theorem unmentioned_remain_in_order (t t1 : Tmpl) (e : Env) (hw : t.wf = true) (hn : noEllT t = true)
    (hf : noFloatT t = true) (hc : closedOnT e t) (he : e.get? [] = none) (h : t.fill e = some t1) :
    t1.vars = t.vars.filter (fun v => (e.get? v).isNone) :=
  Tmpl.fill_vars t t1 e hw hn hf hc he h

/-- filling in two steps = filling once with the union of the tables -/
theorem compose (t t1 : Tmpl) (e1 e2 : Env) (hw : t.wf = true) (hn : noEllT t = true) (hf : noFloatT t = true)
    (hc : closedOnT e1 t) (h : t.fill e1 = some t1) : t1.fill e2 = t.fill (e1 ++ e2) :=
  Tmpl.fill_compose t t1 e1 e2 hw hn hf hc h

/-- the composition law as an equation of outcomes (accepted or refused) -/
theorem compose_full (t : Tmpl) (e1 e2 : Env) (hw : t.wf = true) (hn : noEllT t = true) (hf : noFloatT t = true)
    (hc : closedOnT e1 t) (he : e1.get? [] = none) :
    t.fill (e1 ++ e2) = (t.fill e1).bind (fun t1 => t1.fill e2) :=
  Tmpl.fill_compose_bind t e1 e2 hw hn hf hc he

/-- the same for messages: the header fields are carried along unchanged -/
theorem compose_message (m m1 : Msg) (e1 e2 : Env) (hw : m.item.wf = true) (hn : noEllT m.item = true)
    (hf : noFloatT m.item = true) (hc : closedOnT e1 m.item) (h : m.fill e1 = some m1) :
    m1.fill e2 = m.fill (e1 ++ e2) := by
  unfold Msg.fill at h ⊢
  cases ht : m.item.fill e1 with
  | none => simp [ht] at h
  | some t1 =>
    simp only [ht, Option.bind_some, checked] at h
    split at h
    · cases h
      simp only []
      rw [compose m.item t1 e1 e2 hw hn hf hc ht]
    · cases h

/-- the message fill keeps every header field -/
theorem fill_keeps_header (m m1 : Msg) (e : Env) (h : m.fill e = some m1) :
    m1.name = m.name ∧ m1.stream = m.stream ∧ m1.function = m.function ∧ m1.waitBit = m.waitBit ∧
    m1.direction = m.direction ∧ m1.sessionID = m.sessionID ∧ m1.sysBytes = m.sysBytes := by
  unfold Msg.fill at h
  cases ht : m.item.fill e with
  | none => simp [ht] at h
  | some t1 =>
    simp only [ht, Option.bind_some, checked] at h
    split at h
    · cases h; exact ⟨rfl, rfl, rfl, rfl, rfl, rfl, rfl⟩
    · cases h

/-! ### non-vacuity -/
example : (fillLeaf (.int 2 [.val 5, .var [120], .var [121]]) [([120], .sint 8 (-3))]).map Tmpl.vars
    = some [[121]] := by decide
example : (fillLeaf (.int 1 [.var [120]]) [([120], .sint 0 300)]).isNone = true := by decide

/-- a nested template `<L <U1 x 5> y <A z>>`, first table `{x: 3}`, second `{y: <A "a">, z: "hi"}` -/
def sampleT : Tmpl := .list (.item (.uint 1 [.var [120], .val 5]) (.var [121] (.item (.asciiVar [122] 0 (-1)) .nil)))
def sampleE1 : Env := [([120], .uint 8 3)]
def sampleE2 : Env := [([121], .item (.ascii [97])), ([122], .str [104, 105])]

example : sampleT.wf = true ∧ noEllT sampleT = true ∧ noFloatT sampleT = true := by decide
example : closedOnT sampleE1 sampleT := by
  simp only [sampleT, sampleE1, closedOnT, closedOnS, ClosedFor, slotVars]
  refine ⟨?_, ?_, trivial, trivial⟩
  · intro n hn s hs
    simp only [List.mem_cons, List.not_mem_nil, or_false] at hn
    subst hn
    simp [Env.get?] at hs
  · intro v hv
    simp [Env.get?] at hv
-- both routes are accepted and leave no variable: `<L[3] <U1[2] 3 5> <A "a"> <A "hi">>`
example : ((sampleT.fill sampleE1).bind (·.fill sampleE2)).map Tmpl.vars = some [] := by decide
example : ((sampleT.fill (sampleE1 ++ sampleE2)).map Tmpl.vars) = some [] := by decide
example : ((sampleT.fill sampleE1).map Tmpl.vars) = some [[121], [122]] := by decide
example : sampleT.vars = [[120], [121], [122]] ∧ sampleE1.get? [] = none := by decide

end Secs.C09
