/-
C12 — constructors store exactly what was passed or refuse it.

For the array factories: if a factory returns a node, then slot by slot the node holds the
mathematical value of the argument (independent of the Go type it came in) or the variable
name that was passed, every value lies in the item type's range, every name is a valid,
distinct variable name, and the size limit holds; conversely an argument outside the range, of
an unaccepted type, or a bad/duplicate name makes the factory refuse (`none` = panic).
Nothing wraps: a negative value never reaches an unsigned node, an unsigned value above
MaxInt64 never reaches a signed node.
-/
import SecsModel.Model.WF
import SecsModel.Model.Msg
import SecsModel.Generated.Facts
import SecsModel.Proofs.FillWF
import SecsModel.Proofs.FillFF
namespace Secs.C12
open Secs

/-- pointwise relation between two lists -/
inductive All2 {α β} (R : α → β → Prop) : List α → List β → Prop
  | nil : All2 R [] []
  | cons {a b as bs} : R a b → All2 R as bs → All2 R (a :: as) (b :: bs)

def slotCheck {α} (p : α → Bool) : Slot α → Bool
  | .val a => p a
  | .var n => isValidVarName n

theorem slotsOk_cons {α} (p : α → Bool) (s : Slot α) (ss : List (Slot α)) (h : slotsOk p (s :: ss) = true) :
    slotCheck p s = true ∧ slotsOk p ss = true := by
  simp only [slotsOk, Bool.and_eq_true, List.all_cons] at h ⊢
  refine ⟨?_, h.1.2, ?_⟩
  · cases s <;> exact h.1.1
  · cases s with
    | val a => simpa [slotVars] using h.2
    | var n => simp only [slotVars, nodupNames, Bool.and_eq_true] at h; exact h.2.2

/-- slot-by-slot relation between arguments and the slots of the node built from them -/
inductive Stored {α} (conv : GoVal → Option α) : GoVal → Slot α → Prop
  | value (g : GoVal) (a : α) : conv g = some a → Stored conv g (.val a)
  | name (n : Name) : conv (.str n) = none → Stored conv (.str n) (.var n)

theorem mkSlots_spec {α} (conv : GoVal → Option α) (args : List GoVal) (xs : List (Slot α))
    (h : mkSlots conv args = some xs) : All2 (Stored conv) args xs := by
  induction args generalizing xs with
  | nil => simp [mkSlots] at h; subst h; exact .nil
  | cons g r ih =>
    cases g with
    | str s =>
      simp only [mkSlots] at h
      cases hc : conv (.str s) with
      | some a =>
        simp only [hc] at h
        cases hr : mkSlots conv r with
        | none => simp [hr] at h
        | some ys =>
          simp only [hr, Option.map_some, Option.some.injEq] at h; subst h
          exact .cons (.value _ a hc) (ih ys hr)
      | none =>
        simp only [hc] at h
        cases hr : mkSlots conv r with
        | none => simp [hr] at h
        | some ys =>
          simp only [hr, Option.map_some, Option.some.injEq] at h; subst h
          exact .cons (.name s hc) (ih ys hr)
    | sint k v | uint k v | f32 b | f64 b | bool b | item t | other =>
      simp only [mkSlots] at h
      split at h
      · rename_i a hc
        cases hr : mkSlots conv r with
        | none => simp [hr] at h
        | some ys =>
          simp only [hr, Option.map_some, Option.some.injEq] at h; subst h
          exact .cons (.value _ a hc) (ih ys hr)
      · cases h

/-- the mathematical value of an integer argument, whatever its Go type -/
def mathInt : GoVal → Option Int
  | .sint _ v => some v
  | .uint _ v => some (v : Int)
  | _ => none

theorem stored_int (w : Nat) (args : List GoVal) (xs : List (Slot Int))
    (hspec : All2 (Stored convInt) args xs) (hall : slotsOk (intInRange w) xs = true) :
    All2 (fun g s => (∃ v, mathInt g = some v ∧ s = Slot.val v ∧ intInRange w v = true) ∨
                      (∃ n, g = GoVal.str n ∧ s = Slot.var n ∧ isValidVarName n = true)) args xs := by
  induction hspec with
  | nil => exact .nil
  | cons hd _ ih =>
    obtain ⟨h1, h2⟩ := slotsOk_cons _ _ _ hall
    refine .cons ?_ (ih h2)
    match hd with
    | .value g a hc =>
      left
      cases g <;> simp [convInt] at hc
      · subst hc; exact ⟨_, rfl, rfl, h1⟩
      · obtain ⟨_, rfl⟩ := hc; exact ⟨_, rfl, rfl, h1⟩
    | .name n hc => right; exact ⟨n, rfl, rfl, h1⟩

/-- signed factories: what comes out is what went in, in range, or the factory refuses -/
theorem int_exact (w : Nat) (args : List GoVal) (t : Tmpl) (h : mkInt w args = some t) :
    ∃ xs, t = .int w xs ∧ validWidthInt w = true ∧ args.length * w ≤ 16777215 ∧
      slotsOk (intInRange w) xs = true ∧
      All2 (fun g s => (∃ v, mathInt g = some v ∧ s = Slot.val v ∧ intInRange w v = true) ∨
                        (∃ n, g = GoVal.str n ∧ s = Slot.var n ∧ isValidVarName n = true)) args xs := by
  unfold mkInt at h
  simp only [] at h
  split at h
  · cases h
  · rename_i hsz
    cases hs : mkSlots convInt args with
    | none => simp [hs] at h
    | some xs =>
      simp only [hs] at h
      split at h
      · rename_i hok
        injection h with h; subst h
        simp only [Bool.and_eq_true] at hok
        have hw := hok.1
        have hwidth : optWidth (intFmt? w) = w := by
          simp only [validWidthInt, Bool.or_eq_true, beq_iff_eq] at hw
          rcases hw with ((rfl | rfl) | rfl) | rfl <;> rfl
        refine ⟨xs, rfl, hw, by rw [hwidth] at hsz; unfold maxByteSize at hsz; omega, hok.2, ?_⟩
        exact stored_int w args xs (mkSlots_spec convInt args xs hs) hok.2
      · cases h

/-- the mathematical value of an argument of an unsigned factory -/
def mathNat : GoVal → Option Nat
  | .sint _ v => if v < 0 then none else some v.toNat
  | .uint _ v => some v
  | _ => none

theorem stored_uint (w : Nat) (args : List GoVal) (xs : List (Slot Nat))
    (hspec : All2 (Stored convUint) args xs) (hall : slotsOk (uintInRange w) xs = true) :
    All2 (fun g s => (∃ v, mathNat g = some v ∧ s = Slot.val v ∧ uintInRange w v = true) ∨
                      (∃ n, g = GoVal.str n ∧ s = Slot.var n ∧ isValidVarName n = true)) args xs := by
  induction hspec with
  | nil => exact .nil
  | cons hd _ ih =>
    obtain ⟨h1, h2⟩ := slotsOk_cons _ _ _ hall
    refine .cons ?_ (ih h2)
    match hd with
    | .value g a hc =>
      left
      cases g <;> simp [convUint] at hc
      · obtain ⟨hv, rfl⟩ := hc
        exact ⟨_, by simp [mathNat, hv], rfl, h1⟩
      · subst hc; exact ⟨_, rfl, rfl, h1⟩
    | .name n hc => right; exact ⟨n, rfl, rfl, h1⟩

/-- unsigned factories: what comes out is what went in, in range, or the factory refuses -/
theorem uint_exact (w : Nat) (args : List GoVal) (t : Tmpl) (h : mkUint w args = some t) :
    ∃ xs, t = .uint w xs ∧ validWidthInt w = true ∧ args.length * w ≤ 16777215 ∧
      slotsOk (uintInRange w) xs = true ∧
      All2 (fun g s => (∃ v, mathNat g = some v ∧ s = Slot.val v ∧ uintInRange w v = true) ∨
                        (∃ n, g = GoVal.str n ∧ s = Slot.var n ∧ isValidVarName n = true)) args xs := by
  unfold mkUint at h
  simp only [] at h
  split at h
  · cases h
  · rename_i hsz
    cases hs : mkSlots convUint args with
    | none => simp [hs] at h
    | some xs =>
      simp only [hs] at h
      split at h
      · rename_i hok
        injection h with h; subst h
        simp only [Bool.and_eq_true] at hok
        have hw := hok.1
        have hwidth : optWidth (uintFmt? w) = w := by
          simp only [validWidthInt, Bool.or_eq_true, beq_iff_eq] at hw
          rcases hw with ((rfl | rfl) | rfl) | rfl <;> rfl
        refine ⟨xs, rfl, hw, by rw [hwidth] at hsz; unfold maxByteSize at hsz; omega, hok.2, ?_⟩
        exact stored_uint w args xs (mkSlots_spec convUint args xs hs) hok.2
      · cases h

theorem stored_bool (args : List GoVal) (xs : List (Slot Bool))
    (hspec : All2 (Stored convBool) args xs) (hall : slotsOk (fun _ => true) xs = true) :
    All2 (fun g s => (∃ b, g = GoVal.bool b ∧ s = Slot.val b) ∨
                      (∃ n, g = GoVal.str n ∧ s = Slot.var n ∧ isValidVarName n = true)) args xs := by
  induction hspec with
  | nil => exact .nil
  | cons hd _ ih =>
    obtain ⟨h1, h2⟩ := slotsOk_cons _ _ _ hall
    refine .cons ?_ (ih h2)
    match hd with
    | .value g a hc =>
      left
      cases g <;> simp [convBool] at hc
      subst hc; exact ⟨_, rfl, rfl⟩
    | .name n hc => right; exact ⟨n, rfl, rfl, h1⟩

/-- boolean factory: Go bools and names only, stored as given -/
theorem boolean_exact (args : List GoVal) (t : Tmpl) (h : mkBoolean args = some t) :
    ∃ xs, t = .boolean xs ∧ args.length ≤ 16777215 ∧
      All2 (fun g s => (∃ b, g = GoVal.bool b ∧ s = Slot.val b) ∨
                        (∃ n, g = GoVal.str n ∧ s = Slot.var n ∧ isValidVarName n = true)) args xs := by
  unfold mkBoolean at h
  split at h
  · cases h
  · rename_i hsz
    cases hs : mkSlots convBool args with
    | none => simp [hs] at h
    | some xs =>
      simp only [hs] at h
      split at h
      · rename_i hok
        injection h with h; subst h
        refine ⟨xs, rfl, by unfold maxByteSize at hsz; omega, ?_⟩
        exact stored_bool args xs (mkSlots_spec convBool args xs hs) hok
      · cases h

theorem All2.imp {α β} {R R' : α → β → Prop} {l : List α} {l' : List β} (h : All2 R l l')
    (f : ∀ a b, R a b → R' a b) : All2 R' l l' := by
  induction h with
  | nil => exact .nil
  | cons hd _ ih => exact .cons (f _ _ hd) ih

/-- factories whose conversion may itself refuse (`some none`): when no slot was refused, the
unwrapped slots are the converted arguments one by one -/
theorem stored_unwrap {β} (conv : GoVal → Option (Option β)) (dflt : β) (args : List GoVal) (xs : List (Slot (Option β)))
    (hspec : All2 (Stored conv) args xs)
    (hno : xs.any slotRefused = false) :
    All2 (fun g s => (∃ b, conv g = some (some b) ∧ s = Slot.val b) ∨ (∃ n, g = GoVal.str n ∧ conv g = none ∧ s = Slot.var n))
      args (xs.map (slotUnwrap dflt)) := by
  induction hspec with
  | nil => exact .nil
  | cons hd _ ih =>
    simp only [List.any_cons, Bool.or_eq_false_iff] at hno
    refine .cons ?_ (ih hno.2)
    match hd with
    | .value g a hc =>
      cases a with
      | none => simp [slotRefused] at hno
      | some b => exact Or.inl ⟨b, hc, rfl⟩
    | .name n hc => exact Or.inr ⟨n, rfl, hc, rfl⟩

/-- float factories: every stored pattern is the library conversion of the argument to float64
followed by the range check and narrowing of the item width (`floatStore`); NaN, infinities and
out-of-range values are refused, never stored as something else -/
theorem float_exact (w : Nat) (args : List GoVal) (t : Tmpl) (h : mkFloat w args = some t) :
    ∃ ys, t = .float w ys ∧ validWidthFloat w = true ∧
      All2 (fun g s => (∃ b64 b, convFloat64 g = some b64 ∧ floatStore w b64 = some b ∧ s = Slot.val b) ∨
                        (∃ n, g = GoVal.str n ∧ s = Slot.var n)) args ys := by
  unfold mkFloat at h
  simp only [] at h
  split at h
  · cases h
  · split at h
    · cases h
    · rename_i hw
      cases hs : mkSlots (fun g => (convFloat64 g).bind (fun b => some (floatStore w b))) args with
      | none => simp [hs] at h
      | some xs =>
        simp only [hs] at h
        split at h
        · cases h
        · rename_i hno
          split at h
          · injection h with h; subst h
            refine ⟨_, rfl, by simpa using hw, ?_⟩
            have hspec := mkSlots_spec _ args xs hs
            have := stored_unwrap _ 0 args xs hspec (by simpa using hno)
            refine this.imp ?_
            intro g sl hd
            rcases hd with ⟨b, hc, rfl⟩ | ⟨n, rfl, _, rfl⟩
            · left
              cases hc64 : convFloat64 g with
              | none => simp [hc64] at hc
              | some b64 =>
                simp only [hc64, Option.bind_some, Option.some.injEq] at hc
                exact ⟨b64, b, rfl, hc, rfl⟩
            · right; exact ⟨n, rfl, rfl⟩
          · cases h

theorem All2.with_slotsOk {α} {R : GoVal → Slot α → Prop} (p : α → Bool) {l : List GoVal} {l' : List (Slot α)}
    (h : All2 R l l') (hok : slotsOk p l' = true) : All2 (fun g s => R g s ∧ slotCheck p s = true) l l' := by
  induction h with
  | nil => exact .nil
  | cons hd _ ih =>
    obtain ⟨h1, h2⟩ := slotsOk_cons _ _ _ hok
    exact .cons ⟨hd, h1⟩ (ih h2)

theorem All2.map_right {α β γ} {R : α → β → Prop} (f : β → γ) {l : List α} {l' : List β} (h : All2 R l l') :
    All2 (fun a c => ∃ b, R a b ∧ c = f b) l (l'.map f) := by
  induction h with
  | nil => exact .nil
  | cons hd _ ih => exact .cons ⟨_, hd, rfl⟩ ih

/-- binary factory: a Go `int` or a string "0b…" read by ParseInt (its error is a refusal), in
0..255, or a variable name; stored as given -/
theorem binary_exact (args : List GoVal) (t : Tmpl) (h : mkBinary args = some t) :
    ∃ zs, t = .binary zs ∧ args.length ≤ 16777215 ∧
      All2 (fun g s => (∃ v : Int, convBinary g = some (some v) ∧ 0 ≤ v ∧ v < 256 ∧ s = Slot.val v.toNat) ∨
                        (∃ n, g = GoVal.str n ∧ convBinary g = none ∧ s = Slot.var n ∧ isValidVarName n = true)) args zs := by
  unfold mkBinary at h
  split at h
  · cases h
  · rename_i hsz
    cases hs : mkSlots convBinary args with
    | none => simp [hs] at h
    | some xs =>
      simp only [hs] at h
      split at h
      · cases h
      · rename_i hno
        split at h
        · rename_i hok
          injection h with h; subst h
          refine ⟨_, rfl, by unfold maxByteSize at hsz; omega, ?_⟩
          have h1 := stored_unwrap convBinary 0 args xs (mkSlots_spec convBinary args xs hs) (by simpa using hno)
          have h2 := (h1.with_slotsOk _ hok).map_right (fun s => match s with | .val v => Slot.val v.toNat | .var n => Slot.var n)
          refine h2.imp ?_
          intro g c ⟨sl, ⟨hd, hck⟩, hc⟩
          rcases hd with ⟨b, hcv, rfl⟩ | ⟨n, rfl, hcn, rfl⟩
          · left
            simp only [slotCheck, Bool.and_eq_true, decide_eq_true_eq] at hck
            exact ⟨b, hcv, hck.1, hck.2, hc⟩
          · right
            exact ⟨n, rfl, hcn, hc, hck⟩
        · cases h

/-- list factory: items and names only, in the order given; own names valid (or one ellipsis
that is not first), no name twice anywhere below -/
theorem list_exact (args : List GoVal) (t : Tmpl) (h : mkList args = some t) :
    ∃ xs, t = .list xs ∧ args.length ≤ 16777215 ∧ mkListSlots args = some xs ∧
      listOwnOk xs 0 false = true ∧ nodupNames xs.vars = true := by
  unfold mkList at h
  split at h
  · cases h
  · rename_i hsz
    cases hs : mkListSlots args with
    | none => simp [hs] at h
    | some xs =>
      simp only [hs] at h
      split at h
      · rename_i hok
        injection h with h; subst h
        simp only [Bool.and_eq_true] at hok
        exact ⟨xs, rfl, by unfold maxByteSize at hsz; omega, rfl, hok.1, hok.2⟩
      · cases h

/-- the slots of a list are its arguments one by one: an item stays that item, a string becomes a
variable of that name, anything else is refused -/
theorem listSlots_spec : ∀ (args : List GoVal) (xs : Slots), mkListSlots args = some xs →
    (args = [] ∧ xs = .nil) ∨
    (∃ t r ys, args = .item t :: r ∧ xs = .item t ys ∧ mkListSlots r = some ys) ∨
    (∃ n r ys, args = .str n :: r ∧ xs = .var n ys ∧ mkListSlots r = some ys)
  | [], xs, h => by simp [mkListSlots] at h; exact Or.inl ⟨rfl, h.symm⟩
  | g :: r, xs, h => by
    cases g with
    | item t =>
      simp only [mkListSlots] at h
      cases hr : mkListSlots r with
      | none => simp [hr] at h
      | some ys => simp [hr] at h; exact Or.inr (Or.inl ⟨t, r, ys, rfl, h.symm, hr⟩)
    | str n =>
      simp only [mkListSlots] at h
      cases hr : mkListSlots r with
      | none => simp [hr] at h
      | some ys => simp [hr] at h; exact Or.inr (Or.inr ⟨n, r, ys, rfl, h.symm, hr⟩)
    | sint k v | uint k v | f32 b | f64 b | bool b | other => simp [mkListSlots] at h

/-- an unsigned value above MaxInt64 is refused by the signed factory (never wrapped) -/
theorem int_refuses_big_unsigned (w k v : Nat) (pre post : List GoVal) (hv : v > 2 ^ 63 - 1) :
    mkInt w (pre ++ GoVal.uint k v :: post) = none := by
  have hs : mkSlots convInt (pre ++ GoVal.uint k v :: post) = none := by
    induction pre with
    | nil => simp [mkSlots, convInt, hv]
    | cons g r ih =>
      cases g <;> simp [mkSlots, ih]
      all_goals (split <;> simp)
  unfold mkInt
  simp only [hs]
  split <;> rfl

/-- a negative value is refused by the unsigned factory (never wrapped) -/
theorem uint_refuses_negative (w k : Nat) (v : Int) (pre post : List GoVal) (hv : v < 0) :
    mkUint w (pre ++ GoVal.sint k v :: post) = none := by
  have hs : mkSlots convUint (pre ++ GoVal.sint k v :: post) = none := by
    induction pre with
    | nil => simp [mkSlots, convUint, hv]
    | cons g r ih =>
      cases g <;> simp [mkSlots, ih]
      all_goals (split <;> simp)
  unfold mkUint
  simp only [hs]
  split <;> rfl

/-- ASCII: exactly the 7-bit strings within the limit, stored as given -/
theorem ascii_exact (s : Bytes) :
    mkAscii s = (if s.length ≤ 16777215 ∧ (∀ b ∈ s, b < 128) then some (.ascii s) else none) := by
  unfold mkAscii maxByteSize
  by_cases h1 : s.length > 16777215
  · have : ¬ (s.length ≤ 16777215 ∧ ∀ b ∈ s, b < 128) := by omega
    simp [h1, this]
  · by_cases h2 : s.all (· < 128) = true
    · have h3 : ∀ b ∈ s, b < 128 := by simpa using h2
      have : s.length ≤ 16777215 ∧ ∀ b ∈ s, b < 128 := ⟨by omega, h3⟩
      rw [if_pos this]
      simp [h1, h2]
    · have : ¬ (s.length ≤ 16777215 ∧ ∀ b ∈ s, b < 128) := by
        rintro ⟨_, h3⟩; exact h2 (by simpa using h3)
      simp [h1, h2, this]

/-- ASCII variables: valid name and coherent bounds, nothing else -/
theorem ascii_var_exact (n : Name) (mn mx : Int) :
    mkAsciiVar n mn mx = (if isValidVarName n = true ∧ 0 ≤ mn ∧ -1 ≤ mx ∧ (mx = -1 ∨ mn ≤ mx)
                          then some (.asciiVar n mn mx) else none) := by
  unfold mkAsciiVar
  by_cases h1 : isValidVarName n = true
  · by_cases h2 : mn < 0 ∨ mx < -1
    · have : ¬ (isValidVarName n = true ∧ 0 ≤ mn ∧ -1 ≤ mx ∧ (mx = -1 ∨ mn ≤ mx)) := by omega
      rw [if_neg this]
      have h2' : (decide (mn < 0) || decide (mx < -1)) = true := by simpa using h2
      simp [h1, h2']
    · by_cases h3 : mx ≠ -1 ∧ mn > mx
      · have : ¬ (isValidVarName n = true ∧ 0 ≤ mn ∧ -1 ≤ mx ∧ (mx = -1 ∨ mn ≤ mx)) := by omega
        rw [if_neg this]
        have h2' : (decide (mn < 0) || decide (mx < -1)) = false := by simpa using h2
        have h3' : (mx != -1 && decide (mn > mx)) = true := by simpa using h3
        simp [h1, h2', h3']
      · have : isValidVarName n = true ∧ 0 ≤ mn ∧ -1 ≤ mx ∧ (mx = -1 ∨ mn ≤ mx) := ⟨h1, by omega, by omega, by omega⟩
        have h2' : (decide (mn < 0) || decide (mx < -1)) = false := by simpa using h2
        have h3' : (mx != -1 && decide (mn > mx)) = false := by
          simp only [Bool.and_eq_false_iff, bne_eq_false_iff_eq, decide_eq_false_iff_not]; omega
        rw [if_pos this]
        simp [h1, h2', h3']
  · simp [h1]

/-- messages: the constructor accepts exactly the documented ranges -/
theorem msg_refusals (name : Bytes) (s f w : Int) (dir : Bytes) (item : Tmpl) (m : Msg)
    (h : mkMsg name s f w dir item = some m) :
    0 ≤ s ∧ s < 128 ∧ 0 ≤ f ∧ f < 256 ∧ 0 ≤ w ∧ w ≤ 2 ∧ ¬ (w = 1 ∧ f % 2 = 0) ∧
    (dir = dirHE ∨ dir = dirEH ∨ dir = dirBoth) ∧
    m = ⟨name, s, f, w, dir, item, -1, [0, 0, 0, 0]⟩ := by
  unfold mkMsg checked at h
  split at h
  · rename_i hv
    injection h with h
    simp only [Msg.valid, Bool.and_eq_true, decide_eq_true_eq, Bool.not_eq_true', Bool.and_eq_false_imp,
      beq_iff_eq, Bool.or_eq_true] at hv
    obtain ⟨⟨⟨⟨⟨⟨⟨_, hs⟩, hf⟩, hwf⟩, hwb⟩, _⟩, _⟩, hd⟩ := hv
    refine ⟨hs.1, hs.2, hf.1, hf.2, hwb.1, hwb.2, ?_, ?_, h.symm⟩
    · rintro ⟨h1, h2⟩
      have := hwf h1
      simp [h2] at this
    · rcases hd with (hd | hd) | hd
      · exact Or.inl hd
      · exact Or.inr (Or.inl hd)
      · exact Or.inr (Or.inr hd)
  · cases h

/-! ### the tie to the source: name grammar patterns and bounds -/
theorem facts_name_patterns :
    Generated.regexps.take 2 = [("ast.isValidVarName", "^[A-Za-z_]\\w*(\\[\\d+\\])*$"),
                                 ("ast.isEllipsis", "^\\.{3}(\\[\\d+\\])?$")] ∧
    Generated.msgCheckRepInts = [0, 128, 0, 256, 1, 2, 0, 0, 2, -1, 65536, 4] ∧
    Generated.maxByteSize = 16777215 := by decide

/-! ### non-vacuity -/
example : (mkInt 1 [.sint 8 (-128), .str [120], .uint 64 127]).isSome = true := by decide
example : mkInt 1 [.sint 0 128] = none ∧ mkUint 8 [.sint 0 (-1)] = none ∧ mkInt 8 [.uint 0 (2 ^ 63)] = none := by decide


/-! ### whatever a factory hands out satisfies the representation invariant -/

/-- every factory result is well formed (sizes within the limit, widths valid, integer and binary
values in range, every variable name valid, no name twice); the list factory given well-formed
items. The `checkRep` branches that panic with "rep invariant broken" are therefore dead code. -/
theorem factories_well_formed :
    (∀ w args t, mkInt w args = some t → t.wfS = true) ∧
    (∀ w args t, mkUint w args = some t → t.wfS = true) ∧
    (∀ w args t, mkFloat w args = some t → t.wfS = true) ∧
    (∀ args t, mkBinary args = some t → t.wfS = true) ∧
    (∀ args t, mkBoolean args = some t → t.wfS = true) ∧
    (∀ s t, mkAscii s = some t → t.wfS = true) ∧
    (∀ n mn mx t, mkAsciiVar n mn mx = some t → t.wfS = true) ∧
    (∀ args t, itemsWfS args = true → mkList args = some t → t.wfS = true) :=
  ⟨mkInt_wfS, mkUint_wfS, mkFloat_wfS, mkBinary_wfS, mkBoolean_wfS, mkAscii_wfS, mkAsciiVar_wfS,
    fun args t hi h => mkList_wfS args t h hi⟩

/-- for templates without F4/F8 items the fill keeps the FULL invariant `wf` (values in range
included) - any depth, nested ellipses included; with floats the value clause is the float
library's (`floatStore`), see `fill_well_formed` -/
theorem fill_well_formed_float_free (t t' : Tmpl) (env : Env) (hw : t.wf = true) (hf : t.floatFree = true)
    (henv : Env.itemsWfS env = true) (henvf : Env.itemsFF env = true) (h : t.fill env = some t') : t'.wf = true :=
  (t.fill_wf t' env hw hf henv henvf h).1

/-- a fill hands out a well-formed item or refuses -/
theorem fill_well_formed (t t' : Tmpl) (env : Env) (hw : t.wfS = true) (henv : Env.itemsWfS env = true)
    (h : t.fill env = some t') : t'.wfS = true := t.fill_wfS t' env hw henv h

end Secs.C12
