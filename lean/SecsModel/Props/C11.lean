/-
C11 — items and messages are immutable; no aliasing with caller data.

The logic part: an abstract heap machine. Byte arrays live at addresses; an object (item,
message, control message) holds the addresses of its slice-typed fields; the caller holds the
addresses of every slice it passed in or got back and may overwrite those arrays at any time.
Each kind of API operation is characterised by what it does with addresses (copy / share with
another object / hand out). `Discipline` is what the fact extractor certifies about the code:
no operation stores a caller's slice, no operation hands out a field. Under it, for every
history whatsoever, no object ever reaches an address the caller holds (`inv_reachable`), hence
no caller write and no operation changes what any existing object shows (`stable`).
Sharing between immutable objects (SetWaitBit, FillVariables reuse the system-bytes array) is
allowed by the discipline, exactly because nothing can write to a shared array.

What this theorem cannot exhibit: physical memory (capacity beyond length, append in place).
That part is checked on the real code by the history engine (alias/histories).
-/
import SecsModel.Generated.Facts
namespace Secs.C11


structure St where
  heap : List (List Nat)       -- array at address i
  objs : List (List Nat)      -- object = addresses of its slice fields
  held : List Nat             -- addresses the caller can write to

/-- what an operation does with the addresses involved -/
inductive Op where
  /-- caller allocates an array it holds (to pass it in later) -/
  | callerAlloc (bytes : List Nat)
  /-- constructor called with caller-held array `a`; `store` = keeps the caller's slice itself -/
  | construct (a : Nat) (store : Bool)
  /-- producer: new object from object `o`; `share` = reuses o's array, else copies -/
  | derive (o : Nat) (share : Bool)
  /-- accessor / encoder on object `o`; `expose` = returns the field itself, else a fresh copy -/
  | access (o : Nat) (expose : Bool)
  /-- the caller overwrites element i of an array it holds -/
  | callerWrite (a : Nat) (i : Nat) (v : Nat)

/-- the discipline certified by the extracted facts -/
def Op.disciplined : Op → Bool
  | .construct _ store => !store
  | .access _ expose => !expose
  | _ => true

def setAt (l : List Nat) (i v : Nat) : List Nat := l.set i v

def step (s : St) : Op → St
  | .callerAlloc b => { s with heap := s.heap ++ [b], held := s.heap.length :: s.held }
  | .construct a store =>
    if a ∈ s.held then
      if store then { s with objs := s.objs ++ [[a]] }
      else { s with heap := s.heap ++ [s.heap.getD a []], objs := s.objs ++ [[s.heap.length]] }
    else s
  | .derive o share =>
    match s.objs[o]? with
    | none => s
    | some fields =>
      if share then { s with objs := s.objs ++ [fields] }
      else { s with heap := s.heap ++ [s.heap.getD (fields.headD 0) []], objs := s.objs ++ [[s.heap.length]] }
  | .access o expose =>
    match s.objs[o]? with
    | none => s
    | some fields =>
      if expose then { s with held := fields ++ s.held }
      else { s with heap := s.heap ++ [s.heap.getD (fields.headD 0) []], held := s.heap.length :: s.held }
  | .callerWrite a i v =>
    if a ∈ s.held then { s with heap := s.heap.set a (setAt (s.heap.getD a []) i v) } else s

/-- what an object shows: the contents of its arrays -/
def observe (s : St) (fields : List Nat) : List (List Nat) := fields.map (fun a => s.heap.getD a [])

/-- invariant: no object field is an address the caller holds, and all addresses are allocated -/
def Inv (s : St) : Prop :=
  (∀ fs ∈ s.objs, ∀ a ∈ fs, a ∉ s.held ∧ a < s.heap.length) ∧ (∀ a ∈ s.held, a < s.heap.length)

theorem inv_init : Inv ⟨[], [], []⟩ := by simp [Inv]

theorem getD_append_left (h : List (List Nat)) (x : List Nat) (a : Nat) (ha : a < h.length) :
    (h ++ [x]).getD a [] = h.getD a [] := by
  simp [List.getD_eq_getElem?_getD, List.getElem?_append_left ha]

/-- one disciplined step preserves the invariant and changes no existing object's observation -/
theorem inv_step (s : St) (op : Op) (hd : op.disciplined = true) (hi : Inv s) :
    Inv (step s op) ∧ ∀ fs ∈ s.objs, observe (step s op) fs = observe s fs := by
  obtain ⟨h1, h2⟩ := hi
  cases op with
  | callerAlloc b =>
    refine ⟨⟨?_, ?_⟩, ?_⟩
    · intro fs hfs a ha
      have := h1 fs hfs a ha
      simp only [step, List.mem_cons, List.length_append, List.length_singleton]
      refine ⟨?_, by omega⟩
      rintro (h | h)
      · omega
      · exact this.1 h
    · intro a ha
      simp only [step, List.mem_cons] at ha
      simp only [step, List.length_append, List.length_singleton]
      rcases ha with h | h
      · omega
      · have := h2 a h; omega
    · intro fs hfs
      simp only [observe, step]
      apply List.map_congr_left
      intro a ha
      exact getD_append_left _ _ _ (h1 fs hfs a ha).2
  | construct a store =>
    simp only [Op.disciplined, Bool.not_eq_true'] at hd
    subst hd
    simp only [step]
    by_cases hh : a ∈ s.held
    · simp only [hh, if_true, Bool.false_eq_true, if_false]
      refine ⟨⟨?_, ?_⟩, ?_⟩
      · intro fs hfs b hb
        simp only [List.mem_append, List.mem_singleton] at hfs
        simp only [List.length_append, List.length_singleton]
        rcases hfs with hfs | hfs
        · have := h1 fs hfs b hb; exact ⟨this.1, by omega⟩
        · subst hfs
          simp only [List.mem_singleton] at hb
          subst hb
          refine ⟨?_, by omega⟩
          intro hc
          have := h2 _ hc
          omega
      · intro b hb
        have := h2 b hb
        simp only [List.length_append, List.length_singleton]; omega
      · intro fs hfs
        simp only [observe]
        apply List.map_congr_left
        intro b hb
        exact getD_append_left _ _ _ (h1 fs hfs b hb).2
    · simp only [hh, if_false]
      exact ⟨⟨h1, h2⟩, fun _ _ => by first | rfl | trivial⟩
  | derive o share =>
    simp only [step]
    cases ho : s.objs[o]? with
    | none => exact ⟨⟨h1, h2⟩, fun _ _ => by first | rfl | trivial⟩
    | some fields =>
      have hmem : fields ∈ s.objs := List.mem_of_getElem? ho
      by_cases hs : share = true
      · simp only [hs, if_true]
        refine ⟨⟨?_, h2⟩, fun _ _ => by first | rfl | trivial⟩
        intro fs hfs b hb
        simp only [List.mem_append, List.mem_singleton] at hfs
        rcases hfs with hfs | hfs
        · exact h1 fs hfs b hb
        · rw [hfs] at hb; exact h1 fields hmem b hb
      · simp only [hs, Bool.false_eq_true, if_false]
        refine ⟨⟨?_, ?_⟩, ?_⟩
        · intro fs hfs b hb
          simp only [List.mem_append, List.mem_singleton] at hfs
          simp only [List.length_append, List.length_singleton]
          rcases hfs with hfs | hfs
          · have := h1 fs hfs b hb; exact ⟨this.1, by omega⟩
          · subst hfs
            simp only [List.mem_singleton] at hb
            subst hb
            refine ⟨?_, by omega⟩
            intro hc
            have := h2 _ hc
            omega
        · intro b hb
          have := h2 b hb
          simp only [List.length_append, List.length_singleton]; omega
        · intro fs hfs
          simp only [observe]
          apply List.map_congr_left
          intro b hb
          exact getD_append_left _ _ _ (h1 fs hfs b hb).2
  | access o expose =>
    simp only [Op.disciplined, Bool.not_eq_true'] at hd
    subst hd
    simp only [step]
    cases ho : s.objs[o]? with
    | none => exact ⟨⟨h1, h2⟩, fun _ _ => by first | rfl | trivial⟩
    | some fields =>
      simp only [Bool.false_eq_true, if_false]
      refine ⟨⟨?_, ?_⟩, ?_⟩
      · intro fs hfs b hb
        have := h1 fs hfs b hb
        simp only [List.mem_cons, List.length_append, List.length_singleton]
        refine ⟨?_, by omega⟩
        rintro (h | h)
        · omega
        · exact this.1 h
      · intro b hb
        simp only [List.mem_cons] at hb
        simp only [List.length_append, List.length_singleton]
        rcases hb with h | h
        · omega
        · have := h2 b h; omega
      · intro fs hfs
        simp only [observe]
        apply List.map_congr_left
        intro b hb
        exact getD_append_left _ _ _ (h1 fs hfs b hb).2
  | callerWrite a i v =>
    simp only [step]
    by_cases hh : a ∈ s.held
    · simp only [hh, if_true]
      refine ⟨⟨?_, ?_⟩, ?_⟩
      · intro fs hfs b hb
        have := h1 fs hfs b hb
        simpa using this
      · intro b hb
        have := h2 b hb
        simpa using this
      · intro fs hfs
        simp only [observe]
        apply List.map_congr_left
        intro b hb
        have hne : a ≠ b := by
          intro e; subst e; exact (h1 fs hfs a hb).1 hh
        simp [List.getD_eq_getElem?_getD, List.getElem?_set_ne hne]
    · simp only [hh, if_false]
      exact ⟨⟨h1, h2⟩, fun _ _ => by first | rfl | trivial⟩

/-- objects are never removed: an existing object is still there after a step -/
theorem objs_mono (s : St) (op : Op) : ∀ fs ∈ s.objs, fs ∈ (step s op).objs := by
  intro fs hfs
  cases op with
  | callerAlloc b => exact hfs
  | construct a store =>
    simp only [step]
    split
    · split <;> simp [hfs]
    · exact hfs
  | derive o share =>
    simp only [step]
    split
    · exact hfs
    · split <;> simp [hfs]
  | access o expose =>
    simp only [step]
    split
    · exact hfs
    · split <;> exact hfs
  | callerWrite a i v =>
    simp only [step]
    split <;> exact hfs

/-- for every history of disciplined operations interleaved with arbitrary caller writes, every
object that exists at some point shows the same contents for ever after -/
theorem stable (s : St) (ops : List Op) (hd : ∀ op ∈ ops, op.disciplined = true) (hi : Inv s) :
    Inv (ops.foldl step s) ∧ ∀ fs ∈ s.objs, observe (ops.foldl step s) fs = observe s fs := by
  induction ops generalizing s with
  | nil => exact ⟨hi, fun _ _ => by first | rfl | trivial⟩
  | cons op r ih =>
    have h1 := inv_step s op (hd op (by simp)) hi
    have h2 := ih (step s op) (fun o ho => hd o (by simp [ho])) h1.1
    refine ⟨h2.1, fun fs hfs => ?_⟩
    rw [List.foldl_cons, h2.2 fs (objs_mono s op fs hfs), h1.2 fs hfs]

/-- without the discipline the invariant is lost: an accessor that hands out the field lets the
caller change the object (this is exactly defect D5 of the pinned tree) -/
example :
    let s0 : St := ⟨[[0, 0, 0, 0]], [[0]], []⟩
    let s1 := step (step s0 (.access 0 true)) (.callerWrite 0 0 99)
    observe s1 [0] ≠ observe s0 [0] := by decide

/-! ### the discipline holds of the code: extracted facts -/

/-- no accessor returns a slice/map field, no constructor stores a caller's slice or an
unclassified value, nothing writes through a receiver or parameter (outside the per-call
scratch types), and the only sharing between objects is the immutable system-bytes array in the
two producers -/
theorem facts_discipline :
    Generated.exposedFields = [] ∧ Generated.storedParams = [] ∧ Generated.unknownStores = [] ∧
    Generated.receiverWrites = [] ∧
    Generated.sharedFields = ["ast.DataMessage.SetWaitBit: DataMessage.systemBytes = node systemBytes",
                              "ast.DataMessage.FillVariables: DataMessage.systemBytes = node systemBytes"] := by
  decide

end Secs.C11
