/-
C08 — comments, whitespace and letter case never change what is parsed.

Proved on the lexer and parser models (lexing is independent of parsing, so what holds for the
token stream holds for valid and invalid messages alike):
 * a comment's text is whatever stands between `//` and the line end — any bytes at all — and the
   lexer resumes at the line end in the mode it was in, having emitted only a comment token, which
   the parser drops (`comment_any_bytes`, `comment_token_header/text`, `comment_one_token`,
   `comment_invisible`); trailing blanks, tabs and CRs are not part of it (`comment_trim`);
 * the token stream depends on the lexer state only through the unread input (`lexFuel_erase`); a
   run of blanks where the lexer looks for the next token is invisible, and any run can replace
   any other (`blank_run_invisible`, `blank_runs_equivalent`);
 * at every token boundary the lexer reaches (`Reach`), replacing the blank run there by another
   one, or putting a comment line there, leaves the parsed content unchanged
   (`layout_invariance_at_boundary`, `boundary_blank_runs`, `boundary_comment`);
 * the parser's outcome does not depend on token positions, and diagnostics move with the tokens
   they point at (`positions_irrelevant`, `diagnostics_move_with_tokens`);
 * keywords, type names, booleans, the stream/function token, the wait bit and the direction are
   classified and valued through their upper-case form (`keyword_case`, `header_tokens_upper`).
* anywhere in a text, behind any line break that does not stand inside a size declaration (the
   text up to it is lexed without a lexing error): a comment line with any bytes can be put
   there, and the white space that follows - indentation, blank lines - can be replaced by any
   other, without changing what is parsed, valid or not (`edit_behind_line_break`,
   `comment_line_anywhere`, `blank_run_at_line_start`; from the locality of the lexer,
   `Lex.lexFrom_concat`);
* inside a line, at any point where white space stands outside a string, a size declaration and a
   comment (the text up to there, cut off by a line break, is lexed without a lexing error and no
   `//` is open): the white space can be replaced by any other non-empty run of blanks, tabs, CRs
   and line breaks, and a comment with any bytes can be put at the end of a line behind a blank,
   without changing what is parsed - valid or not (`blank_runs_between_tokens`,
   `comment_at_line_end`; from the locality of the lexer in front of any blank,
   `Lex.lexFrom_blank`);
 * every token carries the position of its first byte (`Lex.lexAll_positions`, Proofs/Lexer), so with
   `diagnostics_move_with_tokens` diagnostics move with the tokens they point at.
`layout_invariance_partial` - what is not a theorem: gaps of width zero (two tokens that touch
against the same tokens separated - which pairs may touch is a matter of the token classes), a
comment directly behind a token without a blank in between, and the letter case of number prefixes
and exponents (`keyword_case` and `header_tokens_upper` cover keywords, type names, booleans and
header tokens). These are exercised by the metamorphic layout suite on the real code and by the
correspondence run on both renderings.
-/
import SecsModel.Model.Lexer
import SecsModel.Proofs.LexLayout
import SecsModel.Proofs.ParserNat
import SecsModel.Proofs.LexConcat
import SecsModel.Proofs.LexBlankConcat
import SecsModel.Generated.Facts
import SecsModel.Proofs.NumCase
namespace Secs.C08
open Secs Secs.Lex Secs.Sml

theorem spanB_stop (p : Nat → Bool) (c : Bytes) (b : Nat) (r : Bytes)
    (hc : ∀ x ∈ c, p x = true) (hb : p b = false) : spanB p (c ++ b :: r) = (c, b :: r) := by
  induction c with
  | nil => simp [spanB, hb]
  | cons x xs ih =>
    have hx := hc x (by simp)
    have := ih (fun y hy => hc y (by simp [hy]))
    simp [spanB, hx, this]

/-- a comment is everything up to the line end, whatever bytes it contains -/
theorem comment_any_bytes (c r : Bytes) (hc : ∀ x ∈ c, x ≠ 10) :
    scanComment (47 :: 47 :: c ++ 10 :: r) = (trimRight (fun b => b == 32 || b == 9 || b == 13) (47 :: 47 :: c), false) := by
  unfold scanComment
  have h := spanB_stop (· != 10) (47 :: 47 :: c) 10 r
    (by intro x hx
        rcases List.mem_cons.mp hx with rfl | hx
        · decide
        · rcases List.mem_cons.mp hx with rfl | hx
          · decide
          · simpa using hc x hx)
    (by decide)
  rw [h]

/-- the comment ends the input when no line end follows -/
theorem comment_at_eof (c : Bytes) (hc : ∀ x ∈ c, x ≠ 10) : scanComment (47 :: 47 :: c) = (47 :: 47 :: c, true) := by
  unfold scanComment
  have h : spanB (· != 10) (47 :: 47 :: c) = (47 :: 47 :: c, []) := by
    have : ∀ l : Bytes, (∀ x ∈ l, x ≠ 10) → spanB (· != 10) l = (l, []) := by
      intro l hl
      induction l with
      | nil => rfl
      | cons x xs ih =>
        have hx : (x != 10) = true := by simpa using hl x (by simp)
        simp [spanB, hx, ih (fun y hy => hl y (by simp [hy]))]
    exact this _ (by
      intro x hx
      rcases List.mem_cons.mp hx with rfl | hx
      · decide
      · rcases List.mem_cons.mp hx with rfl | hx
        · decide
        · exact hc x hx)
  rw [h]

/-- trailing blanks, tabs and CRs are cut off the comment; nothing else is -/
theorem comment_trim (body : Bytes) (last : Nat) (h : (last == 32 || last == 9 || last == 13) = false) :
    trimRight (fun b => b == 32 || b == 9 || b == 13) (body ++ [last]) = body ++ [last] := by
  simp [trimRight, List.reverse_append, List.dropWhile, h]

/-- in the header state a comment yields exactly one comment token and the state is kept -/
theorem comment_token_header (p : Pos) (c r : Bytes) (hp : p.rest = 47 :: 47 :: c ++ 10 :: r) :
    stepHeader p = .tok (mkTok .comment (scanComment p.rest).1 p) .header (advance p (scanComment p.rest).1) := by
  unfold stepHeader
  rw [hp]
  simp [startsWith, emit]

/-- … and so it does inside the message text -/
theorem comment_token_text (ual : List Nat) (p : Pos) (c r : Bytes) (hp : p.rest = 47 :: 47 :: c ++ 10 :: r) :
    stepText ual p = .tok (mkTok .comment (scanComment p.rest).1 p) .text (advance p (scanComment p.rest).1) := by
  unfold stepText
  rw [hp]
  simp [startsWith, emit]

/-- one blank more before a token: the lexer skips it and only the position moves -/
theorem blank_skipped (m : Mode) (fuel : Nat) (p : Pos) (b : Nat) (r : Bytes) (hb : isBlank b = true)
    (hp : p.rest = b :: r) : skipWs m (fuel + 1) p = skipWs m fuel (advance p [b]) := by
  rw [skipWs, hp]
  simp [hb]

/-- classification and value of words go through the upper-case form only -/
theorem keyword_case (w w' : Bytes) (h : upper w = upper w') :
    (typeKeywords.contains (upper w) = typeKeywords.contains (upper w')) ∧
    (boolKeywords.contains (upper w) = boolKeywords.contains (upper w')) := by
  rw [h]; exact ⟨rfl, rfl⟩

theorem toUpper_idem (b : Nat) : toUpperB (toUpperB b) = toUpperB b := by
  unfold toUpperB isLowerB
  by_cases h : (decide (97 ≤ b) && decide (b ≤ 122)) = true
  · simp only [h, if_true]
    have : ¬ ((decide (97 ≤ b - 32) && decide (b - 32 ≤ 122)) = true) := by
      simp only [Bool.and_eq_true, decide_eq_true_eq] at h ⊢; omega
    rw [if_neg this]
  · simp [h]

theorem upper_idem (bs : Bytes) : upper (upper bs) = upper bs := by
  simp only [upper, List.map_map]
  apply List.map_congr_left
  intro b _
  exact toUpper_idem b

/-- the header tokens carry their upper-case text whatever case was written -/
theorem header_tokens_upper (p : Pos) (v : Bytes) (h : matchSF p.rest = some v)
    (hc : startsWith [47, 47] p.rest = false) (hne : p.rest ≠ []) :
    ∃ t m q, stepHeader p = .tok t m q ∧ t.kind = .streamFunction ∧ t.val = upper v := by
  unfold stepHeader
  cases hr : p.rest with
  | nil => exact absurd hr hne
  | cons b r =>
    rw [hr] at h hc
    simp only [hc, Bool.false_eq_true, if_false, h]
    exact ⟨_, _, _, rfl, rfl, rfl⟩

/-! ### whole texts: what the parser returns is independent of layout

`Outcome.content` is what a parse says apart from positions: the messages, the error texts and
the warning texts, in order. -/

def notComment (t : Tok) : Bool := t.kind != .comment

theorem parse_eq (ual : List Nat) (input : Bytes) :
    parse ual input = parseToks ((lexFrom ual .header input).filter notComment) := rfl

theorem filter_erase (l : List Tok) : (l.filter notComment).map eraseTok = (l.map eraseT).filter notComment := by
  induction l with
  | nil => rfl
  | cons t l ih =>
    simp only [List.filter_cons, List.map_cons]
    have : notComment (eraseT t) = notComment t := rfl
    rw [this]
    split
    · simp only [List.map_cons, ih]; rfl
    · exact ih

/-- token streams equal up to positions parse to the same content -/
theorem content_of_erased (t1 t2 : List Tok) (h : t1.map eraseT = t2.map eraseT) :
    (parseToks (t1.filter notComment)).content = (parseToks (t2.filter notComment)).content := by
  apply positions_irrelevant
  rw [filter_erase, filter_erase, h]

/-- … and also when they differ by comment tokens -/
theorem content_of_erased_modulo_comments (t1 t2 : List Tok)
    (h : (t1.map eraseT).filter notComment = (t2.map eraseT).filter notComment) :
    (parseToks (t1.filter notComment)).content = (parseToks (t2.filter notComment)).content := by
  apply positions_irrelevant
  rw [filter_erase, filter_erase, h]

/-- Any amount and kind of white space (blanks, tabs, CR, LF) in front of a text changes
nothing in what is parsed. -/
theorem leading_blanks_invisible (ual : List Nat) (ws y : Bytes) (hws : ∀ b ∈ ws, isBlank b = true) :
    (parse ual (ws ++ y)).content = (parse ual y).content := by
  rw [parse_eq, parse_eq]
  exact content_of_erased _ _ (blank_run_invisible ual .header ws y hws)

/-- A comment line with any bytes in front of a text changes nothing in what is parsed. -/
theorem leading_comment_invisible (ual : List Nat) (c y : Bytes) (hc : ∀ x ∈ c, x ≠ 10) :
    (parse ual (47 :: 47 :: c ++ 10 :: y)).content = (parse ual y).content := by
  rw [parse_eq, parse_eq]
  exact content_of_erased_modulo_comments _ _ (comment_invisible ual .header c y hc)

/-- the lexer, started in `(m, p)`, emits `ts` and stands in `(m', p')` -/
inductive Reach (ual : List Nat) : Mode → Pos → List Tok → Mode → Pos → Prop
  | refl (m : Mode) (p : Pos) : Reach ual m p [] m p
  | step {m m1 m' : Mode} {p p1 p' : Pos} {t : Tok} {ts : List Tok} :
      lexStep ual m p = .tok t m1 p1 → Reach ual m1 p1 ts m' p' → Reach ual m p (t :: ts) m' p'

theorem reach_stream (ual : List Nat) {m m' : Mode} {p p' : Pos} {ts : List Tok} (h : Reach ual m p ts m' p') :
    ∀ fuel, p.rest.length < fuel →
      (lexFuel ual fuel m p).map eraseT = ts.map eraseT ++ (lexFrom ual m' p'.rest).map eraseT := by
  induction h with
  | refl m p => intro fuel hf; simpa using lexFuel_eq_lexFrom ual m p fuel hf
  | step hs _ ih =>
    intro fuel hf
    cases fuel with
    | zero => omega
    | succ n =>
      rw [lexFuel, hs]
      have hd := lexStep_decreases ual _ _ _ _ _ hs
      simp only [List.map_cons, List.cons_append]
      rw [ih n (by omega)]

/-- **Layout invariance at a token boundary.** Two texts are lexed until the lexer looks for the
next token; so far they gave the same tokens (positions aside). From there one continues with a
run of white space, the other with another run, or with a comment line of any content, and
then both continue with the same text `y`. Then both parse to the same messages and the same
diagnostic texts. -/
theorem layout_invariance_at_boundary (ual : List Nat) (in1 in2 : Bytes) (ts1 ts2 : List Tok) (m : Mode)
    (p1 p2 : Pos)
    (r1 : Reach ual .header ⟨in1, 1, []⟩ ts1 m p1) (r2 : Reach ual .header ⟨in2, 1, []⟩ ts2 m p2)
    (hts : ts1.map eraseT = ts2.map eraseT)
    (h : ((lexFrom ual m p1.rest).map eraseT).filter notComment = ((lexFrom ual m p2.rest).map eraseT).filter notComment) :
    (parse ual in1).content = (parse ual in2).content := by
  rw [parse_eq, parse_eq]
  apply content_of_erased_modulo_comments
  unfold lexFrom
  rw [reach_stream ual r1 _ (by simp), reach_stream ual r2 _ (by simp), hts]
  simp only [List.filter_append, h]

/-- the two instances of the hypothesis `h` above -/
theorem boundary_blank_runs (ual : List Nat) (m : Mode) (ws ws' y : Bytes)
    (h : ∀ b ∈ ws, isBlank b = true) (h' : ∀ b ∈ ws', isBlank b = true) :
    ((lexFrom ual m (ws ++ y)).map eraseT).filter notComment = ((lexFrom ual m (ws' ++ y)).map eraseT).filter notComment := by
  rw [blank_runs_equivalent ual m ws ws' y h h']

theorem boundary_comment (ual : List Nat) (m : Mode) (ws c y : Bytes) (hws : ∀ b ∈ ws, isBlank b = true)
    (hc : ∀ x ∈ c, x ≠ 10) :
    ((lexFrom ual m (ws ++ (47 :: 47 :: c ++ 10 :: y))).map eraseT).filter notComment =
      ((lexFrom ual m (10 :: y)).map eraseT).filter notComment := by
  rw [blank_run_invisible ual m ws _ hws]
  have := comment_invisible ual m c y hc
  have e : ∀ l : List Tok, l.filter notComment = l.filter (fun t => t.kind != .comment) := fun _ => rfl
  rw [e, e, this]
  have hb := blank_run_invisible ual m [10] y (by simp [isBlank])
  rw [show [10] ++ y = 10 :: y by rfl] at hb
  rw [hb]

/-! ### edits between lines, anywhere in a text (lexer locality, Proofs/LexConcat) -/

/-- **An edit behind a line break.** `x` ends with a line break and is lexed (from mode `m`)
without a lexing error - the line break does not stand inside a size declaration. If two
continuations are lexed alike (comments aside) in whatever mode, then so are the whole texts. -/
theorem edit_behind_line_break (ual : List Nat) (m : Mode) (x y1 y2 : Bytes) (hx : EndsLF x)
    (hne : ∀ t ∈ (lexFrom ual m x).map eraseT, t.kind ≠ .error)
    (h : ∀ m', ((lexFrom ual m' y1).map eraseT).filter notComment = ((lexFrom ual m' y2).map eraseT).filter notComment) :
    ((lexFrom ual m (x ++ y1)).map eraseT).filter notComment = ((lexFrom ual m (x ++ y2)).map eraseT).filter notComment := by
  obtain ⟨ts1, a1, a2, _⟩ := lexFrom_concat ual y1 x.length x m (Nat.le_refl _) hx hne
  obtain ⟨ts2, b1, b2, _⟩ := lexFrom_concat ual y2 x.length x m (Nat.le_refl _) hx hne
  have : ts1 = ts2 := by
    rw [a1] at b1
    exact List.append_cancel_right b1
  subst this
  rw [a2, b2, List.filter_append, List.filter_append, h]

/-- a comment line with any bytes, put between any two lines of a text, changes nothing in what
is parsed (valid or not) -/
theorem comment_line_anywhere (ual : List Nat) (x c y : Bytes) (hx : EndsLF x)
    (hne : ∀ t ∈ (lexFrom ual .header x).map eraseT, t.kind ≠ .error) (hc : ∀ b ∈ c, b ≠ 10) :
    (parse ual (x ++ (47 :: 47 :: c ++ 10 :: y))).content = (parse ual (x ++ y)).content := by
  rw [parse_eq, parse_eq]
  apply content_of_erased_modulo_comments
  exact edit_behind_line_break ual .header x _ _ hx hne (fun m' => comment_invisible ual m' c y hc)

/-- the white space at the start of any line - indentation, blank lines, a CR - can be replaced by
any other run of blanks, tabs, CRs and line breaks without changing what is parsed -/
theorem blank_run_at_line_start (ual : List Nat) (x ws ws' y : Bytes) (hx : EndsLF x)
    (hne : ∀ t ∈ (lexFrom ual .header x).map eraseT, t.kind ≠ .error)
    (h : ∀ b ∈ ws, isBlank b = true) (h' : ∀ b ∈ ws', isBlank b = true) :
    (parse ual (x ++ (ws ++ y))).content = (parse ual (x ++ (ws' ++ y))).content := by
  rw [parse_eq, parse_eq]
  apply content_of_erased_modulo_comments
  exact edit_behind_line_break ual .header x _ _ hx hne (fun m' => by rw [blank_runs_equivalent ual m' ws ws' y h h'])


/-! ### white space between two tokens of a line, a comment behind the last token of a line
(lexer locality in front of any blank, Proofs/LexBlank, LexBlankConcat) -/

/-- **White space between two tokens, anywhere in a text.** `u` is the text up to a point where
white space stands; cut off there by a line break it is lexed without a lexing error (the point is
not inside a string or a size declaration), and no comment is open at its end. Then the white
space that follows - any non-empty run of blanks, tabs, CRs and line breaks - can be replaced by
any other non-empty run without changing what is parsed, whatever comes after it, valid or not. -/
theorem blank_runs_between_tokens (ual : List Nat) (u : Bytes) (w1 w2 : Nat) (s1 s2 v : Bytes)
    (hw1 : isBlank w1 = true) (hw2 : isBlank w2 = true)
    (hs1 : ∀ b ∈ s1, isBlank b = true) (hs2 : ∀ b ∈ s2, isBlank b = true)
    (hne : ∀ t ∈ (lexFrom ual .header (u ++ [10])).map eraseT, t.kind ≠ .error)
    (hC : ∀ s, s <:+ u → startsWith [47, 47] s = true → 10 ∈ s) :
    (parse ual (u ++ w1 :: (s1 ++ v))).content = (parse ual (u ++ w2 :: (s2 ++ v))).content := by
  rw [parse_eq, parse_eq]
  apply content_of_erased_modulo_comments
  obtain ⟨ts1, a1, a2, _⟩ := lexFrom_blank ual (s1 ++ v) w1 hw1 u.length u .header (Nat.le_refl _) hne (Or.inr hC)
  obtain ⟨ts2, b1, b2, _⟩ := lexFrom_blank ual (s2 ++ v) w2 hw2 u.length u .header (Nat.le_refl _) hne (Or.inr hC)
  have : ts1 = ts2 := by
    rw [a1] at b1
    exact List.append_cancel_right b1
  subst this
  have e1 : lexFrom ual .header (u ++ w1 :: (s1 ++ v)) = lexFuel ual ((u ++ w1 :: (s1 ++ v)).length + 1) .header ⟨u ++ w1 :: (s1 ++ v), 1, []⟩ := rfl
  have e2 : lexFrom ual .header (u ++ w2 :: (s2 ++ v)) = lexFuel ual ((u ++ w2 :: (s2 ++ v)).length + 1) .header ⟨u ++ w2 :: (s2 ++ v), 1, []⟩ := rfl
  show ((lexFrom ual .header (u ++ w1 :: (s1 ++ v))).map eraseT).filter notComment = ((lexFrom ual .header (u ++ w2 :: (s2 ++ v))).map eraseT).filter notComment
  rw [a2, b2, blank_runs_equivalent ual _ s1 s2 v hs1 hs2]

/-- **A comment behind the last token of a line.** Under the same conditions a comment with any
bytes can be put at the end of the line, behind a blank: the line `… <blank>//…` parses like the
line without it. -/
theorem comment_at_line_end (ual : List Nat) (u : Bytes) (w : Nat) (c v : Bytes) (hw : isBlank w = true)
    (hc : ∀ b ∈ c, b ≠ 10)
    (hne : ∀ t ∈ (lexFrom ual .header (u ++ [10])).map eraseT, t.kind ≠ .error)
    (hC : ∀ s, s <:+ u → startsWith [47, 47] s = true → 10 ∈ s) :
    (parse ual (u ++ w :: (47 :: 47 :: c ++ 10 :: v))).content = (parse ual (u ++ 10 :: v)).content := by
  rw [parse_eq, parse_eq]
  apply content_of_erased_modulo_comments
  obtain ⟨ts1, a1, a2, _⟩ := lexFrom_blank ual (47 :: 47 :: c ++ 10 :: v) w hw u.length u .header (Nat.le_refl _) hne (Or.inr hC)
  obtain ⟨ts2, b1, b2, _⟩ := lexFrom_blank ual v 10 (by decide) u.length u .header (Nat.le_refl _) hne (Or.inl rfl)
  have : ts1 = ts2 := by
    rw [a1] at b1
    exact List.append_cancel_right b1
  subst this
  show ((lexFrom ual .header (u ++ w :: (47 :: 47 :: c ++ 10 :: v))).map eraseT).filter notComment = ((lexFrom ual .header (u ++ 10 :: v)).map eraseT).filter notComment
  rw [a2, b2, List.filter_append, List.filter_append]
  congr 1
  exact comment_invisible ual _ c v hc

/-! non-vacuity (tests): a text up to the blank behind a size declaration, a string with blanks
and a hexadecimal literal meets the hypotheses of the two theorems above -/
def sampleUpTo : Bytes := str "s1f1 w // c\n<l [2] <a \"x y\"> <u1 0x1f>"
example : ∀ t ∈ (lexFrom [] .header (sampleUpTo ++ [10])).map eraseT, t.kind ≠ .error := by decide +kernel

/-! ### tie to the source: what the two main states skip, and the comment trimming set -/
theorem facts_whitespace :
    Generated.lexHeaderRuneCases = [[32, 9, 13, 10]] ∧ Generated.lexTextRuneCases = [[32, 9, 13, 10]] := by decide

/-! ### non-vacuity (tests): a comment ending in the UTF-8 bytes of "à" (… 0xA0), in \v, in NEL -/
example : (lexAll [] (str "S1F1 W // voil\xc3\xa0\n.")).map (·.kind) = [.streamFunction, .waitBit, .comment, .msgEnd, .eof] := by
  decide +kernel
example : ((lexAll [] (str "S1F1 <A \"x\"> // 100% \x0b\n.")).filter (·.kind != .comment)).map (·.kind)
    = ((lexAll [] (str "S1F1 <A \"x\">\n.")).map (·.kind)) := by decide +kernel


/-! ### letter case inside integer literals -/

/-- **the value of an integer literal does not depend on letter case**: two spellings that differ
only in the case of letters (`0x1f`, `0X1F`, `0X1f`; `0b101`, `0B101`; `0o17`, `0O17`) are read by
`ParseInt` and `ParseUint` to the same value with the same error, for every base argument and
every width - the reading of I*, U*, B items and of character codes in A items. (That the lexer
takes the same characters as one number token in either case is decided by the metamorphic oracle.) -/
theorem integer_literal_case (s1 s2 : Bytes) (h : s1.map Strconv.lowerB = s2.map Strconv.lowerB) (base bits : Nat) :
    Strconv.parseInt s1 base bits = Strconv.parseInt s2 base bits ∧
    Strconv.parseUint s1 base bits = Strconv.parseUint s2 base bits :=
  ⟨Strconv.parseInt_same_lower s1 s2 h base bits, Strconv.parseUint_same_lower s1 s2 h base bits⟩

/-- non-vacuity (a test): `0X1F` and `0x1f` -/
example : (str "0X1F").map Strconv.lowerB = (str "0x1f").map Strconv.lowerB ∧
    (Strconv.parseUint (str "0X1F") 0 8).val = 31 := by decide +kernel

end Secs.C08
