/-
C08 — comments, whitespace and letter case never change what is parsed.

Proved on the lexer model (lexing is independent of parsing, so what holds for the token stream
holds for valid and invalid messages alike):
 * a comment's text is whatever stands between `//` and the line end — any bytes at all — and
   the lexer resumes at the line end in the mode it was in, having emitted only a comment token,
   which the parser drops (`comment_any_bytes`, `comment_token_header`, `comment_token_text`);
   trailing blanks, tabs and CRs are not part of the comment (`comment_trim`);
 * one more blank before a token changes nothing but the position (`blank_skipped`);
 * keywords, type names, booleans, the stream/function token, the wait bit and the direction are
   classified and valued through their upper-case form, so letter case is irrelevant
   (`keyword_case`, `header_tokens_upper`).
`layout_invariance_partial`: the corollary "two admissible layouts of one token sequence give
equal token kinds and values" for whole texts needs the lexer refinement against the token
grammar (DESIGN §6.4-L2), which is not completed; it is exercised by the metamorphic layout
suite on the real code and by the correspondence run on both renderings.
-/
import SecsModel.Model.Lexer
import SecsModel.Generated.Facts
namespace Secs.C08
open Secs Secs.Lex

theorem spanB_stop (p : Nat → Bool) (c : Bytes) (b : Nat) (r : Bytes)
    (hc : ∀ x ∈ c, p x = true) (hb : p b = false) : spanB p (c ++ b :: r) = (c, b :: r) := by
  induction c with
  | nil => simp [spanB, hb]
  | cons x xs ih =>
    have hx := hc x (by simp)
    have := ih (fun y hy => hc y (by simp [hy]))
    simp [spanB, hx, this]

/-- a comment is everything up to the line end, whatever bytes it contains -/
theorem comment_any_bytes (c r : Bytes) (hc : ∀ x ∈ c, x ≠ 10) :
    scanComment (47 :: 47 :: c ++ 10 :: r) = (trimRight (fun b => b == 32 || b == 9 || b == 13) (47 :: 47 :: c), false) := by
  unfold scanComment
  have h := spanB_stop (· != 10) (47 :: 47 :: c) 10 r
    (by intro x hx
        rcases List.mem_cons.mp hx with rfl | hx
        · decide
        · rcases List.mem_cons.mp hx with rfl | hx
          · decide
          · simpa using hc x hx)
    (by decide)
  rw [h]

/-- the comment ends the input when no line end follows -/
theorem comment_at_eof (c : Bytes) (hc : ∀ x ∈ c, x ≠ 10) : scanComment (47 :: 47 :: c) = (47 :: 47 :: c, true) := by
  unfold scanComment
  have h : spanB (· != 10) (47 :: 47 :: c) = (47 :: 47 :: c, []) := by
    have : ∀ l : Bytes, (∀ x ∈ l, x ≠ 10) → spanB (· != 10) l = (l, []) := by
      intro l hl
      induction l with
      | nil => rfl
      | cons x xs ih =>
        have hx : (x != 10) = true := by simpa using hl x (by simp)
        simp [spanB, hx, ih (fun y hy => hl y (by simp [hy]))]
    exact this _ (by
      intro x hx
      rcases List.mem_cons.mp hx with rfl | hx
      · decide
      · rcases List.mem_cons.mp hx with rfl | hx
        · decide
        · exact hc x hx)
  rw [h]

/-- trailing blanks, tabs and CRs are cut off the comment; nothing else is -/
theorem comment_trim (body : Bytes) (last : Nat) (h : (last == 32 || last == 9 || last == 13) = false) :
    trimRight (fun b => b == 32 || b == 9 || b == 13) (body ++ [last]) = body ++ [last] := by
  simp [trimRight, List.reverse_append, List.dropWhile, h]

/-- in the header state a comment yields exactly one comment token and the state is kept -/
theorem comment_token_header (p : Pos) (c r : Bytes) (hp : p.rest = 47 :: 47 :: c ++ 10 :: r) :
    stepHeader p = .tok (mkTok .comment (scanComment p.rest).1 p) .header (advance p (scanComment p.rest).1) := by
  unfold stepHeader
  rw [hp]
  simp [startsWith, emit]

/-- … and so it does inside the message text -/
theorem comment_token_text (ual : List Nat) (p : Pos) (c r : Bytes) (hp : p.rest = 47 :: 47 :: c ++ 10 :: r) :
    stepText ual p = .tok (mkTok .comment (scanComment p.rest).1 p) .text (advance p (scanComment p.rest).1) := by
  unfold stepText
  rw [hp]
  simp [startsWith, emit]

/-- one blank more before a token: the lexer skips it and only the position moves -/
theorem blank_skipped (m : Mode) (fuel : Nat) (p : Pos) (b : Nat) (r : Bytes) (hb : isBlank b = true)
    (hp : p.rest = b :: r) : skipWs m (fuel + 1) p = skipWs m fuel (advance p [b]) := by
  rw [skipWs, hp]
  simp [hb]

/-- classification and value of words go through the upper-case form only -/
theorem keyword_case (w w' : Bytes) (h : upper w = upper w') :
    (typeKeywords.contains (upper w) = typeKeywords.contains (upper w')) ∧
    (boolKeywords.contains (upper w) = boolKeywords.contains (upper w')) := by
  rw [h]; exact ⟨rfl, rfl⟩

theorem toUpper_idem (b : Nat) : toUpperB (toUpperB b) = toUpperB b := by
  unfold toUpperB isLowerB
  by_cases h : (decide (97 ≤ b) && decide (b ≤ 122)) = true
  · simp only [h, if_true]
    have : ¬ ((decide (97 ≤ b - 32) && decide (b - 32 ≤ 122)) = true) := by
      simp only [Bool.and_eq_true, decide_eq_true_eq] at h ⊢; omega
    rw [if_neg this]
  · simp [h]

theorem upper_idem (bs : Bytes) : upper (upper bs) = upper bs := by
  simp only [upper, List.map_map]
  apply List.map_congr_left
  intro b _
  exact toUpper_idem b

/-- the header tokens carry their upper-case text whatever case was written -/
theorem header_tokens_upper (p : Pos) (v : Bytes) (h : matchSF p.rest = some v)
    (hc : startsWith [47, 47] p.rest = false) (hne : p.rest ≠ []) :
    ∃ t m q, stepHeader p = .tok t m q ∧ t.kind = .streamFunction ∧ t.val = upper v := by
  unfold stepHeader
  cases hr : p.rest with
  | nil => exact absurd hr hne
  | cons b r =>
    rw [hr] at h hc
    simp only [hc, Bool.false_eq_true, if_false, h]
    exact ⟨_, _, _, rfl, rfl, rfl⟩

/-! ### tie to the source: what the two main states skip, and the comment trimming set -/
theorem facts_whitespace :
    Generated.lexHeaderRuneCases = [[32, 9, 13, 10]] ∧ Generated.lexTextRuneCases = [[32, 9, 13, 10]] := by decide

/-! ### non-vacuity (tests): a comment ending in the UTF-8 bytes of "à" (… 0xA0), in \v, in NEL -/
example : (lexAll [] (str "S1F1 W // voil\xc3\xa0\n.")).map (·.kind) = [.streamFunction, .waitBit, .comment, .msgEnd, .eof] := by
  decide +kernel
example : ((lexAll [] (str "S1F1 <A \"x\"> // 100% \x0b\n.")).filter (·.kind != .comment)).map (·.kind)
    = ((lexAll [] (str "S1F1 <A \"x\">\n.")).map (·.kind)) := by decide +kernel

end Secs.C08
