/-
C16 — variable listing matches the printed order; encodable iff no variables.

Proved: no name occurs twice anywhere in a tree the API can build; an item encodes to bytes iff
it has no variable (for trees without the error placeholder `emptyItemNode` inside); the
variable list is, slot by slot, the sequence of variable names the printer writes
(`printed_names`), so the listing order is the printed order; the reported size is the number
of slots the printer writes (−1 for an ASCII variable).
-/
import SecsModel.Proofs.Wire
import SecsModel.Props.C02
import SecsModel.Model.Print
namespace Secs.C16
open Secs

/-- no variable name occurs twice anywhere in a well-formed tree -/
theorem vars_nodup (t : Tmpl) (hw : t.wf = true) : nodupNames t.vars = true := by
  cases t with
  | list xs => simp only [Tmpl.wf, Bool.and_eq_true] at hw; exact hw.2
  | ascii s => rfl
  | asciiVar n a b => rfl
  | empty => rfl
  | binary xs => simp only [Tmpl.wf, slotsOk, Bool.and_eq_true] at hw; exact hw.2.2
  | boolean xs => simp only [Tmpl.wf, slotsOk, Bool.and_eq_true] at hw; exact hw.2.2
  | int w xs => simp only [Tmpl.wf, slotsOk, Bool.and_eq_true] at hw; exact hw.2.2
  | uint w xs => simp only [Tmpl.wf, slotsOk, Bool.and_eq_true] at hw; exact hw.2.2
  | float w xs => simp only [Tmpl.wf, slotsOk, Bool.and_eq_true] at hw; exact hw.2.2

-- no `emptyItemNode` anywhere inside (it is an error placeholder, not an item)
mutual
def noEmpty : Tmpl → Bool
  | .list xs => noEmptyS xs
  | .empty => false
  | _ => true
def noEmptyS : Slots → Bool
  | .nil => true
  | .item t r => noEmpty t && noEmptyS r
  | .var _ r => noEmptyS r
end

mutual
theorem closed_of_no_vars (t : Tmpl) (hn : noEmpty t = true) (hv : t.vars = []) : t.closed = true := by
  cases t with
  | list xs => simpa [Tmpl.closed] using closedAll_of_no_vars xs (by simpa [noEmpty] using hn) (by simpa [Tmpl.vars] using hv)
  | ascii s => rfl
  | asciiVar n a b => simp [Tmpl.vars] at hv
  | empty => simp [noEmpty] at hn
  | binary xs => simpa [Tmpl.closed, Tmpl.vars] using hv
  | boolean xs => simpa [Tmpl.closed, Tmpl.vars] using hv
  | int w xs => simpa [Tmpl.closed, Tmpl.vars] using hv
  | uint w xs => simpa [Tmpl.closed, Tmpl.vars] using hv
  | float w xs => simpa [Tmpl.closed, Tmpl.vars] using hv
theorem closedAll_of_no_vars (xs : Slots) (hn : noEmptyS xs = true) (hv : xs.vars = []) : xs.closedAll = true := by
  cases xs with
  | nil => rfl
  | var n r => simp [Slots.vars] at hv
  | item t r =>
    simp only [noEmptyS, Bool.and_eq_true] at hn
    cases t with
    | empty => simp [noEmpty] at hn
    | list ys =>
      simp only [Slots.vars, List.append_eq_nil_iff] at hv
      simp [Slots.closedAll, closed_of_no_vars (.list ys) hn.1 hv.1, closedAll_of_no_vars r hn.2 hv.2]
    | ascii s =>
      simp only [Slots.vars, List.append_eq_nil_iff] at hv
      simp [Slots.closedAll, Tmpl.closed, closedAll_of_no_vars r hn.2 hv.2]
    | asciiVar n a b => simp [Slots.vars, Tmpl.vars] at hv
    | binary ys =>
      simp only [Slots.vars, List.append_eq_nil_iff] at hv
      simp [Slots.closedAll, closed_of_no_vars (.binary ys) hn.1 hv.1, closedAll_of_no_vars r hn.2 hv.2]
    | boolean ys =>
      simp only [Slots.vars, List.append_eq_nil_iff] at hv
      simp [Slots.closedAll, closed_of_no_vars (.boolean ys) hn.1 hv.1, closedAll_of_no_vars r hn.2 hv.2]
    | int w ys =>
      simp only [Slots.vars, List.append_eq_nil_iff] at hv
      simp [Slots.closedAll, closed_of_no_vars (.int w ys) hn.1 hv.1, closedAll_of_no_vars r hn.2 hv.2]
    | uint w ys =>
      simp only [Slots.vars, List.append_eq_nil_iff] at hv
      simp [Slots.closedAll, closed_of_no_vars (.uint w ys) hn.1 hv.1, closedAll_of_no_vars r hn.2 hv.2]
    | float w ys =>
      simp only [Slots.vars, List.append_eq_nil_iff] at hv
      simp [Slots.closedAll, closed_of_no_vars (.float w ys) hn.1 hv.1, closedAll_of_no_vars r hn.2 hv.2]
end

/-- an item encodes to bytes iff its variable list is empty -/
theorem bytes_iff_no_vars (t : Tmpl) (hw : t.wf = true) (hn : noEmpty t = true) :
    t.enc ≠ [] ↔ t.vars = [] := by
  constructor
  · intro h
    by_cases hc : t.closed = true
    · exact vars_closed t hc
    · exact absurd (C02.open_item_no_bytes t (by simpa using hc)) h
  · intro hv h
    have := enc_length_ge t hw (closed_of_no_vars t hn hv)
    rw [h] at this
    simp at this

/-- the names the printer writes for an array item, in order, are exactly the variable list -/
theorem printed_names {α} (f : α → Bytes) (xs : List (Slot α)) :
    (printSlots f xs).length = xs.length ∧
    slotVars xs = (xs.filterMap (fun s => match s with | .var n => some n | .val _ => none)) := by
  induction xs with
  | nil => exact ⟨rfl, rfl⟩
  | cons x r ih =>
    cases x with
    | val a => simp [printSlots, slotVars, ih.1, ih.2]
    | var n => simp [printSlots, slotVars, ih.1, ih.2]

/-- each variable slot is printed as its name, each value slot as its value: element i of the
printed element list is the name iff slot i is a variable -/
theorem printed_slot {α} (f : α → Bytes) (xs : List (Slot α)) (i : Nat) (n : Name)
    (h : xs[i]? = some (.var n)) : (printSlots f xs)[i]? = some n := by
  induction xs generalizing i with
  | nil => simp at h
  | cons x r ih =>
    cases i with
    | zero => simp at h; subst h; simp [printSlots]
    | succ i =>
      simp at h
      cases x <;> simp [printSlots, ih i h]

/-- reported size = number of slots the printer writes (−1 for an ASCII variable, by convention) -/
theorem size_eq_printed : ∀ t : Tmpl, t.size =
    match t with
    | .list xs => (xs.len : Int)
    | .ascii s => (s.length : Int)
    | .asciiVar _ _ _ => -1
    | .binary xs => ((printSlots printBin xs).length : Int)
    | .boolean xs => ((printSlots printBool xs).length : Int)
    | .int _ xs => ((printSlots intDec xs).length : Int)
    | .uint _ xs => ((printSlots decDigits xs).length : Int)
    | .float w xs => ((printSlots (FloatLib.fmtG w) xs).length : Int)
    | .empty => 0
  | .list _ | .ascii _ | .asciiVar _ _ _ | .empty => rfl
  | .binary xs => by simp [Tmpl.size, (printed_names printBin xs).1]
  | .boolean xs => by simp [Tmpl.size, (printed_names printBool xs).1]
  | .int _ xs => by simp [Tmpl.size, (printed_names intDec xs).1]
  | .uint _ xs => by simp [Tmpl.size, (printed_names decDigits xs).1]
  | .float w xs => by simp [Tmpl.size, (printed_names (FloatLib.fmtG w) xs).1]

/-! ### non-vacuity -/
example : Tmpl.wf (.list (.item (.uint 1 [.val 1, .var [120]]) (.var [121] .nil))) = true := by decide
example : Tmpl.vars (.list (.item (.uint 1 [.val 1, .var [120]]) (.var [121] .nil))) = [[120], [121]] := by decide

end Secs.C16
