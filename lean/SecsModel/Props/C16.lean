/-
C16 — variable listing matches the printed order; encodable iff no variables.

Proved: no name occurs twice anywhere in a tree the API can build - for EVERY history of factory
calls and fills (`Reach`, `reachable_well_formed`, `reachable_names_unique`: well-formedness is an
invariant of every factory and of FillVariables, ellipsis expansion at any nesting depth included),
and in every message `sml.Parse` returns, for every input text (`parsed_well_formed`,
`parsed_names_unique`: the parser builds items through the factories only), and every item the
HSMS decoder returns is well formed, variable-free and lists no variable (`decoded_well_formed`); an item encodes to bytes iff
it has no variable (for trees without the error placeholder `emptyItemNode` inside); the
variable list is, slot by slot, the sequence of variable names the printer writes
(`printed_names`), so the listing order is the printed order; the reported size is the number
of slots the printer writes (−1 for an ASCII variable).
-/
import SecsModel.Proofs.Wire
import SecsModel.Props.C02
import SecsModel.Props.C12
import SecsModel.Model.Print
import SecsModel.Proofs.FillWF
import SecsModel.Proofs.ParserWF
import SecsModel.Proofs.DecodeWF
namespace Secs.C16
open Secs

/-- no variable name occurs twice anywhere in a well-formed tree -/
theorem vars_nodup (t : Tmpl) (hw : t.wf = true) : nodupNames t.vars = true := by
  cases t with
  | list xs => simp only [Tmpl.wf, Bool.and_eq_true] at hw; exact hw.2
  | ascii s => rfl
  | asciiVar n a b => rfl
  | empty => rfl
  | binary xs => simp only [Tmpl.wf, slotsOk, Bool.and_eq_true] at hw; exact hw.2.2
  | boolean xs => simp only [Tmpl.wf, slotsOk, Bool.and_eq_true] at hw; exact hw.2.2
  | int w xs => simp only [Tmpl.wf, slotsOk, Bool.and_eq_true] at hw; exact hw.2.2
  | uint w xs => simp only [Tmpl.wf, slotsOk, Bool.and_eq_true] at hw; exact hw.2.2
  | float w xs => simp only [Tmpl.wf, slotsOk, Bool.and_eq_true] at hw; exact hw.2.2

-- no `emptyItemNode` anywhere inside (it is an error placeholder, not an item)
mutual
def noEmpty : Tmpl → Bool
  | .list xs => noEmptyS xs
  | .empty => false
  | _ => true
def noEmptyS : Slots → Bool
  | .nil => true
  | .item t r => noEmpty t && noEmptyS r
  | .var _ r => noEmptyS r
end

mutual
theorem closed_of_no_vars (t : Tmpl) (hn : noEmpty t = true) (hv : t.vars = []) : t.closed = true := by
  cases t with
  | list xs => simpa [Tmpl.closed] using closedAll_of_no_vars xs (by simpa [noEmpty] using hn) (by simpa [Tmpl.vars] using hv)
  | ascii s => rfl
  | asciiVar n a b => simp [Tmpl.vars] at hv
  | empty => simp [noEmpty] at hn
  | binary xs => simpa [Tmpl.closed, Tmpl.vars] using hv
  | boolean xs => simpa [Tmpl.closed, Tmpl.vars] using hv
  | int w xs => simpa [Tmpl.closed, Tmpl.vars] using hv
  | uint w xs => simpa [Tmpl.closed, Tmpl.vars] using hv
  | float w xs => simpa [Tmpl.closed, Tmpl.vars] using hv
theorem closedAll_of_no_vars (xs : Slots) (hn : noEmptyS xs = true) (hv : xs.vars = []) : xs.closedAll = true := by
  cases xs with
  | nil => rfl
  | var n r => simp [Slots.vars] at hv
  | item t r =>
    simp only [noEmptyS, Bool.and_eq_true] at hn
    cases t with
    | empty => simp [noEmpty] at hn
    | list ys =>
      simp only [Slots.vars, List.append_eq_nil_iff] at hv
      simp [Slots.closedAll, closed_of_no_vars (.list ys) hn.1 hv.1, closedAll_of_no_vars r hn.2 hv.2]
    | ascii s =>
      simp only [Slots.vars, List.append_eq_nil_iff] at hv
      simp [Slots.closedAll, Tmpl.closed, closedAll_of_no_vars r hn.2 hv.2]
    | asciiVar n a b => simp [Slots.vars, Tmpl.vars] at hv
    | binary ys =>
      simp only [Slots.vars, List.append_eq_nil_iff] at hv
      simp [Slots.closedAll, closed_of_no_vars (.binary ys) hn.1 hv.1, closedAll_of_no_vars r hn.2 hv.2]
    | boolean ys =>
      simp only [Slots.vars, List.append_eq_nil_iff] at hv
      simp [Slots.closedAll, closed_of_no_vars (.boolean ys) hn.1 hv.1, closedAll_of_no_vars r hn.2 hv.2]
    | int w ys =>
      simp only [Slots.vars, List.append_eq_nil_iff] at hv
      simp [Slots.closedAll, closed_of_no_vars (.int w ys) hn.1 hv.1, closedAll_of_no_vars r hn.2 hv.2]
    | uint w ys =>
      simp only [Slots.vars, List.append_eq_nil_iff] at hv
      simp [Slots.closedAll, closed_of_no_vars (.uint w ys) hn.1 hv.1, closedAll_of_no_vars r hn.2 hv.2]
    | float w ys =>
      simp only [Slots.vars, List.append_eq_nil_iff] at hv
      simp [Slots.closedAll, closed_of_no_vars (.float w ys) hn.1 hv.1, closedAll_of_no_vars r hn.2 hv.2]
end

/-- an item encodes to bytes iff its variable list is empty -/
theorem bytes_iff_no_vars (t : Tmpl) (hw : t.wf = true) (hn : noEmpty t = true) :
    t.enc ≠ [] ↔ t.vars = [] := by
  constructor
  · intro h
    by_cases hc : t.closed = true
    · exact vars_closed t hc
    · exact absurd (C02.open_item_no_bytes t (by simpa using hc)) h
  · intro hv h
    have := enc_length_ge t hw (closed_of_no_vars t hn hv)
    rw [h] at this
    simp at this

/-- the names the printer writes for an array item, in order, are exactly the variable list -/
theorem printed_names {α} (f : α → Bytes) (xs : List (Slot α)) :
    (printSlots f xs).length = xs.length ∧
    slotVars xs = (xs.filterMap (fun s => match s with | .var n => some n | .val _ => none)) := by
  induction xs with
  | nil => exact ⟨rfl, rfl⟩
  | cons x r ih =>
    cases x with
    | val a => simp [printSlots, slotVars, ih.1, ih.2]
    | var n => simp [printSlots, slotVars, ih.1, ih.2]

/-- each variable slot is printed as its name, each value slot as its value: element i of the
printed element list is the name iff slot i is a variable -/
theorem printed_slot {α} (f : α → Bytes) (xs : List (Slot α)) (i : Nat) (n : Name)
    (h : xs[i]? = some (.var n)) : (printSlots f xs)[i]? = some n := by
  induction xs generalizing i with
  | nil => simp at h
  | cons x r ih =>
    cases i with
    | zero => simp at h; subst h; simp [printSlots]
    | succ i =>
      simp at h
      cases x <;> simp [printSlots, ih i h]

/-- reported size = number of slots the printer writes (−1 for an ASCII variable, by convention) -/
theorem size_eq_printed : ∀ t : Tmpl, t.size =
    match t with
    | .list xs => (xs.len : Int)
    | .ascii s => (s.length : Int)
    | .asciiVar _ _ _ => -1
    | .binary xs => ((printSlots printBin xs).length : Int)
    | .boolean xs => ((printSlots printBool xs).length : Int)
    | .int _ xs => ((printSlots intDec xs).length : Int)
    | .uint _ xs => ((printSlots decDigits xs).length : Int)
    | .float w xs => ((printSlots (FloatLib.fmtG w) xs).length : Int)
    | .empty => 0
  | .list _ | .ascii _ | .asciiVar _ _ _ | .empty => rfl
  | .binary xs => by simp [Tmpl.size, (printed_names printBin xs).1]
  | .boolean xs => by simp [Tmpl.size, (printed_names printBool xs).1]
  | .int _ xs => by simp [Tmpl.size, (printed_names intDec xs).1]
  | .uint _ xs => by simp [Tmpl.size, (printed_names decDigits xs).1]
  | .float w xs => by simp [Tmpl.size, (printed_names (FloatLib.fmtG w) xs).1]

/-! ### the whole tree: the variable list occurs, in order, in the printed form -/

-- no array item and no ASCII variable carries an ellipsis name (guaranteed by the factories)
mutual
def leafNamesPlain : Tmpl → Bool
  | .list xs => leafNamesPlainS xs
  | .asciiVar n _ _ => !isEllipsis n
  | .binary xs => (slotVars xs).all (fun n => !isEllipsis n)
  | .boolean xs => (slotVars xs).all (fun n => !isEllipsis n)
  | .int _ xs => (slotVars xs).all (fun n => !isEllipsis n)
  | .uint _ xs => (slotVars xs).all (fun n => !isEllipsis n)
  | .float _ xs => (slotVars xs).all (fun n => !isEllipsis n)
  | _ => true
def leafNamesPlainS : Slots → Bool
  | .nil => true
  | .item t r => leafNamesPlain t && leafNamesPlainS r
  | .var _ r => leafNamesPlainS r
end

/-- the names occur in the text in this order, one after the other (disjoint occurrences) -/
inductive Occurs : List Bytes → Bytes → Prop
  | nil (text : Bytes) : Occurs [] text
  | cons (n : Bytes) (ns : List Bytes) (pre rest : Bytes) : Occurs ns rest → Occurs (n :: ns) (pre ++ n ++ rest)

theorem Occurs.prepend {ns : List Bytes} {text : Bytes} (pre : Bytes) (h : Occurs ns text) : Occurs ns (pre ++ text) := by
  cases h with
  | nil => exact .nil _
  | cons n ns p rest hr =>
    have : pre ++ (p ++ n ++ rest) = (pre ++ p) ++ n ++ rest := by simp
    rw [this]; exact .cons n ns _ rest hr

theorem Occurs.extend {ns : List Bytes} {text : Bytes} (suf : Bytes) (h : Occurs ns text) : Occurs ns (text ++ suf) := by
  induction h with
  | nil => exact .nil _
  | cons n ns p rest _ ih =>
    have : p ++ n ++ rest ++ suf = p ++ n ++ (rest ++ suf) := by simp
    rw [this]; exact .cons n ns p _ ih

theorem Occurs.append {a b : List Bytes} {x y : Bytes} (ha : Occurs a x) (hb : Occurs b y) : Occurs (a ++ b) (x ++ y) := by
  induction ha with
  | nil text => exact hb.prepend text
  | cons n ns p rest _ ih =>
    have : p ++ n ++ rest ++ y = p ++ n ++ (rest ++ y) := by simp
    rw [this]; exact .cons n _ p _ ih

/-- how a variable name is written: an ellipsis as `...`, any other name as it is -/
def shown (n : Name) : Bytes := if isEllipsis n then str "..." else n

theorem occurs_slots {α} (f : α → Bytes) (xs : List (Slot α)) :
    Occurs (slotVars xs) (joinSp (printSlots f xs)) := by
  induction xs with
  | nil => exact .nil _
  | cons x r ih =>
    cases x with
    | val a =>
      cases hr : printSlots f r with
      | nil =>
        have : slotVars r = [] := by
          cases r with
          | nil => rfl
          | cons y ys => cases y <;> simp [printSlots] at hr
        simp only [slotVars, this]
        exact .nil _
      | cons y ys =>
        simp only [printSlots, slotVars, hr, joinSp]
        rw [hr] at ih
        have : f a ++ 32 :: joinSp (y :: ys) = (f a ++ [32]) ++ joinSp (y :: ys) := by simp
        rw [this]
        exact ih.prepend _
    | var n =>
      cases hr : printSlots f r with
      | nil =>
        have : slotVars r = [] := by
          cases r with
          | nil => rfl
          | cons y ys => cases y <;> simp [printSlots] at hr
        simp only [printSlots, slotVars, hr, joinSp, this]
        have h := Occurs.cons n [] [] [] (.nil _)
        simpa using h
      | cons y ys =>
        simp only [printSlots, slotVars, hr, joinSp]
        rw [hr] at ih
        have h := Occurs.cons n _ [] (32 :: joinSp (y :: ys)) (ih.prepend [32])
        simpa using h

theorem occurs_array {α} (ty : Bytes) (f : α → Bytes) (xs : List (Slot α)) :
    Occurs (slotVars xs) (printArray ty f xs) := by
  unfold printArray
  split
  · rename_i h
    have : xs = [] := by simpa using h
    subst this
    exact .nil _
  · exact ((occurs_slots f xs).prepend _).extend _

/-- names of array items and ASCII variables are never ellipses (only a list's own slot can be) -/
theorem shown_of_not_ellipsis (n : Name) (h : isEllipsis n = false) : shown n = n := by simp [shown, h]

theorem map_shown_plain (ns : List Name) (h : ns.all (fun n => !isEllipsis n) = true) : ns.map shown = ns := by
  induction ns with
  | nil => rfl
  | cons n r ih =>
    simp only [List.all_cons, Bool.and_eq_true, Bool.not_eq_true'] at h
    simp [shown, h.1, ih h.2]

mutual
/-- **Printed order.** For every tree, the variable list — every name once (`vars_nodup`), an
ellipsis written as `...` — occurs in this order in the printed form. Stated for the trees in
which no array item or ASCII variable carries an ellipsis name, which the factories guarantee
(`isValidVarName` excludes it). -/
theorem printed_order (level : Nat) : ∀ t : Tmpl, leafNamesPlain t = true →
    Occurs (t.vars.map shown) (t.printAt level)
  | .list xs, h => by
    simp only [Tmpl.printAt, Tmpl.vars]
    split
    · rename_i h0
      have : xs.vars = [] := by
        cases xs with
        | nil => rfl
        | item t r => simp [Slots.len] at h0
        | var n r => simp [Slots.len] at h0
      rw [this]; exact .nil _
    · exact (((printed_order_slots level xs (by simpa [leafNamesPlain] using h)).prepend _).extend _).extend _
  | .ascii s, _ => .nil _
  | .asciiVar n mn mx, h => by
    simp only [Tmpl.printAt, Tmpl.vars, List.map]
    rw [shown_of_not_ellipsis n (by simpa [leafNamesPlain] using h)]
    have := Occurs.cons n [] (str "<A" ++ printSizeBounds mn mx ++ [32]) [62] (.nil _)
    simpa using this
  | .binary xs, h => by
    simp only [Tmpl.printAt, Tmpl.vars]; rw [map_shown_plain _ (by simpa [leafNamesPlain] using h)]; exact occurs_array _ _ xs
  | .boolean xs, h => by
    simp only [Tmpl.printAt, Tmpl.vars]; rw [map_shown_plain _ (by simpa [leafNamesPlain] using h)]; exact occurs_array _ _ xs
  | .int w xs, h => by
    simp only [Tmpl.printAt, Tmpl.vars]; rw [map_shown_plain _ (by simpa [leafNamesPlain] using h)]; exact occurs_array _ _ xs
  | .uint w xs, h => by
    simp only [Tmpl.printAt, Tmpl.vars]; rw [map_shown_plain _ (by simpa [leafNamesPlain] using h)]; exact occurs_array _ _ xs
  | .float w xs, h => by
    simp only [Tmpl.printAt, Tmpl.vars]; rw [map_shown_plain _ (by simpa [leafNamesPlain] using h)]; exact occurs_array _ _ xs
  | .empty, _ => .nil _
theorem printed_order_slots (level : Nat) : ∀ xs : Slots, leafNamesPlainS xs = true →
    Occurs (xs.vars.map shown) (xs.printAt level)
  | .nil, _ => .nil _
  | .item t r, h => by
    have ht : leafNamesPlain t = true := by
      cases t <;> simp_all [leafNamesPlainS]
    have hr : leafNamesPlainS r = true := by
      cases t <;> simp_all [leafNamesPlainS]
    have ihr := printed_order_slots level r hr
    cases t with
    | empty =>
      simp only [Slots.vars, Slots.printAt, List.map_cons]
      have h0 : shown [] = [] := by simp [shown, isEllipsis]
      rw [h0]
      have := Occurs.cons [] _ [] _ (ihr.prepend ((if Tmpl.empty.isList then Tmpl.printAt (level + 1) Tmpl.empty
        else rep level [32, 32] ++ [32, 32] ++ Tmpl.printAt 0 Tmpl.empty) ++ [10]))
      simpa using this
    | list ys =>
      simp only [Slots.vars, Slots.printAt, List.map_append, Tmpl.isList, if_true]
      have := (printed_order (level + 1) (.list ys) ht).append (ihr.prepend [10])
      simpa using this
    | ascii s =>
      simp only [Slots.vars, Slots.printAt, Tmpl.vars, List.map_nil, List.nil_append]
      exact ihr.prepend _
    | asciiVar n mn mx =>
      simp only [Slots.vars, Slots.printAt, List.map_append, Tmpl.isList]
      have := ((printed_order 0 (.asciiVar n mn mx) ht).prepend (rep level [32, 32] ++ [32, 32])).append (ihr.prepend [10])
      simpa using this
    | binary zs =>
      simp only [Slots.vars, Slots.printAt, List.map_append, Tmpl.isList]
      have := ((printed_order 0 (.binary zs) ht).prepend (rep level [32, 32] ++ [32, 32])).append (ihr.prepend [10])
      simpa using this
    | boolean zs =>
      simp only [Slots.vars, Slots.printAt, List.map_append, Tmpl.isList]
      have := ((printed_order 0 (.boolean zs) ht).prepend (rep level [32, 32] ++ [32, 32])).append (ihr.prepend [10])
      simpa using this
    | int w zs =>
      simp only [Slots.vars, Slots.printAt, List.map_append, Tmpl.isList]
      have := ((printed_order 0 (.int w zs) ht).prepend (rep level [32, 32] ++ [32, 32])).append (ihr.prepend [10])
      simpa using this
    | uint w zs =>
      simp only [Slots.vars, Slots.printAt, List.map_append, Tmpl.isList]
      have := ((printed_order 0 (.uint w zs) ht).prepend (rep level [32, 32] ++ [32, 32])).append (ihr.prepend [10])
      simpa using this
    | float w zs =>
      simp only [Slots.vars, Slots.printAt, List.map_append, Tmpl.isList]
      have := ((printed_order 0 (.float w zs) ht).prepend (rep level [32, 32] ++ [32, 32])).append (ihr.prepend [10])
      simpa using this
  | .var n r, h => by
    have ihr := printed_order_slots level r (by simpa [leafNamesPlainS] using h)
    simp only [Slots.vars, Slots.printAt, List.map_cons]
    have := Occurs.cons (shown n) _ (rep level [32, 32] ++ [32, 32]) _ (ihr.prepend [10])
    simpa [shown] using this
end

theorem valid_not_ellipsis (n : Name) (h : isValidVarName n = true) : isEllipsis n = false := by
  cases n with
  | nil => rfl
  | cons b r =>
    simp only [isValidVarName, Bool.and_eq_true] at h
    have hb : b ≠ 46 := by
      intro hb; subst hb
      have := h.1
      simp [isIdentStartB, isAlphaB, isUpperB, isLowerB] at this
    unfold isEllipsis
    split
    · rename_i heq
      injection heq with h1 _
      exact absurd h1 hb
    · rfl

theorem slotsOk_plain {α} (p : α → Bool) (xs : List (Slot α)) (h : slotsOk p xs = true) :
    (slotVars xs).all (fun n => !isEllipsis n) = true := by
  induction xs with
  | nil => rfl
  | cons x r ih =>
    have hx := C12.slotsOk_cons p x r h
    cases x with
    | val a => simpa [slotVars] using ih hx.2
    | var n =>
      simp only [slotVars, List.all_cons, Bool.and_eq_true, Bool.not_eq_true']
      exact ⟨valid_not_ellipsis n hx.1, ih hx.2⟩

mutual
theorem wf_leafNamesPlain : ∀ t : Tmpl, t.wf = true → leafNamesPlain t = true
  | .list xs, h => by
    simp only [Tmpl.wf, Bool.and_eq_true] at h
    simpa [leafNamesPlain] using wf_leafNamesPlainS xs h.1.1.2
  | .ascii _, _ => rfl
  | .asciiVar n _ _, h => by
    simp only [Tmpl.wf, Bool.and_eq_true] at h
    simp [leafNamesPlain, valid_not_ellipsis n h.1.1.1]
  | .binary xs, h => by simp only [Tmpl.wf, Bool.and_eq_true] at h; exact slotsOk_plain _ xs h.2
  | .boolean xs, h => by simp only [Tmpl.wf, Bool.and_eq_true] at h; exact slotsOk_plain _ xs h.2
  | .int _ xs, h => by simp only [Tmpl.wf, Bool.and_eq_true] at h; exact slotsOk_plain _ xs h.2
  | .uint _ xs, h => by simp only [Tmpl.wf, Bool.and_eq_true] at h; exact slotsOk_plain _ xs h.2
  | .float _ xs, h => by simp only [Tmpl.wf, Bool.and_eq_true] at h; exact slotsOk_plain _ xs h.2
  | .empty, _ => rfl
theorem wf_leafNamesPlainS : ∀ xs : Slots, xs.wfAll = true → leafNamesPlainS xs = true
  | .nil, _ => rfl
  | .item t r, h => by
    simp only [Slots.wfAll, Bool.and_eq_true] at h
    simp [leafNamesPlainS, wf_leafNamesPlain t h.1, wf_leafNamesPlainS r h.2]
  | .var _ r, h => by
    simp only [Slots.wfAll] at h
    simpa [leafNamesPlainS] using wf_leafNamesPlainS r h
end

/-- for every tree the API can build: each unfilled variable is listed once and the list occurs
in order in the printed form -/
theorem listing_matches_print (level : Nat) (t : Tmpl) (hw : t.wf = true) :
    nodupNames t.vars = true ∧ Occurs (t.vars.map shown) (t.printAt level) :=
  ⟨vars_nodup t hw, printed_order level t (wf_leafNamesPlain t hw)⟩


/-! ### every tree the API can build: any history of factory calls and fills -/

/-- the trees reachable through the library: the nine factories (a list factory on reachable
items), FillVariables on a reachable tree with a table whose fill-in items are reachable, the items
of the messages `sml.Parse` returns for any text, and the items `hsms.Parse` decodes from any bytes -/
inductive Reach : Tmpl → Prop
  | int (w : Nat) (args : List GoVal) (t : Tmpl) : mkInt w args = some t → Reach t
  | uint (w : Nat) (args : List GoVal) (t : Tmpl) : mkUint w args = some t → Reach t
  | float (w : Nat) (args : List GoVal) (t : Tmpl) : mkFloat w args = some t → Reach t
  | binary (args : List GoVal) (t : Tmpl) : mkBinary args = some t → Reach t
  | boolean (args : List GoVal) (t : Tmpl) : mkBoolean args = some t → Reach t
  | ascii (s : Bytes) (t : Tmpl) : mkAscii s = some t → Reach t
  | asciiVar (n : Name) (mn mx : Int) (t : Tmpl) : mkAsciiVar n mn mx = some t → Reach t
  | empty : Reach .empty
  | list (args : List GoVal) (t : Tmpl) : (∀ x, GoVal.item x ∈ args → Reach x) → mkList args = some t → Reach t
  | fill (t t' : Tmpl) (env : Env) : Reach t → (∀ k x, (k, GoVal.item x) ∈ env → Reach x) →
      t.fill env = some t' → Reach t'
  | parsed (ual : List Nat) (input : Bytes) (msgs : List Msg) (errs warns : List Sml.Diag) (m : Msg) :
      Sml.parse ual input = .done msgs errs warns → m ∈ msgs → Reach m.item
  | decoded (fuel : Nat) (inp : Bytes) (t : Tmpl) (r : Bytes) : decItem fuel inp = some (t, r) → IsBytes inp → Reach t

theorem itemsWfS_of_forall : ∀ (args : List GoVal), (∀ x, GoVal.item x ∈ args → x.wfS = true) → itemsWfS args = true
  | [], _ => rfl
  | g :: r, h => by
    have hr := itemsWfS_of_forall r (fun x hx => h x (List.mem_cons_of_mem _ hx))
    cases g with
    | item t => simp only [itemsWfS, Bool.and_eq_true]; exact ⟨h t (List.mem_cons_self ..), hr⟩
    | sint _ _ | uint _ _ | f32 _ | f64 _ | str _ | bool _ | other => simpa [itemsWfS] using hr

theorem envItemsWfS_of_forall : ∀ (env : Env), (∀ k x, (k, GoVal.item x) ∈ env → x.wfS = true) → Env.itemsWfS env = true
  | [], _ => rfl
  | (k, v) :: r, h => by
    have hr := envItemsWfS_of_forall r (fun k x hx => h k x (List.mem_cons_of_mem _ hx))
    cases v with
    | item t => simp only [Env.itemsWfS, Bool.and_eq_true]; exact ⟨h k t (List.mem_cons_self ..), hr⟩
    | sint _ _ | uint _ _ | f32 _ | f64 _ | str _ | bool _ | other => simpa [Env.itemsWfS] using hr

/-- **invariant over all histories**: whatever sequence of factory calls and fills produced a
tree, it is well formed -/
theorem reachable_well_formed (t : Tmpl) (h : Reach t) : t.wfS = true := by
  induction h with
  | int w args t h => exact mkInt_wfS w args t h
  | uint w args t h => exact mkUint_wfS w args t h
  | float w args t h => exact mkFloat_wfS w args t h
  | binary args t h => exact mkBinary_wfS args t h
  | boolean args t h => exact mkBoolean_wfS args t h
  | ascii s t h => exact mkAscii_wfS s t h
  | asciiVar n mn mx t h => exact mkAsciiVar_wfS n mn mx t h
  | empty => rfl
  | list args t _ h ih => exact mkList_wfS args t h (itemsWfS_of_forall args ih)
  | fill t t' env _ _ h iht ihenv => exact t.fill_wfS t' env iht (envItemsWfS_of_forall env ihenv) h
  | parsed ual input msgs errs warns m h hm => exact Sml.parse_wf ual input msgs errs warns h m hm
  | decoded fuel inp t r h hb => exact wfS_of_wf t (decItem_wf fuel inp t r h hb).1

/-- … so **no name occurs twice anywhere in it** -/
theorem reachable_names_unique (t : Tmpl) (h : Reach t) : nodupNames t.vars = true :=
  wfS_vars_nodup t (reachable_well_formed t h)

/-- every message the SML parser returns, for EVERY input text, carries a well-formed item … -/
theorem parsed_well_formed (ual : List Nat) (input : Bytes) (msgs : List Msg) (errs warns : List Sml.Diag)
    (h : Sml.parse ual input = .done msgs errs warns) : ∀ m ∈ msgs, m.item.wfS = true :=
  Sml.parse_wf ual input msgs errs warns h

/-- … and is a valid message (what `DataMessage.checkRep` demands of name, codes, wait bit, direction) -/
theorem parsed_valid (ual : List Nat) (input : Bytes) (msgs : List Msg) (errs warns : List Sml.Diag)
    (h : Sml.parse ual input = .done msgs errs warns) : ∀ m ∈ msgs, m.valid = true :=
  fun m hm => (Sml.parse_valid_wf ual input msgs errs warns h m hm).1

/-- … in which no name occurs twice -/
theorem parsed_names_unique (ual : List Nat) (input : Bytes) (msgs : List Msg) (errs warns : List Sml.Diag)
    (h : Sml.parse ual input = .done msgs errs warns) : ∀ m ∈ msgs, nodupNames m.item.vars = true :=
  fun m hm => wfS_vars_nodup _ (parsed_well_formed ual input msgs errs warns h m hm)

/-- every item the HSMS decoder returns, for EVERY byte string, is well formed (values in range,
floats finite, sizes within the limit), variable-free, and lists no variable -/
theorem decoded_well_formed (fuel : Nat) (inp : Bytes) (t : Tmpl) (r : Bytes) (h : decItem fuel inp = some (t, r))
    (hb : IsBytes inp) : t.wf = true ∧ t.closed = true ∧ t.vars = [] := by
  have := decItem_wf fuel inp t r h hb
  exact ⟨this.1, this.2, closed_vars_nil t this.2⟩

/-- every data message `hsms.Parse` returns, for EVERY byte string, is a valid message whose item
is absent (a header-only message) or well formed and variable-free -/
theorem decoded_message_well_formed (inp : Bytes) (m : Msg) (h : decode inp = some (.data m)) (hb : IsBytes inp) :
    m.valid = true ∧ (m.item = .empty ∨ (m.item.wf = true ∧ m.item.closed = true)) :=
  decode_data_wf inp m h hb

/-- non-vacuity (a test): `<L <U1 1 x> y>` is reachable by two factory calls -/
example : Reach (.list (.item (.uint 1 [.val 1, .var [120]]) (.var [121] .nil))) :=
  Reach.list [.item (.uint 1 [.val 1, .var [120]]), .str [121]] _
    (fun x hx => by
      simp only [List.mem_cons, GoVal.item.injEq, List.mem_nil_iff, or_false, reduceCtorEq] at hx
      subst hx
      exact Reach.uint 1 [.uint 8 1, .str [120]] _ rfl)
    rfl

/-! ### non-vacuity -/
example : Tmpl.wf (.list (.item (.uint 1 [.val 1, .var [120]]) (.var [121] .nil))) = true := by decide
example : Tmpl.vars (.list (.item (.uint 1 [.val 1, .var [120]]) (.var [121] .nil))) = [[120], [121]] := by decide

end Secs.C16
