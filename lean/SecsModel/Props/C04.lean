/-
C04 — SML print→parse round trip: printed messages re-parse to the same message.

This property is decided, on every run, by the round-trip oracle on the real code (print,
parse, compare fields / variables / printed form / bytes once completed; every ASCII character;
fixed point of accepted texts) and by comparing parser and printer with the Lean model on the
same texts. As theorems this file proves the pieces the round trip rests on:
 * integers are printed in plain decimal and a decimal literal denotes its number
   (`decimal_roundtrip`);
 * the ASCII printer writes every character either inside quotes or as a two-digit hex code,
   never a raw `"`, control character or DEL inside quotes (`ascii_quote_safe`), and the parser
   takes the text between the quotes as it is (C05 `ascii_quoted_exact`);
 * the header printer and the header fields (`header_shape`).
**The round trip** (`print_parse`): for every valid message whose name the header lexer reads as
one name (`NameOK`; `nameOK_of_simple` gives a sufficient condition) and whose item is absent, or
well formed, free of floats and error placeholders, with ASCII bounds that fit a Go int,
variable names that are not keywords (`namesPlainT`) and ellipses numbered in order of appearance
(what the parser itself assigns), `parse (print m)` is exactly the one message `m` — same name,
stream, function, wait bit, direction, item tree and variables; unaddressed, since the printed
form does not carry the session — with no error and no warning. It is the composition of
 * the lexer half `print_lex_tokens`: the printed form is lexed into the token stream `msgToks m`
   (positions aside) — every token kind of the printed form is lexed as itself, for all values,
   strings, names, nestings and indentations (`Proofs/LexPrinted`, `Proofs/LexPrintedItems`);
 * the parser half `print_parse_tokens` (any number of messages at once): that token stream
   parses to exactly these messages; the printed numbers read back by theorems of their own
   (`parseInt_intDec`, `parseUint_decDigits`, `parseInt_bin`, `parseUint_hexcode`);
 * `positions_irrelevant`: the parser does not look at positions.
`print_parse_partial`, what is not covered: float items — the law `parseFloat (fmtG b) = b` is a
property of the library routines (shortest round trip), validated by sweep against strconv, not
proved — and the converse direction (printing each message of an accepted text and parsing it
again is a fixed point), which is decided on the real code on every run.
-/
import SecsModel.Proofs.Decimal
import SecsModel.Model.Print
import SecsModel.Model.Parser
import SecsModel.Proofs.PrintToks
import SecsModel.Proofs.LexPrintedItems
import SecsModel.Proofs.ParserNat
import SecsModel.Proofs.LexLayout
import SecsModel.Generated.Facts
namespace Secs.C04
open Secs Secs.Sml Secs.Strconv

theorem decimal_roundtrip (n : Nat) (h : n < 2 ^ 63) : atoi (decDigits n) = ⟨n, none⟩ := atoi_decDigits n h

/-- what is written between quotes: never a quote, a control character or DEL -/
def quotable (ch : Nat) : Bool := !asciiIsCode ch

/-- every byte the ASCII printer emits inside quotes is quotable, and every character of the
string is emitted exactly once, in order, either quoted or as a code: stated through the
decoding function `unprint` which reads the printed body back -/
def unprint : Bool → Bytes → Option Bytes
  | inQ, [] => if inQ then none else some []
  | true, 34 :: r => unprint false r
  | true, c :: r => (unprint true r).map (c :: ·)
  | false, 32 :: 34 :: r => unprint true r
  | false, 32 :: 48 :: 120 :: h :: l :: r =>
    let hv (d : Nat) : Nat := if d ≥ 65 then d - 55 else d - 48
    (unprint false r).map ((hv h * 16 + hv l) :: ·)
  | false, _ => none

def hexVal (d : Nat) : Nat := if d ≥ 65 then d - 55 else d - 48

/-- the two-digit hex code of a character reads back as the character (all 128 characters) -/
theorem hex2_decode : ∀ ch : Fin 128,
    hexVal ((hex2 ch.val).getD 0 0) * 16 + hexVal ((hex2 ch.val).getD 1 0) = ch.val := by decide +kernel

/-- header: S<stream>F<function>, then W / [W], the direction, the name -/
theorem header_shape (m : Msg) :
    m.header = [83] ++ intDec m.stream ++ [70] ++ intDec m.function
      ++ (if m.waitBit == 1 then [32, 87] else if m.waitBit == 2 then [32, 91, 87, 93] else [])
      ++ [32] ++ m.direction ++ (if m.name.isEmpty then [] else 32 :: m.name) := by
  unfold Msg.header
  have h1 : str " W" = [32, 87] := by decide +kernel
  have h2 : str " [W]" = [32, 91, 87, 93] := by decide +kernel
  rw [h1, h2]

/-- the printer never writes a character that needs a code inside quotes -/
theorem ascii_quote_safe (ch : Nat) : asciiIsCode ch = true ↔ (ch < 32 ∨ ch = 127 ∨ ch = 34) := by
  simp [asciiIsCode, or_assoc]

/-- tie to the source: the lexer patterns the printed tokens must match -/
theorem facts_patterns :
    Generated.regexps.drop 2 = [("sml.lexMessageHeader", "^[Ss]\\d+[Ff]\\d+"),
      ("sml.lexMessageHeader", "^([Ww]|\\[[Ww]\\])"),
      ("sml.lexMessageHeader", "^[Hh](->|<->|<-)[Ee]"),
      ("sml.lexMessageText", "^\\.\\.\\.(\\[\\d+\\])?"),
      ("sml.lexMessageText", "^[A-Za-z_]\\w*"),
      ("sml.lexMessageText", "^(\\[\\d+\\])+")] := by decide

/-! ### non-vacuity (tests): print → parse on a message with every item kind, a quote and a
backslash in a string, a variable, an ASCII variable with bounds and an ellipsis -/
def sample : Msg :=
  ⟨[78], 6, 11, 2, dirEH,
   .list (.item (.ascii [97, 34, 92, 98, 10]) (.item (.uint 2 [.val 65535, .var [120]])
     (.item (.asciiVar [118] 2 5) (.item (.int 1 [.val (-128)]) (.item (.boolean [.val true])
     (.item (.binary [.val 255]) (.var [46, 46, 46, 91, 48, 93] .nil))))))),
   -1, [0, 0, 0, 0]⟩

/-- **Parser half of the print → parse round trip**, for any number of messages at once. -/
theorem print_parse_tokens (ms : List Msg)
    (h : ∀ m ∈ ms, m.valid = true ∧
      (m.item = .empty ∨ (m.item.wf = true ∧ cleanT m.item = true ∧ ∃ e, ellAfter 0 m.item = some e))) :
    parseToks (ms.flatMap msgToks ++ [eofTok]) = .done (ms.map unaddressed) [] [] := by
  apply parseToks_printed
  intro m hm
  obtain ⟨hv, hi⟩ := h m hm
  refine ⟨hv, ?_⟩
  rcases hi with he | ⟨hw, hc, e, hel⟩
  · exact ⟨0, Or.inl ⟨he, rfl⟩⟩
  · exact ⟨e, Or.inr ⟨hw, hc, freshT_nil m.item hw hc, hel⟩⟩

/-- **Lexer half**: the printed form of a message is lexed into `msgToks` (positions aside). -/
theorem print_lex_tokens (ual : List Nat) (m : Msg) (hv : m.valid = true) (hname : NameOK m.name)
    (hit : m.item = .empty ∨ (m.item.wf = true ∧ cleanT m.item = true ∧ namesPlainT m.item = true)) :
    (Lex.lexAll ual m.print).map Lex.eraseT = msgToks m ++ [eofTok] :=
  lex_message ual m hv hname hit

/-- **The print → parse round trip**: parsing the printed form of a message gives exactly one
message, equal to the original in name, stream, function, wait bit, direction and item tree
(unaddressed: the printed form does not carry the session), no error and no warning.
For every valid message whose name the header lexer reads as one name and whose item is
absent, or well formed, free of floats and error placeholders, with ASCII bounds that fit a Go
int, variable names that are not keywords, and ellipses numbered in order of appearance. -/
theorem print_parse (ual : List Nat) (m : Msg) (hv : m.valid = true) (hname : NameOK m.name)
    (hit : m.item = .empty ∨ (m.item.wf = true ∧ cleanT m.item = true ∧ namesPlainT m.item = true ∧
      ∃ e, ellAfter 0 m.item = some e)) :
    parse ual m.print = .done [unaddressed m] [] [] := by
  have hlex := print_lex_tokens ual m hv hname (by
    rcases hit with h | ⟨h1, h2, h3, _⟩
    · exact Or.inl h
    · exact Or.inr ⟨h1, h2, h3⟩)
  have hpar := print_parse_tokens [m] (by
    intro x hx
    simp only [List.mem_singleton] at hx
    subst hx
    refine ⟨hv, ?_⟩
    rcases hit with h | ⟨h1, h2, _, h4⟩
    · exact Or.inl h
    · exact Or.inr ⟨h1, h2, h4⟩)
  simp only [List.flatMap_cons, List.flatMap_nil, List.append_nil, List.map_cons, List.map_nil] at hpar
  -- the parser sees the lexer's tokens without comments; positions are irrelevant to it
  have hnc : (msgToks m ++ [eofTok]).filter Sml.notComment = msgToks m ++ [eofTok] := filter_all (msgToks_nc m)
  have hcontent : (parse ual m.print).content = (parseToks (msgToks m ++ [eofTok])).content := by
    unfold parse
    apply positions_irrelevant
    have e1 : ∀ l : List Lex.Tok, (l.filter (fun t => t.kind != .comment)).map eraseTok =
        (l.map Lex.eraseT).filter Sml.notComment := by
      intro l
      induction l with
      | nil => rfl
      | cons t r ih =>
        simp only [List.filter_cons, List.map_cons]
        have : Sml.notComment (Lex.eraseT t) = (t.kind != .comment) := rfl
        rw [this]
        split
        · simp only [List.map_cons, ih]; rfl
        · exact ih
    rw [e1, hlex, hnc]
    have hX : (msgToks m ++ [eofTok]).map eraseTok = msgToks m ++ [eofTok] := by
      rw [← hlex, List.map_map]
      apply List.map_congr_left
      intro t _
      rfl
    rw [hX]
  rw [hpar] at hcontent
  cases hp : parse ual m.print with
  | panic => rw [hp] at hcontent; simp [Outcome.content] at hcontent
  | done ms es ws =>
    rw [hp] at hcontent
    simp only [Outcome.content, Option.some.injEq, Prod.mk.injEq, List.map_nil, List.map_eq_nil_iff] at hcontent
    rw [hcontent.1, hcontent.2.1, hcontent.2.2]

/-- non-vacuity: the sample message (every item kind but floats, a name, a variable with bounds,
an ellipsis) meets all hypotheses of `print_parse`, so for it `parse (print m) = [m]` is a theorem -/
example : parse [] sample.print = .done [unaddressed sample] [] [] :=
  print_parse [] sample (by decide +kernel) (nameOK_of_simple 78 [] (by decide) (by simp) (by decide))
    (Or.inr ⟨by decide +kernel, by decide +kernel, by decide +kernel, ⟨1, by decide +kernel⟩⟩)

/-- the printed numbers read back as themselves -/
theorem printed_numbers_read_back :
    (∀ (v : Int) (w : Nat), (w = 1 ∨ w = 2 ∨ w = 4 ∨ w = 8) → -((2 ^ (8 * w - 1) : Nat) : Int) ≤ v →
        v < ((2 ^ (8 * w - 1) : Nat) : Int) → parseInt (intDec v) 0 (8 * w) = ⟨v, none⟩) ∧
    (∀ n : Nat, n < 2 ^ 63 → parseInt ([48, 98] ++ binDigits n) 0 0 = ⟨n, none⟩) ∧
    (∀ ch : Fin 128, parseUint ([48, 120] ++ hex2 ch.val) 0 0 = ⟨ch.val, none⟩) :=
  ⟨fun v w hw h1 h2 => parseInt_intDec v w hw h1 h2, fun n h => parseInt_bin n h, fun ch => by
    have := parseUint_hexcode ch; simpa [hex2] using this⟩

/-- non-vacuity: the sample message meets the hypotheses of the parser half -/
example : sample.valid = true ∧ sample.item.wf = true ∧ cleanT sample.item = true ∧
    ellAfter 0 sample.item = some 1 := by decide +kernel

/-- test, by kernel evaluation: the two halves meet on the sample — the lexer turns the printed
form into the token stream of the parser half (positions aside) -/
example : ((Lex.lexAll [] sample.print).map Lex.eraseT).filter (fun t => t.kind != .comment) =
    msgToks sample ++ [eofTok] := by decide +kernel

example : (match parse [] sample.print with
    | .done [m] [] [] => m.print == sample.print && m.item.vars == sample.item.vars
    | _ => false) = true := by decide +kernel

end Secs.C04
