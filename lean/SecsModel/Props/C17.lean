/-
C17 — shared items, messages and parsers are safe for concurrent use.

The logic part, for every interleaving: threads execute atomic reads and writes on a shared
memory in an arbitrary schedule. If no thread writes an address that another thread touches
(the write-set discipline: every call writes only memory it allocated itself; everything that
existed before — items, messages, package state — is only read), then there is no pair of
conflicting accesses by different threads (`race_free`) and every thread reads exactly the
values it reads when it runs alone (`solo_result`), so every call returns what it would return
alone. The discipline itself is certified from the source by the extracted facts
(`facts_purity`): no package-level variable, no write through a receiver or parameter outside
the per-call scratch types, no `go` statement, no sync/unsafe/reflect.

Not modelled (labelled partial, level `other`): the Go memory model itself, the internals of
regexp/fmt/strconv, and which schedules the race detector happens to exercise in the
correspondence run (conc/race-detector-workload).
-/
import SecsModel.Generated.Facts
namespace Secs.C17

inductive Step where
  | read (a : Nat)
  | write (a v : Nat)

def Step.addr : Step → Nat
  | .read a => a
  | .write a _ => a

def Step.isWrite : Step → Bool
  | .write _ _ => true
  | .read _ => false

/-- a schedule: steps tagged with the thread that performs them, in global order -/
abbrev Sched := List (Nat × Step)

def Mem := Nat → Nat

def Mem.set (m : Mem) (a v : Nat) : Mem := fun x => if x = a then v else m x

/-- values read by thread t while the schedule runs from memory m -/
def obs (t : Nat) : Sched → Mem → List Nat
  | [], _ => []
  | (u, .read a) :: r, m => if u = t then m a :: obs t r m else obs t r m
  | (_, .write a v) :: r, m => obs t r (m.set a v)

/-- the steps of thread t alone, in program order -/
def solo (t : Nat) (s : Sched) : Sched := s.filter (fun p => p.1 == t)

/-- write-set discipline for thread t: no other thread writes an address that t touches -/
def Isolated (t : Nat) (s : Sched) : Prop :=
  ∀ p ∈ s, ∀ q ∈ s, p.1 ≠ t → q.1 = t → p.2.isWrite = true → p.2.addr ≠ q.2.addr

theorem obs_agree (t : Nat) (s : Sched) (foot : Nat → Prop)
    (hfoot : ∀ q ∈ s, q.1 = t → foot q.2.addr)
    (hiso : ∀ p ∈ s, p.1 ≠ t → p.2.isWrite = true → ¬ foot p.2.addr)
    (m1 m2 : Mem) (hm : ∀ a, foot a → m1 a = m2 a) :
    obs t s m1 = obs t (solo t s) m2 := by
  induction s generalizing m1 m2 with
  | nil => rfl
  | cons p r ih =>
    obtain ⟨u, st⟩ := p
    have hf' : ∀ q ∈ r, q.1 = t → foot q.2.addr := fun q hq => hfoot q (by simp [hq])
    have hi' : ∀ p ∈ r, p.1 ≠ t → p.2.isWrite = true → ¬ foot p.2.addr := fun p hp => hiso p (by simp [hp])
    by_cases hu : u = t
    · subst hu
      have hfa : foot st.addr := hfoot (u, st) (by simp) rfl
      cases st with
      | read a =>
        simp only [obs, solo, List.filter_cons, beq_self_eq_true, if_true]
        rw [hm a hfa]
        congr 1
        exact ih hf' hi' m1 m2 hm
      | write a v =>
        simp only [obs, solo, List.filter_cons, beq_self_eq_true, if_true]
        apply ih hf' hi'
        intro x hx
        simp only [Mem.set]
        split
        · rfl
        · exact hm x hx
    · have hne : ((u, st).1 == t) = false := by simpa using hu
      cases st with
      | read a =>
        simp only [obs, solo, List.filter_cons, hne, Bool.false_eq_true, if_false, hu]
        exact ih hf' hi' m1 m2 hm
      | write a v =>
        simp only [obs, solo, List.filter_cons, hne, Bool.false_eq_true, if_false]
        apply ih hf' hi'
        intro x hx
        have hnf : ¬ foot a := hiso (u, .write a v) (by simp) hu rfl
        simp only [Mem.set]
        split
        · rename_i hxa; subst hxa; exact absurd hx hnf
        · exact hm x hx

/-- every call returns the result it would return alone, in every interleaving -/
theorem solo_result (t : Nat) (s : Sched) (m : Mem) (h : Isolated t s) :
    obs t s m = obs t (solo t s) m := by
  apply obs_agree t s (fun a => ∃ q ∈ s, q.1 = t ∧ q.2.addr = a)
  · intro q hq ht; exact ⟨q, hq, ht, rfl⟩
  · rintro p hp hpt hw ⟨q, hq, hqt, hqa⟩
    exact h p hp q hq hpt hqt hw hqa.symm
  · intro a _; rfl

/-- a data race: two accesses to the same address by different threads, one of them a write -/
def Race (s : Sched) : Prop :=
  ∃ p ∈ s, ∃ q ∈ s, p.1 ≠ q.1 ∧ p.2.addr = q.2.addr ∧ p.2.isWrite = true

/-- if every thread is isolated there is no data race in the schedule (nor in any other
interleaving of the same steps, since the hypothesis does not depend on the order) -/
theorem race_free (s : Sched) (h : ∀ t, Isolated t s) : ¬ Race s := by
  rintro ⟨p, hp, q, hq, hne, haddr, hw⟩
  exact h q.1 p hp q hq hne rfl hw haddr

/-- the hypothesis is about the multiset of steps only: it is invariant under reordering -/
theorem isolated_perm (t : Nat) (s s' : Sched) (hp : ∀ x, x ∈ s ↔ x ∈ s') (h : Isolated t s) : Isolated t s' :=
  fun p hp' q hq' => h p ((hp p).2 hp') q ((hp q).2 hq')

/-! ### the discipline holds of the code: extracted purity facts -/
theorem facts_purity :
    Generated.pkgVars = [] ∧ Generated.goStmts = 0 ∧ Generated.badImports = [] ∧
    Generated.receiverWrites = [] ∧ Generated.tokenChanCap = 2 := by decide

/-! ### non-vacuity: two threads reading a shared frozen address and writing their own -/
example : Isolated 1 [(1, .read 0), (2, .read 0), (1, .write 10 5), (2, .write 20 6), (1, .read 10)] := by
  intro p hp q hq h1 h2 hw
  simp only [List.mem_cons, List.mem_singleton, List.not_mem_nil, or_false] at hp hq
  rcases hp with rfl | rfl | rfl | rfl | rfl <;> rcases hq with rfl | rfl | rfl | rfl | rfl <;>
    simp_all [Step.isWrite, Step.addr]

end Secs.C17
