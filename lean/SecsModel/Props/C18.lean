/-
C18 — message producers change exactly the fields they name.

SetWaitBit resolves an optional wait bit and returns an equal message when the wait bit was
already decided; SetSessionIDAndSystemBytes changes only those two fields (system bytes padded
or cut to four); every other field is carried over unchanged and the result satisfies the
constructor's validity rules; refusals are exactly the documented ones. Lifted to arbitrary
sequences of producer calls by induction; FillVariables (the third producer) changes the item
only (`fill_frame`), and sequences mixing all three keep name, stream, function and direction,
stay valid, and touch session id / system bytes only in a SetSessionIDAndSystemBytes call
(`producers_seq`).
-/
import SecsModel.Model.Msg
import SecsModel.Model.Fill
import SecsModel.Generated.Facts
import SecsModel.Proofs.FillWF
namespace Secs.C18
open Secs

/-- equality of all fields except the listed ones -/
def sameExceptWait (a b : Msg) : Prop :=
  a.name = b.name ∧ a.stream = b.stream ∧ a.function = b.function ∧ a.direction = b.direction ∧
  a.item = b.item ∧ a.sessionID = b.sessionID ∧ a.sysBytes = b.sysBytes

def sameExceptSession (a b : Msg) : Prop :=
  a.name = b.name ∧ a.stream = b.stream ∧ a.function = b.function ∧ a.direction = b.direction ∧
  a.item = b.item ∧ a.waitBit = b.waitBit

theorem checked_some (m m' : Msg) (h : checked m = some m') : m' = m ∧ m.valid = true := by
  unfold checked at h
  split at h
  · injection h with h; exact ⟨h.symm, by assumption⟩
  · cases h

/-- a decided wait bit: SetWaitBit returns the very same message -/
theorem setWait_noop_when_decided (m : Msg) (w : Bool) (h : m.waitBit ≠ 2) : m.setWaitBit w = some m := by
  simp [Msg.setWaitBit, h]

/-- an optional wait bit is resolved to the given value; nothing else changes; the result is valid -/
theorem setWait_frame (m m' : Msg) (w : Bool) (h2 : m.waitBit = 2) (h : m.setWaitBit w = some m') :
    m'.waitBit = (if w then 1 else 0) ∧ sameExceptWait m m' ∧ m'.valid = true := by
  simp only [Msg.setWaitBit, h2, bne_self_eq_false, Bool.false_eq_true, if_false] at h
  obtain ⟨rfl, hv⟩ := checked_some _ _ h
  exact ⟨rfl, ⟨rfl, rfl, rfl, rfl, rfl, rfl, rfl⟩, hv⟩

/-- SetWaitBit refuses exactly: optional wait bit, value true, even function (for a valid message) -/
theorem setWait_refusal (m : Msg) (w : Bool) (hv : m.valid = true) :
    m.setWaitBit w = none ↔ (m.waitBit = 2 ∧ w = true ∧ m.function % 2 = 0) := by
  simp only [Msg.valid, Bool.and_eq_true, decide_eq_true_eq, Bool.not_eq_true', beq_iff_eq] at hv
  obtain ⟨⟨⟨⟨⟨⟨⟨h1, h2⟩, h3⟩, h4⟩, h5⟩, h6⟩, h7⟩, h8⟩ := hv
  by_cases hw2 : m.waitBit = 2
  · simp only [Msg.setWaitBit, hw2, bne_self_eq_false, Bool.false_eq_true, if_false, checked, true_and]
    cases w
    · simp [Msg.valid, h1, h2, h3, h6, h7, h8]
    · by_cases hf : m.function % 2 = 0
      · simp [Msg.valid, hf]
      · simp [Msg.valid, h1, h2, h3, h6, h7, h8, hf]
  · simp [Msg.setWaitBit, hw2]

/-- SetSessionIDAndSystemBytes: only session id and system bytes change; the system bytes are
the first four given, zero padded -/
theorem setSession_frame (m m' : Msg) (sid : Int) (sys : Bytes) (h : m.setSession sid sys = some m') :
    m'.sessionID = sid ∧ m'.sysBytes = pad4 sys ∧ sameExceptSession m m' ∧ m'.valid = true := by
  simp only [Msg.setSession] at h
  obtain ⟨rfl, hv⟩ := checked_some _ _ h
  exact ⟨rfl, rfl, ⟨rfl, rfl, rfl, rfl, rfl, rfl⟩, hv⟩

theorem pad4_length (bs : Bytes) : (pad4 bs).length = 4 := by
  unfold pad4
  simp only [List.length_append, List.length_take, List.length_replicate]
  omega

theorem pad4_spec (bs : Bytes) (i : Nat) (hi : i < 4) : (pad4 bs).getD i 0 = bs.getD i 0 := by
  match bs with
  | [] => match i, hi with | 0, _ | 1, _ | 2, _ | 3, _ => rfl
  | [a] => match i, hi with | 0, _ | 1, _ | 2, _ | 3, _ => rfl
  | [a, b] => match i, hi with | 0, _ | 1, _ | 2, _ | 3, _ => rfl
  | [a, b, c] => match i, hi with | 0, _ | 1, _ | 2, _ | 3, _ => rfl
  | a :: b :: c :: d :: r => match i, hi with | 0, _ | 1, _ | 2, _ | 3, _ => rfl

/-- refusal of SetSessionIDAndSystemBytes: exactly a session id outside [-1, 65535] -/
theorem setSession_refusal (m : Msg) (sid : Int) (sys : Bytes) (hv : m.valid = true) :
    m.setSession sid sys = none ↔ ¬ (-1 ≤ sid ∧ sid < 65536) := by
  simp only [Msg.valid, Bool.and_eq_true, decide_eq_true_eq, Bool.not_eq_true', beq_iff_eq] at hv
  obtain ⟨⟨⟨⟨⟨⟨⟨h1, h2⟩, h3⟩, h4⟩, h5⟩, h6⟩, h7⟩, h8⟩ := hv
  simp only [Msg.setSession, checked]
  by_cases hs : -1 ≤ sid ∧ sid < 65536
  · simp [Msg.valid, h1, h2, h3, h4, h5, h8, hs, pad4_length]
  · simp only [hs, not_false_eq_true, iff_true]
    have : Msg.valid { m with sessionID := sid, sysBytes := pad4 sys } = false := by
      simp only [Msg.valid, Bool.and_eq_false_iff, decide_eq_false_iff_not]
      left; left; right; omega
    simp [this]

/-! ### sequences of producer calls -/

inductive Call where
  | wait (w : Bool)
  | session (sid : Int) (sys : Bytes)

/-- a refused call leaves the message as it was (the caller still holds the old value) -/
def apply (m : Msg) : Call → Msg
  | .wait w => (m.setWaitBit w).getD m
  | .session sid sys => (m.setSession sid sys).getD m

/-- fields no producer ever touches -/
def frameFields (m : Msg) := (m.name, m.stream, m.function, m.direction, m.item)

theorem apply_valid (m : Msg) (c : Call) (hv : m.valid = true) : (apply m c).valid = true := by
  cases c with
  | wait w =>
    simp only [apply]
    cases h : m.setWaitBit w with
    | none => simpa using hv
    | some m' =>
      by_cases h2 : m.waitBit = 2
      · exact (setWait_frame m m' w h2 h).2.2
      · rw [setWait_noop_when_decided m w h2] at h; injection h with h; subst h; simpa using hv
  | session sid sys =>
    simp only [apply]
    cases h : m.setSession sid sys with
    | none => simpa using hv
    | some m' => exact (setSession_frame m m' sid sys h).2.2.2

theorem apply_frame (m : Msg) (c : Call) : frameFields (apply m c) = frameFields m := by
  cases c with
  | wait w =>
    simp only [apply]
    cases h : m.setWaitBit w with
    | none => rfl
    | some m' =>
      by_cases h2 : m.waitBit = 2
      · obtain ⟨_, ⟨a, b, c, d, e, _, _⟩, _⟩ := setWait_frame m m' w h2 h
        simp [frameFields, a, b, c, d, e]
      · rw [setWait_noop_when_decided m w h2] at h; injection h with h; subst h; rfl
  | session sid sys =>
    simp only [apply]
    cases h : m.setSession sid sys with
    | none => rfl
    | some m' =>
      obtain ⟨_, _, ⟨a, b, c, d, e, _⟩, _⟩ := setSession_frame m m' sid sys h
      simp [frameFields, a, b, c, d, e]

/-- any sequence of producer calls, including refused ones: name, stream, function, direction
and item never change, and every intermediate message is valid -/
theorem frame_seq (m : Msg) (cs : List Call) (hv : m.valid = true) :
    frameFields (cs.foldl apply m) = frameFields m ∧ (cs.foldl apply m).valid = true := by
  induction cs generalizing m with
  | nil => exact ⟨rfl, hv⟩
  | cons c r ih =>
    have := ih (apply m c) (apply_valid m c hv)
    exact ⟨by rw [List.foldl_cons, this.1, apply_frame], this.2⟩

/-- a decided wait bit is never changed again by any sequence -/
theorem wait_stable_seq (m : Msg) (cs : List Call) (h : m.waitBit ≠ 2) : (cs.foldl apply m).waitBit = m.waitBit := by
  induction cs generalizing m with
  | nil => rfl
  | cons c r ih =>
    have hstep : (apply m c).waitBit = m.waitBit := by
      cases c with
      | wait w => simp [apply, setWait_noop_when_decided m w h]
      | session sid sys =>
        simp only [apply]
        cases hh : m.setSession sid sys with
        | none => rfl
        | some m' => exact ((setSession_frame m m' sid sys hh).2.2.1.2.2.2.2.2).symm
    rw [List.foldl_cons, ih (apply m c) (by rw [hstep]; exact h), hstep]

/-! ### the third producer: FillVariables -/

/-- FillVariables changes the item and nothing else; the result is valid -/
theorem fill_frame (m m' : Msg) (e : Env) (h : m.fill e = some m') :
    m'.name = m.name ∧ m'.stream = m.stream ∧ m'.function = m.function ∧ m'.direction = m.direction ∧
    m'.waitBit = m.waitBit ∧ m'.sessionID = m.sessionID ∧ m'.sysBytes = m.sysBytes ∧
    m.item.fill e = some m'.item ∧ m'.valid = true := by
  unfold Msg.fill at h
  cases ht : m.item.fill e with
  | none => simp [ht] at h
  | some t1 =>
    simp only [ht, Option.bind_some] at h
    obtain ⟨rfl, hv⟩ := checked_some _ _ h
    exact ⟨rfl, rfl, rfl, rfl, rfl, rfl, rfl, rfl, hv⟩

inductive Call3 where
  | wait (w : Bool)
  | session (sid : Int) (sys : Bytes)
  | fill (e : Env)

def apply3 (m : Msg) : Call3 → Msg
  | .wait w => apply m (.wait w)
  | .session sid sys => apply m (.session sid sys)
  | .fill e => (m.fill e).getD m

def Call3.isSession : Call3 → Bool
  | .session _ _ => true
  | _ => false

def headFields (m : Msg) := (m.name, m.stream, m.function, m.direction)

theorem apply3_step (m : Msg) (c : Call3) (hv : m.valid = true) :
    headFields (apply3 m c) = headFields m ∧ (apply3 m c).valid = true ∧
    (c.isSession = false → (apply3 m c).sessionID = m.sessionID ∧ (apply3 m c).sysBytes = m.sysBytes) := by
  cases c with
  | wait w =>
    have hf := apply_frame m (.wait w)
    simp only [frameFields, Prod.mk.injEq] at hf
    refine ⟨by simp [apply3, headFields, hf.1, hf.2.1, hf.2.2.1, hf.2.2.2.1], apply_valid m _ hv, fun _ => ?_⟩
    simp only [apply3, apply]
    cases h : m.setWaitBit w with
    | none => exact ⟨rfl, rfl⟩
    | some m' =>
      by_cases h2 : m.waitBit = 2
      · obtain ⟨_, ⟨_, _, _, _, _, a, b⟩, _⟩ := setWait_frame m m' w h2 h
        exact ⟨a.symm, b.symm⟩
      · rw [setWait_noop_when_decided m w h2] at h; injection h with h; subst h; exact ⟨rfl, rfl⟩
  | session sid sys =>
    have hf := apply_frame m (.session sid sys)
    simp only [frameFields, Prod.mk.injEq] at hf
    exact ⟨by simp [apply3, headFields, hf.1, hf.2.1, hf.2.2.1, hf.2.2.2.1], apply_valid m _ hv, fun h => by simp [Call3.isSession] at h⟩
  | fill e =>
    simp only [apply3]
    cases h : m.fill e with
    | none => exact ⟨rfl, by simpa using hv, fun _ => ⟨rfl, rfl⟩⟩
    | some m' =>
      obtain ⟨a, b, c, d, _, f, g, _, v⟩ := fill_frame m m' e h
      exact ⟨by simp [headFields, a, b, c, d], by simpa using v, fun _ => ⟨by simpa using f, by simpa using g⟩⟩

/-- any sequence of the three producers, refused calls included: name, stream, function and
direction never change, every intermediate message is valid, and without a
SetSessionIDAndSystemBytes call the session id and system bytes are those of the start -/
theorem producers_seq (m : Msg) (cs : List Call3) (hv : m.valid = true) :
    headFields (cs.foldl apply3 m) = headFields m ∧ (cs.foldl apply3 m).valid = true ∧
    (cs.all (fun c => !c.isSession) = true →
      (cs.foldl apply3 m).sessionID = m.sessionID ∧ (cs.foldl apply3 m).sysBytes = m.sysBytes) := by
  induction cs generalizing m with
  | nil => exact ⟨rfl, hv, fun _ => ⟨rfl, rfl⟩⟩
  | cons c r ih =>
    obtain ⟨h1, h2, h3⟩ := apply3_step m c hv
    obtain ⟨i1, i2, i3⟩ := ih (apply3 m c) h2
    refine ⟨by rw [List.foldl_cons, i1, h1], by rw [List.foldl_cons]; exact i2, ?_⟩
    intro hall
    simp only [List.all_cons, Bool.and_eq_true, Bool.not_eq_true'] at hall
    obtain ⟨a, b⟩ := i3 (by simpa using hall.2)
    obtain ⟨c1, c2⟩ := h3 hall.1
    rw [List.foldl_cons]
    exact ⟨a.trans c1, b.trans c2⟩



/-! ### the item stays well formed through any sequence of producers -/

theorem apply3_item_wf (m : Msg) (c : Call3) (hw : m.item.wfS = true)
    (hc : ∀ e, c = .fill e → Env.itemsWfS e = true) : (apply3 m c).item.wfS = true := by
  cases c with
  | wait w =>
    simp only [apply3, apply]
    cases h : m.setWaitBit w with
    | none => simpa using hw
    | some m' =>
      simp only [Option.getD_some]
      unfold Msg.setWaitBit at h
      split at h
      · injection h with h; rw [← h]; exact hw
      · obtain ⟨rfl, _⟩ := checked_some _ _ h; exact hw
  | session sid sys =>
    simp only [apply3, apply]
    cases h : m.setSession sid sys with
    | none => simpa using hw
    | some m' =>
      simp only [Option.getD_some]
      unfold Msg.setSession at h
      obtain ⟨rfl, _⟩ := checked_some _ _ h; exact hw
  | fill e =>
    simp only [apply3]
    cases h : m.fill e with
    | none => simpa using hw
    | some m' =>
      simp only [Option.getD_some]
      unfold Msg.fill at h
      cases hf : m.item.fill e with
      | none => simp [hf] at h
      | some it =>
        simp only [hf, Option.bind_some] at h
        obtain ⟨rfl, _⟩ := checked_some _ _ h
        exact m.item.fill_wfS it e hw (hc e rfl) hf

/-- **any sequence of SetWaitBit / SetSessionIDAndSystemBytes / FillVariables calls** (refused
calls included, ellipsis expansion included) on a message with a well-formed item leaves a message
with a well-formed item: every name valid, no name twice anywhere -/
theorem producers_seq_item_wf (m : Msg) (cs : List Call3) (hw : m.item.wfS = true)
    (hc : ∀ c ∈ cs, ∀ e, c = .fill e → Env.itemsWfS e = true) :
    (cs.foldl apply3 m).item.wfS = true ∧ nodupNames (cs.foldl apply3 m).item.vars = true := by
  induction cs generalizing m with
  | nil => exact ⟨hw, wfS_vars_nodup _ hw⟩
  | cons c r ih =>
    rw [List.foldl_cons]
    exact ih (apply3 m c) (apply3_item_wf m c hw (hc c (List.mem_cons_self ..)))
      (fun c' hc' => hc c' (List.mem_cons_of_mem _ hc'))

/-! ### tie to the source: the bounds used by DataMessage.checkRep -/
theorem facts_checkrep_bounds :
    Generated.msgCheckRepInts = [0, 128, 0, 256, 1, 2, 0, 0, 2, -1, 65536, 4] := by decide

/-- FillVariables re-validates every variable name it keeps or generates: the two name
patterns are those of the model (`isValidVarName`, `isEllipsis`) -/
theorem facts_name_patterns :
    Generated.regexps.take 2 = [("ast.isValidVarName", "^[A-Za-z_]\\w*(\\[\\d+\\])*$"),
                                 ("ast.isEllipsis", "^\\.{3}(\\[\\d+\\])?$")] := by decide

/-! ### non-vacuity -/
def sample : Msg := ⟨[65], 1, 13, 2, dirHE, .empty, -1, [0, 0, 0, 0]⟩
example : sample.valid = true := by decide
example : (sample.setWaitBit true).isSome = true ∧ (sample.setSession 7 [1, 2]).isSome = true := by decide

end Secs.C18
