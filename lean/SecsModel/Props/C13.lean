/-
C13 — the 16,777,215-byte item limit and the length header are exact for every size.

An item can be constructed iff element count × element width ≤ 16,777,215; every constructible
item encodes to a non-empty byte string whose length field is correct (one length byte up to
255, two up to 65,535, three beyond) for all 14 formats; the decoder reads each of those length
fields back as the same count. For every size at once (no enumeration).
-/
import SecsModel.Proofs.MsgCodec
import SecsModel.Generated.Facts
namespace Secs.C13
open Secs

/-- number of length bytes the standard prescribes -/
def lengthBytes (n : Nat) : Nat := if n ≤ 255 then 1 else if n ≤ 65535 then 2 else 3

/-- header = format byte (code·4 + k) followed by the k-byte big-endian payload length -/
theorem header_closed_form (f : Fmt) (size : Nat) (h : size * f.width ≤ 16777215) :
    headerBytes f size =
      some ((f.code * 4 + lengthBytes (size * f.width)) :: beEnc (lengthBytes (size * f.width)) (size * f.width)) :=
  headerBytes_closed f size h

/-- beyond the limit the header routine reports an error -/
theorem header_error_beyond (f : Fmt) (size : Nat) (h : size * f.width > 16777215) :
    headerBytes f size = none :=
  headerBytes_none f size h

/-- the decoder's reading of a header (`k = fb mod 4`, accumulate k bytes) returns the payload
length that was written, and the format code it dispatches on is the item's -/
theorem header_readback (f : Fmt) (size : Nat) (fb : Nat) (lb : Bytes)
    (h : headerBytes f size = some (fb :: lb)) :
    fb % 4 = lb.length ∧ 1 ≤ lb.length ∧ lb.length ≤ 3 ∧ decodeFmt? (fb / 4) = some f ∧
      beDec lb = size * f.width := by
  by_cases hm : size * f.width ≤ maxByteSize
  · rw [headerBytes_closed f size hm] at h
    injection h with h
    injection h with h1 h2
    subst h1; subst h2
    have hk := nLB_pos (size * f.width)
    have hc := Fmt.code_lt f
    refine ⟨by rw [beEnc_length]; omega, by rw [beEnc_length]; omega, by rw [beEnc_length]; omega, ?_, ?_⟩
    · have : (f.code * 4 + nLB (size * f.width)) / 4 = f.code := by omega
      rw [this]; exact decodeFmt_code f
    · exact beDec_beEnc _ _ (nLB_ok _ hm)
  · rw [headerBytes_none f size (by omega)] at h
    cases h

/-- the factories accept exactly the sizes within the limit (elements being in range) -/
theorem ascii_constructible_iff (s : Bytes) :
    (mkAscii s).isSome = true ↔ s.length * Fmt.ascii.width ≤ 16777215 ∧ ∀ b ∈ s, b < 128 := by
  unfold mkAscii maxByteSize
  simp only [Fmt.width, Nat.mul_one]
  by_cases h1 : s.length > 16777215
  · simp [h1]; omega
  · by_cases h2 : s.all (· < 128) = true
    · simp only [h1, if_false, h2, if_true, Option.isSome_some, true_iff]
      exact ⟨by omega, by simpa using h2⟩
    · simp only [h1, if_false, h2]
      simp only [Bool.false_eq_true, if_false, Option.isSome_none, false_iff, not_and]
      intro _ h3
      exact h2 (by simpa using h3)

theorem int_constructible_limit (w : Nat) (args : List GoVal) (t : Tmpl) (h : mkInt w args = some t) :
    validWidthInt w = true → args.length * w ≤ 16777215 := by
  intro hw
  unfold mkInt at h
  have hf : optWidth (intFmt? w) = w := by
    simp only [validWidthInt, Bool.or_eq_true, beq_iff_eq] at hw
    rcases hw with ((rfl | rfl) | rfl) | rfl <;> rfl
  by_cases hgt : args.length * w > maxByteSize
  · simp only [] at h
    rw [hf] at h
    simp [hgt] at h
  · unfold maxByteSize at hgt; omega

theorem int_refused_beyond (w : Nat) (args : List GoVal) (hw : validWidthInt w = true)
    (h : args.length * w > 16777215) : mkInt w args = none := by
  unfold mkInt
  have hf : optWidth (intFmt? w) = w := by
    simp only [validWidthInt, Bool.or_eq_true, beq_iff_eq] at hw
    rcases hw with ((rfl | rfl) | rfl) | rfl <;> rfl
  have : args.length * w > maxByteSize := by unfold maxByteSize; omega
  simp only []
  rw [hf]
  simp [this]

/-- every constructible (well-formed) closed item encodes to a non-empty byte string … -/
theorem encoding_nonempty (t : Tmpl) (hw : t.wf = true) (hc : t.closed = true) : 2 ≤ t.enc.length :=
  enc_length_ge t hw hc

/-- … which the decoder reads back as the same item (so every length field is read back as the
same count), whatever follows it -/
theorem decoder_reads_back (t : Tmpl) (hw : t.wf = true) (hc : t.closed = true) (rest : Bytes) :
    decItem (t.enc.length + 1) (t.enc ++ rest) = some (t, rest) :=
  decItem_enc t hw hc rest _ (by have := sz_lt_enc t hw hc; omega)

/-! ### the tie to the source -/

theorem facts_limit_and_tables :
    Generated.maxByteSize = 16777215 ∧ Generated.tableKeysOk = true ∧
    Generated.bytePerValue = Fmt.all.map (fun f => (f.width : Int)) ∧
    Generated.formatCode = Fmt.all.map (fun f => (f.code : Int)) := by decide

/-! ### non-vacuity -/
example : headerBytes .ascii 256 = some [0x42, 1, 0] := by decide
example : headerBytes .u8 2097151 = some [0xA3, 0xFF, 0xFF, 0xF8] := by decide
example : headerBytes .u8 2097152 = none := by decide
example : lengthBytes 255 = 1 ∧ lengthBytes 256 = 2 ∧ lengthBytes 65535 = 2 ∧ lengthBytes 65536 = 3 := by decide

end Secs.C13
