/-
C06 — the SML parser is total and all-or-nothing.

`Sml.parse` is a total function: the kernel accepted its definition, so for every input
(arbitrary bytes) it returns — there is no unbounded loop in the model: the lexer takes at most
`input.length + 1` steps (`lex_bounded`), the parser at most one step per token. The only way
out other than a normal return is the outcome `.panic` (NewDataMessage refusing), which
`no_panic` rules out for every input (`total`). Every token and hence every diagnostic carries
a true position of the input (`positions_true`). If any error is reported no
message is returned, and if none is reported every parsed message is returned in order
(`all_or_nothing`, `all_returned`).
Allocation: the parser never sizes a buffer from a number in the text (the placeholder of D11
is gone: `dup_ascii_var_no_placeholder`).
Runtime part (heap, goroutine stack, quadratic time on deep nesting) is measured on the real
code in an isolated worker by the correspondence run; it is not in the model.
-/
import SecsModel.Model.Parser
import SecsModel.Proofs.Lexer
import SecsModel.Proofs.NoPanic
import SecsModel.Proofs.ParserErrs
import SecsModel.Generated.Facts
namespace Secs.C06
open Secs Secs.Sml Secs.Lex

/-- if any error is reported, no message is returned -/
theorem all_or_nothing (ual : List Nat) (input : Bytes) (msgs : List Msg) (errs warns : List Diag)
    (h : parse ual input = .done msgs errs warns) : errs ≠ [] → msgs = [] := by
  unfold parse parseToks at h
  split at h
  · cases h
  · rename_i ms s _
    split at h
    · injection h with h1 h2 h3; intro hne; exact absurd h2.symm hne
    · injection h with h1 h2 h3; intro _; exact h1.symm

/-- if no error is reported, every message the parser built is returned, in order -/
theorem all_returned (ual : List Nat) (input : Bytes) (msgs : List Msg) (warns : List Diag)
    (h : parse ual input = .done msgs [] warns) :
    ∃ s, parseLoop (((lexAll ual input).filter (fun t => t.kind != .comment)).length + 1)
      { toks := (lexAll ual input).filter (fun t => t.kind != .comment) } [] = some (msgs, s) ∧ s.errs = [] := by
  unfold parse parseToks at h
  split at h
  · cases h
  · rename_i ms s hs
    split at h
    · rename_i he
      injection h with h1 h2 h3
      refine ⟨s, ?_, by simpa using he⟩
      rw [hs, h1]
    · rename_i he
      injection h with h1 h2 h3
      have : s.errs.reverse = [] := h2
      simp at this
      simp [this] at he

/-- **if no error is reported, every message in the input is returned**: the message loop did not
stop early — it ran until it saw the end-of-input token, so nothing after the last returned message
was left unparsed (a sub-parser that gives up always reports why: `parseMessage_none_err`) -/
theorem no_silent_stop (ual : List Nat) (input : Bytes) (msgs : List Msg) (warns : List Diag)
    (h : parse ual input = .done msgs [] warns) :
    ∃ s, parseLoop (((lexAll ual input).filter (fun t => t.kind != .comment)).length + 1)
      { toks := (lexAll ual input).filter (fun t => t.kind != .comment) } [] = some (msgs, s) ∧
      s.errs = [] ∧ s.peek.kind = .eof := by
  obtain ⟨s, hs, he⟩ := all_returned ual input msgs warns h
  exact ⟨s, hs, he, parseLoop_clean_at_eof _ _ _ _ _ (by simp) hs he⟩

/-- a message that is not built is reported: the loop never drops a message silently -/
theorem failed_message_is_reported (s : PS) (h : (parseMessage s).1 = none) : (parseMessage s).2.errs ≠ [] :=
  parseMessage_none_err s h

/-- parsing keeps nothing between calls: the packages hold no package-level variable (a memo
table would grow with every new input and make concurrent calls abort) -/
theorem facts_no_package_state : Generated.pkgVars = [] := by decide

/-- the lexer emits at most one token per input byte, plus the final one -/
theorem lex_bounded (ual : List Nat) (fuel : Nat) (m : Mode) (p : Pos) : (lexFuel ual fuel m p).length ≤ fuel := by
  induction fuel generalizing m p with
  | zero => simp [lexFuel]
  | succ n ih =>
    simp only [lexFuel]
    split
    · simp
    · simp only [List.length_cons]; have := ih ‹_› ‹_›; omega

theorem lexAll_bounded (ual : List Nat) (input : Bytes) : (lexAll ual input).length ≤ input.length + 1 :=
  lex_bounded ual _ _ _

/-- the lexer makes progress: a step that emits a non-terminal token consumes at least one byte
of the input (so no state function can loop without reading) -/
theorem lexer_progress (ual : List Nat) (m : Mode) (p : Pos) (t : Tok) (m' : Mode) (p' : Pos)
    (h : lexStep ual m p = .tok t m' p') : p'.rest.length < p.rest.length :=
  lexStep_decreases ual m p t m' p' h

/-- the fuel of `lexAll` is never what stops the token stream: any larger fuel gives the same
stream, for every input -/
theorem lexer_fuel_irrelevant (ual : List Nat) (input : Bytes) (k : Nat) :
    lexFuel ual (input.length + 1 + k) .header ⟨input, 1, []⟩ = lexAll ual input :=
  lexFuel_stable ual _ _ _ k (by simp)

/-- for every input the token stream is finite and closed by exactly one terminal token (EOF or
a lexing error); no terminal token occurs before the end -/
theorem lexer_terminates (ual : List Nat) (input : Bytes) :
    ∃ ts t, lexAll ual input = ts ++ [t] ∧ (t.kind = .eof ∨ t.kind = .error) ∧
      ∀ x ∈ ts, x.kind ≠ .eof ∧ x.kind ≠ .error :=
  lexAll_terminal ual input

/-- every token — hence every diagnostic the parser stamps with a token's position — carries
the true line and column of an offset of the input: line = 1 + line feeds in front of the
offset, column = 1 + runes since the start of that line -/
theorem positions_true (ual : List Nat) (input : Bytes) (t : Tok) (h : t ∈ lexAll ual input) :
    ∃ pre suf, input = pre ++ suf ∧ t.line = 1 + pre.count 10 ∧
      t.col = 1 + (Utf8.runes ((pre.reverse.takeWhile (· != 10)).reverse)).length :=
  lexAll_positions ual input t h

/-- **The parser never panics.** The only constructor call outside a recover is NewDataMessage at
the end of a message; for every input its arguments are in its domain: stream and function
clamped, never `W` on an even function, the direction one of the three the lexer produces, the
name free of white-space runes (the header lexer skips them before a token and ends a name at
the first one; cutting the name out of the input does not change how its bytes decode). -/
theorem no_panic (ual : List Nat) (input : Bytes) : parse ual input ≠ .panic :=
  parse_no_panic ual input

/-- hence every input has a normal outcome: messages and diagnostics -/
theorem total (ual : List Nat) (input : Bytes) : ∃ msgs errs warns, parse ual input = .done msgs errs warns := by
  cases h : parse ual input with
  | done m e w => exact ⟨m, e, w, rfl⟩
  | panic => exact absurd h (no_panic ual input)

/-- the parser reports a lexing error through a diagnostic, never by a panic: an error token in
a value position stops the message with a "syntax error" diagnostic -/
theorem lex_error_becomes_diagnostic (ty : Bytes) (w : Nat) (t : Tok) (r : List Tok) (s : PS)
    (h : t.kind = .error) : arrayArgs ty w (t :: r) s = (none, s.err t (lexErrKind t.err)) := by
  have hb : (t.kind == Kind.error) = true := by rw [h]; rfl
  simp only [arrayArgs, hb, if_true]

/-- a duplicated ASCII variable does not build a placeholder of the declared size: whatever
the bounds, the item is the empty string and the size check is skipped -/
theorem dup_ascii_var_no_placeholder (mn mx : Int) (t : Tok) (s : PS) (hk : t.kind = .variable)
    (hd : s.names.contains t.val = true) :
    asciiLoop mn mx 1 [t] [] s = (.ok (.ascii []), { (s.err t "duplicated variable name") with skipSize := true }) := by
  have hd' : t.val ∈ s.names := by simpa using hd
  simp [asciiLoop, hk, hd']

/-- stream and function codes handed to NewDataMessage are always in range, whatever the text -/
theorem stream_function_clamped (s : PS) (t : Tok) :
    let r := streamFunction s t
    0 ≤ r.1 ∧ r.1 < 128 ∧ 0 ≤ r.2.1 ∧ r.2.1 < 256 := by
  simp only [streamFunction]
  split <;> split <;> simp_all <;> omega

/-! ### tie to the source -/
theorem facts_lexer_tables :
    Generated.lexHeaderRuneCases = [[32, 9, 13, 10]] ∧ Generated.lexTextRuneCases = [[32, 9, 13, 10]] ∧
    Generated.lexTextKeywordCases = [["L", "A", "B", "BOOLEAN", "F4", "F8", "I1", "I2", "I4", "I8", "U1", "U2", "U4", "U8"], ["T", "F"]] ∧
    Generated.smlStreamFunctionInts = [-1, -1, 1, 1, 0, 128, 0, 0, 256, 0] ∧ Generated.tokenChanCap = 2 := by decide

theorem facts_regexps :
    Generated.regexps = [("ast.isValidVarName", "^[A-Za-z_]\\w*(\\[\\d+\\])*$"),
      ("ast.isEllipsis", "^\\.{3}(\\[\\d+\\])?$"),
      ("sml.lexMessageHeader", "^[Ss]\\d+[Ff]\\d+"),
      ("sml.lexMessageHeader", "^([Ww]|\\[[Ww]\\])"),
      ("sml.lexMessageHeader", "^[Hh](->|<->|<-)[Ee]"),
      ("sml.lexMessageText", "^\\.\\.\\.(\\[\\d+\\])?"),
      ("sml.lexMessageText", "^[A-Za-z_]\\w*"),
      ("sml.lexMessageText", "^(\\[\\d+\\])+")] := by decide

/-! ### non-vacuity (these are tests, not the unbounded claim) -/
example : (match parse [] (str "S1F1 \x0bW\n.") with | .panic => false | .done _ _ _ => true) = true := by
  decide +kernel

end Secs.C06
