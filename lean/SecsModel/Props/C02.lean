/-
C02 — encoded bytes conform to the SEMI E5 / E37 wire format.

`Spec.Encodes` is the standard as an inductive relation. The encoder's output for every
well-formed variable-free item is an encoding in that relation and the only one; an item with a
variable (or a message that is not complete) encodes to the empty byte string, never to partial
bytes; a complete message is the item behind the 4-byte length and the 10-byte header.
-/
import SecsModel.Proofs.Wire
import SecsModel.Generated.Facts
namespace Secs.C02
open Secs Secs.Spec

/-- the encoder's output is a standard encoding … -/
theorem enc_sound (t : Tmpl) (hw : t.wf = true) (hc : t.closed = true) : Encodes t t.enc :=
  Secs.enc_sound t hw hc

/-- … and the standard admits no other bytes for the item (minimal length bytes, one payload) -/
theorem enc_unique (t : Tmpl) (b : Bytes) (h : Encodes t b) : b = t.enc :=
  (Secs.enc_unique t b h).2.2

/-- the relation holds exactly for what the API can build without variables -/
theorem encodes_iff (t : Tmpl) (b : Bytes) : Encodes t b ↔ (t.wf = true ∧ t.closed = true ∧ b = t.enc) :=
  ⟨Secs.enc_unique t b, fun ⟨hw, hc, hb⟩ => hb ▸ Secs.enc_sound t hw hc⟩

theorem slotVals_none {α} (xs : List (Slot α)) (h : (slotVars xs).isEmpty = false) : slotVals xs = none := by
  induction xs with
  | nil => simp [slotVars] at h
  | cons x r ih =>
    cases x with
    | var n => rfl
    | val a => simp [slotVals, ih (by simpa [slotVars] using h)]

mutual
/-- an item that is not closed (a variable or an empty item anywhere inside) has no bytes at all -/
theorem open_item_no_bytes (t : Tmpl) (h : t.closed = false) : t.enc = [] := by
  cases t with
  | list xs =>
    have := open_items_no_bytes xs (by simpa [Tmpl.closed] using h)
    simp only [Tmpl.enc, this]
    cases headerBytes Fmt.list xs.len <;> rfl
  | ascii s => simp [Tmpl.closed] at h
  | asciiVar n a b => rfl
  | empty => rfl
  | binary xs => simp [Tmpl.enc, slotVals_none xs (by simpa [Tmpl.closed] using h)]
  | boolean xs => simp [Tmpl.enc, slotVals_none xs (by simpa [Tmpl.closed] using h)]
  | int w xs => simp [Tmpl.enc, slotVals_none xs (by simpa [Tmpl.closed] using h)]
  | uint w xs => simp [Tmpl.enc, slotVals_none xs (by simpa [Tmpl.closed] using h)]
  | float w xs => simp [Tmpl.enc, slotVals_none xs (by simpa [Tmpl.closed] using h)]
theorem open_items_no_bytes (xs : Slots) (h : xs.closedAll = false) : xs.enc = none := by
  cases xs with
  | nil => simp [Slots.closedAll] at h
  | var n r => rfl
  | item t r =>
    simp only [Slots.closedAll, Bool.and_eq_false_iff] at h
    simp only [Slots.enc]
    rcases h with h | h
    · rw [open_item_no_bytes t h]
    · rw [open_items_no_bytes r h]
      split <;> simp_all
end

/-- never partial bytes: every item the API can build encodes either to nothing or to a complete
standard encoding -/
theorem never_partial (t : Tmpl) (hw : t.wf = true) : t.enc = [] ∨ Encodes t t.enc := by
  by_cases hc : t.closed = true
  · exact Or.inr (Secs.enc_sound t hw hc)
  · exact Or.inl (open_item_no_bytes t (by simpa using hc))

/-- E37 frame of a complete message -/
theorem frame (m : Msg) (hv : m.valid = true) (hc : m.complete = true) :
    ∃ a b c d, m.sysBytes = [a, b, c, d] ∧
    m.enc = beEnc 4 (10 + m.item.enc.length) ++
      [m.sessionID.toNat / 256 % 256, m.sessionID.toNat % 256,
       (if m.waitBit = 1 then 128 else 0) + m.stream.toNat, m.function.toNat, 0, 0] ++
      [a, b, c, d] ++ m.item.enc := by
  simp only [Msg.valid, Bool.and_eq_true, decide_eq_true_eq, Bool.not_eq_true', beq_iff_eq] at hv
  obtain ⟨⟨⟨⟨⟨⟨⟨_, hs⟩, hf⟩, _⟩, _⟩, _⟩, hsys⟩, _⟩ := hv
  obtain ⟨a, b, c, d, hsb⟩ := length4 m.sysBytes hsys
  refine ⟨a, b, c, d, hsb, ?_⟩
  rw [enc_frame m hc a b c d hsb, Nat.add_comm 10]
  have h1 : m.function.toNat % 256 = m.function.toNat := by omega
  have h2 : (m.stream.toNat + (if m.waitBit == 1 then 128 else 0)) % 256
      = (if m.waitBit = 1 then 128 else 0) + m.stream.toNat := by
    by_cases hw : m.waitBit = 1
    · simp [hw]; omega
    · simp [hw]; omega
  rw [h1, h2]
  simp

/-- a message that is not complete (optional wait bit, unfilled variable, no session id)
encodes to the empty byte string -/
theorem incomplete_empty (m : Msg) (h : m.complete = false) : m.enc = [] := by
  simp [Msg.enc, h]

/-- what "complete" means -/
theorem complete_iff (m : Msg) :
    m.complete = true ↔ (m.waitBit ≠ 2 ∧ m.item.vars = [] ∧ m.sessionID ≠ -1) := by
  simp [Msg.complete, and_assoc]

/-! ### the tie to the source: tables by value -/
theorem facts_tables :
    Generated.maxByteSize = (limit : Int) ∧ Generated.tableKeysOk = true ∧
    Generated.bytePerValue = Fmt.all.map (fun f => (f.width : Int)) ∧
    Generated.formatCode = Fmt.all.map (fun f => (f.code : Int)) := by decide

/-! ### non-vacuity -/
example : Encodes (.list (.item (.uint 1 [.val 7]) (.item (.ascii [65, 66]) .nil)))
    [0x01, 2, 0xA5, 1, 7, 0x41, 2, 65, 66] := by
  have := Secs.enc_sound (.list (.item (.uint 1 [.val 7]) (.item (.ascii [65, 66]) .nil))) (by decide) (by decide)
  simpa [Tmpl.enc, Slots.enc, headerBytes, withHeader, slotVals, beEnc, dataByteLength, Fmt.width, Fmt.code,
    maxByteSize, Slots.len, uintFmt?] using this

end Secs.C02
