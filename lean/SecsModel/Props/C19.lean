/-
C19 — messages in one SML text are parsed independently.

Proved on the parser model:
 * `tokens_independent`: for the token stream `A` of ANY accepted first text and any token stream
   `B`, parsing `A ++ B` gives the messages of `A` followed by exactly what parsing `B` alone gives
   (same messages, same errors, the warnings of both). It rests on the locality of the parser
   (`parseMessage_loc`, `parseLoop_prefix` in Proofs/ParserLocal, ParserConcat: what is done up to
   a point does not depend on tokens not yet reached), on `parseLoop_clean_at_eof` (no error ⇒ the
   loop ran to the end-of-input token) and on `continuation_independent` below;
 * variable names and ellipsis numbering are scoped to one message: whatever names and counter the
   previous message left behind, `parseMessage` starts from none (`scope_reset`, `loop_scope`);
   the loop handles one message after the other, appending in order, and stops at the first
   message that fails (`loop_unfold`, `loop_acc`, `loop_acc_prefix`);
 * `printed_texts_independent`: the text-level statement `parse (t₁ ++ sep ++ t₂) = parse t₁ ++
   parse t₂` for texts in printed form (lexer half from Proofs/LexPrintedItems).
* `texts_independent` (and `texts_independent_accepted`, `texts_independent_list`): the text-level
   statement for texts in ANY spelling. `x` is any accepted text that ends with a line break, `b`
   any text at all: `parse (x ++ b)` gives the messages of `x` followed by exactly what `parse b`
   gives - the same messages, the same errors, the warnings of both (diagnostics compared by
   their texts; their positions move with the text). It joins `tokens_independent` with the
   locality of the lexer (Proofs/LexLocal, LexScan, LexConcat: on a text that ends with a line feed
   every scanner has decided what it returns before it could look past that line feed -
   `lexFrom_concat`), with `accepted_ends_msgEnd` (Proofs/ParserEnds: an accepted stream ends with a
   message terminator, so the lexer is back in the header state) and with the fact that an accepted
   text holds no lexing error (the error token ends the stream and is no terminator).
`texts_independent_blank`: the same behind ANY blank - the first text (accepted when closed by a
line break, no comment open at its end) followed by a space, tab, CR or line break and then any text.
Not covered by a theorem: a first text joined "by nothing" directly behind its terminator (or
ending in a comment that the second text would continue) - for
printed forms `printed_texts_independent` covers it; in general it is decided on the real code by
the concatenation suite (deep equality with each text parsed alone, every separator kind) and the
model is compared on every concatenated text.
-/
import SecsModel.Model.Parser
import SecsModel.Proofs.ParserNat
import SecsModel.Proofs.LexPrintedItems
import SecsModel.Proofs.ParserConcat
import SecsModel.Proofs.LexConcat
import SecsModel.Proofs.ParserEnds
import SecsModel.Proofs.LexBlankConcat
import SecsModel.Generated.Facts
namespace Secs.C19
open Secs Secs.Sml Secs.Lex

/-- names and ellipsis counter of the previous message are irrelevant to the next one -/
theorem scope_reset (s : PS) (names : List Name) (ell : Nat) :
    parseMessage { s with names := names, ell := ell } = parseMessage s := by
  unfold parseMessage
  rfl

/-- the loop: stop at end of input or at a failing message, otherwise append and go on -/
theorem loop_unfold (fuel : Nat) (s : PS) (acc : List Msg) :
    parseLoop (fuel + 1) s acc =
      if s.peek.kind == .eof then some (acc.reverse, s) else
      match parseMessage s with
      | (none, s1) => some (acc.reverse, s1)
      | (some none, _) => none
      | (some (some m), s1) => parseLoop fuel s1 (m :: acc) := rfl

/-- messages already parsed stay in front, in order, whatever follows -/
theorem loop_acc_prefix (fuel : Nat) (s : PS) (acc : List Msg) (ms : List Msg) (s' : PS)
    (h : parseLoop fuel s acc = some (ms, s')) : ∃ rest, ms = acc.reverse ++ rest := by
  induction fuel generalizing s acc with
  | zero => simp [parseLoop] at h; exact ⟨[], by simp [h.1]⟩
  | succ n ih =>
    rw [loop_unfold] at h
    split at h
    · injection h with h; injection h with h1 _; exact ⟨[], by simp [h1]⟩
    · split at h
      · injection h with h; injection h with h1 _; exact ⟨[], by simp [h1]⟩
      · cases h
      · rename_i m s1 _
        obtain ⟨rest, hr⟩ := ih s1 (m :: acc) h
        exact ⟨m :: rest, by simp [hr]⟩

/-- the messages parsed so far are only ever a prefix put in front -/
theorem loop_acc (fuel : Nat) : ∀ (s : PS) (acc : List Msg),
    parseLoop fuel s acc = (parseLoop fuel s []).map (fun r => (acc.reverse ++ r.1, r.2)) := by
  induction fuel with
  | zero => intro s acc; simp [parseLoop]
  | succ n ih =>
    intro s acc
    rw [loop_unfold, loop_unfold]
    split
    · simp
    · cases h : parseMessage s with
      | mk o s1 =>
        cases o with
        | none => simp
        | some om =>
          cases om with
          | none => simp
          | some m =>
            simp only
            rw [ih s1 (m :: acc), ih s1 [m]]
            cases parseLoop n s1 [] with
            | none => rfl
            | some r => simp

/-- what a run of the message loop shows to the caller: messages, errors, warnings -/
def obs (r : Option (List Msg × PS)) : Option (List Msg × List Diag × List Diag) :=
  r.map (fun x => (x.1, x.2.errs, x.2.warns))

/-- the names and the ellipsis counter a previous message left behind are invisible -/
theorem loop_scope (fuel : Nat) (s : PS) (acc : List Msg) (names : List Name) (ell : Nat) :
    obs (parseLoop fuel { s with names := names, ell := ell } acc) = obs (parseLoop fuel s acc) := by
  cases fuel with
  | zero => simp [parseLoop, obs]
  | succ n =>
    rw [loop_unfold, loop_unfold, scope_reset]
    have hp : ({ s with names := names, ell := ell } : PS).peek = s.peek := rfl
    rw [hp]
    split
    · simp [obs]
    · rfl

/-- **Independence of what follows from what came before.** When the loop has parsed the
messages `acc` of a first text without error and stands at the tokens `tb` of a second text —
with whatever warnings `wA`, variable names and ellipsis counter the first text left — it
returns exactly `acc`, followed by what parsing `tb` alone returns, with the same errors and the
same warnings added to `wA`. -/
theorem continuation_independent (fuel : Nat) (tb : List Tok) (acc : List Msg) (wA : List Diag)
    (names : List Name) (ell : Nat) :
    obs (parseLoop fuel { toks := tb, errs := [], warns := wA, names := names, ell := ell, skipSize := false } acc) =
      (obs (parseLoop fuel { toks := tb } [])).map (fun r => (acc.reverse ++ r.1, r.2.1, r.2.2 ++ wA)) := by
  have h1 := loop_scope fuel { toks := tb, errs := [], warns := wA, names := [], ell := 0, skipSize := false } acc names ell
  simp only at h1
  rw [h1, loop_acc]
  have h2 := parseLoop_frame wA fuel { toks := tb } []
  simp only [List.nil_append] at h2
  rw [h2]
  cases parseLoop fuel { toks := tb } [] with
  | none => rfl
  | some r => simp [obs]

/-- **Independence for texts in printed form.** Any number of printable messages, each printed and
followed by any run of blanks / tabs / line breaks (or by nothing), parse to exactly these
messages in order — the messages of the first text followed by those of the second, each equal to
what parsing its own printed form alone gives (`C04.print_parse`). -/
theorem printed_texts_independent (ual : List Nat) (sep : Bytes) (hsep : ∀ c ∈ sep, isBlank c = true)
    (ms1 ms2 : List Msg) (h1 : ∀ m ∈ ms1, Printable m) (h2 : ∀ m ∈ ms2, Printable m) :
    parse ual (printAll sep ms1 ++ printAll sep ms2) = .done (ms1.map unaddressed ++ ms2.map unaddressed) [] [] ∧
    parse ual (printAll sep ms1) = .done (ms1.map unaddressed) [] [] ∧
    parse ual (printAll sep ms2) = .done (ms2.map unaddressed) [] [] := by
  refine ⟨?_, parse_printAll ual sep hsep ms1 h1, parse_printAll ual sep hsep ms2 h2⟩
  have e : printAll sep ms1 ++ printAll sep ms2 = printAll sep (ms1 ++ ms2) := by simp [printAll]
  rw [e, ← List.map_append]
  exact parse_printAll ual sep hsep (ms1 ++ ms2) (by
    intro m hm
    rcases List.mem_append.mp hm with h | h
    · exact h1 m h
    · exact h2 m h)

/-! ### independence for arbitrary accepted token streams -/

/-- the outcome `parseToks` makes of what a run of the message loop shows -/
def outOf : Option (List Msg × List Diag × List Diag) → Outcome
  | none => .panic
  | some (msgs, errs, warns) => if errs.isEmpty then .done msgs [] warns.reverse else .done [] errs.reverse warns.reverse

theorem parseToks_outOf (toks : List Tok) : parseToks toks = outOf (obs (parseLoop (toks.length + 1) { toks := toks } [])) := by
  unfold parseToks outOf obs
  cases parseLoop (toks.length + 1) { toks := toks } [] with
  | none => rfl
  | some r => rfl

/-- **Messages are parsed independently, whatever they are spelled like.** `A` is the token
stream of an accepted first text (without its end-of-input token `e`; acceptance: the parser
reports no error on `A ++ [e]`), `B` any token stream. Then parsing `A ++ B` gives the messages
of the first text followed by what parsing `B` alone gives — the same messages, the same errors,
the warnings of both — and the variable names and the ellipsis count the first text leaves behind
have no influence. -/
theorem tokens_independent (A B : List Tok) (e : Tok) (he : e.kind = .eof) (hA : ∀ t ∈ A, t.kind ≠ .eof)
    (ms1 : List Msg) (w1 : List Diag) (h1 : parseToks (A ++ [e]) = .done ms1 [] w1) :
    parseToks (A ++ B) =
      match parseToks B with
      | .panic => .panic
      | .done ms2 errs w2 => if errs.isEmpty then .done (ms1 ++ ms2) [] (w1 ++ w2) else .done [] errs (w1 ++ w2) := by
  -- what the first run was
  unfold parseToks at h1
  cases hrun : parseLoop ((A ++ [e]).length + 1) { toks := A ++ [e] } [] with
  | none => rw [hrun] at h1; cases h1
  | some r =>
    obtain ⟨ms, sEnd⟩ := r
    rw [hrun] at h1
    dsimp only at h1
    have herr : sEnd.errs = [] := by
      cases hE : sEnd.errs with
      | nil => rfl
      | cons x xs => simp [hE] at h1
    simp only [herr, List.isEmpty_nil, if_true, Outcome.done.injEq, true_and] at h1
    obtain ⟨hms, hw⟩ := h1
    obtain ⟨acc', f2', r1, r2, r3, r4⟩ := parseLoop_prefix e he B ((A ++ [e]).length + 1) A { toks := A ++ [e] } [] ms sEnd
      ((A ++ B).length + 1) hA rfl (by simp) (by simp) hrun herr
    have hskip := parseLoop_skip _ _ _ _ _ rfl hrun herr
    have hst : sEnd.withToks B = { toks := B, errs := [], warns := sEnd.warns, names := sEnd.names, ell := sEnd.ell, skipSize := false } := by
      cases sEnd
      simp only [PS.withToks] at *
      simp_all
    have hfuel := parseLoop_fuel f2' (B.length + 1) (sEnd.withToks B) acc' (by simpa using r3) (by simp)
    rw [parseToks_outOf, parseToks_outOf]
    have e0 : ({ toks := A ++ [e] } : PS).withToks (A ++ B) = { toks := A ++ B } := rfl
    rw [e0] at r4
    rw [r4, hfuel, hst, continuation_independent]
    cases hB : parseLoop (B.length + 1) { toks := B } [] with
    | none => simp [obs, outOf]
    | some rb =>
      obtain ⟨ms2, sB⟩ := rb
      simp only [obs, Option.map_some, outOf]
      subst hms
      rw [← hw, r1]
      cases hEB : sB.errs with
      | nil => simp
      | cons x xs => simp


/-! ### independence for texts in any spelling (lexer locality + parser locality) -/

def nc (t : Tok) : Bool := t.kind != .comment

theorem parse_eq_lexFrom (ual : List Nat) (x : Bytes) : parse ual x = parseToks ((lexFrom ual .header x).filter nc) := rfl

theorem eraseT_idem (t : Tok) : eraseT (eraseT t) = eraseT t := rfl

theorem filter_eraseT (l : List Tok) : (l.filter nc).map eraseTok = (l.map eraseT).filter nc := by
  induction l with
  | nil => rfl
  | cons t l ih =>
    simp only [List.filter_cons, List.map_cons]
    have : nc (eraseT t) = nc t := rfl
    rw [this]
    split
    · simp only [List.map_cons, ih]; rfl
    · exact ih

/-- what is parsed depends on the token stream only up to positions -/
theorem content_erased (l : List Tok) :
    (parseToks (l.filter nc)).content = (parseToks ((l.map eraseT).filter nc)).content := by
  apply positions_irrelevant
  rw [filter_eraseT, filter_eraseT, List.map_map]
  congr 1

theorem content_done (o : Outcome) (ms : List Msg) (ws : List String) (h : o.content = some (ms, [], ws)) :
    ∃ w, o = .done ms [] w ∧ w.map (·.kind) = ws := by
  cases o with
  | panic => simp [Outcome.content] at h
  | done m e w =>
    simp only [Outcome.content, Option.some.injEq, Prod.mk.injEq] at h
    obtain ⟨h1, h2, h3⟩ := h
    have : e = [] := by simpa using h2
    subst this; subst h1
    exact ⟨w, rfl, h3⟩

/-- **Independence for texts in any spelling.** `x` is any accepted text that ends with a line
break, `b` any text at all. Then parsing `x ++ b` gives the messages of `x` followed by exactly what
parsing `b` alone gives: the same messages, the same errors, the warnings of both (diagnostics are
compared by their texts; their positions move with the text). -/
theorem texts_independent (ual : List Nat) (x b : Bytes) (hx : EndsLF x) (ms1 : List Msg) (ws1 : List String)
    (h : (parse ual x).content = some (ms1, [], ws1)) :
    (parse ual (x ++ b)).content =
      match (parse ual b).content with
      | none => none
      | some (ms2, es, ws2) => if es.isEmpty then some (ms1 ++ ms2, [], ws1 ++ ws2) else some ([], es, ws1 ++ ws2) := by
  have hx2 : (parse ual (x ++ b)).content = (parseToks (((lexFrom ual .header (x ++ b)).map eraseT).filter nc)).content := by
    rw [parse_eq_lexFrom]; exact content_erased _
  have hb2 : (parse ual b).content = (parseToks (((lexFrom ual .header b).map eraseT).filter nc)).content := by
    rw [parse_eq_lexFrom]; exact content_erased _
  rw [parse_eq_lexFrom, content_erased] at h
  rw [hx2, hb2]
  obtain ⟨w1, hP, hw1⟩ := content_done _ _ _ h
  -- the stream of `x` holds no lexing error
  have hnoerr : ∀ t ∈ (lexFrom ual .header x).map eraseT, t.kind ≠ .error := by
    obtain ⟨ts, last, e1, e2, e3⟩ := lexFuel_shape ual (x.length + 1) .header ⟨x, 1, []⟩ (by simp)
    have e1' : lexFrom ual .header x = ts ++ [last] := e1
    rcases e3 with e3 | e3
    · intro t ht
      rw [e1'] at ht
      simp only [List.map_append, List.map_cons, List.map_nil, List.mem_append, List.mem_map, List.mem_singleton] at ht
      rcases ht with ⟨t0, ht0, rfl⟩ | rfl
      · exact (e2 t0 ht0).2
      · rw [eraseT_kind, e3]; decide
    · exfalso
      rw [e1'] at hP
      have hk : nc (eraseT last) = true := by
        show (last.kind != Kind.comment) = true
        rw [e3]; decide
      simp only [List.map_append, List.map_cons, List.map_nil, List.filter_append, List.filter_cons, hk, if_true, List.filter_nil] at hP
      have hT : ∀ t ∈ (ts.map eraseT).filter nc ++ [eraseT last], t.kind ≠ .eof := by
        intro t ht
        rcases List.mem_append.mp ht with ht | ht
        · obtain ⟨t0, ht0, rfl⟩ := List.mem_map.mp (List.mem_filter.mp ht).1
          exact (e2 t0 ht0).1
        · rw [List.mem_singleton.mp ht, eraseT_kind, e3]; decide
      rcases accepted_ends_msgEnd _ hT ms1 w1 hP with hnil | ⟨pre, d, hd, hdk⟩
      · simp at hnil
      · have := List.append_inj' hd rfl
        have hd2 : eraseT last = d := by simpa using this.2
        rw [← hd2, eraseT_kind, e3] at hdk
        cases hdk
  obtain ⟨ts, i1, i2, i3⟩ := lexFrom_concat ual b x.length x .header (Nat.le_refl _) hx hnoerr
  have hke : nc Lex.eofTok = true := by decide
  have hA : ∀ t ∈ ts.filter nc, t.kind ≠ .eof := fun t ht => (i3 t (List.mem_filter.mp ht).1).1
  rw [i1] at hP
  simp only [List.filter_append, List.filter_cons, hke, if_true, List.filter_nil] at hP
  -- the first text leaves the lexer in the header state
  have hmode : modeOf .header ts = .header := by
    rw [← modeOf_filter]
    rcases accepted_ends_msgEnd_eof (ts.filter nc) Lex.eofTok rfl hA ms1 w1 hP with hnil | ⟨pre, d, hd, hdk⟩
    · have : ts.filter (fun t => t.kind != .comment) = [] := hnil
      rw [this]; rfl
    · have : ts.filter (fun t => t.kind != .comment) = pre ++ [d] := hd
      rw [this]; exact modeOf_ends_msgEnd _ _ _ hdk
  rw [i2, hmode, List.filter_append]
  rw [tokens_independent (ts.filter nc) _ Lex.eofTok rfl hA ms1 w1 hP]
  cases parseToks (((lexFrom ual .header b).map eraseT).filter nc) with
  | panic => rfl
  | done ms2 errs w2 =>
    simp only [Outcome.content]
    cases errs with
    | nil => simp [hw1]
    | cons e es => simp [hw1]


/-- an accepted text holds no lexing error: the error token would end the stream, and an accepted
stream ends with a message terminator -/
theorem accepted_no_lex_error (ual : List Nat) (x : Bytes) (ms1 : List Msg) (w1 : List Diag)
    (hP : parseToks (((lexFrom ual .header x).map eraseT).filter nc) = .done ms1 [] w1) :
    ∀ t ∈ (lexFrom ual .header x).map eraseT, t.kind ≠ .error := by
  obtain ⟨ts, last, e1, e2, e3⟩ := lexFuel_shape ual (x.length + 1) .header ⟨x, 1, []⟩ (by simp)
  have e1' : lexFrom ual .header x = ts ++ [last] := e1
  rcases e3 with e3 | e3
  · intro t ht
    rw [e1'] at ht
    simp only [List.map_append, List.map_cons, List.map_nil, List.mem_append, List.mem_map, List.mem_singleton] at ht
    rcases ht with ⟨t0, ht0, rfl⟩ | rfl
    · exact (e2 t0 ht0).2
    · rw [eraseT_kind, e3]; decide
  · exfalso
    rw [e1'] at hP
    have hk : nc (eraseT last) = true := by
      show (last.kind != Kind.comment) = true
      rw [e3]; decide
    simp only [List.map_append, List.map_cons, List.map_nil, List.filter_append, List.filter_cons, hk, if_true, List.filter_nil] at hP
    have hT : ∀ t ∈ (ts.map eraseT).filter nc ++ [eraseT last], t.kind ≠ .eof := by
      intro t ht
      rcases List.mem_append.mp ht with ht | ht
      · obtain ⟨t0, ht0, rfl⟩ := List.mem_map.mp (List.mem_filter.mp ht).1
        exact (e2 t0 ht0).1
      · rw [List.mem_singleton.mp ht, eraseT_kind, e3]; decide
    rcases accepted_ends_msgEnd _ hT ms1 w1 hP with hnil | ⟨pre, d, hd, hdk⟩
    · simp at hnil
    · have := List.append_inj' hd rfl
      have hd2 : eraseT last = d := by simpa using this.2
      rw [← hd2, eraseT_kind, e3] at hdk
      cases hdk

/-- the common core: the first text `X` is accepted, its tokens are `ts`, and the tokens of the
whole text `XB` are `ts` followed by the tokens of `b` lexed in the mode `ts` leaves -/
theorem independent_core (ual : List Nat) (X XB b : Bytes) (ts : List Tok) (ms1 : List Msg) (ws1 : List String)
    (h : (parse ual X).content = some (ms1, [], ws1))
    (i1 : (lexFrom ual .header X).map eraseT = ts ++ [Lex.eofTok])
    (i2 : (lexFrom ual .header XB).map eraseT = ts ++ (lexFrom ual (modeOf .header ts) b).map eraseT)
    (i3 : ∀ t ∈ ts, t.kind ≠ .eof ∧ t.kind ≠ .error) :
    (parse ual XB).content =
      match (parse ual b).content with
      | none => none
      | some (ms2, es, ws2) => if es.isEmpty then some (ms1 ++ ms2, [], ws1 ++ ws2) else some ([], es, ws1 ++ ws2) := by
  have hx2 : (parse ual XB).content = (parseToks (((lexFrom ual .header XB).map eraseT).filter nc)).content := by
    rw [parse_eq_lexFrom]; exact content_erased _
  have hb2 : (parse ual b).content = (parseToks (((lexFrom ual .header b).map eraseT).filter nc)).content := by
    rw [parse_eq_lexFrom]; exact content_erased _
  rw [parse_eq_lexFrom, content_erased] at h
  rw [hx2, hb2]
  obtain ⟨w1, hP, hw1⟩ := content_done _ _ _ h
  have hke : nc Lex.eofTok = true := by decide
  have hA : ∀ t ∈ ts.filter nc, t.kind ≠ .eof := fun t ht => (i3 t (List.mem_filter.mp ht).1).1
  rw [i1] at hP
  simp only [List.filter_append, List.filter_cons, hke, if_true, List.filter_nil] at hP
  have hmode : modeOf .header ts = .header := by
    rw [← modeOf_filter]
    rcases accepted_ends_msgEnd_eof (ts.filter nc) Lex.eofTok rfl hA ms1 w1 hP with hnil | ⟨pre, d, hd, hdk⟩
    · have : ts.filter (fun t => t.kind != .comment) = [] := hnil
      rw [this]; rfl
    · have : ts.filter (fun t => t.kind != .comment) = pre ++ [d] := hd
      rw [this]; exact modeOf_ends_msgEnd _ _ _ hdk
  rw [i2, hmode, List.filter_append]
  rw [tokens_independent (ts.filter nc) _ Lex.eofTok rfl hA ms1 w1 hP]
  cases parseToks (((lexFrom ual .header b).map eraseT).filter nc) with
  | panic => rfl
  | done ms2 errs w2 =>
    simp only [Outcome.content]
    cases errs with
    | nil => simp [hw1]
    | cons e es => simp [hw1]

/-- **Independence behind any blank.** `p`, closed by a line break, is an accepted text, and no
comment is open at its end. Then `p` followed by ANY blank - space, tab, CR or line break - and any
text `b` parses to the messages of `p` followed by exactly what `b` gives alone. -/
theorem texts_independent_blank (ual : List Nat) (p b : Bytes) (w : Nat) (hw : isBlank w = true)
    (hC : w = 10 ∨ ∀ s, s <:+ p → startsWith [47, 47] s = true → 10 ∈ s)
    (ms1 : List Msg) (ws1 : List String) (h : (parse ual (p ++ [10])).content = some (ms1, [], ws1)) :
    (parse ual (p ++ w :: b)).content =
      match (parse ual b).content with
      | none => none
      | some (ms2, es, ws2) => if es.isEmpty then some (ms1 ++ ms2, [], ws1 ++ ws2) else some ([], es, ws1 ++ ws2) := by
  have h' := h
  rw [parse_eq_lexFrom, content_erased] at h'
  obtain ⟨w1, hP, _⟩ := content_done _ _ _ h'
  have hne := accepted_no_lex_error ual (p ++ [10]) ms1 w1 hP
  obtain ⟨ts, i1, i2, i3⟩ := lexFrom_blank ual b w hw p.length p .header (Nat.le_refl _) hne hC
  exact independent_core ual (p ++ [10]) (p ++ w :: b) b ts ms1 ws1 h i1 i2 i3

/-- both texts accepted: the concatenation is accepted and holds the messages of both, in order -/
theorem texts_independent_accepted (ual : List Nat) (x b : Bytes) (hx : EndsLF x) (ms1 ms2 : List Msg) (ws1 ws2 : List String)
    (h1 : (parse ual x).content = some (ms1, [], ws1)) (h2 : (parse ual b).content = some (ms2, [], ws2)) :
    (parse ual (x ++ b)).content = some (ms1 ++ ms2, [], ws1 ++ ws2) := by
  rw [texts_independent ual x b hx ms1 ws1 h1, h2]
  rfl

/-- any number of accepted texts, each ending with a line break: their concatenation is accepted
and holds the messages of all of them, in order, each as parsed alone -/
theorem texts_independent_list (ual : List Nat) : ∀ (texts : List (Bytes × List Msg × List String)),
    (∀ t ∈ texts, EndsLF t.1 ∧ (parse ual t.1).content = some (t.2.1, [], t.2.2)) →
    (parse ual (texts.map (·.1)).flatten).content = some ((texts.map (·.2.1)).flatten, [], (texts.map (·.2.2)).flatten) ∨ texts = []
  | [], _ => Or.inr rfl
  | t :: rest, h => by
    left
    obtain ⟨ht1, ht2⟩ := h t (by simp)
    rcases texts_independent_list ual rest (fun u hu => h u (List.mem_cons_of_mem _ hu)) with ih | hnil
    · simp only [List.map_cons, List.flatten_cons]
      exact texts_independent_accepted ual t.1 _ ht1 _ _ _ _ ht2 ih
    · subst hnil
      simp only [List.map_cons, List.map_nil, List.flatten_cons, List.flatten_nil, List.append_nil]
      exact ht2

/-! non-vacuity (tests): a first text in free spelling - lower-case keywords, a comment, a size
declaration over two lines, hexadecimal and exponent literals - meets the hypotheses -/
def sampleText : Bytes := str "s1f1 w // first\n<l [ 2\n ] <u1 0x1f> <f4 1e3>>\n.\n"
example : EndsLF sampleText := ⟨sampleText.dropLast, by decide +kernel⟩
example : ((parse [] sampleText).content.map (fun r => (r.1.length, r.2.1))) = some (1, []) := by decide +kernel

/-- tie to the source: the token channel is per call (capacity constant), no package state -/
theorem facts_no_shared_state : Generated.pkgVars = [] ∧ Generated.tokenChanCap = 2 := by decide

/-! ### non-vacuity (tests): the same variable name and ellipsis in two messages of one text -/
example : (match parse [] (str "S1F1 <L <U1 x> ...>.S1F3 <L <A x> ...>.") with
    | .done msgs [] _ => msgs.map (fun m => m.item.vars) | _ => []) =
    [[[120], [46, 46, 46, 91, 48, 93]], [[120], [46, 46, 46, 91, 48, 93]]] := by decide +kernel

end Secs.C19
