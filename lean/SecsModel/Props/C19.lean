/-
C19 — messages in one SML text are parsed independently.

Proved on the parser model:
 * `tokens_independent`: for the token stream `A` of ANY accepted first text and any token stream
   `B`, parsing `A ++ B` gives the messages of `A` followed by exactly what parsing `B` alone gives
   (same messages, same errors, the warnings of both). It rests on the locality of the parser
   (`parseMessage_loc`, `parseLoop_prefix` in Proofs/ParserLocal, ParserConcat: what is done up to
   a point does not depend on tokens not yet reached), on `parseLoop_clean_at_eof` (no error ⇒ the
   loop ran to the end-of-input token) and on `continuation_independent` below;
 * variable names and ellipsis numbering are scoped to one message: whatever names and counter the
   previous message left behind, `parseMessage` starts from none (`scope_reset`, `loop_scope`);
   the loop handles one message after the other, appending in order, and stops at the first
   message that fails (`loop_unfold`, `loop_acc`, `loop_acc_prefix`);
 * `printed_texts_independent`: the text-level statement `parse (t₁ ++ sep ++ t₂) = parse t₁ ++
   parse t₂` for texts in printed form (lexer half from Proofs/LexPrintedItems).
`concat_independence_partial`: for texts in arbitrary spelling the one missing step is lexical —
that the token stream of a concatenation is the first text's stream followed by the second's
(locality of every scanner; building blocks in Proofs/LexLocal). It is decided on the real code by
the concatenation suite (deep equality with each text parsed alone) and the model is compared on
every concatenated text.
-/
import SecsModel.Model.Parser
import SecsModel.Proofs.ParserNat
import SecsModel.Proofs.LexPrintedItems
import SecsModel.Proofs.ParserConcat
import SecsModel.Generated.Facts
namespace Secs.C19
open Secs Secs.Sml Secs.Lex

/-- names and ellipsis counter of the previous message are irrelevant to the next one -/
theorem scope_reset (s : PS) (names : List Name) (ell : Nat) :
    parseMessage { s with names := names, ell := ell } = parseMessage s := by
  unfold parseMessage
  rfl

/-- the loop: stop at end of input or at a failing message, otherwise append and go on -/
theorem loop_unfold (fuel : Nat) (s : PS) (acc : List Msg) :
    parseLoop (fuel + 1) s acc =
      if s.peek.kind == .eof then some (acc.reverse, s) else
      match parseMessage s with
      | (none, s1) => some (acc.reverse, s1)
      | (some none, _) => none
      | (some (some m), s1) => parseLoop fuel s1 (m :: acc) := rfl

/-- messages already parsed stay in front, in order, whatever follows -/
theorem loop_acc_prefix (fuel : Nat) (s : PS) (acc : List Msg) (ms : List Msg) (s' : PS)
    (h : parseLoop fuel s acc = some (ms, s')) : ∃ rest, ms = acc.reverse ++ rest := by
  induction fuel generalizing s acc with
  | zero => simp [parseLoop] at h; exact ⟨[], by simp [h.1]⟩
  | succ n ih =>
    rw [loop_unfold] at h
    split at h
    · injection h with h; injection h with h1 _; exact ⟨[], by simp [h1]⟩
    · split at h
      · injection h with h; injection h with h1 _; exact ⟨[], by simp [h1]⟩
      · cases h
      · rename_i m s1 _
        obtain ⟨rest, hr⟩ := ih s1 (m :: acc) h
        exact ⟨m :: rest, by simp [hr]⟩

/-- the messages parsed so far are only ever a prefix put in front -/
theorem loop_acc (fuel : Nat) : ∀ (s : PS) (acc : List Msg),
    parseLoop fuel s acc = (parseLoop fuel s []).map (fun r => (acc.reverse ++ r.1, r.2)) := by
  induction fuel with
  | zero => intro s acc; simp [parseLoop]
  | succ n ih =>
    intro s acc
    rw [loop_unfold, loop_unfold]
    split
    · simp
    · cases h : parseMessage s with
      | mk o s1 =>
        cases o with
        | none => simp
        | some om =>
          cases om with
          | none => simp
          | some m =>
            simp only
            rw [ih s1 (m :: acc), ih s1 [m]]
            cases parseLoop n s1 [] with
            | none => rfl
            | some r => simp

/-- what a run of the message loop shows to the caller: messages, errors, warnings -/
def obs (r : Option (List Msg × PS)) : Option (List Msg × List Diag × List Diag) :=
  r.map (fun x => (x.1, x.2.errs, x.2.warns))

/-- the names and the ellipsis counter a previous message left behind are invisible -/
theorem loop_scope (fuel : Nat) (s : PS) (acc : List Msg) (names : List Name) (ell : Nat) :
    obs (parseLoop fuel { s with names := names, ell := ell } acc) = obs (parseLoop fuel s acc) := by
  cases fuel with
  | zero => simp [parseLoop, obs]
  | succ n =>
    rw [loop_unfold, loop_unfold, scope_reset]
    have hp : ({ s with names := names, ell := ell } : PS).peek = s.peek := rfl
    rw [hp]
    split
    · simp [obs]
    · rfl

/-- **Independence of what follows from what came before.** When the loop has parsed the
messages `acc` of a first text without error and stands at the tokens `tb` of a second text —
with whatever warnings `wA`, variable names and ellipsis counter the first text left — it
returns exactly `acc`, followed by what parsing `tb` alone returns, with the same errors and the
same warnings added to `wA`. -/
theorem continuation_independent (fuel : Nat) (tb : List Tok) (acc : List Msg) (wA : List Diag)
    (names : List Name) (ell : Nat) :
    obs (parseLoop fuel { toks := tb, errs := [], warns := wA, names := names, ell := ell, skipSize := false } acc) =
      (obs (parseLoop fuel { toks := tb } [])).map (fun r => (acc.reverse ++ r.1, r.2.1, r.2.2 ++ wA)) := by
  have h1 := loop_scope fuel { toks := tb, errs := [], warns := wA, names := [], ell := 0, skipSize := false } acc names ell
  simp only at h1
  rw [h1, loop_acc]
  have h2 := parseLoop_frame wA fuel { toks := tb } []
  simp only [List.nil_append] at h2
  rw [h2]
  cases parseLoop fuel { toks := tb } [] with
  | none => rfl
  | some r => simp [obs]

/-- **Independence for texts in printed form.** Any number of printable messages, each printed and
followed by any run of blanks / tabs / line breaks (or by nothing), parse to exactly these
messages in order — the messages of the first text followed by those of the second, each equal to
what parsing its own printed form alone gives (`C04.print_parse`). -/
theorem printed_texts_independent (ual : List Nat) (sep : Bytes) (hsep : ∀ c ∈ sep, isBlank c = true)
    (ms1 ms2 : List Msg) (h1 : ∀ m ∈ ms1, Printable m) (h2 : ∀ m ∈ ms2, Printable m) :
    parse ual (printAll sep ms1 ++ printAll sep ms2) = .done (ms1.map unaddressed ++ ms2.map unaddressed) [] [] ∧
    parse ual (printAll sep ms1) = .done (ms1.map unaddressed) [] [] ∧
    parse ual (printAll sep ms2) = .done (ms2.map unaddressed) [] [] := by
  refine ⟨?_, parse_printAll ual sep hsep ms1 h1, parse_printAll ual sep hsep ms2 h2⟩
  have e : printAll sep ms1 ++ printAll sep ms2 = printAll sep (ms1 ++ ms2) := by simp [printAll]
  rw [e, ← List.map_append]
  exact parse_printAll ual sep hsep (ms1 ++ ms2) (by
    intro m hm
    rcases List.mem_append.mp hm with h | h
    · exact h1 m h
    · exact h2 m h)

/-! ### independence for arbitrary accepted token streams -/

/-- the outcome `parseToks` makes of what a run of the message loop shows -/
def outOf : Option (List Msg × List Diag × List Diag) → Outcome
  | none => .panic
  | some (msgs, errs, warns) => if errs.isEmpty then .done msgs [] warns.reverse else .done [] errs.reverse warns.reverse

theorem parseToks_outOf (toks : List Tok) : parseToks toks = outOf (obs (parseLoop (toks.length + 1) { toks := toks } [])) := by
  unfold parseToks outOf obs
  cases parseLoop (toks.length + 1) { toks := toks } [] with
  | none => rfl
  | some r => rfl

/-- **Messages are parsed independently, whatever they are spelled like.** `A` is the token
stream of an accepted first text (without its end-of-input token `e`; acceptance: the parser
reports no error on `A ++ [e]`), `B` any token stream. Then parsing `A ++ B` gives the messages
of the first text followed by what parsing `B` alone gives — the same messages, the same errors,
the warnings of both — and the variable names and the ellipsis count the first text leaves behind
have no influence. -/
theorem tokens_independent (A B : List Tok) (e : Tok) (he : e.kind = .eof) (hA : ∀ t ∈ A, t.kind ≠ .eof)
    (ms1 : List Msg) (w1 : List Diag) (h1 : parseToks (A ++ [e]) = .done ms1 [] w1) :
    parseToks (A ++ B) =
      match parseToks B with
      | .panic => .panic
      | .done ms2 errs w2 => if errs.isEmpty then .done (ms1 ++ ms2) [] (w1 ++ w2) else .done [] errs (w1 ++ w2) := by
  -- what the first run was
  unfold parseToks at h1
  cases hrun : parseLoop ((A ++ [e]).length + 1) { toks := A ++ [e] } [] with
  | none => rw [hrun] at h1; cases h1
  | some r =>
    obtain ⟨ms, sEnd⟩ := r
    rw [hrun] at h1
    dsimp only at h1
    have herr : sEnd.errs = [] := by
      cases hE : sEnd.errs with
      | nil => rfl
      | cons x xs => simp [hE] at h1
    simp only [herr, List.isEmpty_nil, if_true, Outcome.done.injEq, true_and] at h1
    obtain ⟨hms, hw⟩ := h1
    obtain ⟨acc', f2', r1, r2, r3, r4⟩ := parseLoop_prefix e he B ((A ++ [e]).length + 1) A { toks := A ++ [e] } [] ms sEnd
      ((A ++ B).length + 1) hA rfl (by simp) (by simp) hrun herr
    have hskip := parseLoop_skip _ _ _ _ _ rfl hrun herr
    have hst : sEnd.withToks B = { toks := B, errs := [], warns := sEnd.warns, names := sEnd.names, ell := sEnd.ell, skipSize := false } := by
      cases sEnd
      simp only [PS.withToks] at *
      simp_all
    have hfuel := parseLoop_fuel f2' (B.length + 1) (sEnd.withToks B) acc' (by simpa using r3) (by simp)
    rw [parseToks_outOf, parseToks_outOf]
    have e0 : ({ toks := A ++ [e] } : PS).withToks (A ++ B) = { toks := A ++ B } := rfl
    rw [e0] at r4
    rw [r4, hfuel, hst, continuation_independent]
    cases hB : parseLoop (B.length + 1) { toks := B } [] with
    | none => simp [obs, outOf]
    | some rb =>
      obtain ⟨ms2, sB⟩ := rb
      simp only [obs, Option.map_some, outOf]
      subst hms
      rw [← hw, r1]
      cases hEB : sB.errs with
      | nil => simp
      | cons x xs => simp


/-- tie to the source: the token channel is per call (capacity constant), no package state -/
theorem facts_no_shared_state : Generated.pkgVars = [] ∧ Generated.tokenChanCap = 2 := by decide

/-! ### non-vacuity (tests): the same variable name and ellipsis in two messages of one text -/
example : (match parse [] (str "S1F1 <L <U1 x> ...>.S1F3 <L <A x> ...>.") with
    | .done msgs [] _ => msgs.map (fun m => m.item.vars) | _ => []) =
    [[[120], [46, 46, 46, 91, 48, 93]], [[120], [46, 46, 46, 91, 48, 93]]] := by decide +kernel

end Secs.C19
