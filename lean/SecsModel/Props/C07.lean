/-
C07 — the HSMS decoder is total and its memory use is linear in the input.

Totality: `decode` is a total Lean function in which every Go panic site (slice bounds, factory
refusal) is an explicit `none`, so "failure is reported through the result" is `decode b = none`;
the fuel the decoder is given (text length + 1) is never the reason for a failure
(`fuel_never_runs_out`, from the fact that every item consumes at least two bytes).

Memory: `allocItem` mirrors the decoder's recursion and adds, at each point where the Go code
allocates a buffer whose size comes from the input (`make([]interface{}, n)`, the string
conversion, the appended child slice), the number of elements requested. The theorem
`alloc_linear` bounds it by the number of input bytes, on success and on failure, whatever
lengths the input declares. What the model cannot exhibit (allocator, GC, goroutine stack) is
measured on the real code by the correspondence run (TotalAlloc per call in a worker process).
-/
import SecsModel.Proofs.MsgCodec
import SecsModel.Generated.Facts
namespace Secs.C07
open Secs

mutual
/-- every successfully decoded item consumed at least two bytes -/
theorem decItem_consumes : ∀ (fuel : Nat) (inp : Bytes) (t : Tmpl) (r : Bytes),
    decItem fuel inp = some (t, r) → r.length + 2 ≤ inp.length
  | 0, _, _, _, h => by simp [decItem] at h
  | _ + 1, [], _, _, h => by simp [decItem] at h
  | fuel + 1, fb :: rest, t, r, h => by
    rw [decItem] at h
    by_cases hk : fb % 4 = 0
    · simp [hk] at h
    · by_cases hl : rest.length < fb % 4
      · simp [hk, hl] at h
      · simp only [hk, hl, if_false] at h
        have hk1 : 1 ≤ fb % 4 := by omega
        cases hf : decodeFmt? (fb / 4) with
        | none => simp [hf] at h
        | some f =>
          simp only [hf] at h
          cases f with
          | list =>
            simp only at h
            cases hd : decItems fuel (beDec (rest.take (fb % 4))) (rest.drop (fb % 4)) with
            | none => simp [hd] at h
            | some p =>
              obtain ⟨xs, r'⟩ := p
              simp only [hd, Option.some.injEq, Prod.mk.injEq] at h
              have := decItems_consumes fuel _ _ xs r' hd
              simp only [List.length_drop, List.length_cons] at this ⊢
              rw [← h.2]; omega
          | _ =>
            simp only at h
            split at h
            · cases h
            · split at h
              · cases h
              · simp only [Option.some.injEq, Prod.mk.injEq] at h
                rw [← h.2]
                simp only [List.length_drop, List.length_cons]
                omega
/-- n items consumed at least 2n bytes -/
theorem decItems_consumes : ∀ (fuel n : Nat) (inp : Bytes) (xs : Slots) (r : Bytes),
    decItems fuel n inp = some (xs, r) → r.length + 2 * n ≤ inp.length
  | _, 0, inp, xs, r, h => by simp [decItems] at h; rw [← h.2]; omega
  | 0, _ + 1, _, _, _, h => by simp [decItems] at h
  | fuel + 1, n + 1, inp, xs, r, h => by
    rw [decItems] at h
    cases h1 : decItem fuel inp with
    | none => simp [h1] at h
    | some p =>
      obtain ⟨x, r1⟩ := p
      simp only [h1] at h
      cases h2 : decItems fuel n r1 with
      | none => simp [h2] at h
      | some q =>
        obtain ⟨ys, r2⟩ := q
        simp only [h2, Option.some.injEq, Prod.mk.injEq] at h
        have a := decItem_consumes fuel inp x r1 h1
        have b := decItems_consumes fuel n r1 ys r2 h2
        rw [← h.2]; omega
end

/-- a list can never hold more elements than half the bytes that follow its header: a declared
count beyond that is a failure, not an allocation -/
theorem list_count_bounded (fuel n : Nat) (inp : Bytes) (xs : Slots) (r : Bytes)
    (h : decItems fuel n inp = some (xs, r)) : 2 * n ≤ inp.length := by
  have := decItems_consumes fuel n inp xs r h; omega

/-! ### the allocation model -/

mutual
/-- elements requested from the allocator while decoding one item (success or not), and the
unread suffix on success -/
def allocItem : Nat → Bytes → Nat × Option Bytes
  | 0, _ => (0, none)
  | _ + 1, [] => (0, none)
  | fuel + 1, fb :: rest =>
    let k := fb % 4
    if k = 0 then (0, none) else
    if rest.length < k then (0, none) else
    let n := beDec (rest.take k)
    let rest := rest.drop k
    match decodeFmt? (fb / 4) with
    | none => (0, none)
    | some .list => allocItems fuel n rest                      -- children are appended one by one
    | some _ =>
      if rest.length < n then (0, none)                          -- refused before any buffer is sized
      else (n + 1, some (rest.drop n))                           -- payload-sized buffer + the node
/-- children of a list: each parsed child costs its own allocations plus one slot -/
def allocItems : Nat → Nat → Bytes → Nat × Option Bytes
  | _, 0, inp => (1, some inp)
  | 0, _ + 1, _ => (0, none)
  | fuel + 1, n + 1, inp =>
    match allocItem fuel inp with
    | (c, none) => (c, none)
    | (c, some r) =>
      match allocItems fuel n r with
      | (c', o) => (c + 1 + c', o)
end

mutual
/-- whatever the input declares, the elements requested are bounded by the bytes present;
on success by the bytes consumed -/
theorem allocItem_bound : ∀ (fuel : Nat) (inp : Bytes),
    (allocItem fuel inp).1 ≤ inp.length ∧
    (∀ r, (allocItem fuel inp).2 = some r → (allocItem fuel inp).1 + r.length + 1 ≤ inp.length ∧ r.length + 2 ≤ inp.length)
  | 0, _ => by simp [allocItem]
  | _ + 1, [] => by simp [allocItem]
  | fuel + 1, fb :: rest => by
    rw [allocItem]
    by_cases hk : fb % 4 = 0
    · simp [hk]
    · by_cases hl : rest.length < fb % 4
      · simp [hk, hl]
      · simp only [hk, hl, if_false]
        have hdl : (rest.drop (fb % 4)).length = rest.length - fb % 4 := List.length_drop
        have hk1 : 1 ≤ fb % 4 := by omega
        cases hf : decodeFmt? (fb / 4) with
        | none => simp
        | some f =>
          cases f with
          | list =>
            simp only
            have hb := allocItems_bound fuel (beDec (rest.take (fb % 4))) (rest.drop (fb % 4))
            rw [hdl] at hb
            have hlen : (fb :: rest).length = rest.length + 1 := rfl
            refine ⟨by rw [hlen]; omega, fun r hr => ?_⟩
            have h2 := hb.2 r hr
            have h3 := allocItems_suffix fuel _ _ r hr
            rw [hdl] at h3
            rw [hlen]; omega
          | _ =>
            simp only
            split
            · simp
            · rename_i hn
              have hlen : (fb :: rest).length = rest.length + 1 := rfl
              have hdn : ((rest.drop (fb % 4)).drop (beDec (rest.take (fb % 4)))).length
                  = (rest.drop (fb % 4)).length - beDec (rest.take (fb % 4)) := List.length_drop
              simp only [Option.some.injEq]
              refine ⟨by rw [hlen]; omega, fun r hr => ?_⟩
              rw [← hr, hlen]; omega
/-- the suffix left by n items is no longer than the input -/
theorem allocItems_suffix : ∀ (fuel n : Nat) (inp r : Bytes), (allocItems fuel n inp).2 = some r → r.length ≤ inp.length
  | _, 0, inp, r, h => by simp [allocItems] at h; rw [← h]; omega
  | 0, _ + 1, _, _, h => by simp [allocItems] at h
  | fuel + 1, n + 1, inp, r, h => by
    rw [allocItems] at h
    have h1 := allocItem_bound fuel inp
    cases ha : allocItem fuel inp with
    | mk c o =>
      rw [ha] at h h1
      cases o with
      | none => simp at h
      | some r1 =>
        simp only at h
        have h1r := h1.2 r1 rfl
        cases hb : allocItems fuel n r1 with
        | mk c' o' =>
          rw [hb] at h
          simp only at h
          have := allocItems_suffix fuel n r1 r (by rw [hb]; exact h)
          omega
theorem allocItems_bound : ∀ (fuel n : Nat) (inp : Bytes),
    (allocItems fuel n inp).1 ≤ inp.length + 1 ∧
    (∀ r, (allocItems fuel n inp).2 = some r → (allocItems fuel n inp).1 + r.length ≤ inp.length + 1)
  | _, 0, inp => by simp [allocItems]; omega
  | 0, _ + 1, _ => by simp [allocItems]
  | fuel + 1, n + 1, inp => by
    rw [allocItems]
    have h1 := allocItem_bound fuel inp
    cases ha : allocItem fuel inp with
    | mk c o =>
      rw [ha] at h1
      cases o with
      | none => simp only; exact ⟨by have := h1.1; simp at this; omega, by simp⟩
      | some r =>
        simp only
        have h1r := h1.2 r rfl
        have h2 := allocItems_bound fuel n r
        cases hb : allocItems fuel n r with
        | mk c' o' =>
          rw [hb] at h2
          simp only at h1r h2 ⊢
          refine ⟨by omega, fun r' hr' => ?_⟩
          have := h2.2 r' hr'
          omega
end

/-- memory is linear in the input, whatever lengths it declares -/
theorem alloc_linear (inp : Bytes) : (allocItem (inp.length + 1) inp).1 ≤ inp.length :=
  (allocItem_bound _ inp).1

mutual
/-- the allocation model follows the decoder: wherever the decoder succeeds the model has taken
the same path and stands at the same suffix (where a factory refuses a payload after the buffer
was sized, the model goes on, which can only add to its count) -/
theorem allocItem_follows : ∀ (fuel : Nat) (inp : Bytes) (t : Tmpl) (r : Bytes),
    decItem fuel inp = some (t, r) → (allocItem fuel inp).2 = some r
  | 0, _, _, _, h => by simp [decItem] at h
  | _ + 1, [], _, _, h => by simp [decItem] at h
  | fuel + 1, fb :: rest, t, r, h => by
    rw [decItem] at h
    rw [allocItem]
    by_cases hk : fb % 4 = 0
    · simp [hk] at h
    · by_cases hl : rest.length < fb % 4
      · simp [hk, hl] at h
      · simp only [hk, hl, if_false] at h ⊢
        cases hf : decodeFmt? (fb / 4) with
        | none => simp [hf] at h
        | some f =>
          simp only [hf] at h
          cases f with
          | list =>
            simp only at h ⊢
            cases hd : decItems fuel (beDec (rest.take (fb % 4))) (rest.drop (fb % 4)) with
            | none => simp [hd] at h
            | some p =>
              obtain ⟨xs, r'⟩ := p
              simp only [hd, Option.some.injEq, Prod.mk.injEq] at h
              rw [← h.2]
              exact allocItems_follows fuel _ _ xs r' hd
          | _ =>
            simp only at h ⊢
            split at h
            · cases h
            · rename_i hn
              split at h
              · cases h
              · simp only [Option.some.injEq, Prod.mk.injEq] at h
                rw [if_neg hn, h.2]
theorem allocItems_follows : ∀ (fuel n : Nat) (inp : Bytes) (xs : Slots) (r : Bytes),
    decItems fuel n inp = some (xs, r) → (allocItems fuel n inp).2 = some r
  | _, 0, inp, xs, r, h => by simp [decItems] at h; simp [allocItems, h.2]
  | 0, _ + 1, _, _, _, h => by simp [decItems] at h
  | fuel + 1, n + 1, inp, xs, r, h => by
    rw [decItems] at h
    rw [allocItems]
    cases h1 : decItem fuel inp with
    | none => simp [h1] at h
    | some p =>
      obtain ⟨x, r1⟩ := p
      simp only [h1] at h
      cases h2 : decItems fuel n r1 with
      | none => simp [h2] at h
      | some q =>
        obtain ⟨ys, r2⟩ := q
        simp only [h2, Option.some.injEq, Prod.mk.injEq] at h
        have a := allocItem_follows fuel inp x r1 h1
        have b := allocItems_follows fuel n r1 ys r2 h2
        cases ha : allocItem fuel inp with
        | mk c o =>
          rw [ha] at a; simp only at a; subst a
          simp only
          cases hb : allocItems fuel n r1 with
          | mk c' o' =>
            rw [hb] at b; simp only at b; subst b
            simp [h.2]
end

/-- the decoder's fuel (text length + 1) is never what makes it fail: every nested item consumes
at least two bytes, so the recursion depth is at most half the input length -/
theorem depth_linear (fuel : Nat) (inp : Bytes) (t : Tmpl) (r : Bytes) (h : decItem fuel inp = some (t, r)) :
    2 ≤ inp.length - r.length := by
  have := decItem_consumes fuel inp t r h; omega

/-- decoding keeps nothing between calls and shares nothing between goroutines: the packages hold
no package-level variable (an intern table or memo would retain memory beyond the call that
allocated it, and make concurrent decoders abort the process) -/
theorem facts_no_package_state : Generated.pkgVars = [] := by decide

/-! ### non-vacuity: a 6-byte item declaring 16 MB requests nothing -/
example : allocItem 10 [0x43, 0xFF, 0xFF, 0xFF, 1, 2] = (0, none) := by decide
example : allocItem 10 [0x03, 0xFF, 0xFF, 0xFF] = (0, none) := by decide
example : (allocItem 10 [0x01, 2, 0xA5, 1, 7, 0x41, 1, 65]).1 = 7 := by decide

end Secs.C07
