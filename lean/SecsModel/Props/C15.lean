/-
C15 — declared item sizes [n], [a..b], [a..], [..b] are enforced.

The size token's text is read back exactly as the numbers written (`bounds_exact`,
`bounds_range`, `bounds_from`, `bounds_upto`: via the proved decimal print/parse round trip,
for every a, b < 2^63); a literal item raises the size error iff its element count lies outside
the declared bounds (`size_error_iff`); an ASCII variable keeps the bounds (`ascii_var_keeps`),
prints them back (`printed_bounds`) and a fill is accepted iff the string length lies inside
them and the string is 7-bit and within the limit (`fill_enforces`).
Bounds of 2^63 and more: `Atoi` clamps them to 2^63−1 (`bounds_exact_any`, `bounds_range_any`,
`bounds_from_any`, `bounds_upto_any`: for EVERY a, b the bounds read are min(·, 2^63−1)); no item
can have that many elements, so the verdict is the mathematical one whatever was written
(`verdict_exact_any`, `verdict_range_any`, `verdict_from_any`, `verdict_upto_any`: for every
element count below 2^63−1 — an item has at most 16,777,215 — the size check passes iff the count
lies within the bounds AS WRITTEN); the clamped value is what an ASCII variable then prints back
(observation recorded in DESIGN §6.15).
-/
import SecsModel.Proofs.Decimal
import SecsModel.Model.Parser
import SecsModel.Model.Print
import SecsModel.Proofs.FillLeaf
namespace Secs.C15
open Secs Secs.Sml Secs.Strconv

theorem indexOf_digits (ds : Bytes) (h : ∀ c ∈ ds, 48 ≤ c ∧ c ≤ 57) : Lex.indexOf (· == 46) ds = none := by
  induction ds with
  | nil => rfl
  | cons c r ih =>
    have hc := h c (by simp)
    have : (c == 46) = false := by simp; omega
    simp [Lex.indexOf, this, ih (fun x hx => h x (by simp [hx]))]

theorem indexOf_digits_dot (ds tail : Bytes) (h : ∀ c ∈ ds, 48 ≤ c ∧ c ≤ 57) :
    Lex.indexOf (· == 46) (ds ++ 46 :: tail) = some ds.length := by
  induction ds with
  | nil => simp [Lex.indexOf]
  | cons c r ih =>
    have hc := h c (by simp)
    have : (c == 46) = false := by simp; omega
    simp [Lex.indexOf, this, ih (fun x hx => h x (by simp [hx]))]

theorem inner_of (body : Bytes) : ((91 :: body ++ [93]).drop 1).take ((91 :: body ++ [93]).length - 2) = body := by
  simp

/-- `[a]` -/
theorem bounds_exact (a : Nat) (ha : a < 2 ^ 63) : sizeBounds (91 :: decDigits a ++ [93]) = ((a : Int), (a : Int)) := by
  unfold sizeBounds
  simp only [inner_of, indexOf_digits _ (decDigits_spec a).1, atoi_decDigits a ha]

/-- `[a..b]` -/
theorem bounds_range (a b : Nat) (ha : a < 2 ^ 63) (hb : b < 2 ^ 63) :
    sizeBounds (91 :: (decDigits a ++ 46 :: 46 :: decDigits b) ++ [93]) = ((a : Int), (b : Int)) := by
  unfold sizeBounds
  simp only [inner_of, indexOf_digits_dot _ _ (decDigits_spec a).1]
  simp [atoi_decDigits a ha, atoi_decDigits b hb]

/-- `[a..]` : no upper bound -/
theorem bounds_from (a : Nat) (ha : a < 2 ^ 63) :
    sizeBounds (91 :: (decDigits a ++ [46, 46]) ++ [93]) = ((a : Int), (-1 : Int)) := by
  unfold sizeBounds
  simp only [inner_of, indexOf_digits_dot _ _ (decDigits_spec a).1]
  simp [atoi_decDigits a ha]
  decide

/-- `[..b]` : lower bound 0 -/
theorem bounds_upto (b : Nat) (hb : b < 2 ^ 63) :
    sizeBounds (91 :: (46 :: 46 :: decDigits b) ++ [93]) = ((0 : Int), (b : Int)) := by
  unfold sizeBounds
  have h0 := indexOf_digits_dot [] (46 :: decDigits b) (by simp)
  simp only [List.nil_append] at h0
  simp only [inner_of, h0]
  simp [atoi_decDigits b hb]
  decide

/-- the size error is raised iff the element count is outside the declared bounds -/
theorem size_error_iff (size lo hi : Int) :
    sizeOk size lo hi = false ↔ (if hi = -1 then size < lo else (size < lo ∨ hi < size)) := by
  unfold sizeOk
  by_cases h : hi = -1
  · simp [h]
  · have : (hi == -1) = false := by simpa using h
    simp only [this, Bool.false_eq_true, if_false, h, Bool.and_eq_false_iff, decide_eq_false_iff_not]
    omega

/-- an ASCII variable keeps the declared bounds in the template -/
theorem ascii_var_keeps (n : Name) (lo hi : Int) (t : Tmpl) (h : mkAsciiVar n lo hi = some t) :
    t = .asciiVar n lo hi := by
  unfold mkAsciiVar at h
  split at h
  · cases h
  · split at h
    · cases h
    · split at h
      · cases h
      · injection h with h; exact h.symm

/-- … prints them back in one of the four forms … -/
theorem printed_bounds (mn mx : Int) :
    printSizeBounds mn mx =
      if mn = 0 ∧ mx = -1 then []
      else if mn = mx then [91] ++ intDec mx ++ [93]
      else if mx = -1 then [91] ++ intDec mn ++ [46, 46, 93]
      else [91] ++ intDec mn ++ [46, 46] ++ intDec mx ++ [93] := by
  unfold printSizeBounds
  by_cases h1 : mn = 0 ∧ mx = -1
  · simp [h1.1, h1.2]
  · have : (mn == 0 && mx == -1) = false := by
      simp only [Bool.and_eq_false_iff, beq_eq_false_iff_ne, ne_eq]; omega
    rw [if_neg h1]
    simp only [this, Bool.false_eq_true, if_false]
    by_cases h2 : mn = mx
    · simp [h2]
    · have : (mn == mx) = false := by simpa using h2
      simp only [this, Bool.false_eq_true, if_false, h2]
      by_cases h3 : mx = -1
      · simp [h3]
      · have : (mx == -1) = false := by simpa using h3
        simp only [this, Bool.false_eq_true, if_false, h3]

/-- … and a fill is accepted iff the string's length lies inside them (and the string is a
valid ASCII item) -/
theorem fill_enforces (n : Name) (mn mx : Int) (env : Env) (s : Bytes) (h : env.get? n = some (.str s)) :
    (fillLeaf (.asciiVar n mn mx) env).isSome = true ↔
      (mn ≤ s.length ∧ (mx = -1 ∨ (s.length : Int) ≤ mx) ∧ (mkAscii s).isSome = true) := by
  rw [FillLeaf.fill_ascii_var n mn mx env s h]
  by_cases hc : (s.length : Int) < mn ∨ (mx ≠ -1 ∧ mx < (s.length : Int))
  · rw [if_pos hc]
    simp only [Option.isSome_none, Bool.false_eq_true, false_iff, not_and]
    intro h1 h2
    omega
  · rw [if_neg hc]
    constructor
    · intro h3; exact ⟨by omega, by omega, h3⟩
    · intro h3; exact h3.2.2


/-! ### bounds of any magnitude: clamped by `Atoi`, verdict unchanged -/

/-- 2^63 − 1, the value `Atoi` clamps to -/
def clampMax : Nat := 2 ^ 63 - 1

/-- `[a]` for EVERY a -/
theorem bounds_exact_any (a : Nat) :
    sizeBounds (91 :: decDigits a ++ [93]) = (((min a clampMax : Nat) : Int), ((min a clampMax : Nat) : Int)) := by
  unfold sizeBounds
  simp only [inner_of, indexOf_digits _ (decDigits_spec a).1, atoi_decDigits_val a, clampMax]

/-- the upper bound is never read as "no limit": a range error is not a syntax error -/
theorem atoi_decDigits_not_syntax (b : Nat) : ((atoi (decDigits b)).err == some NumErr.syntax) = false := by
  by_cases hb : b < 2 ^ 63
  · rw [atoi_decDigits b hb]; rfl
  · have hval := atoi_decDigits_val b
    cases he : (atoi (decDigits b)).err with
    | none => rfl
    | some e =>
      cases e
      · exfalso
        -- a syntax error comes with value 0; the value is 2^63 − 1
        have h0 := parseInt_syntax_val (decDigits b) 10 0 he
        unfold atoi at hval
        rw [h0] at hval
        have : min b (2 ^ 63 - 1) = 2 ^ 63 - 1 := by omega
        rw [this] at hval
        omega
      · rfl

/-- `[a..b]` for EVERY a, b -/
theorem bounds_range_any (a b : Nat) :
    sizeBounds (91 :: (decDigits a ++ 46 :: 46 :: decDigits b) ++ [93]) =
      (((min a clampMax : Nat) : Int), ((min b clampMax : Nat) : Int)) := by
  unfold sizeBounds
  simp only [inner_of, indexOf_digits_dot _ _ (decDigits_spec a).1]
  simp [atoi_decDigits_val, atoi_decDigits_not_syntax, clampMax]

/-- `[a..]` for EVERY a -/
theorem bounds_from_any (a : Nat) :
    sizeBounds (91 :: (decDigits a ++ [46, 46]) ++ [93]) = (((min a clampMax : Nat) : Int), (-1 : Int)) := by
  unfold sizeBounds
  simp only [inner_of, indexOf_digits_dot _ _ (decDigits_spec a).1]
  simp [atoi_decDigits_val, clampMax]
  decide

/-- `[..b]` for EVERY b -/
theorem bounds_upto_any (b : Nat) :
    sizeBounds (91 :: (46 :: 46 :: decDigits b) ++ [93]) = ((0 : Int), ((min b clampMax : Nat) : Int)) := by
  unfold sizeBounds
  have h0 := indexOf_digits_dot [] (46 :: decDigits b) (by simp)
  simp only [List.nil_append] at h0
  simp only [inner_of, h0]
  simp [atoi_decDigits_val, atoi_decDigits_not_syntax, clampMax]
  decide

/-- the size check on natural-number bounds with an upper bound -/
theorem sizeOk_nat (size lo hi : Nat) : sizeOk (size : Int) (lo : Int) (hi : Int) = decide (lo ≤ size ∧ size ≤ hi) := by
  unfold sizeOk
  have hne : ((hi : Int) == -1) = false := by rw [beq_eq_false_iff_ne]; omega
  simp only [hne, Bool.false_eq_true, if_false]
  by_cases h : lo ≤ size ∧ size ≤ hi
  · simp [h]
  · simp only [h, decide_false, Bool.and_eq_false_iff, decide_eq_false_iff_not]
    omega

/-- … and without one -/
theorem sizeOk_nat_open (size lo : Nat) : sizeOk (size : Int) (lo : Int) (-1) = decide (lo ≤ size) := by
  unfold sizeOk
  by_cases h : lo ≤ size
  · simp [h]
  · simp [h]; omega

theorem clamp_le (a size : Nat) (hs : size < clampMax) : min a clampMax ≤ size ↔ a ≤ size := by
  unfold clampMax at *; omega

theorem le_clamp (b size : Nat) (hs : size < clampMax) : size ≤ min b clampMax ↔ size ≤ b := by
  unfold clampMax at *; omega

/-- **the verdict is the mathematical one whatever was written**: for every element count an
item can have (anything below 2^63 − 1; items have at most 16,777,215 elements) the size check
on `[a]` passes iff the count is a — for EVERY a, also one that `Atoi` clamps -/
theorem verdict_exact_any (a size : Nat) (hs : size < clampMax) :
    sizeOk size (sizeBounds (91 :: decDigits a ++ [93])).1 (sizeBounds (91 :: decDigits a ++ [93])).2 = decide (size = a) := by
  rw [bounds_exact_any, sizeOk_nat]
  apply decide_eq_decide.mpr
  rw [clamp_le a size hs, le_clamp a size hs]
  omega

/-- `[a..b]`: passes iff a ≤ count ≤ b -/
theorem verdict_range_any (a b size : Nat) (hs : size < clampMax) :
    sizeOk size (sizeBounds (91 :: (decDigits a ++ 46 :: 46 :: decDigits b) ++ [93])).1
      (sizeBounds (91 :: (decDigits a ++ 46 :: 46 :: decDigits b) ++ [93])).2 = decide (a ≤ size ∧ size ≤ b) := by
  rw [bounds_range_any, sizeOk_nat]
  apply decide_eq_decide.mpr
  rw [clamp_le a size hs, le_clamp b size hs]

/-- `[a..]`: passes iff a ≤ count -/
theorem verdict_from_any (a size : Nat) (hs : size < clampMax) :
    sizeOk size (sizeBounds (91 :: (decDigits a ++ [46, 46]) ++ [93])).1
      (sizeBounds (91 :: (decDigits a ++ [46, 46]) ++ [93])).2 = decide (a ≤ size) := by
  rw [bounds_from_any, sizeOk_nat_open]
  apply decide_eq_decide.mpr
  rw [clamp_le a size hs]

/-- `[..b]`: passes iff count ≤ b -/
theorem verdict_upto_any (b size : Nat) (hs : size < clampMax) :
    sizeOk size (sizeBounds (91 :: (46 :: 46 :: decDigits b) ++ [93])).1
      (sizeBounds (91 :: (46 :: 46 :: decDigits b) ++ [93])).2 = decide (size ≤ b) := by
  rw [bounds_upto_any]
  have := sizeOk_nat size 0 (min b clampMax)
  simp only [Int.natCast_zero] at this
  rw [this]
  apply decide_eq_decide.mpr
  rw [le_clamp b size hs]
  omega

/-- non-vacuity (a test): a bound of 2^64 + 5 is read as 2^63 − 1, and an item of 3 elements is
refused by `[18446744073709551621]` and accepted by `[..18446744073709551621]` -/
example : sizeBounds (str "[18446744073709551621]") = (9223372036854775807, 9223372036854775807) ∧
    sizeOk 3 9223372036854775807 9223372036854775807 = false ∧
    sizeBounds (str "[..18446744073709551621]") = (0, 9223372036854775807) := by decide +kernel

/-! ### tie to the source: the accept sets of lexDataItemSize -/
theorem facts_size_lexer :
    (Generated.lexAcceptSets.take 10) = [("lexDataItemSize.accept", "["),
      ("lexDataItemSize.acceptRun", " \x09\x0d\x0a"), ("lexDataItemSize.accept", "0123456789"),
      ("lexDataItemSize.acceptRun", "0123456789"), ("lexDataItemSize.acceptRun", " \x09\x0d\x0a"),
      ("lexDataItemSize.acceptRun", " \x09\x0d\x0a"), ("lexDataItemSize.accept", "0123456789"),
      ("lexDataItemSize.acceptRun", "0123456789"), ("lexDataItemSize.acceptRun", " \x09\x0d\x0a"),
      ("lexDataItemSize.accept", "]")] := by decide

/-! ### non-vacuity -/
example : sizeBounds (str "[2..7]") = (2, 7) ∧ sizeBounds (str "[3..]") = (3, -1) ∧
    sizeBounds (str "[..4]") = (0, 4) ∧ sizeBounds (str "[5]") = (5, 5) := by decide +kernel

end Secs.C15
