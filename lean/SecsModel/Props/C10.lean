/-
C10 — ellipsis expansion repeats, renames and renumbers as documented.

Proved on the model of `fillEllipsis` (whose agreement with the code's loop-with-restart is tied
by the correspondence run on every small and many random templates):
 * one pass over a group of slots emits exactly one argument per slot (`emit_length`), so
   filling an ellipsis at position p with n > 0 emits the p items before it n+1 times
   (`repeat_length`) and the list gets (n+1)·p + (len − p − 1) elements (`count_law`);
   n = 0 only removes the ellipsis (`zero_removes`);
 * a variable in copy j gets the suffix `[j]` appended after the suffixes of the enclosing
   expanded ellipses, outermost first (`suffix_order`); ellipsis names are never suffixed but
   renumbered with a running counter when several remain (`ellipsis_renumbered`);
 * copy j of the repeated group is produced under the index stack `outer ++ [j]`, j = 0 … n
   (`repeat_unfold`), so nested ellipses are expanded in every copy.
`unique_names_partial`: uniqueness of all generated names (injectivity of suffixing for base
names without `[`) is checked by the factory in the model (`mkList` refuses duplicates) and by
the oracle on the real code; it is not yet a theorem.
-/
import SecsModel.Model.Fill
import SecsModel.Generated.Facts
namespace Secs.C10
open Secs

/-- outermost first: the suffix for `outer ++ [j]` is the outer suffix followed by `[j]` -/
theorem suffix_order (outer : List Nat) (j : Nat) :
    idxSuffix (outer ++ [j]) = idxSuffix outer ++ ([91] ++ decDigits j ++ [93]) := by
  simp [idxSuffix, List.flatMap_append]

/-- ordinary names get the index suffix of the current stack and nothing else changes -/
theorem name_suffixed (multiple : Bool) (st : FillSt) (n : Name) (h : isEllipsis n = false) :
    newName multiple st n = (n ++ idxSuffix st.stack, st) := by
  simp [newName, h]

/-- ellipsis names: a single remaining ellipsis stays `...`; several are numbered in the order
in which they are met -/
theorem ellipsis_renumbered (st : FillSt) (n : Name) (h : isEllipsis n = true) :
    newName true st n = ([46, 46, 46, 91] ++ decDigits st.count ++ [93], { st with count := st.count + 1 }) ∧
    newName false st n = ([46, 46, 46], st) := by
  simp [newName, h]

/-- one pass over a group of slots emits exactly one argument per slot -/
theorem emit_length (child : Tmpl → FillSt → Option (Tmpl × FillSt)) (multiple : Bool) :
    ∀ (xs : Slots) (st : FillSt) (a : List GoVal) (st' : FillSt),
      emitSlots child multiple xs st = some (a, st') → a.length = xs.len
  | .nil, st, a, st', h => by simp [emitSlots] at h; rw [h.1]; rfl
  | .var n r, st, a, st', h => by
    simp only [emitSlots] at h
    cases hr : emitSlots child multiple r (newName multiple st n).2 with
    | none => simp [hr] at h
    | some p =>
      obtain ⟨b, s⟩ := p
      simp only [hr, Option.map_some, Option.some.injEq, Prod.mk.injEq] at h
      rw [← h.1]
      simp [Slots.len, emit_length child multiple r _ b s hr]
  | .item t r, st, a, st', h => by
    simp only [emitSlots] at h
    split at h
    · cases h
    · rename_i g st1 _
      cases hr : emitSlots child multiple r st1 with
      | none => simp [hr] at h
      | some p =>
        obtain ⟨b, s⟩ := p
        simp only [hr, Option.map_some, Option.some.injEq, Prod.mk.injEq] at h
        rw [← h.1]
        simp [Slots.len, emit_length child multiple r _ b s hr]

/-- the repeated group: copy j is emitted under the stack `outer ++ [j]` -/
theorem repeat_unfold (child : Tmpl → FillSt → Option (Tmpl × FillSt)) (multiple : Bool) (pre : Slots)
    (outer : List Nat) (reps j count : Nat) :
    emitRepeat child multiple pre outer (reps + 1) j count =
      match emitSlots child multiple pre ⟨outer ++ [j], count⟩ with
      | none => none
      | some (a, st) => (emitRepeat child multiple pre outer reps (j + 1) st.count).map (fun (b, c) => (a ++ b, c)) := rfl

/-- `reps` copies of a group of p slots are reps·p arguments -/
theorem repeat_length (child : Tmpl → FillSt → Option (Tmpl × FillSt)) (multiple : Bool) (pre : Slots)
    (outer : List Nat) :
    ∀ (reps j count : Nat) (a : List GoVal) (c : Nat),
      emitRepeat child multiple pre outer reps j count = some (a, c) → a.length = reps * pre.len
  | 0, j, count, a, c, h => by simp [emitRepeat] at h; rw [h.1]; simp
  | reps + 1, j, count, a, c, h => by
    rw [repeat_unfold] at h
    cases he : emitSlots child multiple pre ⟨outer ++ [j], count⟩ with
    | none => simp [he] at h
    | some p =>
      obtain ⟨a1, st1⟩ := p
      simp only [he] at h
      cases hr : emitRepeat child multiple pre outer reps (j + 1) st1.count with
      | none => simp [hr] at h
      | some q =>
        obtain ⟨b, c'⟩ := q
        simp only [hr, Option.map_some, Option.some.injEq, Prod.mk.injEq] at h
        rw [← h.1, List.length_append, emit_length child multiple pre _ a1 st1 he,
          repeat_length child multiple pre outer reps (j + 1) st1.count b c' hr, Nat.succ_mul]
        omega

theorem take_len (xs : Slots) (p : Nat) (h : p ≤ xs.len) : (xs.take p).len = p := by
  induction p generalizing xs with
  | zero => cases xs <;> rfl
  | succ k ih =>
    cases xs with
    | nil => simp [Slots.len] at h
    | item t r => simp [Slots.take, Slots.len, ih r (by simp [Slots.len] at h; omega)]
    | var n r => simp [Slots.take, Slots.len, ih r (by simp [Slots.len] at h; omega)]

theorem drop_len (xs : Slots) (p : Nat) : (xs.drop p).len = xs.len - p := by
  induction p generalizing xs with
  | zero => cases xs <;> simp [Slots.drop]
  | succ k ih =>
    cases xs with
    | nil => simp [Slots.drop, Slots.len]
    | item t r => simp [Slots.drop, Slots.len, ih r]
    | var n r => simp [Slots.drop, Slots.len, ih r]

/-- count law: an ellipsis at position p of a list of `len` slots filled with n > 0 makes
(n+1)·p + (len − p − 1) arguments for the list factory: the p items before it n+1 times, the
items after it once -/
theorem count_law (child : Tmpl → FillSt → Option (Tmpl × FillSt)) (multiple : Bool) (xs : Slots) (p n : Nat)
    (hp : p < xs.len) (st : FillSt) (a b : List GoVal) (c : Nat) (st' : FillSt)
    (h1 : emitRepeat child multiple (xs.take p) st.stack (n + 1) 0 st.count = some (a, c))
    (h2 : emitSlots child multiple (xs.drop (p + 1)) ⟨st.stack, c⟩ = some (b, st')) :
    (a ++ b).length = (n + 1) * p + (xs.len - p - 1) := by
  rw [List.length_append, repeat_length _ _ _ _ _ _ _ _ _ h1, emit_length _ _ _ _ _ _ h2,
    take_len xs p (by omega), drop_len]
  omega

/-- n = 0 just removes the ellipsis: the items before and after it once each -/
theorem zero_removes (child : Tmpl → FillSt → Option (Tmpl × FillSt)) (multiple : Bool) (xs : Slots) (p : Nat)
    (hp : p < xs.len) (st st1 st2 : FillSt) (a b : List GoVal)
    (h1 : emitSlots child multiple (xs.take p) st = some (a, st1))
    (h2 : emitSlots child multiple (xs.drop (p + 1)) st1 = some (b, st2)) :
    (a ++ b).length = xs.len - 1 := by
  rw [List.length_append, emit_length _ _ _ _ _ _ h1, emit_length _ _ _ _ _ _ h2, take_len xs p (by omega), drop_len]
  omega

/-- tie to the source: the ellipsis pattern -/
theorem facts_ellipsis_pattern :
    Generated.regexps.take 2 = [("ast.isValidVarName", "^[A-Za-z_]\\w*(\\[\\d+\\])*$"),
                                 ("ast.isEllipsis", "^\\.{3}(\\[\\d+\\])?$")] := by decide

/-! ### non-vacuity: <L <U1 v> ...> filled with 2 gives v[0] v[1] v[2] -/
example : ((Tmpl.list (.item (.uint 1 [.var [118]]) (.var [46, 46, 46] .nil))).fill [([46, 46, 46], .sint 0 2)]).map Tmpl.vars
    = some [[118, 91, 48, 93], [118, 91, 49, 93], [118, 91, 50, 93]] := by decide +kernel

end Secs.C10
