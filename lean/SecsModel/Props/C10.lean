/-
C10 — ellipsis expansion repeats, renames and renumbers as documented.

Proved on the model of `fillEllipsis` (whose agreement with the code's loop-with-restart is tied
by the correspondence run on every small and many random templates):
 * one pass over a group of slots emits exactly one argument per slot (`emit_length`), so
   filling an ellipsis at position p with n > 0 emits the p items before it n+1 times
   (`repeat_length`) and the list gets (n+1)·p + (len − p − 1) elements (`count_law`);
   n = 0 only removes the ellipsis (`zero_removes`);
 * a variable in copy j gets the suffix `[j]` appended after the suffixes of the enclosing
   expanded ellipses, outermost first (`suffix_order`); ellipsis names are never suffixed but
   renumbered with a running counter when several remain (`ellipsis_renumbered`);
 * copy j of the repeated group is produced under the index stack `outer ++ [j]`, j = 0 … n
   (`repeat_unfold`), so nested ellipses are expanded in every copy.
 * generated names are unique: suffixing a base name that has no `[` of its own is injective in
   (base name, copy-index stack) (`names_injective`), so distinct (variable, copy) pairs never
   collide (`generated_names_distinct`); the renumbered ellipses `...[k]` are distinct
   (`ellipses_distinct`); for a repeated group of own variables the model emits exactly the
   suffixed names copy by copy (`repeat_emits_copies`) and no name twice (`unique_names_one_level`).
 * **all resulting variable names stay unique, for arbitrary nesting** (`expansion_names_unique`,
   `expansion_well_formed`, `message_expansion_names_unique`): whatever FillVariables returns for a
   well-formed template - any depth, any number of nested ellipses and repeated groups, counts,
   values and well-formed fill-in items in one table - is again well formed: every name valid, at
   most one ellipsis per list and not first, and no name twice anywhere in the tree
   (Proofs/FillWF.lean: well-formedness is an invariant of every factory, of every one-node fill,
   of `emitSlots`/`emitRepeat`/`fillEllT` and of `fill`). What is NOT a theorem is the converse
   direction "an expansion of distinct plain names is never refused for a collision" beyond one
   level (`unique_names_one_level`); a refusal is visible to the caller, a duplicate would not be.
Base names that already carry an index
group (`x[1]`) are outside the injectivity lemma — and indeed collide with generated names
(`indexed_base_collides`), which is why the real code refuses such expansions.
-/
import SecsModel.Model.Fill
import SecsModel.Proofs.EllipsisNames
import SecsModel.Proofs.FillWF
import SecsModel.Generated.Facts
namespace Secs.C10
open Secs

/-- outermost first: the suffix for `outer ++ [j]` is the outer suffix followed by `[j]` -/
theorem suffix_order (outer : List Nat) (j : Nat) :
    idxSuffix (outer ++ [j]) = idxSuffix outer ++ ([91] ++ decDigits j ++ [93]) := by
  simp [idxSuffix, List.flatMap_append]

/-- ordinary names get the index suffix of the current stack and nothing else changes -/
theorem name_suffixed (multiple : Bool) (st : FillSt) (n : Name) (h : isEllipsis n = false) :
    newName multiple st n = (n ++ idxSuffix st.stack, st) := by
  simp [newName, h]

/-- ellipsis names: a single remaining ellipsis stays `...`; several are numbered in the order
in which they are met -/
theorem ellipsis_renumbered (st : FillSt) (n : Name) (h : isEllipsis n = true) :
    newName true st n = ([46, 46, 46, 91] ++ decDigits st.count ++ [93], { st with count := st.count + 1 }) ∧
    newName false st n = ([46, 46, 46], st) := by
  simp [newName, h]

/-- one pass over a group of slots emits exactly one argument per slot -/
theorem emit_length (child : Tmpl → FillSt → Option (Tmpl × FillSt)) (multiple : Bool) :
    ∀ (xs : Slots) (st : FillSt) (a : List GoVal) (st' : FillSt),
      emitSlots child multiple xs st = some (a, st') → a.length = xs.len
  | .nil, st, a, st', h => by simp [emitSlots] at h; rw [h.1]; rfl
  | .var n r, st, a, st', h => by
    simp only [emitSlots] at h
    cases hr : emitSlots child multiple r (newName multiple st n).2 with
    | none => simp [hr] at h
    | some p =>
      obtain ⟨b, s⟩ := p
      simp only [hr, Option.map_some, Option.some.injEq, Prod.mk.injEq] at h
      rw [← h.1]
      simp [Slots.len, emit_length child multiple r _ b s hr]
  | .item t r, st, a, st', h => by
    simp only [emitSlots] at h
    split at h
    · cases h
    · rename_i g st1 _
      cases hr : emitSlots child multiple r st1 with
      | none => simp [hr] at h
      | some p =>
        obtain ⟨b, s⟩ := p
        simp only [hr, Option.map_some, Option.some.injEq, Prod.mk.injEq] at h
        rw [← h.1]
        simp [Slots.len, emit_length child multiple r _ b s hr]

/-- the repeated group: copy j is emitted under the stack `outer ++ [j]` -/
theorem repeat_unfold (child : Tmpl → FillSt → Option (Tmpl × FillSt)) (multiple : Bool) (pre : Slots)
    (outer : List Nat) (reps j count : Nat) :
    emitRepeat child multiple pre outer (reps + 1) j count =
      match emitSlots child multiple pre ⟨outer ++ [j], count⟩ with
      | none => none
      | some (a, st) => (emitRepeat child multiple pre outer reps (j + 1) st.count).map (fun (b, c) => (a ++ b, c)) := rfl

/-- `reps` copies of a group of p slots are reps·p arguments -/
theorem repeat_length (child : Tmpl → FillSt → Option (Tmpl × FillSt)) (multiple : Bool) (pre : Slots)
    (outer : List Nat) :
    ∀ (reps j count : Nat) (a : List GoVal) (c : Nat),
      emitRepeat child multiple pre outer reps j count = some (a, c) → a.length = reps * pre.len
  | 0, j, count, a, c, h => by simp [emitRepeat] at h; rw [h.1]; simp
  | reps + 1, j, count, a, c, h => by
    rw [repeat_unfold] at h
    cases he : emitSlots child multiple pre ⟨outer ++ [j], count⟩ with
    | none => simp [he] at h
    | some p =>
      obtain ⟨a1, st1⟩ := p
      simp only [he] at h
      cases hr : emitRepeat child multiple pre outer reps (j + 1) st1.count with
      | none => simp [hr] at h
      | some q =>
        obtain ⟨b, c'⟩ := q
        simp only [hr, Option.map_some, Option.some.injEq, Prod.mk.injEq] at h
        rw [← h.1, List.length_append, emit_length child multiple pre _ a1 st1 he,
          repeat_length child multiple pre outer reps (j + 1) st1.count b c' hr, Nat.succ_mul]
        omega

theorem take_len (xs : Slots) (p : Nat) (h : p ≤ xs.len) : (xs.take p).len = p := by
  induction p generalizing xs with
  | zero => cases xs <;> rfl
  | succ k ih =>
    cases xs with
    | nil => simp [Slots.len] at h
    | item t r => simp [Slots.take, Slots.len, ih r (by simp [Slots.len] at h; omega)]
    | var n r => simp [Slots.take, Slots.len, ih r (by simp [Slots.len] at h; omega)]

theorem drop_len (xs : Slots) (p : Nat) : (xs.drop p).len = xs.len - p := by
  induction p generalizing xs with
  | zero => cases xs <;> simp [Slots.drop]
  | succ k ih =>
    cases xs with
    | nil => simp [Slots.drop, Slots.len]
    | item t r => simp [Slots.drop, Slots.len, ih r]
    | var n r => simp [Slots.drop, Slots.len, ih r]

/-- count law: an ellipsis at position p of a list of `len` slots filled with n > 0 makes
(n+1)·p + (len − p − 1) arguments for the list factory: the p items before it n+1 times, the
items after it once -/
theorem count_law (child : Tmpl → FillSt → Option (Tmpl × FillSt)) (multiple : Bool) (xs : Slots) (p n : Nat)
    (hp : p < xs.len) (st : FillSt) (a b : List GoVal) (c : Nat) (st' : FillSt)
    (h1 : emitRepeat child multiple (xs.take p) st.stack (n + 1) 0 st.count = some (a, c))
    (h2 : emitSlots child multiple (xs.drop (p + 1)) ⟨st.stack, c⟩ = some (b, st')) :
    (a ++ b).length = (n + 1) * p + (xs.len - p - 1) := by
  rw [List.length_append, repeat_length _ _ _ _ _ _ _ _ _ h1, emit_length _ _ _ _ _ _ h2,
    take_len xs p (by omega), drop_len]
  omega

/-- n = 0 just removes the ellipsis: the items before and after it once each -/
theorem zero_removes (child : Tmpl → FillSt → Option (Tmpl × FillSt)) (multiple : Bool) (xs : Slots) (p : Nat)
    (hp : p < xs.len) (st st1 st2 : FillSt) (a b : List GoVal)
    (h1 : emitSlots child multiple (xs.take p) st = some (a, st1))
    (h2 : emitSlots child multiple (xs.drop (p + 1)) st1 = some (b, st2)) :
    (a ++ b).length = xs.len - 1 := by
  rw [List.length_append, emit_length _ _ _ _ _ _ h1, emit_length _ _ _ _ _ _ h2, take_len xs p (by omega), drop_len]
  omega

/-! ### uniqueness of generated names -/

theorem names_injective (n1 n2 : Name) (s1 s2 : List Nat) (h1 : plainName n1 = true) (h2 : plainName n2 = true)
    (h : n1 ++ idxSuffix s1 = n2 ++ idxSuffix s2) : n1 = n2 ∧ s1 = s2 := suffixed_inj n1 n2 s1 s2 h1 h2 h

theorem generated_names_distinct (pairs : List (Name × List Nat)) (hp : ∀ p ∈ pairs, plainName p.1 = true)
    (hn : pairs.Nodup) : (pairs.map (fun p => p.1 ++ idxSuffix p.2)).Nodup := generated_nodup pairs hp hn

theorem ellipses_distinct (a b : Nat)
    (h : ([46, 46, 46, 91] : Bytes) ++ decDigits a ++ [93] = [46, 46, 46, 91] ++ decDigits b ++ [93]) : a = b :=
  ellipsis_names_inj a b h

/-- a group consisting of the list's own variables -/
def varsOnly : List Name → Slots
  | [] => .nil
  | n :: r => .var n (varsOnly r)

theorem emit_varsOnly (child : Tmpl → FillSt → Option (Tmpl × FillSt)) (multiple : Bool) :
    ∀ (names : List Name) (st : FillSt), (∀ x ∈ names, isEllipsis x = false) →
      emitSlots child multiple (varsOnly names) st = some (names.map (fun x => GoVal.str (x ++ idxSuffix st.stack)), st)
  | [], st, _ => rfl
  | n :: r, st, h => by
    have hn := h n (by simp)
    simp only [varsOnly, emitSlots, name_suffixed multiple st n hn,
      emit_varsOnly child multiple r st (fun x hx => h x (by simp [hx])), Option.map_some, List.map_cons]

/-- the repeated group is emitted copy by copy, copy j under the stack `outer ++ [j]` -/
theorem repeat_emits_copies (child : Tmpl → FillSt → Option (Tmpl × FillSt)) (multiple : Bool)
    (names : List Name) (outer : List Nat) (hne : ∀ x ∈ names, isEllipsis x = false) :
    ∀ (reps j count : Nat),
      emitRepeat child multiple (varsOnly names) outer reps j count =
        some ((List.range' j reps).flatMap (fun j => names.map (fun x => GoVal.str (x ++ idxSuffix (outer ++ [j])))), count)
  | 0, _, _ => rfl
  | reps + 1, j, count => by
    simp only [emitRepeat, emit_varsOnly child multiple names ⟨outer ++ [j], count⟩ hne,
      repeat_emits_copies child multiple names outer hne reps (j + 1) count, Option.map_some,
      List.range'_succ, List.flatMap_cons]

/-- **One level of expansion never produces a name twice**: n + 1 copies of a group of distinct
plain variable names. -/
theorem unique_names_one_level (names : List Name) (outer : List Nat) (n : Nat)
    (hp : ∀ x ∈ names, plainName x = true) (hn : names.Nodup) :
    ((List.range (n + 1)).flatMap (fun j => names.map (fun x => x ++ idxSuffix (outer ++ [j])))).Nodup :=
  copies_nodup names outer n hp hn

/-- **All resulting variable names stay unique** - for every well-formed template (any depth, any
number of nested ellipses), every table of repeat counts, values, new names and well-formed
fill-in items: if FillVariables returns a tree, no name occurs twice anywhere in it. -/
theorem expansion_names_unique (t t' : Tmpl) (env : Env) (hw : t.wf = true) (henv : Env.itemsWfS env = true)
    (h : t.fill env = some t') : nodupNames t'.vars = true :=
  fill_names_unique t t' env (wfS_of_wf t hw) henv h

/-- … and it is well formed altogether (names valid, one ellipsis per list at most and never
first, sizes within the limit, integer and binary values in range) -/
theorem expansion_well_formed (t t' : Tmpl) (env : Env) (hw : t.wf = true) (henv : Env.itemsWfS env = true)
    (h : t.fill env = some t') : t'.wfS = true :=
  t.fill_wfS t' env (wfS_of_wf t hw) henv h

/-- tables of repeat counts and plain values need no side condition -/
theorem expansion_names_unique_counts (t t' : Tmpl) (env : Env) (hw : t.wf = true)
    (hplain : ∀ kv ∈ env, ∀ x, kv.2 ≠ GoVal.item x) (h : t.fill env = some t') : nodupNames t'.vars = true :=
  expansion_names_unique t t' env hw (Env.itemsWfS_of_no_items env hplain) h

/-- the same through a message -/
theorem message_expansion_names_unique (m m' : Msg) (env : Env) (hw : m.item.wf = true) (henv : Env.itemsWfS env = true)
    (h : m.fill env = some m') : nodupNames m'.item.vars = true := by
  unfold Msg.fill at h
  cases hf : m.item.fill env with
  | none => simp [hf] at h
  | some it =>
    simp only [hf, Option.bind_some] at h
    have : m'.item = it := by
      unfold checked at h
      split at h
      · injection h with h; rw [← h]
      · cases h
    rw [this]
    exact expansion_names_unique m.item it env hw henv hf

/-- a base name that already carries an index group collides with a generated name: `x[1]` in
copy 0 … is not what collides, but `x` in copy 1 and the base name `x[1]` kept outside the group -/
theorem indexed_base_collides : ([120] : Name) ++ idxSuffix [1] = [120, 91, 49, 93] ++ idxSuffix [] := by
  have : decDigits 1 = [49] := by rw [decDigits]; simp
  simp [idxSuffix, this]

example : plainName [120] = true ∧ plainName [120, 91, 49, 93] = false := by decide

/-- tie to the source: the ellipsis pattern -/
theorem facts_ellipsis_pattern :
    Generated.regexps.take 2 = [("ast.isValidVarName", "^[A-Za-z_]\\w*(\\[\\d+\\])*$"),
                                 ("ast.isEllipsis", "^\\.{3}(\\[\\d+\\])?$")] := by decide

/-! ### non-vacuity: <L <U1 v> ...> filled with 2 gives v[0] v[1] v[2] -/
example : ((Tmpl.list (.item (.uint 1 [.var [118]]) (.var [46, 46, 46] .nil))).fill [([46, 46, 46], .sint 0 2)]).map Tmpl.vars
    = some [[118, 91, 48, 93], [118, 91, 49, 93], [118, 91, 50, 93]] := by decide +kernel

/-! ### non-vacuity of the nested case (a test): `<L <L <U1 v> ...[0]> <A w> ...[1]>` with the inner
ellipsis filled with 1 and the outer with 2 is well formed, the fill succeeds and yields nine names -/
def nestedTmpl : Tmpl :=
  .list (.item (.list (.item (.uint 1 [.var [118]]) (.var [46, 46, 46, 91, 48, 93] .nil)))
    (.item (.asciiVar [119] 0 (-1)) (.var [46, 46, 46, 91, 49, 93] .nil)))
def nestedEnv : Env := [([46, 46, 46, 91, 48, 93], .sint 0 1), ([46, 46, 46, 91, 49, 93], .sint 0 2)]
example : nestedTmpl.wf = true ∧ Env.itemsWfS nestedEnv = true ∧
    ((nestedTmpl.fill nestedEnv).map (fun t => t.vars.length)) = some 9 := by decide +kernel

end Secs.C10
