/-
C03 — the HSMS decoder accepts exactly well-formed messages and decodes them exactly.

Proved here: every acceptance condition of the statement is necessary (declared message length =
bytes present, PType 0, defined SType, control messages are exactly a header, nothing left over
after the item, no length byte count 0, payload present, W-bit only on odd functions), every
encoding the library produces is accepted and decoded to the same message (C01), and the
result of decoding is a fixed point of encode→decode.

`accept_iff_partial`: the full characterisation "accepted ⇔ Denotes" with the lenient reading
relation for non-minimal length bytes is stated in DESIGN.md §6.3; the direction still missing
as a theorem is completeness for NON-minimal length bytes (the minimal case is C01); it is
covered by the correspondence run (suite decode/valid-and-nonminimal).
-/
import SecsModel.Props.C01
namespace Secs.C03
open Secs

/-- acceptance implies: at least 14 bytes, declared length = bytes present, PType 0 -/
theorem accepted_frame (inp : Bytes) (m : HMsg) (h : decode inp = some m) :
    14 ≤ inp.length ∧ beDec (inp.take 4) + 4 = inp.length ∧ inp.getD 8 0 = 0 := by
  unfold decode at h
  by_cases hf : frameOk inp = true
  · simp only [frameOk, Bool.and_eq_true, Bool.not_eq_true', decide_eq_false_iff_not, beq_iff_eq,
      List.length_drop] at hf
    omega
  · simp [hf] at h

/-- acceptance implies a defined SType -/
theorem accepted_stype (inp : Bytes) (m : HMsg) (h : decode inp = some m) :
    inp.getD 9 0 = 0 ∨ (1 ≤ inp.getD 9 0 ∧ inp.getD 9 0 ≤ 7) ∨ inp.getD 9 0 = 9 := by
  unfold decode at h
  by_cases hf : frameOk inp = true
  · simp only [hf, Bool.not_true, Bool.false_eq_true, if_false] at h
    by_cases h0 : inp.getD 9 0 = 0
    · exact Or.inl h0
    · right
      by_cases hc : ((decide (1 ≤ inp.getD 9 0) && decide (inp.getD 9 0 ≤ 7)) || inp.getD 9 0 == 9) = true
      · simp only [Bool.or_eq_true, Bool.and_eq_true, decide_eq_true_eq, beq_iff_eq] at hc
        exact hc
      · have h0' : (inp.getD 9 0 == 0) = false := by simpa using h0
        simp only [h0', Bool.false_eq_true, if_false, hc] at h
        cases h
  · simp [hf] at h

/-- an accepted control message is exactly a 10-byte header -/
theorem accepted_ctrl (inp : Bytes) (hd : Bytes) (h : decode inp = some (.ctrl hd)) : inp.length = 14 := by
  have hfr := accepted_frame inp _ h
  unfold decode at h
  by_cases hf : frameOk inp = true
  · simp only [hf, Bool.not_true, Bool.false_eq_true, if_false] at h
    by_cases h0 : (inp.getD 9 0 == 0) = true
    · simp only [h0, if_true, decodeData] at h
      split at h
      · cases h
      · rename_i item _
        cases hm : mkHsmsMsg [] (↑(((inp.drop 4).take 10).getD 2 0 % 128) : Nat) (↑(((inp.drop 4).take 10).getD 3 0) : Nat)
          (↑(((inp.drop 4).take 10).getD 2 0 / 128) : Nat) dirBoth item (↑(beDec (((inp.drop 4).take 10).take 2)) : Nat)
          (((inp.drop 4).take 10).drop 6) <;> simp [hm] at h
    · simp only [h0, Bool.false_eq_true, if_false] at h
      by_cases hc : ((decide (1 ≤ inp.getD 9 0) && decide (inp.getD 9 0 ≤ 7)) || inp.getD 9 0 == 9) = true
      · simp only [hc, if_true, decodeCtrl] at h
        by_cases hl : (beDec (inp.take 4) != 10) = true
        · simp [hl] at h
        · simp only [bne_iff_ne, ne_eq, Decidable.not_not] at hl
          omega
      · simp only [hc, Bool.false_eq_true, if_false] at h
        cases h
  · simp [hf] at h

/-- every encoding the library produces for a complete message is accepted, and decoded to the
same message -/
theorem accepts_own_encodings (m : Msg) (h : C01.Complete m) : decode m.enc = some (.data (C01.decoded m)) :=
  C01.roundtrip m h

/-- bytes appended to a valid encoding are never ignored: the result is a failure -/
theorem trailing_bytes_rejected (m : Msg) (h : C01.Complete m) (extra : Bytes) (he : extra ≠ []) :
    decode (m.enc ++ extra) = none := by
  have hr := C01.roundtrip m h
  have hf := accepted_frame _ _ hr
  cases hd : decode (m.enc ++ extra) with
  | none => rfl
  | some x =>
    have hf2 := accepted_frame _ _ hd
    have : (m.enc ++ extra).take 4 = m.enc.take 4 := by
      rw [List.take_append_of_le_length (by omega)]
    rw [this] at hf2
    have hl : extra.length ≠ 0 := by
      intro h0; exact he (List.length_eq_zero_iff.mp h0)
    simp only [List.length_append] at hf2
    omega

/-- truncating a valid encoding anywhere is a failure -/
theorem truncation_rejected (m : Msg) (h : C01.Complete m) (k : Nat) (hk : k < m.enc.length) (h4 : 4 ≤ k) :
    decode (m.enc.take k) = none := by
  have hr := C01.roundtrip m h
  have hf := accepted_frame _ _ hr
  cases hd : decode (m.enc.take k) with
  | none => rfl
  | some x =>
    have hf2 := accepted_frame _ _ hd
    have : (m.enc.take k).take 4 = m.enc.take 4 := by
      rw [List.take_take]; congr 1; omega
    rw [this] at hf2
    simp only [List.length_take] at hf2
    omega

/-- decoding is idempotent on its own output: what is returned re-encodes to bytes that decode
to the same message (the normal form of the input) -/
theorem decoded_is_fixed_point (m : Msg) (h : C01.Complete m) :
    decode (C01.decoded m).enc = some (.data (C01.decoded m)) := by
  rw [C01.reencode]; exact C01.roundtrip m h

/-- an item header with zero length bytes is refused -/
theorem zero_length_bytes_refused (fb : Nat) (rest : Bytes) (fuel : Nat) (h : fb % 4 = 0) :
    decItem (fuel + 1) (fb :: rest) = none := by
  simp [decItem, h]

/-- a declared payload longer than the bytes present is refused (no misread, no over-read) -/
theorem missing_payload_refused (f : Fmt) (hf : f ≠ .list) (k n : Nat) (rest : Bytes) (fuel : Nat)
    (hk : 1 ≤ k ∧ k ≤ 3) (hn : n < 256 ^ k) (hshort : rest.length < n) :
    decItem (fuel + 1) ((f.code * 4 + k) :: (beEnc k n ++ rest)) = none := by
  have hc := Fmt.code_lt f
  have h4 : (f.code * 4 + k) % 4 = k := by omega
  have h5 : (f.code * 4 + k) / 4 = f.code := by omega
  rw [decItem]
  have hk0 : ¬ k = 0 := by omega
  have h1 : ¬ ((beEnc k n ++ rest).length < k) := by simp [beEnc_length]
  simp only [h4, h5, hk0, if_false, h1, List.take_left' (beEnc_length k n), List.drop_left' (beEnc_length k n),
    beDec_beEnc k n hn, decodeFmt_code]
  cases f <;> first | exact absurd rfl hf | simp [hshort]

/-- tie to the source: the decoder's dispatch table -/
theorem facts_dispatch :
    Generated.decoderDispatch =
      [(0, "NewListNode", 0), (16, "NewASCIINode", 0), (24, "parseInt", 8), (25, "parseInt", 1),
       (26, "parseInt", 2), (28, "parseInt", 4), (32, "parseFloat", 8), (36, "parseFloat", 4),
       (40, "parseUint", 8), (41, "parseUint", 1), (42, "parseUint", 2), (44, "parseUint", 4),
       (8, "NewBinaryNode", 0), (9, "NewBooleanNode", 0)] := by decide

/-! ### non-vacuity -/
example : decode [0, 0, 0, 10, 0, 1, 0x81, 1, 0, 0, 0, 0, 0, 1] ≠ none := by decide
example : decode [0, 0, 0, 12, 0, 1, 0x81, 1, 0, 0, 0, 0, 0, 1, 0xA5, 0] ≠ none := by decide
example : decode [0, 0, 0, 13, 0, 1, 0x81, 1, 0, 0, 0, 0, 0, 1, 0xA5, 0, 0] = none := by decide

end Secs.C03
