/-
C03 — the HSMS decoder accepts exactly well-formed messages and decodes them exactly.

Proved here: every acceptance condition of the statement is necessary (declared message length =
bytes present, PType 0, defined SType, control messages are exactly a header, nothing left over
after the item, no length byte count 0, payload present, W-bit only on odd functions), every
encoding the library produces is accepted and decoded to the same message (C01), and the
result of decoding is a fixed point of encode→decode.

The item level is characterised completely against `Spec.Denotes`, the lenient reading relation
(1, 2 or 3 length bytes, minimal or not; any non-zero boolean byte; 7-bit characters; finite
floats; whole numbers of values): `item_sound`, `item_complete`, `item_functional`; and the
message level by `accept_iff`: a byte string is accepted iff it is one well-formed HSMS message
(`WellFormed`).
-/
import SecsModel.Props.C01
import SecsModel.Proofs.Denotes
namespace Secs.C03
open Secs

/-- acceptance implies: at least 14 bytes, declared length = bytes present, PType 0 -/
theorem accepted_frame (inp : Bytes) (m : HMsg) (h : decode inp = some m) :
    14 ≤ inp.length ∧ beDec (inp.take 4) + 4 = inp.length ∧ inp.getD 8 0 = 0 := by
  unfold decode at h
  by_cases hf : frameOk inp = true
  · simp only [frameOk, Bool.and_eq_true, Bool.not_eq_true', decide_eq_false_iff_not, beq_iff_eq,
      List.length_drop] at hf
    omega
  · simp [hf] at h

/-- acceptance implies a defined SType -/
theorem accepted_stype (inp : Bytes) (m : HMsg) (h : decode inp = some m) :
    inp.getD 9 0 = 0 ∨ (1 ≤ inp.getD 9 0 ∧ inp.getD 9 0 ≤ 7) ∨ inp.getD 9 0 = 9 := by
  unfold decode at h
  by_cases hf : frameOk inp = true
  · simp only [hf, Bool.not_true, Bool.false_eq_true, if_false] at h
    by_cases h0 : inp.getD 9 0 = 0
    · exact Or.inl h0
    · right
      by_cases hc : ((decide (1 ≤ inp.getD 9 0) && decide (inp.getD 9 0 ≤ 7)) || inp.getD 9 0 == 9) = true
      · simp only [Bool.or_eq_true, Bool.and_eq_true, decide_eq_true_eq, beq_iff_eq] at hc
        exact hc
      · have h0' : (inp.getD 9 0 == 0) = false := by simpa using h0
        simp only [h0', Bool.false_eq_true, if_false, hc] at h
        cases h
  · simp [hf] at h

/-- an accepted control message is exactly a 10-byte header -/
theorem accepted_ctrl (inp : Bytes) (hd : Bytes) (h : decode inp = some (.ctrl hd)) : inp.length = 14 := by
  have hfr := accepted_frame inp _ h
  unfold decode at h
  by_cases hf : frameOk inp = true
  · simp only [hf, Bool.not_true, Bool.false_eq_true, if_false] at h
    by_cases h0 : (inp.getD 9 0 == 0) = true
    · simp only [h0, if_true, decodeData] at h
      split at h
      · cases h
      · rename_i item _
        cases hm : mkHsmsMsg [] (↑(((inp.drop 4).take 10).getD 2 0 % 128) : Nat) (↑(((inp.drop 4).take 10).getD 3 0) : Nat)
          (↑(((inp.drop 4).take 10).getD 2 0 / 128) : Nat) dirBoth item (↑(beDec (((inp.drop 4).take 10).take 2)) : Nat)
          (((inp.drop 4).take 10).drop 6) <;> simp [hm] at h
    · simp only [h0, Bool.false_eq_true, if_false] at h
      by_cases hc : ((decide (1 ≤ inp.getD 9 0) && decide (inp.getD 9 0 ≤ 7)) || inp.getD 9 0 == 9) = true
      · simp only [hc, if_true, decodeCtrl] at h
        by_cases hl : (beDec (inp.take 4) != 10) = true
        · simp [hl] at h
        · simp only [bne_iff_ne, ne_eq, Decidable.not_not] at hl
          omega
      · simp only [hc, Bool.false_eq_true, if_false] at h
        cases h
  · simp [hf] at h

/-- every encoding the library produces for a complete message is accepted, and decoded to the
same message -/
theorem accepts_own_encodings (m : Msg) (h : C01.Complete m) : decode m.enc = some (.data (C01.decoded m)) :=
  C01.roundtrip m h

/-- bytes appended to a valid encoding are never ignored: the result is a failure -/
theorem trailing_bytes_rejected (m : Msg) (h : C01.Complete m) (extra : Bytes) (he : extra ≠ []) :
    decode (m.enc ++ extra) = none := by
  have hr := C01.roundtrip m h
  have hf := accepted_frame _ _ hr
  cases hd : decode (m.enc ++ extra) with
  | none => rfl
  | some x =>
    have hf2 := accepted_frame _ _ hd
    have : (m.enc ++ extra).take 4 = m.enc.take 4 := by
      rw [List.take_append_of_le_length (by omega)]
    rw [this] at hf2
    have hl : extra.length ≠ 0 := by
      intro h0; exact he (List.length_eq_zero_iff.mp h0)
    simp only [List.length_append] at hf2
    omega

/-- truncating a valid encoding anywhere is a failure -/
theorem truncation_rejected (m : Msg) (h : C01.Complete m) (k : Nat) (hk : k < m.enc.length) (h4 : 4 ≤ k) :
    decode (m.enc.take k) = none := by
  have hr := C01.roundtrip m h
  have hf := accepted_frame _ _ hr
  cases hd : decode (m.enc.take k) with
  | none => rfl
  | some x =>
    have hf2 := accepted_frame _ _ hd
    have : (m.enc.take k).take 4 = m.enc.take 4 := by
      rw [List.take_take]; congr 1; omega
    rw [this] at hf2
    simp only [List.length_take] at hf2
    omega

/-- decoding is idempotent on its own output: what is returned re-encodes to bytes that decode
to the same message (the normal form of the input) -/
theorem decoded_is_fixed_point (m : Msg) (h : C01.Complete m) :
    decode (C01.decoded m).enc = some (.data (C01.decoded m)) := by
  rw [C01.reencode]; exact C01.roundtrip m h

/-- an item header with zero length bytes is refused -/
theorem zero_length_bytes_refused (fb : Nat) (rest : Bytes) (fuel : Nat) (h : fb % 4 = 0) :
    decItem (fuel + 1) (fb :: rest) = none := by
  simp [decItem, h]

/-- a declared payload longer than the bytes present is refused (no misread, no over-read) -/
theorem missing_payload_refused (f : Fmt) (hf : f ≠ .list) (k n : Nat) (rest : Bytes) (fuel : Nat)
    (hk : 1 ≤ k ∧ k ≤ 3) (hn : n < 256 ^ k) (hshort : rest.length < n) :
    decItem (fuel + 1) ((f.code * 4 + k) :: (beEnc k n ++ rest)) = none := by
  have hc := Fmt.code_lt f
  have h4 : (f.code * 4 + k) % 4 = k := by omega
  have h5 : (f.code * 4 + k) / 4 = f.code := by omega
  rw [decItem]
  have hk0 : ¬ k = 0 := by omega
  have h1 : ¬ ((beEnc k n ++ rest).length < k) := by simp [beEnc_length]
  simp only [h4, h5, hk0, if_false, h1, List.take_left' (beEnc_length k n), List.drop_left' (beEnc_length k n),
    beDec_beEnc k n hn, decodeFmt_code]
  cases f <;> first | exact absurd rfl hf | simp [hshort]

/-- soundness: what the decoder returns for an item is denoted by exactly the bytes it consumed -/
theorem item_sound (fuel : Nat) (inp : Bytes) (t : Tmpl) (r : Bytes) (h : decItem fuel inp = some (t, r))
    (hb : IsBytes inp) : ∃ p, inp = p ++ r ∧ Spec.Denotes p t :=
  dec_sound fuel inp t r h hb

/-- completeness: whatever bytes denote an item — minimal length bytes or not — are decoded to
exactly that item, leaving what follows untouched -/
theorem item_complete (t : Tmpl) (p : Bytes) (h : Spec.Denotes p t) (rest : Bytes) (fuel : Nat) (hf : t.sz ≤ fuel) :
    decItem fuel (p ++ rest) = some (t, rest) :=
  dec_complete t p h rest fuel hf

/-- bytes denote at most one item -/
theorem item_functional (p : Bytes) (t t' : Tmpl) (h : Spec.Denotes p t) (h' : Spec.Denotes p t') : t = t' :=
  denotes_fun p t t' h h'

/-- the fuel the decoder passes (text length + 1) suffices for every denoted item -/
theorem denoted_fuel (t : Tmpl) (p : Bytes) (h : Spec.Denotes p t) : t.sz ≤ p.length + 1 := by
  -- decoding with ample fuel succeeds, and every decoded item consumed ≥ 2 bytes per node
  have hc := dec_complete t p h [] (t.sz) (Nat.le_refl _)
  simp only [List.append_nil] at hc
  have := sz_le_of_dec t.sz p t [] hc
  simp at this; omega

/-- one well-formed HSMS message: at least a header, declared length = bytes present, PType 0,
and either a data message whose text is empty or denotes exactly one item (nothing left over)
and does not set the W-bit on an even function, or a control message with a defined SType that
is exactly a header -/
def WellFormed (b : Bytes) : Prop :=
  14 ≤ b.length ∧ beDec (b.take 4) + 4 = b.length ∧ b.getD 8 0 = 0 ∧
  ((b.getD 9 0 = 0 ∧ (b.length = 14 ∨ ∃ t, Spec.Denotes (b.drop 14) t) ∧
      ¬ (b.getD 6 0 / 128 = 1 ∧ b.getD 7 0 % 2 = 0)) ∨
   (((1 ≤ b.getD 9 0 ∧ b.getD 9 0 ≤ 7) ∨ b.getD 9 0 = 9) ∧ b.length = 14))

theorem getD_take_drop (b : Bytes) (i : Nat) (hi : i < 10) (hl : 14 ≤ b.length) :
    ((b.drop 4).take 10).getD i 0 = b.getD (4 + i) 0 := by
  simp [List.getD_eq_getElem?_getD, List.getElem?_take, List.getElem?_drop, hi]

/-- the text of a data message is accepted iff it denotes one item, with nothing left over -/
theorem text_accepted_iff (text : Bytes) (hb : IsBytes text) :
    (∃ t, decItem (text.length + 1) text = some (t, [])) ↔ ∃ t, Spec.Denotes text t := by
  constructor
  · rintro ⟨t, h⟩
    obtain ⟨p, hp, hd⟩ := dec_sound _ _ _ _ h hb
    simp only [List.append_nil] at hp
    exact ⟨t, hp ▸ hd⟩
  · rintro ⟨t, h⟩
    have := dec_complete t text h [] (text.length + 1) (denoted_fuel t text h)
    simp only [List.append_nil] at this
    exact ⟨t, this⟩

/-- the message constructor used by the decoder refuses exactly the W-bit on an even function -/
theorem hsms_ctor_iff (s f w sid : Int) (hs : 0 ≤ s ∧ s < 128) (hf : 0 ≤ f ∧ f < 256) (hw : w = 0 ∨ w = 1)
    (hsid : 0 ≤ sid ∧ sid < 65536) (item : Tmpl) (hv : item.vars.isEmpty = true) (sys : Bytes) (hsys : sys.length = 4) :
    (mkHsmsMsg [] s f w dirBoth item sid sys).isSome = true ↔ ¬ (w = 1 ∧ f % 2 = 0) := by
  obtain ⟨a, b, c, d, rfl⟩ := length4 sys hsys
  constructor
  · rintro h ⟨h1, h2⟩
    have hvalid : Msg.valid ⟨[], s, f, w, dirBoth, item, sid, pad4 [a, b, c, d]⟩ = false := by
      simp only [Msg.valid, Bool.and_eq_false_iff]
      left; left; left; left; right
      simp only [Bool.not_eq_false', Bool.and_eq_true, beq_iff_eq]
      exact ⟨h1, h2⟩
    have hn : mkHsmsMsg [] s f w dirBoth item sid [a, b, c, d] = none := by
      unfold mkHsmsMsg checked
      rw [hvalid]
      split
      · rfl
      · split
        · rfl
        · split <;> rfl
    rw [hn] at h
    cases h
  · intro h
    rw [C01.mkHsms_ok s f w sid item a b c d hs hf hw h hsid hv]
    rfl

/-- accepted ⇔ one well-formed HSMS message -/
theorem accept_iff (b : Bytes) (hb : IsBytes b) : (decode b).isSome = true ↔ WellFormed b := by
  unfold WellFormed
  by_cases hf : frameOk b = true
  · have hfr := hf
    simp only [frameOk, Bool.and_eq_true, Bool.not_eq_true', decide_eq_false_iff_not, beq_iff_eq,
      List.length_drop] at hfr
    obtain ⟨⟨hlen, hml⟩, hpt⟩ := hfr
    have h14 : 14 ≤ b.length := by omega
    have hbyte : ∀ i, b.getD i 0 < 256 := by
      intro i
      rw [List.getD_eq_getElem?_getD]
      cases hg : b[i]? with
      | none => decide
      | some v => exact hb v (List.mem_of_getElem? hg)
    have hb6 := hbyte 6
    have hb7 := hbyte 7
    unfold decode
    simp only [hf, Bool.not_true, Bool.false_eq_true, if_false]
    by_cases h0 : b.getD 9 0 = 0
    · have h0' : (b.getD 9 0 == 0) = true := by rw [h0]; rfl
      simp only [h0', if_true]
      have hsid : beDec (((b.drop 4).take 10).take 2) < 65536 := by
        have := beDec_lt (((b.drop 4).take 10).take 2) (isBytes_take _ _ (isBytes_take _ _ (isBytes_drop _ _ hb)))
        have hl : (((b.drop 4).take 10).take 2).length = 2 := by simp; omega
        rw [hl] at this; exact this
      have hsys : (((b.drop 4).take 10).drop 6).length = 4 := by simp; omega
      have g2 := getD_take_drop b 2 (by omega) h14
      have g3 := getD_take_drop b 3 (by omega) h14
      simp only [show 4 + 2 = 6 from rfl, show 4 + 3 = 7 from rfl] at g2 g3
      have hctor := fun item hv => hsms_ctor_iff ((b.getD 6 0 % 128 : Nat) : Int) ((b.getD 7 0 : Nat) : Int)
        ((b.getD 6 0 / 128 : Nat) : Int) ((beDec (((b.drop 4).take 10).take 2) : Nat) : Int)
        (by omega) (by omega) (by omega) (by omega) item hv _ hsys
      have hwbit : (((b.getD 6 0 / 128 : Nat) : Int) = 1 ∧ ((b.getD 7 0 : Nat) : Int) % 2 = 0) ↔
          (b.getD 6 0 / 128 = 1 ∧ b.getD 7 0 % 2 = 0) := by omega
      unfold decodeData
      simp only []
      rw [g2, g3]
      by_cases h10 : b.length = 14
      · have h10' : (beDec (b.take 4) == 10) = true := by
          have : beDec (b.take 4) = 10 := by omega
          rw [this]; rfl
        rw [if_pos h10']
        show (Option.map HMsg.data _).isSome = true ↔ _
        rw [Option.isSome_map, hctor .empty rfl, hwbit]
        constructor
        · intro h; exact ⟨h14, by omega, hpt, Or.inl ⟨h0, Or.inl h10, h⟩⟩
        · rintro ⟨_, _, _, h | h⟩
          · exact h.2.2
          · omega
      · have h10' : (beDec (b.take 4) == 10) = false := by
          have : beDec (b.take 4) ≠ 10 := by omega
          simpa using this
        rw [if_neg (by rw [h10']; decide)]
        have htx := text_accepted_iff (b.drop 14) (isBytes_drop _ _ hb)
        cases hdt : decodeText (b.drop 14) with
        | none =>
          simp only [Option.isSome_none, Bool.false_eq_true, false_iff]
          rintro ⟨_, _, _, h | h⟩
          · rcases h.2.1 with h14' | hden
            · exact h10 h14'
            · obtain ⟨t, ht⟩ := htx.mpr hden
              rw [(decodeText_some _ _).mpr ht] at hdt
              cases hdt
          · omega
        | some t =>
          have ht := (decodeText_some _ _).mp hdt
          have hcl := denotes_closed _ _ (dec_sound _ _ _ _ ht (isBytes_drop _ _ hb)).choose_spec.2
          show (Option.map HMsg.data _).isSome = true ↔ _
          rw [Option.isSome_map, hctor t (by rw [vars_closed t hcl]; rfl), hwbit]
          constructor
          · intro h
            exact ⟨h14, by omega, hpt, Or.inl ⟨h0, Or.inr (htx.mp ⟨t, ht⟩), h⟩⟩
          · rintro ⟨_, _, _, h | h⟩
            · exact h.2.2
            · omega
    · have h0' : (b.getD 9 0 == 0) = false := by simpa using h0
      simp only [h0', Bool.false_eq_true, if_false]
      by_cases hc : ((decide (1 ≤ b.getD 9 0) && decide (b.getD 9 0 ≤ 7)) || b.getD 9 0 == 9) = true
      · simp only [hc, if_true, decodeCtrl]
        have hc' : (1 ≤ b.getD 9 0 ∧ b.getD 9 0 ≤ 7) ∨ b.getD 9 0 = 9 := by
          simp only [Bool.or_eq_true, Bool.and_eq_true, decide_eq_true_eq, beq_iff_eq] at hc
          exact hc
        by_cases hl : b.length = 14
        · have h10' : (beDec (b.take 4) != 10) = false := by
            have : beDec (b.take 4) = 10 := by omega
            rw [this]; rfl
          have hmk : (mkCtrl ((b.drop 4).take 10)).isSome = true := by
            unfold mkCtrl
            have : ¬ ((b.drop 4).take 10).length > 10 := by simp; omega
            rw [if_neg this]; rfl
          rw [if_neg (by rw [h10']; decide), Option.isSome_map, hmk]
          simp only [true_iff]
          exact ⟨h14, by omega, hpt, Or.inr ⟨hc', hl⟩⟩
        · have h10' : (beDec (b.take 4) != 10) = true := by
            have : beDec (b.take 4) ≠ 10 := by omega
            simpa using this
          rw [if_pos h10']
          simp only [Option.isSome_none, Bool.false_eq_true, false_iff]
          rintro ⟨_, _, _, h | h⟩
          · exact h0 h.1
          · exact hl h.2
      · simp only [hc, Bool.false_eq_true, if_false, Option.isSome_none, false_iff]
        rintro ⟨_, _, _, h | h⟩
        · exact h0 h.1
        · apply hc
          simp only [Bool.or_eq_true, Bool.and_eq_true, decide_eq_true_eq, beq_iff_eq]
          exact h.1
  · have : decode b = none := by unfold decode; simp [hf]
    rw [this]
    simp only [Option.isSome_none, Bool.false_eq_true, false_iff]
    rintro ⟨h1, h2, h3, _⟩
    apply hf
    simp only [frameOk, Bool.and_eq_true, Bool.not_eq_true', decide_eq_false_iff_not, beq_iff_eq, List.length_drop]
    exact ⟨⟨by omega, by omega⟩, h3⟩

/-- tie to the source: the decoder's dispatch table -/
theorem facts_dispatch :
    Generated.decoderDispatch =
      [(0, "NewListNode", 0), (16, "NewASCIINode", 0), (24, "parseInt", 8), (25, "parseInt", 1),
       (26, "parseInt", 2), (28, "parseInt", 4), (32, "parseFloat", 8), (36, "parseFloat", 4),
       (40, "parseUint", 8), (41, "parseUint", 1), (42, "parseUint", 2), (44, "parseUint", 4),
       (8, "NewBinaryNode", 0), (9, "NewBooleanNode", 0)] := by decide

/-! ### non-vacuity -/
example : decode [0, 0, 0, 10, 0, 1, 0x81, 1, 0, 0, 0, 0, 0, 1] ≠ none := by decide
example : decode [0, 0, 0, 12, 0, 1, 0x81, 1, 0, 0, 0, 0, 0, 1, 0xA5, 0] ≠ none := by decide
example : decode [0, 0, 0, 13, 0, 1, 0x81, 1, 0, 0, 0, 0, 0, 1, 0xA5, 0, 0] = none := by decide

end Secs.C03
