/-
C14 — HSMS control messages are built, classified and decoded per HSMS.

Closed forms of every constructor's 14 bytes; responses echo session id and system bytes and
refuse a request of the wrong kind; the reported type is a total function of (PType, SType);
decoding the bytes of any control message with a defined SType returns an equal message.
All for arbitrary session ids, system bytes and codes (no enumeration).
-/
import SecsModel.Proofs.MsgCodec
import SecsModel.Generated.Facts
namespace Secs.C14
open Secs

/-- the SType → name table of the standard -/
def typeTable (ptype stype : Nat) : String :=
  if ptype ≠ 0 then "undefined" else
  match stype with
  | 1 => "select.req" | 2 => "select.rsp" | 3 => "deselect.req" | 4 => "deselect.rsp"
  | 5 => "linktest.req" | 6 => "linktest.rsp" | 7 => "reject.req" | 9 => "separate.req"
  | _ => "undefined"

/-- the reported type is a total function of (PType, SType) -/
theorem type_total (b0 b1 b2 b3 pt st s0 s1 s2 s3 : Nat) :
    ctrlType [b0, b1, b2, b3, pt, st, s0, s1, s2, s3] = str (typeTable pt st) := by
  unfold ctrlType typeTable
  simp only [List.getD_cons_succ, List.getD_cons_zero]
  by_cases hp : pt = 0
  · subst hp
    simp only [bne_self_eq_false, Bool.false_eq_true, if_false, ne_eq, not_true_eq_false]
    split <;> first | rfl | (split <;> first | rfl | simp_all)
  · simp [hp]

/-- every constructor yields: length 10, the session id, byte 2 and byte 3, PType 0, the SType
of its kind, the system bytes -/
theorem select_req_bytes (sid s0 s1 s2 s3 : Nat) (rest : Bytes) :
    (mkSelectReq sid (s0 :: s1 :: s2 :: s3 :: rest)).map ctrlEnc =
      some [0, 0, 0, 10, sid / 256 % 256, sid % 256, 0, 0, 0, 1, s0, s1, s2, s3] := rfl

theorem deselect_req_bytes (sid s0 s1 s2 s3 : Nat) (rest : Bytes) :
    (mkDeselectReq sid (s0 :: s1 :: s2 :: s3 :: rest)).map ctrlEnc =
      some [0, 0, 0, 10, sid / 256 % 256, sid % 256, 0, 0, 0, 3, s0, s1, s2, s3] := rfl

theorem linktest_req_bytes (s0 s1 s2 s3 : Nat) (rest : Bytes) :
    (mkLinktestReq (s0 :: s1 :: s2 :: s3 :: rest)).map ctrlEnc =
      some [0, 0, 0, 10, 255, 255, 0, 0, 0, 5, s0, s1, s2, s3] := rfl

theorem separate_req_bytes (sid s0 s1 s2 s3 : Nat) (rest : Bytes) :
    (mkSeparateReq sid (s0 :: s1 :: s2 :: s3 :: rest)).map ctrlEnc =
      some [0, 0, 0, 10, sid / 256 % 256, sid % 256, 0, 0, 0, 9, s0, s1, s2, s3] := rfl

/-- reject.req: byte 2 is the rejected SType, or the PType when the reason is 2 -/
theorem reject_req_bytes (sid pt st reason s0 s1 s2 s3 : Nat) (rest : Bytes) :
    (mkRejectReq sid pt st (s0 :: s1 :: s2 :: s3 :: rest) reason).map ctrlEnc =
      some [0, 0, 0, 10, sid / 256 % 256, sid % 256, if reason = 2 then pt else st, reason, 0, 7, s0, s1, s2, s3] := by
  by_cases h : reason = 2 <;> simp [mkRejectReq, ctrlWithSys, ctrlEnc, h]

/-- fewer than four system bytes: the constructor refuses (index out of range) -/
theorem short_system_bytes_refused (sid : Nat) (sys : Bytes) (h : sys.length < 4) : mkSelectReq sid sys = none := by
  match sys, h with
  | [], _ => rfl
  | [_], _ => rfl
  | [_, _], _ => rfl
  | [_, _, _], _ => rfl

/-- responses echo the session id and system bytes of the request and carry the status -/
theorem select_rsp_echo (b0 b1 b2 b3 s0 s1 s2 s3 status : Nat) :
    (mkSelectRsp [b0, b1, b2, b3, 0, 1, s0, s1, s2, s3] status).map ctrlEnc =
      some [0, 0, 0, 10, b0, b1, 0, status, 0, 2, s0, s1, s2, s3] := by
  simp [mkSelectRsp, mkRsp, ctrlType, ctrlEnc]

theorem deselect_rsp_echo (b0 b1 b2 b3 s0 s1 s2 s3 status : Nat) :
    (mkDeselectRsp [b0, b1, b2, b3, 0, 3, s0, s1, s2, s3] status).map ctrlEnc =
      some [0, 0, 0, 10, b0, b1, 0, status, 0, 4, s0, s1, s2, s3] := by
  simp [mkDeselectRsp, mkRsp, ctrlType, ctrlEnc]

theorem linktest_rsp_echo (b0 b1 b2 b3 s0 s1 s2 s3 : Nat) :
    (mkLinktestRsp [b0, b1, b2, b3, 0, 5, s0, s1, s2, s3]).map ctrlEnc =
      some [0, 0, 0, 10, 255, 255, 0, 0, 0, 6, s0, s1, s2, s3] := by
  simp [mkLinktestRsp, mkRsp, ctrlType, ctrlEnc]

/-- a response constructor refuses every request that is not of its kind -/
theorem rsp_refuses_wrong_kind (req : Bytes) (status : Nat) :
    (ctrlType req ≠ str "select.req" → mkSelectRsp req status = none) ∧
    (ctrlType req ≠ str "deselect.req" → mkDeselectRsp req status = none) ∧
    (ctrlType req ≠ str "linktest.req" → mkLinktestRsp req = none) := by
  refine ⟨fun h => ?_, fun h => ?_, fun h => ?_⟩ <;> simp [mkSelectRsp, mkDeselectRsp, mkLinktestRsp, mkRsp, h]

/-- decoding the bytes of a control message with a defined SType returns an equal message -/
theorem ctrl_roundtrip (b0 b1 b2 b3 st s0 s1 s2 s3 : Nat)
    (hst : (1 ≤ st ∧ st ≤ 7) ∨ st = 9) :
    ∃ h, decode (ctrlEnc [b0, b1, b2, b3, 0, st, s0, s1, s2, s3]) = some (.ctrl h) ∧
      h = [b0, b1, b2, b3, 0, st, s0, s1, s2, s3] := by
  refine ⟨_, ?_, rfl⟩
  have hst0 : (st == 0) = false := by simp; omega
  have hd : ((decide (1 ≤ st) && decide (st ≤ 7)) || st == 9) = true := by
    rcases hst with ⟨h1, h2⟩ | h <;> simp [*]
  simp [decode, frameOk, decodeCtrl, ctrlEnc, beDec, hst0, hd, mkCtrl]

/-- a control header followed by anything else, or an undefined SType, is not accepted -/
theorem undefined_stype_rejected (b0 b1 b2 b3 st s0 s1 s2 s3 : Nat) (hst : st = 8 ∨ st ≥ 10) :
    decode (ctrlEnc [b0, b1, b2, b3, 0, st, s0, s1, s2, s3]) = none := by
  have hst0 : (st == 0) = false := by simp; omega
  have hd : ((decide (1 ≤ st) && decide (st ≤ 7)) || st == 9) = false := by
    rcases hst with h | h <;> simp <;> omega
  simp [decode, frameOk, decodeCtrl, ctrlEnc, beDec, hst0, hd]

/-! ### the tie to the source -/
theorem facts_ctrl :
    Generated.ctrlTypeSwitch = [(1, "select.req"), (2, "select.rsp"), (3, "deselect.req"), (4, "deselect.rsp"),
      (5, "linktest.req"), (6, "linktest.rsp"), (7, "reject.req"), (9, "separate.req"), (-1, "undefined")] ∧
    Generated.astSTypes = [("sTypeDeselectReq", 3), ("sTypeDeselectRsp", 4), ("sTypeLinktestReq", 5),
      ("sTypeLinktestRsp", 6), ("sTypeRejectReq", 7), ("sTypeSelectReq", 1), ("sTypeSelectRsp", 2), ("sTypeSeparateReq", 9)] ∧
    Generated.hsmsSTypes = [("sTypeDataMessage", 0), ("sTypeDeselectReq", 3), ("sTypeDeselectRsp", 4),
      ("sTypeLinktestReq", 5), ("sTypeLinktestRsp", 6), ("sTypeRejectReq", 7), ("sTypeSelectReq", 1),
      ("sTypeSelectRsp", 2), ("sTypeSeparateReq", 9)] := by decide

end Secs.C14
