/-
C05 — SML literals denote exactly the values stored (no silent substitution).

For every value token of an array item (`arrayArg`), over all token texts: either the argument
handed to the factory is exactly the value the conversion routine returned without error, or
an error is recorded — there is no branch that substitutes a default (0, clamped value,
placeholder) silently (`no_silent_*`). With C06 `all_or_nothing` an error means no message.
The conversion routines are the models of strconv.ParseInt/ParseUint/ParseFloat (Model/Strconv,
Model/FloatLib: library behaviour, cross-checked against the Go standard library on every run);
the denotation of every INTEGER literal form is proved outright: hexadecimal `0x`/`0X`, binary
`0b`/`0B`, octal `0o`/`0O` and the leading-zero spelling, decimal, each with an optional sign —
ParseUint/ParseInt with base 0 return exactly the number the digits denote in that base when it
fits the item's width (`literals_denote_unsigned`, `literals_denote_signed`, `decimal_denotes`).
Float literals: ParseFloat is a library parameter (cross-checked), not proved.
ASCII items: characters are taken as written between the quotes, character codes must be below
128, anything else records an error (`ascii_*`).
-/
import SecsModel.Proofs.Decimal
import SecsModel.Proofs.Literals
import SecsModel.Model.Parser
import SecsModel.Generated.Facts
namespace Secs.C05
open Secs Secs.Sml Secs.Lex Secs.Strconv

theorem err_grows (s : PS) (t : Tok) (k : String) : (s.err t k).errs.length = s.errs.length + 1 := by
  simp [PS.err]

/-- signed integer items: the stored value is ParseInt's value, or an error is recorded -/
theorem no_silent_int (w : Nat) (d : Nat) (s s' : PS) (t : Tok) (g : GoVal) (hk : t.kind = .number)
    (h : arrayArg [73, d] w s t = some (g, s')) :
    (s'.errs = s.errs ∧ (parseInt t.val 0 (8 * w)).err = none ∧ g = .sint 64 (parseInt t.val 0 (8 * w)).val) ∨
    s'.errs.length = s.errs.length + 1 := by
  have h1 : (([73, d] : Bytes) == [66]) = false := by simp
  have h2 : (([73, d] : Bytes) == [66, 79, 79, 76, 69, 65, 78]) = false := by simp
  simp only [arrayArg, hk, h1, h2, Bool.false_eq_true, if_false, List.head?_cons] at h
  have h3 : ((some 73 : Option Nat) == some 70) = false := by decide
  have h4 : ((some 73 : Option Nat) == some 73) = true := by decide
  simp only [h3, h4, Bool.false_eq_true, if_false, if_true] at h
  cases he : (parseInt t.val 0 (8 * w)).err with
  | none =>
    simp only [he, numErrKind] at h
    injection h with h; injection h with hg hs
    left; exact ⟨hs ▸ rfl, rfl, hg.symm⟩
  | some e =>
    cases e <;> simp only [he, numErrKind] at h <;> (injection h with h; injection h with hg hs; right; rw [← hs]; exact err_grows _ _ _)

/-- unsigned integer items -/
theorem no_silent_uint (w : Nat) (d : Nat) (s s' : PS) (t : Tok) (g : GoVal) (hk : t.kind = .number)
    (h : arrayArg [85, d] w s t = some (g, s')) :
    (s'.errs = s.errs ∧ (parseUint t.val 0 (8 * w)).err = none ∧ g = .uint 64 (parseUint t.val 0 (8 * w)).val) ∨
    s'.errs.length = s.errs.length + 1 := by
  have h1 : (([85, d] : Bytes) == [66]) = false := by simp
  have h2 : (([85, d] : Bytes) == [66, 79, 79, 76, 69, 65, 78]) = false := by simp
  simp only [arrayArg, hk, h1, h2, Bool.false_eq_true, if_false, List.head?_cons] at h
  have h3 : ((some 85 : Option Nat) == some 70) = false := by decide
  have h4 : ((some 85 : Option Nat) == some 73) = false := by decide
  simp only [h3, h4, Bool.false_eq_true, if_false] at h
  cases he : (parseUint t.val 0 (8 * w)).err with
  | none =>
    simp only [he, numErrKind] at h
    injection h with h; injection h with hg hs
    left; exact ⟨hs ▸ rfl, rfl, hg.symm⟩
  | some e =>
    cases e <;> simp only [he, numErrKind] at h <;> (injection h with h; injection h with hg hs; right; rw [← hs]; exact err_grows _ _ _)

/-- binary items: the value is ParseInt's and lies in 0..255, or an error is recorded -/
theorem no_silent_binary (w : Nat) (s s' : PS) (t : Tok) (g : GoVal) (hk : t.kind = .number)
    (h : arrayArg [66] w s t = some (g, s')) :
    (s'.errs = s.errs ∧ (parseInt t.val 0 0).err ≠ some .syntax ∧ 0 ≤ (parseInt t.val 0 0).val ∧
      (parseInt t.val 0 0).val < 256 ∧ g = .sint 0 (parseInt t.val 0 0).val) ∨
    s'.errs.length = s.errs.length + 1 := by
  have h1 : (([66] : Bytes) == [66]) = true := by decide
  simp only [arrayArg, hk, h1, if_true] at h
  by_cases hs : ((parseInt t.val 0 0).err == some NumErr.syntax) = true
  · simp only [hs, if_true] at h
    injection h with h; injection h with hg hs'; right; rw [← hs']; exact err_grows _ _ _
  · simp only [hs, Bool.false_eq_true, if_false] at h
    by_cases hr : (!(decide (0 ≤ (parseInt t.val 0 0).val) && decide ((parseInt t.val 0 0).val < 256))) = true
    · simp only [hr, if_true] at h
      injection h with h; injection h with hg hs'; right; rw [← hs']; exact err_grows _ _ _
    · simp only [hr, Bool.false_eq_true, if_false] at h
      injection h with h; injection h with hg hs'
      left
      simp only [Bool.not_eq_true', Bool.and_eq_false_iff, decide_eq_false_iff_not, not_or, Decidable.not_not] at hr
      refine ⟨hs' ▸ rfl, by intro hc; rw [hc] at hs; exact hs rfl, hr.1, hr.2, hg.symm⟩

/-- float items: the stored pattern is ParseFloat's, or an error is recorded -/
theorem no_silent_float (w : Nat) (d : Nat) (s s' : PS) (t : Tok) (g : GoVal) (hk : t.kind = .number)
    (h : arrayArg [70, d] w s t = some (g, s')) :
    (s'.errs = s.errs ∧ ∃ b, FloatLib.parseFloat w t.val = .ok b ∧ g = (if w == 4 then .f32 b else .f64 b)) ∨
    s'.errs.length = s.errs.length + 1 := by
  have h1 : (([70, d] : Bytes) == [66]) = false := by simp
  have h2 : (([70, d] : Bytes) == [66, 79, 79, 76, 69, 65, 78]) = false := by simp
  simp only [arrayArg, hk, h1, h2, Bool.false_eq_true, if_false, List.head?_cons] at h
  have h3 : ((some 70 : Option Nat) == some 70) = true := by decide
  simp only [h3, if_true] at h
  cases hp : FloatLib.parseFloat w t.val
  case ok b =>
    simp only [hp] at h
    injection h with h; injection h with hg hs
    left; exact ⟨hs ▸ rfl, b, rfl, hg.symm⟩
  all_goals
    simp only [hp] at h
    injection h with h; injection h with hg hs; right; rw [← hs]; exact err_grows _ _ _

/-- a token of the wrong kind for the item (a string in a number item, a boolean in an integer
item, …) stops the message with an error -/
theorem wrong_kind_is_error (ty : Bytes) (w : Nat) (t : Tok) (r : List Tok) (s : PS)
    (h : arrayArg ty w s t = none) (hk : (t.kind == Kind.error) = false) :
    arrayArgs ty w (t :: r) s = (none, s.err t (expectKind ty)) := by
  simp [arrayArgs, hk, h]

/-- a decimal literal denotes its number: Atoi of the decimal digits of n is n (n < 2^63) -/
theorem decimal_denotes (n : Nat) (h : n < 2 ^ 63) : atoi (decDigits n) = ⟨n, none⟩ := atoi_decDigits n h

/-- every unsigned integer literal form denotes the number its digits spell in its base
(`litVal`), and that is what ParseUint with base 0 returns when it fits `bits` bits -/
theorem literals_denote_unsigned (bits : Nat) (c : Nat) (r : Bytes) (value : Nat)
    (hfit : value ≤ 2 ^ (if (bits == 0) = true then 64 else bits) - 1) :
    (∀ x, (x = 120 ∨ x = 88) → digitsOf 16 (c :: r) → litVal 16 (c :: r) = value → parseUint (48 :: x :: c :: r) 0 bits = ⟨value, none⟩) ∧
    (∀ x, (x = 98 ∨ x = 66) → digitsOf 2 (c :: r) → litVal 2 (c :: r) = value → parseUint (48 :: x :: c :: r) 0 bits = ⟨value, none⟩) ∧
    (∀ x, (x = 111 ∨ x = 79) → digitsOf 8 (c :: r) → litVal 8 (c :: r) = value → parseUint (48 :: x :: c :: r) 0 bits = ⟨value, none⟩) ∧
    (digitsOf 8 (c :: r) → litVal 8 (c :: r) = value → parseUint (48 :: c :: r) 0 bits = ⟨value, none⟩) ∧
    (49 ≤ c ∧ c ≤ 57 → digitsOf 10 (c :: r) → litVal 10 (c :: r) = value → parseUint (c :: r) 0 bits = ⟨value, none⟩) :=
  uint_literal_denotes bits c r value hfit

/-- … and with a sign in front: `+v` and `v` when v < 2^(bits-1), `-v` when v ≤ 2^(bits-1) -/
theorem literals_denote_signed (u : Bytes) (bits B v : Nat) (hB : (if (bits == 0) = true then 64 else bits) = B)
    (hu : parseUint u 0 bits = ⟨v, none⟩) (hne : u ≠ []) (hfirst : ∀ c r, u = c :: r → c ≠ 43 ∧ c ≠ 45) :
    (v < 2 ^ (B - 1) → parseInt u 0 bits = ⟨v, none⟩ ∧ parseInt (43 :: u) 0 bits = ⟨v, none⟩) ∧
    (v ≤ 2 ^ (B - 1) → parseInt (45 :: u) 0 bits = ⟨-(v : Int), none⟩) :=
  int_literal_denotes u bits B v hB hu hne hfirst

/-- ASCII: the characters between the quotes are taken as they are written -/
theorem ascii_quoted_exact (mn mx : Int) (n : Nat) (t : Tok) (lit : Bytes) (s : PS) (hk : t.kind = .quoted)
    (hall : ((t.val.drop 1).take (t.val.length - 2)).all (· < 128) = true) :
    asciiLoop mn mx n [t] lit s = (ofFactory (mkAscii (lit ++ (t.val.drop 1).take (t.val.length - 2))), s) := by
  rw [asciiLoop]
  simp only [hk, hall, if_true]
  rw [asciiLoop]

/-- ASCII: a non-ASCII character between the quotes records an error -/
theorem ascii_non_ascii_is_error (mn mx : Int) (n : Nat) (t : Tok) (lit : Bytes) (s : PS) (hk : t.kind = .quoted)
    (hall : ((t.val.drop 1).take (t.val.length - 2)).all (· < 128) = false) :
    (asciiLoop mn mx n [t] lit s).2.errs.length = s.errs.length + 1 := by
  rw [asciiLoop]
  simp only [hk, hall, Bool.false_eq_true, if_false]
  rw [asciiLoop]
  exact err_grows _ _ _

/-! ### tie to the source: the digit sets of lexNumber -/
theorem facts_number_lexer :
    (Generated.lexAcceptSets.drop 11) = [("lexNumber.accept", "+-"), ("lexNumber.accept", "0"),
      ("lexNumber.accept", "xX"), ("lexNumber.accept", "bB"), ("lexNumber.accept", "oO"),
      ("lexNumber.accept", "."), ("lexNumber.accept", "eE"), ("lexNumber.accept", "+-"),
      ("lexNumber.acceptRun", "0123456789")] := by decide

/-! ### non-vacuity -/
example : (arrayArg [73, 49] 1 { toks := [] } ⟨.number, str "-128", 1, 1, none⟩).map (·.2.errs.length) = some 0 := by
  decide +kernel
example : (arrayArg [73, 49] 1 { toks := [] } ⟨.number, str "128", 1, 1, none⟩).map (·.2.errs.length) = some 1 := by
  decide +kernel

end Secs.C05
