/-
Recursive well-formedness: what the checkRep of every node of a tree establishes.
Every tree the Go API can produce satisfies it (theorems in Props/C12), and the codec and
printer theorems are stated for well-formed trees.
-/
import SecsModel.Model.Ctor
namespace Secs

mutual
def Tmpl.wf : Tmpl → Bool
  | .list xs => xs.len ≤ maxByteSize && xs.wfAll && listOwnOk xs 0 false && nodupNames xs.vars
  | .ascii s => s.length ≤ maxByteSize && s.all (· < 128)
  | .asciiVar n mn mx => isValidVarName n && 0 ≤ mn && -1 ≤ mx && (mx == -1 || mn ≤ mx)
  | .binary xs => xs.length ≤ maxByteSize && slotsOk (· < 256) xs
  | .boolean xs => xs.length ≤ maxByteSize && slotsOk (fun _ => true) xs
  | .int w xs => validWidthInt w && xs.length * w ≤ maxByteSize && slotsOk (intInRange w) xs
  | .uint w xs => validWidthInt w && xs.length * w ≤ maxByteSize && slotsOk (uintInRange w) xs
  | .float w xs => validWidthFloat w && xs.length * w ≤ maxByteSize
      && slotsOk (fun b => b < 2 ^ (8 * w) && FloatLib.isFinite w b) xs
  | .empty => true
def Slots.wfAll : Slots → Bool
  | .nil => true
  | .item t r => t.wf && r.wfAll
  | .var _ r => r.wfAll
end

-- no variables anywhere and no `emptyItemNode` inside: the trees that have a wire encoding
mutual
def Tmpl.closed : Tmpl → Bool
  | .list xs => xs.closedAll
  | .ascii _ => true
  | .asciiVar _ _ _ => false
  | .binary xs => (slotVars xs).isEmpty
  | .boolean xs => (slotVars xs).isEmpty
  | .int _ xs => (slotVars xs).isEmpty
  | .uint _ xs => (slotVars xs).isEmpty
  | .float _ xs => (slotVars xs).isEmpty
  | .empty => false
def Slots.closedAll : Slots → Bool
  | .nil => true
  | .item t r => t.closed && r.closedAll
  | .var _ _ => false
end

end Secs
