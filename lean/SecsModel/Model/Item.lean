/-
Model of pkg/ast item nodes (interface.go, list.go, ascii.go, binary.go, boolean.go,
int.go, uint.go, float.go): the tree type, the name grammar, header bytes, ToBytes,
Variables, Size. Printing is in Model/Print.lean, factories in Model/Ctor.lean.

A Go node is `values[] + variables map[name]pos`; under its rep invariant the only
observable content is a positional list of slots, each a value or a variable name.
-/
import SecsModel.Basic
namespace Secs

inductive Slot (α : Type) where
  | val (a : α)
  | var (name : Name)
  deriving Repr, DecidableEq, BEq

-- F4 / F8 values are carried as IEEE-754 bit patterns.
mutual
inductive Tmpl where
  | list (xs : Slots)
  | ascii (s : Bytes)
  | asciiVar (name : Name) (minLen maxLen : Int)
  | binary (xs : List (Slot Nat))
  | boolean (xs : List (Slot Bool))
  | int (w : Nat) (xs : List (Slot Int))
  | uint (w : Nat) (xs : List (Slot Nat))
  | float (w : Nat) (xs : List (Slot Nat))
  | empty
inductive Slots where
  | nil
  | item (t : Tmpl) (rest : Slots)
  | var (name : Name) (rest : Slots)
end

def Slots.len : Slots → Nat
  | .nil => 0
  | .item _ r => r.len + 1
  | .var _ r => r.len + 1

/-! ### variable-name grammar (interface.go: isValidVarName, isEllipsis) -/

/-- `(\[\d+\])*$` as a 3-state machine: 0 = at group boundary, 1 = after `[`, 2 = in digits -/
def idxGroups : Nat → Bytes → Bool
  | 0, [] => true
  | 0, b :: r => b == 91 && idxGroups 1 r
  | 1, b :: r => isDigitB b && idxGroups 2 r
  | 2, b :: r => if isDigitB b then idxGroups 2 r else b == 93 && idxGroups 0 r
  | _, _ => false

/-- `^[A-Za-z_]\w*(\[\d+\])*$` -/
def isValidVarName : Name → Bool
  | [] => false
  | b :: r => isIdentStartB b && idxGroups 0 (spanB isWordB r).2

/-- `(\[\d+\])?$` -/
def optGroup : Bytes → Bool
  | [] => true
  | 91 :: r => let p := spanB isDigitB r; !p.1.isEmpty && p.2 == [93]
  | _ => false

/-- `^\.{3}(\[\d+\])?$` -/
def isEllipsis : Name → Bool
  | 46 :: 46 :: 46 :: r => optGroup r
  | _ => false

/-! ### header bytes (interface.go: getDataByteLength, getHeaderBytes) -/

inductive Fmt where
  | list | binary | boolean | ascii | i8 | i1 | i2 | i4 | f8 | f4 | u8 | u1 | u2 | u4
  deriving Repr, DecidableEq, BEq

def Fmt.code : Fmt → Nat
  | .list => 0o00 | .binary => 0o10 | .boolean => 0o11 | .ascii => 0o20
  | .i8 => 0o30 | .i1 => 0o31 | .i2 => 0o32 | .i4 => 0o34
  | .f8 => 0o40 | .f4 => 0o44
  | .u8 => 0o50 | .u1 => 0o51 | .u2 => 0o52 | .u4 => 0o54

def Fmt.width : Fmt → Nat
  | .list => 1 | .binary => 1 | .boolean => 1 | .ascii => 1
  | .i8 => 8 | .i1 => 1 | .i2 => 2 | .i4 => 4
  | .f8 => 8 | .f4 => 4
  | .u8 => 8 | .u1 => 1 | .u2 => 2 | .u4 => 4

def Fmt.all : List Fmt :=
  [.list, .binary, .boolean, .ascii, .i8, .i1, .i2, .i4, .f8, .f4, .u8, .u1, .u2, .u4]

/-- Go: fmt.Sprintf("i%d", byteSize) looked up in the tables; an unknown key reads 0 from
both maps (width 0, code 0). Factories are only reachable with w ∈ {1,2,4,8} after checkRep,
but the size test runs *before* checkRep, so the lookup of a bad width is modelled too. -/
def intFmt? : Nat → Option Fmt | 1 => some .i1 | 2 => some .i2 | 4 => some .i4 | 8 => some .i8 | _ => none
def uintFmt? : Nat → Option Fmt | 1 => some .u1 | 2 => some .u2 | 4 => some .u4 | 8 => some .u8 | _ => none
def floatFmt? : Nat → Option Fmt | 4 => some .f4 | 8 => some .f8 | _ => none

def dataByteLength (f : Fmt) (size : Nat) : Nat := size * f.width

/-- getHeaderBytes: `none` is the error return. The three length bytes are computed and then
leading zero bytes dropped exactly as the Go code does. -/
def headerBytes (f : Fmt) (size : Nat) : Option Bytes :=
  let n := dataByteLength f size
  if n > maxByteSize then none else
  let b0 := (n / 65536) % 256
  let b1 := (n / 256) % 256
  let b2 := n % 256
  let lb := if b0 = 0 then (if b1 = 0 then [b2] else [b1, b2]) else [b0, b1, b2]
  some (((f.code * 4 + lb.length) % 256) :: lb)

/-! ### Variables(), Size(), ToBytes() -/

def slotVars {α} : List (Slot α) → List Name
  | [] => []
  | .val _ :: r => slotVars r
  | .var n :: r => n :: slotVars r

mutual
/-- Variables(): order of appearance. A list slot holding the zero value `emptyItemNode`
reports the name registered at its position; an `emptyItemNode` passed *as an item* has no
entry in the map and reads "" (modelled: `Tmpl.empty` inside a list reports the empty name). -/
def Tmpl.vars : Tmpl → List Name
  | .list xs => xs.vars
  | .ascii _ => []
  | .asciiVar n _ _ => [n]
  | .binary xs => slotVars xs
  | .boolean xs => slotVars xs
  | .int _ xs => slotVars xs
  | .uint _ xs => slotVars xs
  | .float _ xs => slotVars xs
  | .empty => []
def Slots.vars : Slots → List Name
  | .nil => []
  | .item .empty r => [] :: r.vars
  | .item t r => t.vars ++ r.vars
  | .var n r => n :: r.vars
end

def Tmpl.size : Tmpl → Int
  | .list xs => xs.len
  | .ascii s => s.length
  | .asciiVar _ _ _ => -1
  | .binary xs => xs.length
  | .boolean xs => xs.length
  | .int _ xs => xs.length
  | .uint _ xs => xs.length
  | .float _ xs => xs.length
  | .empty => 0

/-- ASCIINode.FillInStringLength as the harness prints it: `-2,-2` for a value node, the declared
bounds for a variable node (-1 = no limit), `-` for every other kind of item -/
def Tmpl.fillInLen : Tmpl → String
  | .ascii _ => "-2,-2"
  | .asciiVar _ mn mx => s!"{mn},{mx}"
  | _ => "-"

/-- values of a slot list, `none` when a variable is present (Go: `len(variables) != 0`). -/
def slotVals {α} : List (Slot α) → Option (List α)
  | [] => some []
  | .val a :: r => (slotVals r).map (a :: ·)
  | .var _ :: _ => none

/-- two's complement of a Go int64 value in `w` bytes: `byte(uint64(v) >> (8*i))`. -/
def intBytes (w : Nat) (v : Int) : Bytes := beEnc w (v % (2:Int)^64).toNat

def withHeader (f : Fmt) (size : Nat) (payload : Bytes) : Bytes :=
  match headerBytes f size with
  | none => []
  | some h => h ++ payload

mutual
/-- ToBytes(): `[]` when the node has a variable, when the header cannot be built, or (lists)
when a child encodes to `[]`. -/
def Tmpl.enc : Tmpl → Bytes
  | .list xs =>
    match headerBytes .list xs.len, xs.enc with
    | some h, some p => h ++ p
    | _, _ => []
  | .ascii s => withHeader .ascii s.length s
  | .asciiVar _ _ _ => []
  | .binary xs =>
    match slotVals xs with
    | none => []
    | some vs => withHeader .binary vs.length (vs.map (· % 256))
  | .boolean xs =>
    match slotVals xs with
    | none => []
    | some vs => withHeader .boolean vs.length (vs.map (fun b => if b then 1 else 0))
  | .int w xs =>
    match slotVals xs, intFmt? w with
    | some vs, some f => withHeader f vs.length (vs.flatMap (intBytes w))
    | _, _ => []
  | .uint w xs =>
    match slotVals xs, uintFmt? w with
    | some vs, some f => withHeader f vs.length (vs.flatMap (beEnc w))
    | _, _ => []
  | .float w xs =>
    match slotVals xs, floatFmt? w with
    | some vs, some f => withHeader f vs.length (vs.flatMap (beEnc w))
    | _, _ => []
  | .empty => []
/-- children's bytes; `none` = the list has a variable slot or a child encoded to `[]`. -/
def Slots.enc : Slots → Option Bytes
  | .nil => some []
  | .var _ _ => none
  | .item t r =>
    match t.enc, r.enc with
    | [], _ => none
    | _, none => none
    | b, some p => some (b ++ p)
end

end Secs
