/-
Exact big-number model of the parts of Go's float handling the library relies on:
  * IEEE-754 binary32/binary64 bit patterns <-> exact dyadic values,
  * correct rounding (nearest, ties to even) of a rational to a bit pattern
    (Go conversions `float64(int)`, `float32(float64)`, and `strconv.ParseFloat`),
  * `strconv.FormatFloat(v, 'g', -1, bitSize)` (a port of ftoa.go's exact slow path:
    decimal expansion, `roundShortest`, `%e`/`%f` selection).
Nothing here is proved about IEEE arithmetic; this file is library behaviour taken as a
parameter of the model (DESIGN §2.6-5), validated by the harness against `strconv`/`math`
directly. Core Lean only.
-/
import SecsModel.Basic
namespace Secs
namespace FloatLib

/-- mantissa bits, exponent bits -/
def mbits (w : Nat) : Nat := if w = 4 then 23 else 52
def ebits (w : Nat) : Nat := if w = 4 then 8 else 11
def bias (w : Nat) : Nat := 2 ^ (ebits w - 1) - 1

def signOf (w bits : Nat) : Bool := bits / 2 ^ (8 * w - 1) % 2 = 1
def expField (w bits : Nat) : Nat := bits / 2 ^ mbits w % 2 ^ ebits w
def fracField (w bits : Nat) : Nat := bits % 2 ^ mbits w
def absBits (w bits : Nat) : Nat := bits % 2 ^ (8 * w - 1)

/-- not NaN, not ±Inf -/
def isFinite (w bits : Nat) : Bool := expField w bits != 2 ^ ebits w - 1

/-- |value| = mant · 2^exp2 (for finite patterns) -/
def mant (w bits : Nat) : Nat :=
  if expField w bits = 0 then fracField w bits else fracField w bits + 2 ^ mbits w
def exp2 (w bits : Nat) : Int :=
  (if expField w bits = 0 then (1 : Int) else (expField w bits : Int)) - (bias w : Int) - (mbits w : Int)

/-- correctly rounded |p/q| in format `w`; `none` = overflow (result would be ±Inf). -/
def roundRat (w : Nat) (p q : Nat) : Option Nat :=
  if p = 0 then some 0 else
  let mb := mbits w
  let emin : Int := 1 - (bias w : Int) - (mb : Int)
  let e0 : Int := (p.log2 : Int) - (q.log2 : Int) - (mb : Int) - 1
  let e1 : Int := if e0 < emin then emin else e0
  let num (e : Int) : Nat := if e < 0 then p * 2 ^ e.natAbs else p
  let den (e : Int) : Nat := if e < 0 then q else q * 2 ^ e.toNat
  -- p/q ∈ (2^(lp-lq-1), 2^(lp-lq+1)) so the quotient at e0 has mb+1 … mb+3 bits
  let e2 : Int := if num e1 / den e1 ≥ 2 ^ (mb + 1) then e1 + 1 else e1
  let e : Int := if num e2 / den e2 ≥ 2 ^ (mb + 1) then e2 + 1 else e2
  let n := num e
  let d := den e
  let m0 := n / d
  let r := n - m0 * d
  let m1 := if 2 * r > d then m0 + 1 else if 2 * r = d then (if m0 % 2 = 1 then m0 + 1 else m0) else m0
  let (m2, e') := if m1 ≥ 2 ^ (mb + 1) then (m1 / 2, e + 1) else (m1, e)
  if m2 < 2 ^ mb then some m2 else
  let E : Int := e' - emin + 1
  if E ≥ (2 ^ ebits w - 1 : Nat) then none else some (E.toNat * 2 ^ mb + (m2 - 2 ^ mb))

def withSign (w : Nat) (neg : Bool) (abs : Nat) : Nat := if neg then abs + 2 ^ (8 * w - 1) else abs

/-- Go `float64(v)` for an integer v (int64/uint64 range): round to nearest even. -/
def ofInt (w : Nat) (v : Int) : Nat :=
  match roundRat w v.natAbs 1 with
  | some a => withSign w (v < 0) a
  | none => 0

/-- Go `float32(v)` for a finite float64 pattern; `none` = overflow to ±Inf. -/
def f64to32 (b : Nat) : Option Nat :=
  let m := mant 8 b
  let e := exp2 8 b
  let r := if e < 0 then roundRat 4 m (2 ^ e.natAbs) else roundRat 4 (m * 2 ^ e.toNat) 1
  r.map (withSign 4 (signOf 8 b))

/-- Go `float64(f)` for a finite float32 pattern (exact). -/
def f32to64 (b : Nat) : Nat :=
  let m := mant 4 b
  let e := exp2 4 b
  let r := if e < 0 then roundRat 8 m (2 ^ e.natAbs) else roundRat 8 (m * 2 ^ e.toNat) 1
  withSign 8 (signOf 4 b) (r.getD 0)

/-- `|v| ≤ math.MaxFloat32` for a finite float64 pattern -/
def f64AbsLeMaxF32 (b : Nat) : Bool :=
  let m := mant 8 b
  let e := exp2 8 b
  let M := 2 ^ 24 - 1     -- MaxFloat32 = (2^24-1)·2^104
  if e ≥ 104 then m * 2 ^ (e - 104).toNat ≤ M else m ≤ M * 2 ^ (104 - e).toNat

/-! ### decimal expansion and shortest digits (ftoa.go: bigFtoa + roundShortest) -/

/-- digit values, most significant first -/
def natDigits (n : Nat) : List Nat := (decDigits n).map (· - 48)

def digitsVal (ds : List Nat) : Nat := ds.foldl (fun a d => a * 10 + d) 0

def trimZeros (ds : List Nat) : List Nat := (ds.reverse.dropWhile (· == 0)).reverse

structure Dec where
  d : List Nat
  dp : Int
  deriving Repr

def Dec.trim (a : Dec) : Dec :=
  let d := trimZeros a.d
  if d.isEmpty then ⟨[], 0⟩ else ⟨d, a.dp⟩

/-- exact decimal of m · 2^e -/
def Dec.ofDyadic (m : Nat) (e : Int) : Dec :=
  if m = 0 then ⟨[], 0⟩ else
  if e ≥ 0 then
    let ds := natDigits (m * 2 ^ e.toNat)
    Dec.trim ⟨ds, ds.length⟩
  else
    let k := e.natAbs
    let ds := natDigits (m * 5 ^ k)
    Dec.trim ⟨ds, (ds.length : Int) - k⟩

def Dec.nd (a : Dec) : Int := a.d.length

def Dec.roundDown (a : Dec) (nd : Int) : Dec :=
  if nd < 0 || nd ≥ a.nd then a else Dec.trim ⟨a.d.take nd.toNat, a.dp⟩

def Dec.roundUp (a : Dec) (nd : Int) : Dec :=
  if nd < 0 || nd ≥ a.nd then a else
  let pre := a.d.take nd.toNat
  -- drop trailing 9s, bump the last remaining digit; all 9s -> "1" with dp+1
  let kept := (pre.reverse.dropWhile (· == 9)).reverse
  match kept.reverse with
  | [] => ⟨[1], a.dp + 1⟩
  | l :: r => ⟨r.reverse ++ [l + 1], a.dp⟩

def Dec.shouldRoundUp (a : Dec) (nd : Int) : Bool :=
  if nd < 0 || nd ≥ a.nd then false else
  let i := nd.toNat
  if a.d.getD i 0 = 5 && nd + 1 = a.nd then
    i > 0 && (a.d.getD (i - 1) 0) % 2 != 0
  else a.d.getD i 0 ≥ 5

def Dec.round (a : Dec) (nd : Int) : Dec :=
  if nd < 0 || nd ≥ a.nd then a else
  if a.shouldRoundUp nd then a.roundUp nd else a.roundDown nd

def digitAt (a : Dec) (i : Int) : Nat := if i < 0 then 0 else a.d.getD i.toNat 0

/-- the digit walk of roundShortest; `fuel` ≥ number of digits of `upper` + 1 -/
def shortestLoop (d lower upper : Dec) (inclusive : Bool) : Nat → Int → Nat → Dec
  | 0, _, _ => d
  | fuel + 1, ui, upperdelta =>
    let mi := ui - upper.dp + d.dp
    if mi ≥ d.nd then d else
    let li := ui - upper.dp + lower.dp
    let l := if li ≥ 0 && li < lower.nd then digitAt lower li else 0
    let m := if mi ≥ 0 then digitAt d mi else 0
    let u := if ui < upper.nd then digitAt upper ui else 0
    let okdown := l != m || (inclusive && li + 1 == lower.nd)
    let ud := if upperdelta == 0 && m + 1 < u then 2
              else if upperdelta == 0 && m != u then 1
              else if upperdelta == 1 && (m != 9 || u != 0) then 2
              else upperdelta
    let okup := ud > 0 && (inclusive || ud > 1 || ui + 1 < upper.nd)
    if okdown && okup then d.round (mi + 1)
    else if okdown then d.roundDown (mi + 1)
    else if okup then d.roundUp (mi + 1)
    else shortestLoop d lower upper inclusive fuel (ui + 1) ud

/-- shortest digits identifying the finite non-negative pattern -/
def shortest (w bits : Nat) : Dec :=
  let mb := mbits w
  let m := mant w bits
  if m = 0 then ⟨[], 0⟩ else
  -- Go: exp (after += bias) with value = m·2^(exp - mantbits)
  let exp : Int := exp2 w bits + mb
  let d := Dec.ofDyadic m (exp - mb)
  let minexp : Int := 1 - (bias w : Int)
  if exp > minexp && 332 * (d.dp - d.nd) ≥ 100 * (exp - mb) then d else
  let upper := Dec.ofDyadic (m * 2 + 1) (exp - mb - 1)
  let (mantlo, explo) : Nat × Int :=
    if m > 2 ^ mb || exp == minexp then (m - 1, exp) else (m * 2 - 1, exp - 1)
  let lower := Dec.ofDyadic (mantlo * 2 + 1) (explo - mb - 1)
  let inclusive := m % 2 == 0
  shortestLoop d lower upper inclusive (upper.d.length + d.d.length + 2) 0 0

def digitChars (ds : List Nat) : Bytes := ds.map (· + 48)

def fmtE (neg : Bool) (d : Dec) (prec : Int) : Bytes :=
  let first := match d.d with | [] => 48 | c :: _ => c + 48
  let more : Bytes :=
    if prec > 0 then
      let got := (d.d.drop 1).take prec.toNat
      46 :: (digitChars got ++ List.replicate (prec.toNat - got.length) 48)
    else []
  let exp : Int := if d.d.isEmpty then 0 else d.dp - 1
  let sgn := if exp < 0 then 45 else 43
  let ea := exp.natAbs
  let ed : Bytes := if ea < 10 then [48, 48 + ea] else decDigits ea
  (if neg then [45] else []) ++ [first] ++ more ++ [101, sgn] ++ ed

def fmtF (neg : Bool) (d : Dec) (prec : Int) : Bytes :=
  let ip : Bytes :=
    if d.dp > 0 then
      let m := min d.d.length d.dp.toNat
      digitChars (d.d.take m) ++ List.replicate (d.dp.toNat - m) 48
    else [48]
  let fp : Bytes :=
    if prec > 0 then
      46 :: (List.range prec.toNat).map (fun (i : Nat) =>
        let j : Int := d.dp + (i : Int)
        if 0 ≤ j && j < d.nd then digitAt d j + 48 else 48)
    else []
  (if neg then [45] else []) ++ ip ++ fp

/-- strconv.FormatFloat(v, 'g', -1, 8*w) for a finite pattern -/
def fmtG (w bits : Nat) : Bytes :=
  let neg := signOf w bits
  let d := shortest w (absBits w bits)
  let prec : Int := d.nd
  let exp := d.dp - 1
  if exp < -4 || exp ≥ 6 then fmtE neg d (prec - 1)
  else
    let prec' : Int := if prec > d.dp then d.nd else prec
    fmtF neg d (max (prec' - d.dp) 0)

/-! ### strconv.ParseFloat on the number tokens the SML lexer can produce -/

inductive PF where
  | ok (bits : Nat)
  | range            -- ErrRange (±Inf)
  | syntax
  deriving Repr, DecidableEq

/-- decimal float syntax of readFloat (no underscores, no hex, no inf/nan):
`[+-]? digits* (. digits*)? ([eE][+-]?digits+)?` with at least one mantissa digit. -/
def parseFloat (w : Nat) (s : Bytes) : PF :=
  let (neg, s) := match s with
    | 43 :: r => (false, r)
    | 45 :: r => (true, r)
    | _ => (false, s)
  let (ip, s) := spanB isDigitB s
  let (fp, s) := match s with
    | 46 :: r => spanB isDigitB r
    | _ => ([], s)
  if ip.isEmpty && fp.isEmpty then .syntax else
  let expPart : Option (Bool × Bytes) := match s with
    | [] => some (false, [])
    | c :: r =>
      if c == 101 || c == 69 then
        let (eneg, r) := match r with
          | 43 :: r' => (false, r')
          | 45 :: r' => (true, r')
          | _ => (false, r)
        let (ed, rest) := spanB isDigitB r
        if ed.isEmpty || !rest.isEmpty then none else some (eneg, ed)
      else none
  match expPart with
  | none => .syntax
  | some (eneg, ed) =>
    let md := (ip ++ fp).map (· - 48)
    let m := digitsVal md
    if m = 0 then .ok (withSign w neg 0) else
    -- cap the exponent like readFloat (`if e < 10000`); magnitudes beyond are decided without 10^e
    let edz := ed.dropWhile (· == 48)
    let eabs := digitsVal ((edz.take 6).map (· - 48))
    let eabs := if edz.length > 6 then 1000000 else eabs
    let e10 : Int := (if eneg then -(eabs : Int) else eabs) - fp.length
    let mag : Int := (natDigits m).length + e10      -- value < 10^mag, ≥ 10^(mag-1)
    if mag > 400 then .range
    else if mag < -400 then .ok (withSign w neg 0)
    else
      let r := if e10 ≥ 0 then roundRat w (m * 10 ^ e10.toNat) 1 else roundRat w m (10 ^ e10.natAbs)
      match r with
      | none => .range
      | some a => .ok (withSign w neg a)

end FloatLib
end Secs
