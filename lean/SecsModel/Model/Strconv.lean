/-
Model of strconv.ParseUint / ParseInt / Atoi (Go 1.23 atoi.go), exact including base-0
prefixes, the leading-0 octal rule, underscores, the point at which a range error preempts a
later syntax error, and the clamped values returned with a range error.
-/
import SecsModel.Basic
namespace Secs
namespace Strconv

inductive NumErr where
  | syntax | range
  deriving Repr, DecidableEq, BEq

structure PU where
  val : Nat
  err : Option NumErr
  deriving Repr, DecidableEq, BEq

structure PI where
  val : Int
  err : Option NumErr
  deriving Repr, DecidableEq, BEq

def lowerB (c : Nat) : Nat := if isUpperB c then c + 32 else c

def digitVal (c : Nat) : Option Nat :=
  if isDigitB c then some (c - 48)
  else if isAlphaB c then some (lowerB c - 97 + 10)
  else none

/-- the digit loop of ParseUint; returns value, error, underscores-seen -/
def puLoop (base maxVal : Nat) (base0 : Bool) : Bytes → Nat → Bool → Nat × Option NumErr × Bool
  | [], n, u => (n, none, u)
  | c :: r, n, u =>
    if c == 95 && base0 then puLoop base maxVal base0 r n true
    else match digitVal c with
      | none => (0, some .syntax, u)
      | some d =>
        if d ≥ base then (0, some .syntax, u)
        else
          let n1 := n * base + d
          if n1 > maxVal then (maxVal, some .range, u) else puLoop base maxVal base0 r n1 u

/-- underscoreOK: `st` is the `i` variable: 0 = '^', 1 = '0' (digit), 2 = '_', 3 = '!' -/
def usLoop (hex : Bool) : Bytes → Nat → Bool
  | [], st => st != 2
  | c :: r, st =>
    if isDigitB c || (hex && 97 ≤ lowerB c && lowerB c ≤ 102) then usLoop hex r 1
    else if c == 95 then (if st != 1 then false else usLoop hex r 2)
    else if st == 2 then false
    else usLoop hex r 3

def underscoreOK (s : Bytes) : Bool :=
  let s := match s with
    | 43 :: r => r
    | 45 :: r => r
    | _ => s
  match s with
  | 48 :: c :: r =>
    if lowerB c == 98 || lowerB c == 111 || lowerB c == 120 then usLoop (lowerB c == 120) r 1
    else usLoop false s 0
  | _ => usLoop false s 0

/-- base 0: the base implied by the prefix (`0b`, `0o`, `0x`, a leading `0`), and the digits -/
def basePrefix (s : Bytes) : Nat × Bytes :=
  match s with
  | 48 :: c :: r =>
    if s.length ≥ 3 && lowerB c == 98 then (2, r)
    else if s.length ≥ 3 && lowerB c == 111 then (8, r)
    else if s.length ≥ 3 && lowerB c == 120 then (16, r)
    else (8, c :: r)
  | 48 :: r => (8, r)
  | _ => (10, s)

/-- strconv.ParseUint(s, base, bitSize) for base ∈ {0, 10}, bitSize ∈ {0, 8, 16, 32, 64} -/
def parseUint (s : Bytes) (base bitSize : Nat) : PU :=
  if s.isEmpty then ⟨0, some .syntax⟩ else
  let base0 := base == 0
  let (b, s') : Nat × Bytes := if base0 then basePrefix s else (base, s)
  let bits := if bitSize == 0 then 64 else bitSize
  let maxVal := 2 ^ bits - 1
  let (n, err, us) := puLoop b maxVal base0 s' 0 false
  match err with
  | some e => ⟨n, some e⟩
  | none => if us && !underscoreOK s then ⟨0, some .syntax⟩ else ⟨n, none⟩

/-- optional sign: (negative?, rest) -/
def splitSign (s : Bytes) : Bool × Bytes :=
  match s with
  | 43 :: r => (false, r)
  | 45 :: r => (true, r)
  | _ => (false, s)

/-- strconv.ParseInt(s, base, bitSize) -/
def parseInt (s : Bytes) (base bitSize : Nat) : PI :=
  if s.isEmpty then ⟨0, some .syntax⟩ else
  let neg := (splitSign s).1
  let s' := (splitSign s).2
  let r := parseUint s' base bitSize
  if r.err == some .syntax then ⟨0, some .syntax⟩ else
  let bits := if bitSize == 0 then 64 else bitSize
  let cutoff := 2 ^ (bits - 1)
  if !neg && r.val ≥ cutoff then ⟨(cutoff : Int) - 1, some .range⟩
  else if neg && r.val > cutoff then ⟨-(cutoff : Int), some .range⟩
  else ⟨if neg then -(r.val : Int) else r.val, none⟩

/-- strconv.Atoi(s) = ParseInt(s, 10, 0) as far as value and error kind go -/
def atoi (s : Bytes) : PI := parseInt s 10 0

end Strconv
end Secs
