/-
Model of the factory methods (New…Node) and their checkRep: a factory that panics is `none`.
Arguments are typed Go values.
-/
import SecsModel.Model.Item
import SecsModel.Model.FloatLib
import SecsModel.Model.Strconv
namespace Secs

/-- a Go `interface{}` argument. `sint k v`: int (k = 0), int8 … int64 (k = 8 … 64);
`uint k v`: uint (k = 0), uint8 … uint64. Values are within the Go type's range by typing. -/
inductive GoVal where
  | sint (k : Nat) (v : Int)
  | uint (k : Nat) (v : Nat)
  | f32 (bits : Nat)
  | f64 (bits : Nat)
  | str (s : Bytes)
  | bool (b : Bool)
  | item (t : Tmpl)
  | other

def nodupNames : List Name → Bool
  | [] => true
  | n :: r => !r.contains n && nodupNames r

def hasPrefix (p s : Bytes) : Bool := s.take p.length == p

/-- range of the stored value, by node kind -/
def intInRange (w : Nat) (v : Int) : Bool := -(2:Int)^(8*w-1) ≤ v && v ≤ (2:Int)^(8*w-1) - 1
def uintInRange (w : Nat) (v : Nat) : Bool := v ≤ 2^(8*w) - 1

def validWidthInt (w : Nat) : Bool := w == 1 || w == 2 || w == 4 || w == 8
def validWidthFloat (w : Nat) : Bool := w == 4 || w == 8

/-- Go map lookup of an unknown key reads 0 -/
def optWidth : Option Fmt → Nat
  | some f => f.width
  | none => 0

/-- generic array factory: convert each argument (`none` = panic), then checkRep. -/
def mkSlots {α} (conv : GoVal → Option α) : List GoVal → Option (List (Slot α))
  | [] => some []
  | .str s :: r =>
    match conv (.str s) with
    | some a => (mkSlots conv r).map (Slot.val a :: ·)    -- e.g. "0b101" for binary
    | none => (mkSlots conv r).map (Slot.var s :: ·)
  | g :: r =>
    match conv g with
    | some a => (mkSlots conv r).map (Slot.val a :: ·)
    | none => none

def slotsOk {α} (inRange : α → Bool) (xs : List (Slot α)) : Bool :=
  xs.all (fun s => match s with | .val a => inRange a | .var n => isValidVarName n)
  && nodupNames (slotVars xs)

/-! ### integer nodes -/

/-- int.go type switch (after the D6 repair: an unsigned value above MaxInt64 is refused
for `uint` as it already was for `uint64`) -/
def convInt : GoVal → Option Int
  | .sint _ v => some v
  | .uint _ v => if v > 2^63 - 1 then none else some v
  | _ => none

def mkInt (w : Nat) (args : List GoVal) : Option Tmpl :=
  let width := optWidth (intFmt? w)
  if args.length * width > maxByteSize then none else
  match mkSlots convInt args with
  | none => none
  | some xs => if validWidthInt w && slotsOk (intInRange w) xs then some (.int w xs) else none

/-- uint.go type switch (after the D6 repair: negative signed values are refused) -/
def convUint : GoVal → Option Nat
  | .sint _ v => if v < 0 then none else some v.toNat
  | .uint _ v => some v
  | _ => none

def mkUint (w : Nat) (args : List GoVal) : Option Tmpl :=
  let width := optWidth (uintFmt? w)
  if args.length * width > maxByteSize then none else
  match mkSlots convUint args with
  | none => none
  | some xs => if validWidthInt w && slotsOk (uintInRange w) xs then some (.uint w xs) else none

/-- a slot whose conversion itself refused the value -/
def slotRefused {β} : Slot (Option β) → Bool
  | .val none => true
  | _ => false

/-- the slot without the refusal marker (only used when no slot was refused) -/
def slotUnwrap {β} (dflt : β) : Slot (Option β) → Slot β
  | .val (some b) => .val b
  | .val none => .val dflt
  | .var n => .var n

/-! ### float nodes: the node stores a float64; observable is the pattern in the item's width -/

/-- value as a float64 pattern -/
def convFloat64 : GoVal → Option Nat
  | .sint _ v => some (FloatLib.ofInt 8 v)
  | .uint _ v => some (FloatLib.ofInt 8 v)
  | .f32 b => if FloatLib.isFinite 4 b then some (FloatLib.f32to64 b) else some (2^63 - 1) -- NaN/Inf stay NaN/Inf (refused below)
  | .f64 b => some b
  | _ => none

/-- float.go checkRep on the float64, then the pattern observed through String()/ToBytes() -/
def floatStore (w : Nat) (b64 : Nat) : Option Nat :=
  if !FloatLib.isFinite 8 b64 then none
  else if w == 4 then (if FloatLib.f64AbsLeMaxF32 b64 then FloatLib.f64to32 b64 else none)
  else some b64

def mkFloat (w : Nat) (args : List GoVal) : Option Tmpl :=
  let width := optWidth (floatFmt? w)
  if args.length * width > maxByteSize then none else
  if !validWidthFloat w then none else
  match mkSlots (fun g => (convFloat64 g).bind (fun b => some (floatStore w b))) args with
  | none => none
  | some xs =>
    -- a refused value (none inside) is a panic
    if xs.any slotRefused then none else
    let ys : List (Slot Nat) := xs.map (slotUnwrap 0)
    if slotsOk (fun _ => true) ys then some (.float w ys) else none

/-! ### binary, boolean -/

/-- binary.go: an `int`, or a string starting with "0b" read by ParseInt(v, 0, 0)
(after the D7 repair a ParseInt error is a panic) -/
def convBinary : GoVal → Option (Option Int)
  | .sint 0 v => some (some v)
  | .str s =>
    if hasPrefix [48, 98] s then
      let r := Strconv.parseInt s 0 0
      if r.err.isSome then some none else some (some r.val)
    else none      -- a variable name
  | _ => none

def mkBinary (args : List GoVal) : Option Tmpl :=
  if args.length > maxByteSize then none else
  match mkSlots convBinary args with
  | none => none
  | some xs =>
    if xs.any slotRefused then none else
    let ys : List (Slot Int) := xs.map (slotUnwrap 0)
    if slotsOk (fun (v : Int) => 0 ≤ v && v < 256) ys then
      some (.binary (ys.map (fun s => match s with | .val v => .val v.toNat | .var n => .var n)))
    else none

def convBool : GoVal → Option Bool
  | .bool b => some b
  | _ => none

def mkBoolean (args : List GoVal) : Option Tmpl :=
  if args.length > maxByteSize then none else
  match mkSlots convBool args with
  | none => none
  | some xs => if slotsOk (fun _ => true) xs then some (.boolean xs) else none

/-! ### ASCII -/

def mkAscii (s : Bytes) : Option Tmpl :=
  if s.length > maxByteSize then none
  else if s.all (· < 128) then some (.ascii s) else none

def mkAsciiVar (name : Name) (mn mx : Int) : Option Tmpl :=
  if !isValidVarName name then none
  else if mn < 0 || mx < -1 then none
  else if mx != -1 && mn > mx then none
  else some (.asciiVar name mn mx)

/-! ### list -/

def mkListSlots : List GoVal → Option Slots
  | [] => some .nil
  | .item t :: r => (mkListSlots r).map (Slots.item t ·)
  | .str s :: r => (mkListSlots r).map (Slots.var s ·)
  | _ :: _ => none

/-- list.go checkRep on the node's own variable slots: valid name, or an ellipsis that is not
first and is the only ellipsis of this list -/
def listOwnOk : Slots → (pos : Nat) → (ellipsisSeen : Bool) → Bool
  | .nil, _, _ => true
  | .item _ r, pos, e => listOwnOk r (pos + 1) e
  | .var n r, pos, e =>
    if isValidVarName n then listOwnOk r (pos + 1) e
    else if isEllipsis n then (pos != 0 && !e && listOwnOk r (pos + 1) true)
    else false

def Slots.ownNames : Slots → List Name
  | .nil => []
  | .item _ r => r.ownNames
  | .var n r => n :: r.ownNames

def mkList (args : List GoVal) : Option Tmpl :=
  if args.length > maxByteSize then none else
  match mkListSlots args with
  | none => none
  | some xs =>
    if listOwnOk xs 0 false && nodupNames xs.vars then some (.list xs) else none

end Secs
