/-
Model of pkg/parser/sml/parser.go (after the repairs D8, D9, D11).

The parser consumes the lexer's token stream with comments removed; once the stream is
exhausted it sees `EOF` at position 0:0 for ever (closed channel). A factory panic inside one
data item is recovered by that item's `recover` (an error and a warning at the item's `<`);
`NewDataMessage` is outside any recover: its refusal is the outcome `panic`.
Diagnostics are (line, col, kind); the echo of source text in messages is not modelled.
-/
import SecsModel.Model.Lexer
import SecsModel.Model.Ctor
import SecsModel.Model.Msg
import SecsModel.Model.Strconv
import SecsModel.Model.FloatLib
namespace Secs
namespace Sml
open Lex

structure Diag where
  line : Nat
  col : Nat
  kind : String
  deriving Repr, DecidableEq, BEq

structure PS where
  toks : List Tok
  errs : List Diag := []      -- most recent first
  warns : List Diag := []
  names : List Name := []
  ell : Nat := 0
  skipSize : Bool := false

def eofClosed : Tok := ⟨.eof, [], 0, 0, none⟩

def PS.peek (s : PS) : Tok := match s.toks with | [] => eofClosed | t :: _ => t
def PS.pop (s : PS) : PS := { s with toks := s.toks.drop 1 }
def PS.err (s : PS) (t : Tok) (k : String) : PS := { s with errs := ⟨t.line, t.col, k⟩ :: s.errs }
def PS.warn (s : PS) (t : Tok) (k : String) : PS := { s with warns := ⟨t.line, t.col, k⟩ :: s.warns }
def PS.clearSkip (s : PS) : PS := { s with skipSize := false }
def PS.addName (s : PS) (n : Name) : PS := { s with names := n :: s.names }
def PS.bumpEll (s : PS) : PS := { s with ell := s.ell + 1 }
def PS.resetScope (s : PS) : PS := { s with names := [], ell := 0 }

def lexErrKind : Option LexErr → String
  | some .unexpectedChar => "syntax error: unexpected character in data item"
  | some .badNumber => "syntax error: invalid number syntax"
  | some .badSize => "syntax error: invalid data item size"
  | some .unclosedString => "syntax error: unclosed quoted string"
  | none => "syntax error"

/-- index of the first occurrence of byte b -/
def indexByte (b : Nat) (s : Bytes) : Option Nat := Lex.indexOf (· == b) s

/-- parseStreamFunctionCode on the (upper-cased) token text `S<d+>F<d+>` -/
def streamFunction (s : PS) (t : Tok) : Int × Int × PS :=
  let i := (indexByte 70 t.val).getD 0
  let st := (Strconv.atoi ((t.val.take i).drop 1)).val
  let fn := (Strconv.atoi (t.val.drop (i + 1))).val
  let (st, s) := if 0 ≤ st && st < 128 then (st, s) else (0, s.err t "stream code range overflow, should be in range of [0, 128)")
  let (fn, s) := if 0 ≤ fn && fn < 256 then (fn, s) else (0, s.err t "function code range overflow, should be in range of [0, 256)")
  (st, fn, s)

/-- parseDataItemSize on the token text `[a]`, `[a..b]`, `[a..]`, `[..b]` (blanks removed) -/
def sizeBounds (v : Bytes) : Int × Int :=
  let inner := (v.drop 1).take (v.length - 2)
  match Lex.indexOf (· == 46) inner with
  | none => let a := (Strconv.atoi inner).val; (a, a)
  | some i =>
    let a := (Strconv.atoi (inner.take i)).val
    let r := Strconv.atoi (inner.drop (i + 2))
    (a, if r.err == some .syntax then -1 else r.val)

/-- checkDataItemSizeError -/
def sizeOk (size lo hi : Int) : Bool := if hi == -1 then !(lo > size) else (lo ≤ size && size ≤ hi)

/-- getDataItemValueTokens -/
def valueTokens : Nat → PS → List Tok × PS
  | 0, s => ([], s)
  | fuel + 1, s =>
    let t := s.peek
    match t.kind with
    | .number | .bool | .quoted | .variable =>
      let (ts, s') := valueTokens fuel s.pop
      (t :: ts, s')
    | .rab => ([], s)
    | _ => ([t], s.pop)

/-- result of parsing the values of a non-list item: the factory arguments, or stop -/
structure Vals where
  args : List GoVal
  ok : Bool

/-- the variable case shared by all array items -/
def varArg (s : PS) (t : Tok) (placeholder : GoVal) : GoVal × PS :=
  if s.names.contains t.val then (placeholder, s.err t "duplicated variable name")
  else (.str t.val, { s with names := t.val :: s.names })

def numErrKind (e : Option Strconv.NumErr) (rangeMsg syntaxMsg : String) : Option String :=
  match e with
  | none => none
  | some .range => some rangeMsg
  | some .syntax => some syntaxMsg

def showNat (n : Nat) : String := toString n

/-- one value token of an array item → (argument, state); `none` = stop parsing the message -/
def arrayArg (ty : Bytes) (w : Nat) (s : PS) (t : Tok) : Option (GoVal × PS) :=
  let isB := ty == [66]
  let isBool := ty == [66, 79, 79, 76, 69, 65, 78]
  let isF := ty.head? == some 70
  let isI := ty.head? == some 73
  match t.kind with
  | .variable =>
    let ph : GoVal := if isBool then .bool false else .sint 0 0
    some (varArg s t ph)
  | .error => none
  | .number =>
    if isB then
      let r := Strconv.parseInt t.val 0 0
      if r.err == some .syntax then some (.sint 0 0, s.err t "expected integer, found")
      else if !(0 ≤ r.val && r.val < 256) then some (.sint 0 0, s.err t "binary value overflow, should be in range of [0, 256)")
      else some (.sint 0 r.val, s)
    else if isBool then none
    else if isF then
      match FloatLib.parseFloat w t.val with
      | .ok b => some ((if w == 4 then .f32 b else .f64 b), s)
      | .range => some (.f64 0, s.err t s!"F{showNat w} range overflow")
      | .syntax => some (.f64 0, s.err t "expected float, found")
    else if isI then
      let r := Strconv.parseInt t.val 0 (8 * w)
      match numErrKind r.err s!"I{showNat w} range overflow" "expected integer, found" with
      | some k => some (.sint 64 r.val, s.err t k)
      | none => some (.sint 64 r.val, s)
    else
      let r := Strconv.parseUint t.val 0 (8 * w)
      match numErrKind r.err s!"U{showNat w} range overflow" "expected unsigned integer, found" with
      | some k => some (.uint 64 r.val, s.err t k)
      | none => some (.uint 64 r.val, s)
  | .bool => if isBool then some (.bool (t.val == [84]), s) else none
  | _ => none

def expectKind (ty : Bytes) : String :=
  if ty == [66] then "expected number or variable, found"
  else if ty == [66, 79, 79, 76, 69, 65, 78] then "expected boolean value or variable, found"
  else if ty.head? == some 70 then "expected float or variable, found"
  else if ty.head? == some 73 then "expected integer or variable, found"
  else "expected unsigned integer or variable, found"

def arrayArgs (ty : Bytes) (w : Nat) : List Tok → PS → Option (List GoVal) × PS
  | [], s => (some [], s)
  | t :: r, s =>
    if t.kind == .error then (none, s.err t (lexErrKind t.err)) else
    match arrayArg ty w s t with
    | none => (none, s.err t (expectKind ty))
    | some (g, s1) =>
      match arrayArgs ty w r s1 with
      | (some gs, s2) => (some (g :: gs), s2)
      | (none, s2) => (none, s2)

/-- outcome of a sub-parser: `stop` = return ok == false; `panic` = a factory panicked
(recovered by the enclosing parseDataItem) -/
inductive R (α : Type) where
  | ok (a : α)
  | stop
  | panic

def ofFactory (o : Option Tmpl) : R Tmpl := match o with | some t => .ok t | none => .panic

/-- parseASCII -/
def asciiLoop (mn mx : Int) (n : Nat) : List Tok → Bytes → PS → R Tmpl × PS
  | [], lit, s => (ofFactory (mkAscii lit), s)
  | t :: r, lit, s =>
    match t.kind with
    | .quoted =>
      let v := (t.val.drop 1).take (t.val.length - 2)
      if v.all (· < 128) then asciiLoop mn mx n r (lit ++ v) s
      else asciiLoop mn mx n r lit (s.err t "expected ASCII characters, found")
    | .number =>
      let p := Strconv.parseUint t.val 0 0
      let s1 := if p.err == some .syntax then s.err t "expected ASCII number code, found" else s
      if p.val > 127 then asciiLoop mn mx n r (lit ++ [0]) (s1.err t "overflows ASCII range, found")
      else asciiLoop mn mx n r (lit ++ [p.val]) s1
    | .variable =>
      if n != 1 then (.stop, s.err t "variable cannot co-exist with other literals in ASCII data item")
      else if s.names.contains t.val then
        (.ok (.ascii []), { (s.err t "duplicated variable name") with skipSize := true })
      else (ofFactory (mkAsciiVar t.val mn mx), { s with names := t.val :: s.names })
    | .error => (.stop, s.err t (lexErrKind t.err))
    | _ => (.stop, s.err t "expected quoted string, ASCII number code or variable, found")

def widthOfType (ty : Bytes) : Nat := match ty with | [_, d] => d - 48 | _ => 0

/-- the token standing in for "no size declaration" (never the position of a diagnostic that
is reported: without a declaration every size is accepted) -/
def dummyTok : Tok := ⟨.eof, [], 0, 0, none⟩

/-- parseDataItemSize: (token a size error is reported at, lower, upper bound, state) -/
def sizeDecl (s : PS) : Tok × Int × Int × PS :=
  let pk := s.peek
  if pk.kind == .itemSize then (pk, (sizeBounds pk.val).1, (sizeBounds pk.val).2, s.pop)
  else (dummyTok, 0, -1, s)

/-- the values of an ASCII item -/
def asciiItem (lo hi : Int) (s : PS) : R Tmpl × PS :=
  let vt := valueTokens (s.toks.length + 1) s
  asciiLoop lo hi vt.1.length vt.1 [] vt.2

/-- the values of a B, BOOLEAN, I*, U*, F* item and the factory call -/
def arrayItem (ty : Bytes) (s : PS) : R Tmpl × PS :=
  let vt := valueTokens (s.toks.length + 1) s
  let w := widthOfType ty
  match arrayArgs ty w vt.1 vt.2 with
  | (none, s2) => (.stop, s2)
  | (some gs, s2) =>
    let o := if ty == [66] then mkBinary gs
      else if ty == [66, 79, 79, 76, 69, 65, 78] then mkBoolean gs
      else if ty.head? == some 70 then mkFloat w gs
      else if ty.head? == some 73 then mkInt w gs
      else mkUint w gs
    (ofFactory o, s2)

/-- the closing `>` after the values -/
def closeTail (item : Tmpl) (s : PS) : R Tmpl × PS :=
  let s := s.clearSkip
  let rb := s.peek
  if rb.kind != .rab then (.stop, s.err rb "expected '>', found") else (.ok item, s.pop)

/-- the size check against the declaration and the closing `>` -/
def closeItem (sizeTok : Tok) (lo hi : Int) (res : R Tmpl) (s : PS) : R Tmpl × PS :=
  match res with
  | .stop => (.stop, s)
  | .panic => (.panic, s)
  | .ok item =>
    if item.size ≥ 0 && !s.skipSize && !sizeOk item.size lo hi
    then closeTail item (s.err sizeTok s!"data item size overflow, got size of {item.size}")
    else closeTail item s

/-- the deferred recover of parseDataItem -/
def recoverItem (lab : Tok) (body : R Tmpl × PS) : R Tmpl × PS :=
  match body with
  | (.panic, s) => (.stop, (s.err lab "panic").warn lab "Recovered from panic")
  | r => r

/-- parseDataItem after the `<`: type, size declaration, values, size check, `>`; `ll` parses
the elements of a list (parseList) -/
def itemBody (ll : PS → R Tmpl × PS) (s : PS) : R Tmpl × PS :=
  let tt := s.peek
  if tt.kind != .itemType then (.stop, s.err tt "invalid data item type") else
  let ty := tt.val
  let s := s.pop
  let pk := s.peek
  if pk.kind != .itemSize && pk.kind == .error then (.stop, s.err pk (lexErrKind pk.err)) else
  let d := sizeDecl s
  let r : R Tmpl × PS :=
    if ty == [76] then ll d.2.2.2
    else if ty == [65] then asciiItem d.2.1 d.2.2.1 d.2.2.2
    else arrayItem ty d.2.2.2
  closeItem d.1 d.2.1 d.2.2.1 r.1 r.2

/-- parseList's loop and parseDataItem, mutually recursive through the nesting (fuel) -/
def parseItemF : Nat → PS → R Tmpl × PS
  | 0, s => (.stop, s)
  | fuel + 1, s =>
    let lab := s.peek
    if lab.kind != .lab then (.stop, s.err lab "expected '<', found") else
    -- everything after the `<` runs under the item's recover
    recoverItem lab (itemBody (listLoop fuel 0 []) s.pop)
where
  /-- parseList: `count` items so far, `acc` the arguments in reverse -/
  listLoop : Nat → Nat → List GoVal → PS → R Tmpl × PS
  | 0, _, _, s => (.stop, s)
  | fuel + 1, count, acc, s =>
    let t := s.peek
    match t.kind with
    | .lab =>
      match parseItemF fuel s with
      | (.ok child, s1) => listLoop fuel (count + 1) (.item child :: acc) s1
      | (_, s1) => (.stop, s1)
    | .variable =>
      let s1 := s.pop
      if s1.names.contains t.val then listLoop fuel (count + 1) (.item .empty :: acc) (s1.err t "duplicated variable name")
      else listLoop fuel (count + 1) (.str t.val :: acc) (s1.addName t.val)
    | .ellipsis =>
      let s1 := s.pop
      if count == 0 then (.stop, s1.err t "ellipsis cannot be the first item in list") else
      let v : Bytes := [46, 46, 46, 91] ++ decDigits s1.ell ++ [93]
      let s2 := s1.bumpEll
      let s3 := if t.val != [46, 46, 46] && t.val != v then s2.warn t "wrong ellipsis count" else s2
      listLoop fuel (count + 1) (.str v :: acc) s3
    | .rab => (ofFactory (mkList acc.reverse), s)
    | .error => (.stop, s.err t (lexErrKind t.err))
    | _ => (.stop, s.err t "expected child data item, variable, ellipsis, or '>', found")

inductive Outcome where
  | done (msgs : List Msg) (errs warns : List Diag)
  | panic

/-- the optional wait bit: 0 none, 1 `W`, 2 `[W]` -/
def waitBitOf (fn : Int) (s : PS) : Int × PS :=
  let w := s.peek
  if w.kind == .waitBit then
    if w.val == [87] then
      if fn % 2 == 0 then (0, s.pop.err w "wait bit cannot be true on reply message (function code is even)")
      else (1, s.pop)
    else (2, s.pop)
  else (0, s)

/-- the optional direction (default `H<->E` with a warning) -/
def directionOf (s : PS) : Bytes × PS :=
  let d := s.peek
  if d.kind == .direction then (d.val, s.pop) else (dirBoth, s.warn d "missing message direction")

/-- the optional message name -/
def nameOf (s : PS) : Bytes × PS :=
  let n := s.peek
  if n.kind == .msgName then (n.val, s.pop) else ([], s)

/-- the message text: nothing, or one item -/
def msgItem (s : PS) : R Tmpl × PS :=
  let tx := s.peek
  if tx.kind == .msgEnd then (.ok .empty, s)
  else if tx.kind == .lab then parseItemF (s.toks.length + 1) s
  else (.stop, s.err tx "expected '<' or '.', found")

/-- the terminator and NewDataMessage -/
def finishMsg (name : Bytes) (st fn wb : Int) (dir : Bytes) (item : R Tmpl) (s : PS) : (Option (Option Msg)) × PS :=
  match item with
  | .ok it =>
    let e := s.peek
    if e.kind != .msgEnd then (none, s.err e "expected message end character '.', found") else
    match mkMsg name st fn wb dir it with
    | some m => (some (some m), s.pop)
    | none => (some none, s.pop)
  | _ => (none, s)

/-- parseMessage: `none` = ok false (stop), `some none` = escaped panic -/
def parseMessage (s : PS) : (Option (Option Msg)) × PS :=
  let s := s.resetScope
  let t := s.peek
  if t.kind != .streamFunction then (none, s.err t "expected stream function, found") else
  let sf := streamFunction s.pop t
  let wb := waitBitOf sf.2.1 sf.2.2
  let dir := directionOf wb.2
  let nm := nameOf dir.2
  let it := msgItem nm.2
  finishMsg nm.1 sf.1 sf.2.1 wb.1 dir.1 it.1 it.2

def parseLoop : Nat → PS → List Msg → Option (List Msg × PS)
  | 0, s, acc => some (acc.reverse, s)
  | fuel + 1, s, acc =>
    if s.peek.kind == .eof then some (acc.reverse, s) else
    match parseMessage s with
    | (none, s1) => some (acc.reverse, s1)
    | (some none, _) => none
    | (some (some m), s1) => parseLoop fuel s1 (m :: acc)

/-- the parser proper, on the token stream without comments -/
def parseToks (toks : List Tok) : Outcome :=
  match parseLoop (toks.length + 1) { toks := toks } [] with
  | none => .panic
  | some (msgs, s) =>
    if s.errs.isEmpty then .done msgs [] s.warns.reverse
    else .done [] s.errs.reverse s.warns.reverse

/-- sml.Parse -/
def parse (ual : List Nat) (input : Bytes) : Outcome :=
  parseToks ((lexAll ual input).filter (fun t => t.kind != .comment))

end Sml
end Secs
