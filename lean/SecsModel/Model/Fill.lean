/-
Model of FillVariables (all node kinds) and of ListNode's ellipsis expansion
(list.go: splitValues, ellipsisAnalysis, fillEllipsis, fillState).

Nesting is followed with a fuel argument (any fuel ≥ the depth of the tree suffices); the
"restart the loop at i = 0" of fillEllipsis becomes "emit the prefix n+1 times".
-/
import SecsModel.Model.Ctor
import SecsModel.Model.WF
import SecsModel.Model.Msg
namespace Secs

abbrev Env := List (Name × GoVal)

def Env.get? (env : Env) (n : Name) : Option GoVal :=
  match env with
  | [] => none
  | (k, v) :: r => if k == n then some v else Env.get? r n

/-! ### array nodes: the factory is re-run on (old values, filled-in values, remaining names) -/

def fillArgs {α} (canon : α → GoVal) (env : Env) : List (Slot α) → List GoVal
  | [] => []
  | .val a :: r => canon a :: fillArgs canon env r
  | .var n :: r => (match env.get? n with | some v => v | none => .str n) :: fillArgs canon env r

/-- `createNew`: is some variable of the node a key of the map? -/
def anyBound {α} (env : Env) (xs : List (Slot α)) : Bool :=
  (slotVars xs).any (fun n => (env.get? n).isSome)

-- depth of a tree (fuel that suffices for the functions below)
mutual
def Tmpl.depth : Tmpl → Nat
  | .list xs => xs.depth + 1
  | _ => 1
def Slots.depth : Slots → Nat
  | .nil => 0
  | .item t r => max t.depth r.depth
  | .var _ r => r.depth
end

/-- FillVariables of a non-list node -/
def fillLeaf (t : Tmpl) (env : Env) : Option Tmpl :=
  match t with
  | .ascii s => some (.ascii s)
  | .asciiVar n mn mx =>
    match env.get? n with
    | none => some t
    | some (.str s) =>
      if (s.length : Int) < mn then none
      else if mx != -1 && mx < s.length then none
      else mkAscii s
    | some _ => none
  | .binary xs => if anyBound env xs then mkBinary (fillArgs (fun (v : Nat) => .sint 0 v) env xs) else some t
  | .boolean xs => if anyBound env xs then mkBoolean (fillArgs .bool env xs) else some t
  | .int w xs => if anyBound env xs then mkInt w (fillArgs (.sint 64) env xs) else some t
  | .uint w xs => if anyBound env xs then mkUint w (fillArgs (.uint 64) env xs) else some t
  | .float w xs =>
    if anyBound env xs then mkFloat w (fillArgs (fun b => if w == 4 then .f32 b else .f64 b) env xs) else some t
  | .empty => some .empty
  | .list _ => none      -- not a leaf

/-! ### ellipsis analysis -/

def isEllKey (kv : Name × GoVal) : Bool := isEllipsis kv.1

/-- own ellipsis slot of a list that has a value in the map: position and the value -/
def findEll (ev : Env) : Slots → Nat → Option (Nat × GoVal)
  | .nil, _ => none
  | .item _ r, i => findEll ev r (i + 1)
  | .var n r, i =>
    if isEllipsis n then
      match ev.get? n with
      | some v => some (i, v)
      | none => findEll ev r (i + 1)
    else findEll ev r (i + 1)

def hasUnfilledEll (ev : Env) : Slots → Bool
  | .nil => false
  | .item _ r => hasUnfilledEll ev r
  | .var n r => (isEllipsis n && (ev.get? n).isNone) || hasUnfilledEll ev r

mutual
/-- ellipsisAnalysis: (to fill, remaining); `none` = the value of a matching ellipsis is not a
Go `int` (type assertion panic) -/
def ellAnalysisT (ev : Env) : Tmpl → Option (Int × Int)
  | .list xs =>
    match findEll ev xs 0 with
    | some (_, .sint 0 n) =>
      (ellAnalysisS ev xs).map (fun (ef, er) => (1 + (n + 1) * ef, (if hasUnfilledEll ev xs then 1 else 0) + (n + 1) * er))
    | some (_, _) => none
    | none => (ellAnalysisS ev xs).map (fun (ef, er) => (ef, (if hasUnfilledEll ev xs then 1 else 0) + er))
  | _ => some (0, 0)
/-- sums over the child lists -/
def ellAnalysisS (ev : Env) : Slots → Option (Int × Int)
  | .nil => some (0, 0)
  | .var _ r => ellAnalysisS ev r
  | .item t r =>
    match ellAnalysisT ev t, ellAnalysisS ev r with
    | some (a, b), some (c, d) => some (a + c, b + d)
    | _, _ => none
end

/-! ### fillState and fillEllipsis -/

structure FillSt where
  stack : List Nat      -- currentIndices[:currentDimension]
  count : Nat           -- ellipsisCount

def idxSuffix (stack : List Nat) : Bytes := stack.flatMap (fun i => [91] ++ decDigits i ++ [93])

/-- getNewVariableName -/
def newName (multiple : Bool) (st : FillSt) (name : Name) : Name × FillSt :=
  if isEllipsis name then
    if multiple then ([46, 46, 46, 91] ++ decDigits st.count ++ [93], { st with count := st.count + 1 })
    else ([46, 46, 46], st)
  else (name ++ idxSuffix st.stack, st)

def renameAll (multiple : Bool) : List Name → FillSt → Env × FillSt
  | [], st => ([], st)
  | n :: r, st =>
    let (n', st1) := newName multiple st n
    let (e, st2) := renameAll multiple r st1
    ((n, .str n') :: e, st2)

def Slots.take : Nat → Slots → Slots
  | 0, _ => .nil
  | _, .nil => .nil
  | k + 1, .item t r => .item t (Slots.take k r)
  | k + 1, .var n r => .var n (Slots.take k r)

def Slots.drop : Nat → Slots → Slots
  | 0, xs => xs
  | _, .nil => .nil
  | k + 1, .item _ r => Slots.drop k r
  | k + 1, .var _ r => Slots.drop k r

/-- "handle each item in the list node": one pass over the slots, no own-ellipsis logic -/
def emitSlots (child : Tmpl → FillSt → Option (Tmpl × FillSt)) (multiple : Bool) :
    Slots → FillSt → Option (List GoVal × FillSt)
  | .nil, st => some ([], st)
  | .var n r, st =>
    let (n', st1) := newName multiple st n
    (emitSlots child multiple r st1).map (fun (a, s) => (.str n' :: a, s))
  | .item t r, st =>
    let here : Option (GoVal × FillSt) :=
      match t with
      | .list _ => (child t st).map (fun (t', s) => (.item t', s))
      | .empty => let (n', st1) := newName multiple st []; some (.str n', st1)
      | .asciiVar n mn mx =>
        let (n', st1) := newName multiple st n
        (mkAsciiVar n' mn mx).map (fun t' => (.item t', st1))
      | _ =>
        if t.vars.isEmpty then some (.item t, st)
        else
          let (e, st1) := renameAll multiple t.vars st
          (fillLeaf t e).map (fun t' => (.item t', st1))
    match here with
    | none => none
    | some (g, st1) => (emitSlots child multiple r st1).map (fun (a, s) => (g :: a, s))

/-- prefix emitted for index j = from … n -/
def emitRepeat (child : Tmpl → FillSt → Option (Tmpl × FillSt)) (multiple : Bool) (pre : Slots) (outer : List Nat) :
    (reps : Nat) → (j : Nat) → Nat → Option (List GoVal × Nat)
  | 0, _, count => some ([], count)
  | reps + 1, j, count =>
    match emitSlots child multiple pre ⟨outer ++ [j], count⟩ with
    | none => none
    | some (a, st) => (emitRepeat child multiple pre outer reps (j + 1) st.count).map (fun (b, c) => (a ++ b, c))

/-- fillEllipsis of a list node -/
def fillEllT : Nat → Env → Bool → Tmpl → FillSt → Option (Tmpl × FillSt)
  | 0, _, _, _, _ => none
  | fuel + 1, ev, multiple, .list xs, st =>
    let child := fillEllT fuel ev multiple
    let args : Option (List GoVal × FillSt) :=
      match findEll ev xs 0 with
      | none => emitSlots child multiple xs st
      | some (p, .sint 0 n) =>
        if n < 0 then none
        else if n == 0 then
          match emitSlots child multiple (xs.take p) st with
          | none => none
          | some (a, st1) => (emitSlots child multiple (xs.drop (p + 1)) st1).map (fun (b, s) => (a ++ b, s))
        else
          match emitRepeat child multiple (xs.take p) st.stack (n.toNat + 1) 0 st.count with
          | none => none
          | some (a, c) =>
            (emitSlots child multiple (xs.drop (p + 1)) ⟨st.stack, c⟩).map (fun (b, s) => (a ++ b, s))
      | some _ => none
    match args with
    | none => none
    | some (a, st') => (mkList a).map (fun t => (t, st'))
  | _ + 1, _, _, t, st => some (t, st)

/-! ### FillVariables -/

/-- phase 2 on a list: children filled recursively, own variables replaced or kept -/
def fillSlots (child : Tmpl → Option Tmpl) (ov : Env) : Slots → Option (List GoVal)
  | .nil => some []
  | .var n r => (fillSlots child ov r).map ((match ov.get? n with | some v => v | none => .str n) :: ·)
  | .item t r =>
    match child t, fillSlots child ov r with
    | some t', some a => some (.item t' :: a)
    | _, _ => none

def fill : Nat → Tmpl → Env → Option Tmpl
  | 0, _, _ => none
  | fuel + 1, .list xs, env =>
    let ev := env.filter isEllKey
    let ov := env.filter (fun kv => !isEllKey kv)
    match ellAnalysisT ev (.list xs) with
    | none => none
    | some (toFill, remaining) =>
      let filled : Option Tmpl :=
        if toFill > 0 then (fillEllT (fuel + 1) ev (remaining > 1) (.list xs) ⟨[], 0⟩).map (·.1)
        else some (.list xs)
      match filled with
      | some (.list ys) =>
        match fillSlots (fun t => fill fuel t ov) ov ys with
        | none => none
        | some a => mkList a
      | _ => none
  | _ + 1, t, env => fillLeaf t env

/-- ItemNode.FillVariables -/
def Tmpl.fill (t : Tmpl) (env : Env) : Option Tmpl := Secs.fill (t.depth + 1) t env

end Secs

namespace Secs
/-- DataMessage.FillVariables -/
def Msg.fill (m : Msg) (env : Env) : Option Msg :=
  (m.item.fill env).bind (fun it => checked { m with item := it })
end Secs
