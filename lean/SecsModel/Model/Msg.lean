/-
Model of pkg/ast/ast.go (DataMessage) and pkg/ast/hsms.go (ControlMessage).
-/
import SecsModel.Model.Item
import SecsModel.Model.Print
import SecsModel.Model.Utf8
namespace Secs

structure Msg where
  name : Bytes
  stream : Int
  function : Int
  waitBit : Int          -- 0 false, 1 true, 2 optional
  direction : Bytes
  item : Tmpl
  sessionID : Int        -- -1 = not set
  sysBytes : Bytes

def dirHE : Bytes := [72, 45, 62, 69]        -- "H->E"
def dirEH : Bytes := [72, 60, 45, 69]        -- "H<-E"
def dirBoth : Bytes := [72, 60, 45, 62, 69]  -- "H<->E"

/-- DataMessage.Type(): "data message" -/
def Msg.typeName : Bytes := [100, 97, 116, 97, 32, 109, 101, 115, 115, 97, 103, 101]

/-- DataMessage.checkRep -/
def Msg.valid (m : Msg) : Bool :=
  !(Utf8.runes m.name).any Utf8.isSpace
  && (0 ≤ m.stream && m.stream < 128)
  && (0 ≤ m.function && m.function < 256)
  && !(m.waitBit == 1 && m.function % 2 == 0)
  && (0 ≤ m.waitBit && m.waitBit ≤ 2)
  && (-1 ≤ m.sessionID && m.sessionID < 65536)
  && m.sysBytes.length == 4
  && (m.direction == dirHE || m.direction == dirEH || m.direction == dirBoth)

def checked (m : Msg) : Option Msg := if m.valid then some m else none

/-- copy at most four bytes into a zeroed 4-byte array -/
def pad4 (bs : Bytes) : Bytes := (bs.take 4) ++ List.replicate (4 - (bs.take 4).length) 0

def mkMsg (name : Bytes) (stream function waitBit : Int) (direction : Bytes) (item : Tmpl) : Option Msg :=
  checked ⟨name, stream, function, waitBit, direction, item, -1, [0, 0, 0, 0]⟩

def mkHsmsMsg (name : Bytes) (stream function waitBit : Int) (direction : Bytes) (item : Tmpl)
    (sessionID : Int) (sys : Bytes) : Option Msg :=
  if waitBit != 0 && waitBit != 1 then none
  else if sessionID == -1 then none
  else if !item.vars.isEmpty then none
  else checked ⟨name, stream, function, waitBit, direction, item, sessionID, pad4 sys⟩

def Msg.setWaitBit (m : Msg) (w : Bool) : Option Msg :=
  if m.waitBit != 2 then some m
  else checked { m with waitBit := if w then 1 else 0 }

def Msg.setSession (m : Msg) (sid : Int) (sys : Bytes) : Option Msg :=
  checked { m with sessionID := sid, sysBytes := pad4 sys }

def Msg.waitBitStr (m : Msg) : Bytes :=
  if m.waitBit == 0 then str "false" else if m.waitBit == 1 then str "true" else str "optional"

def Msg.header (m : Msg) : Bytes :=
  [83] ++ intDec m.stream ++ [70] ++ intDec m.function
  ++ (if m.waitBit == 1 then str " W" else if m.waitBit == 2 then str " [W]" else [])
  ++ [32] ++ m.direction
  ++ (if m.name.isEmpty then [] else 32 :: m.name)

def Tmpl.isEmpty : Tmpl → Bool
  | .empty => true
  | _ => false

def Msg.print (m : Msg) : Bytes :=
  if m.item.isEmpty then m.header ++ [10, 46]
  else m.header ++ [10] ++ m.item.print ++ [10, 46]

/-- is the message convertible to HSMS? -/
def Msg.complete (m : Msg) : Bool :=
  m.waitBit != 2 && m.item.vars.isEmpty && m.sessionID != -1

def Msg.enc (m : Msg) : Bytes :=
  if !m.complete then [] else
  let ib := m.item.enc
  beEnc 4 (ib.length + 10) ++ beEnc 2 m.sessionID.toNat
    ++ [((m.stream.toNat + (if m.waitBit == 1 then 128 else 0)) % 256), m.function.toNat % 256, 0, 0]
    ++ m.sysBytes.take 4 ++ ib

/-! ### control messages: a 10-byte header -/

/-- NewHSMSControlMessage: copies the header into a zeroed 10-byte array; the loop guard is
`i > 10`, so an 11th byte is written out of range (panic). -/
def mkCtrl (header : Bytes) : Option Bytes :=
  if header.length > 10 then none else some (header ++ List.replicate (10 - header.length) 0)

def ctrlWithSys (b0 b1 b2 b3 stype : Nat) (sys : Bytes) : Option Bytes :=
  match sys with
  | s0 :: s1 :: s2 :: s3 :: _ => some [b0, b1, b2, b3, 0, stype, s0, s1, s2, s3]
  | _ => none

def ctrlType (h : Bytes) : Bytes :=
  if h.getD 4 0 != 0 then str "undefined" else
  match h.getD 5 0 with
  | 1 => str "select.req" | 2 => str "select.rsp" | 3 => str "deselect.req" | 4 => str "deselect.rsp"
  | 5 => str "linktest.req" | 6 => str "linktest.rsp" | 7 => str "reject.req" | 9 => str "separate.req"
  | _ => str "undefined"

def mkSelectReq (sid : Nat) (sys : Bytes) : Option Bytes := ctrlWithSys (sid / 256 % 256) (sid % 256) 0 0 1 sys
def mkDeselectReq (sid : Nat) (sys : Bytes) : Option Bytes := ctrlWithSys (sid / 256 % 256) (sid % 256) 0 0 3 sys
def mkLinktestReq (sys : Bytes) : Option Bytes := ctrlWithSys 255 255 0 0 5 sys
def mkSeparateReq (sid : Nat) (sys : Bytes) : Option Bytes := ctrlWithSys (sid / 256 % 256) (sid % 256) 0 0 9 sys
def mkRejectReq (sid pType sType : Nat) (sys : Bytes) (reason : Nat) : Option Bytes :=
  ctrlWithSys (sid / 256 % 256) (sid % 256) (if reason == 2 then pType else sType) reason 7 sys

/-- a response built from a request header: echoes session id and system bytes -/
def mkRsp (reqKind : Bytes) (stype : Nat) (link : Bool) (req : Bytes) (status : Nat) : Option Bytes :=
  if ctrlType req != reqKind then none else
  some [if link then 255 else req.getD 0 0, if link then 255 else req.getD 1 0, 0, status, 0, stype,
        req.getD 6 0, req.getD 7 0, req.getD 8 0, req.getD 9 0]

def mkSelectRsp (req : Bytes) (status : Nat) := mkRsp (str "select.req") 2 false req status
def mkDeselectRsp (req : Bytes) (status : Nat) := mkRsp (str "deselect.req") 4 false req status
def mkLinktestRsp (req : Bytes) := mkRsp (str "linktest.req") 6 true req 0

def ctrlEnc (h : Bytes) : Bytes := [0, 0, 0, 10] ++ h

inductive HMsg where
  | data (m : Msg)
  | ctrl (h : Bytes)

end Secs
