/-
Model of the String() methods of pkg/ast (the SML printer).
-/
import SecsModel.Model.Item
import SecsModel.Model.FloatLib
namespace Secs

def joinSp : List Bytes → Bytes
  | [] => []
  | [x] => x
  | x :: r => x ++ 32 :: joinSp r

def printSlots {α} (f : α → Bytes) : List (Slot α) → List Bytes
  | [] => []
  | .val a :: r => f a :: printSlots f r
  | .var n :: r => n :: printSlots f r

/-- `<T[n] v v v>` / `<T[0]>` -/
def printArray {α} (ty : Bytes) (f : α → Bytes) (xs : List (Slot α)) : Bytes :=
  if xs.isEmpty then [60] ++ ty ++ str "[0]>"
  else [60] ++ ty ++ [91] ++ decDigits xs.length ++ [93, 32] ++ joinSp (printSlots f xs) ++ [62]

def hex2 (b : Nat) : Bytes := [hexDigitUpper (b / 16 % 16), hexDigitUpper (b % 16)]

/-- is this character written as ` 0xNN` rather than inside quotes? (after the D8 repair the
double quote is written as a code, because the lexer has no escape syntax) -/
def asciiIsCode (ch : Nat) : Bool := ch < 32 || ch == 127 || ch == 34

/-- ascii.go String(), the loop over the characters: `inQ` = printableState -/
def printAsciiBody : Bool → Bytes → Bytes
  | inQ, [] => if inQ then [34] else []
  | inQ, ch :: r =>
    if asciiIsCode ch then
      (if inQ then [34] else []) ++ str " 0x" ++ hex2 ch ++ printAsciiBody false r
    else
      (if inQ then [] else [32, 34]) ++ ch :: printAsciiBody true r

def printSizeBounds (mn mx : Int) : Bytes :=
  if mn == 0 && mx == -1 then []
  else if mn == mx then [91] ++ intDec mx ++ [93]
  else if mx == -1 then [91] ++ intDec mn ++ [46, 46, 93]
  else [91] ++ intDec mn ++ [46, 46] ++ intDec mx ++ [93]

def printBool (b : Bool) : Bytes := if b then [84] else [70]
def printBin (v : Nat) : Bytes := str "0b" ++ binDigits v

def Tmpl.isList : Tmpl → Bool
  | .list _ => true
  | _ => false

mutual
/-- `String()` of a non-list node, `stringIndented(level)` of a list node -/
def Tmpl.printAt (level : Nat) : Tmpl → Bytes
  | .list xs =>
    let ind := rep level [32, 32]
    if xs.len = 0 then ind ++ str "<L[0]>"
    else
      let sizeStr := if xs.hasVar then [] else [91] ++ decDigits xs.len ++ [93]
      ind ++ str "<L" ++ sizeStr ++ [10] ++ xs.printAt level ++ ind ++ [62]
  | .ascii s => if s.isEmpty then str "<A[0]>" else str "<A" ++ printAsciiBody false s ++ [62]
  | .asciiVar n mn mx => str "<A" ++ printSizeBounds mn mx ++ [32] ++ n ++ [62]
  | .binary xs => printArray (str "B") printBin xs
  | .boolean xs => printArray (str "BOOLEAN") printBool xs
  | .int w xs => printArray (73 :: decDigits w) intDec xs
  | .uint w xs => printArray (85 :: decDigits w) decDigits xs
  | .float w xs => printArray (70 :: decDigits w) (FloatLib.fmtG w) xs
  | .empty => []
def Slots.printAt (level : Nat) : Slots → Bytes
  | .nil => []
  | .item t r =>
    (if t.isList then Tmpl.printAt (level + 1) t
     else rep level [32, 32] ++ [32, 32] ++ Tmpl.printAt 0 t) ++ [10] ++ r.printAt level
  | .var n r =>
    rep level [32, 32] ++ [32, 32] ++ (if isEllipsis n then str "..." else n) ++ [10] ++ r.printAt level
/-- does the list have a variable slot of its own (sizeDetermined = false)? -/
def Slots.hasVar : Slots → Bool
  | .nil => false
  | .item _ r => r.hasVar
  | .var _ _ => true
end

def Tmpl.print (t : Tmpl) : Bytes := t.printAt 0

end Secs
