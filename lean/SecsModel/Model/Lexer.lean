/-
Model of pkg/parser/sml/lexer.go (after the repairs D9, D10, D12).

The Go lexer is a state-function machine feeding a buffered channel; lexing never depends on
the parser, so the token stream is a function of the input alone: `lexAll`. One call of
`lexStep` is "run state functions until one token is emitted". Every step consumes at least
one byte or terminates, so `input.length + 1` steps always reach the end (`lexAll`).

Positions: `line` = 1 + newlines before the token start, `col` = 1 + runes between the line
start and the token start (`utf8.RuneCountInString`), tracked as the bytes since the last
newline.

`ual` = the non-ASCII runes of this input for which `unicode.IsLetter || unicode.IsDigit`
holds (library parameter: used only by isAlphaNumeric after a number).
-/
import SecsModel.Basic
import SecsModel.Model.Utf8
namespace Secs
namespace Lex

inductive Kind where
  | eof | error | comment | msgEnd
  | streamFunction | waitBit | direction | msgName
  | lab | rab | itemType | itemSize | number | bool | variable | quoted | ellipsis
  deriving Repr, DecidableEq, BEq

/-- error tokens carry the kind of lexing error (the echoed source text is not modelled) -/
inductive LexErr where
  | unexpectedChar | badNumber | badSize | unclosedString
  deriving Repr, DecidableEq, BEq

structure Tok where
  kind : Kind
  val : Bytes
  line : Nat
  col : Nat
  err : Option LexErr := none
  deriving Repr, DecidableEq, BEq

inductive Mode where
  | header | text
  deriving Repr, DecidableEq, BEq

/-- lexer position: unread input, current line, bytes since the last newline (reversed) -/
structure Pos where
  rest : Bytes
  line : Nat
  revLine : Bytes
  deriving Repr

def Pos.col (p : Pos) : Nat := 1 + (Utf8.runes p.revLine.reverse).length

/-- consume `n` bytes of the unread input, keeping line and line-start up to date -/
def advanceN (p : Pos) : Nat → Pos
  | 0 => p
  | n + 1 =>
    match p.rest with
    | [] => p
    | b :: r =>
      if b == 10 then advanceN ⟨r, p.line + 1, []⟩ n
      else advanceN ⟨r, p.line, b :: p.revLine⟩ n

/-- consume a token text (always a prefix of `rest`; positions depend on the offset only, as in
lexer.lineColumn, which rescans `input[:start]`) -/
def advance (p : Pos) (bs : Bytes) : Pos := advanceN p bs.length

def isBlank (b : Nat) : Bool := b == 32 || b == 9 || b == 13 || b == 10

def upper (bs : Bytes) : Bytes := bs.map toUpperB

/-- does `s` start with `p`? -/
def startsWith (p s : Bytes) : Bool := s.take p.length == p

def mkTok (k : Kind) (v : Bytes) (p : Pos) : Tok := ⟨k, v, p.line, p.col, none⟩
def mkErr (e : LexErr) (p : Pos) : Tok := ⟨.error, [], p.line, p.col, some e⟩

/-! ### the regular expressions of the lexer, as matchers returning the matched prefix -/

/-- `^[Ss]\d+[Ff]\d+` -/
def matchSF (s : Bytes) : Option Bytes :=
  match s with
  | c :: r =>
    if c == 83 || c == 115 then
      let (d1, r1) := spanB isDigitB r
      if d1.isEmpty then none else
      match r1 with
      | f :: r2 =>
        if f == 70 || f == 102 then
          let (d2, _) := spanB isDigitB r2
          if d2.isEmpty then none else some (c :: d1 ++ f :: d2)
        else none
      | [] => none
    else none
  | [] => none

/-- `^([Ww]|\[[Ww]\])` -/
def matchW (s : Bytes) : Option Bytes :=
  match s with
  | 87 :: _ => some [87]
  | 119 :: _ => some [119]
  | 91 :: 87 :: 93 :: _ => some [91, 87, 93]
  | 91 :: 119 :: 93 :: _ => some [91, 119, 93]
  | _ => none

/-- `^[Hh](->|<->|<-)[Ee]` -/
def matchDir (s : Bytes) : Option Bytes :=
  match s with
  | h :: r =>
    if h == 72 || h == 104 then
      match r with
      | 45 :: 62 :: e :: _ => if e == 69 || e == 101 then some [h, 45, 62, e] else none
      -- if "<->" is not followed by [Ee], the alternative "<-" would need [Ee] where '>' stands
      | 60 :: 45 :: 62 :: e :: _ => if e == 69 || e == 101 then some [h, 60, 45, 62, e] else none
      | 60 :: 45 :: e :: _ => if e == 69 || e == 101 then some [h, 60, 45, e] else none
      | _ => none
    else none
  | [] => none

/-- one `\[\d+\]` group at the start: the group's bytes -/
def matchIdx (s : Bytes) : Option Bytes :=
  match s with
  | 91 :: r =>
    let (ds, r1) := spanB isDigitB r
    if ds.isEmpty then none else
    match r1 with
    | 93 :: _ => some (91 :: ds ++ [93])
    | _ => none
  | _ => none

/-- `(\[\d+\])*` greedy: all leading index groups (fuel = length) -/
def matchIdxs : Nat → Bytes → Bytes
  | 0, _ => []
  | fuel + 1, s =>
    match matchIdx s with
    | none => []
    | some g => g ++ matchIdxs fuel (s.drop g.length)

/-- `^\.\.\.(\[\d+\])?` -/
def matchEllipsis (s : Bytes) : Option Bytes :=
  match s with
  | 46 :: 46 :: 46 :: r => some ([46, 46, 46] ++ (matchIdx r).getD [])
  | _ => none

/-- `^[A-Za-z_]\w*` -/
def matchWord (s : Bytes) : Option Bytes :=
  match s with
  | c :: r => if isIdentStartB c then some (c :: (spanB isWordB r).1) else none
  | [] => none

def typeKeywords : List Bytes :=
  [[76], [65], [66], [66, 79, 79, 76, 69, 65, 78], [70, 52], [70, 56],
   [73, 49], [73, 50], [73, 52], [73, 56], [85, 49], [85, 50], [85, 52], [85, 56]]

def boolKeywords : List Bytes := [[84], [70]]

/-! ### the sub-lexers -/

inductive Step where
  | tok (t : Tok) (m : Mode) (p : Pos)     -- a token was emitted; continue in mode m
  | last (t : Tok)                         -- EOF or error token; the lexer terminates

def isHexB (b : Nat) : Bool := isDigitB b || (65 ≤ b && b ≤ 70) || (97 ≤ b && b ≤ 102)

/-- isAlphaNumeric on the next rune -/
def nextIsAlnum (ual : List Nat) (s : Bytes) : Bool :=
  match s with
  | [] => false
  | b :: _ =>
    if b < 128 then isWordB b
    else ual.contains (Utf8.decodeRune s).1

/-- the condition under which lexText hands over to lexNumber -/
def startsNumber : Bytes → Bool
  | b :: r => b == 43 || b == 45 || isDigitB b || (b == 46 && (match r with | c :: _ => isDigitB c | [] => false))
  | [] => false

/-- lexNumber: the text of the number (sign, digits, fraction, exponent) -/
def scanNumber (s : Bytes) : Bytes :=
  let (sign, s1) := match s with
    | 43 :: r => ([43], r)
    | 45 :: r => ([45], r)
    | _ => ([], s)
  let (pre, digitsP, s2) : Bytes × (Nat → Bool) × Bytes :=
    match s1 with
    | 48 :: r =>
      match r with
      | 120 :: r' => ([48, 120], isHexB, r')
      | 88 :: r' => ([48, 88], isHexB, r')
      | 98 :: r' => ([48, 98], (fun b => b == 48 || b == 49), r')
      | 66 :: r' => ([48, 66], (fun b => b == 48 || b == 49), r')
      | 111 :: r' => ([48, 111], (fun b => 48 ≤ b && b ≤ 55), r')
      | 79 :: r' => ([48, 79], (fun b => 48 ≤ b && b ≤ 55), r')
      | _ => ([48], isDigitB, r)
    | _ => ([], isDigitB, s1)
  let (d1, s3) := spanB digitsP s2
  let (frac, s4) : Bytes × Bytes := match s3 with
    | 46 :: r => let (d2, r') := spanB digitsP r; (46 :: d2, r')
    | _ => ([], s3)
  let exp : Bytes := match s4 with
    | e :: r =>
      if e == 101 || e == 69 then
        let (sg, r1) := match r with
          | 43 :: r' => ([43], r')
          | 45 :: r' => ([45], r')
          | _ => ([], r)
        e :: sg ++ (spanB isDigitB r1).1
      else []
    | [] => []
  sign ++ pre ++ d1 ++ frac ++ exp

/-- lexDataItemSize after the `[`: the raw text up to and including `]`, or `none` (invalid) -/
def scanSizeBody (r0 : Bytes) : Option Bytes :=
  let (w1, r1) := spanB isBlank r0
  let (d1, r2) := spanB isDigitB r1
  let (w2, r3) := if d1.isEmpty then ([], r2) else spanB isBlank r2
  let found1 := !d1.isEmpty
  let (mid, found2, r4) : Bytes × Bool × Bytes :=
    match r3 with
    | 46 :: 46 :: r =>
      let (w3, ra) := spanB isBlank r
      let (d2, rb) := spanB isDigitB ra
      let (w4, rc) := if d2.isEmpty then ([], rb) else spanB isBlank rb
      ([46, 46] ++ w3 ++ d2 ++ w4, !d2.isEmpty, rc)
    | _ => ([], false, r3)
  match r4 with
  | 93 :: _ => if found1 || found2 then some (w1 ++ d1 ++ w2 ++ mid ++ [93]) else none
  | _ => none

/-- lexDataItemSize: the raw text `[ … ]` including inner blanks, or `none` (invalid) -/
def scanSize (s : Bytes) : Option Bytes :=
  match s with
  | 91 :: r0 => (scanSizeBody r0).map (91 :: ·)
  | _ => none

/-- index of the first byte satisfying p -/
def indexOf (p : Nat → Bool) : Bytes → Option Nat
  | [] => none
  | b :: r => if p b then some 0 else (indexOf p r).map (· + 1)

/-- lexQuotedString: the raw text including both quotes, or `none` (unclosed) -/
def scanQuoted (s : Bytes) : Option Bytes :=
  match s with
  | 34 :: r =>
    match indexOf (· == 34) r with
    | none => none
    | some i =>
      match indexOf (fun b => b == 13 || b == 10) r with
      | some j => if j < i then none else some (34 :: r.take (i + 1))
      | none => some (34 :: r.take (i + 1))
  | _ => none

def trimRight (p : Nat → Bool) (bs : Bytes) : Bytes := (bs.reverse.dropWhile p).reverse

/-- lexComment: the comment text (from `//`, trailing blank/tab/CR trimmed); `atEof` when no
newline follows -/
def scanComment (s : Bytes) : Bytes × Bool :=
  let (body, r) := spanB (· != 10) s
  match r with
  | [] => (body, true)
  | _ => (trimRight (fun b => b == 32 || b == 9 || b == 13) body, false)

/-- the message-name loop: runes up to EOF, a white-space rune or `//` (fuel = length) -/
def scanName : Nat → Bytes → Bytes
  | 0, _ => []
  | _, [] => []
  | fuel + 1, s =>
    let (r, w) := Utf8.decodeRune s
    if Utf8.isSpace r then []
    else if startsWith [47, 47] s then []
    else s.take w ++ scanName fuel (s.drop w)

/-! ### one step of the lexer -/

/-- skip what the mode ignores (fuel = length); header mode skips every white-space rune -/
def skipWs (m : Mode) : Nat → Pos → Pos
  | 0, p => p
  | fuel + 1, p =>
    match p.rest with
    | [] => p
    | b :: _ =>
      if isBlank b then skipWs m fuel (advance p [b])
      else match m with
        | .text => p
        | .header =>
          if b < 128 then (if Utf8.isSpace b then skipWs m fuel (advance p [b]) else p)
          else
            let (r, w) := Utf8.decodeRune p.rest
            if Utf8.isSpace r then skipWs m fuel (advance p (p.rest.take w)) else p

def emit (k : Kind) (v : Bytes) (raw : Bytes) (m : Mode) (p : Pos) : Step :=
  .tok (mkTok k v p) m (advance p raw)

def stepHeader (p : Pos) : Step :=
  let s := p.rest
  match s with
  | [] => .last (mkTok .eof [69, 79, 70] p)
  | b :: _ =>
    if startsWith [47, 47] s then
      let (c, _) := scanComment s
      emit .comment c c .header p
    else match matchSF s with
    | some v => emit .streamFunction (upper v) v .header p
    | none =>
    match matchW s with
    | some v => emit .waitBit (upper v) v .header p
    | none =>
    match matchDir s with
    | some v => emit .direction (upper v) v .header p
    | none =>
      if b == 46 then emit .msgEnd [46] [46] .header p
      else if b == 60 then emit .lab [60] [60] .text p
      else
        let w := max (Utf8.decodeRune s).2 1      -- a rune of a non-empty string has width ≥ 1
        let first := s.take w
        let name := first ++ scanName s.length (s.drop w)
        emit .msgName name name .header p

def stepText (ual : List Nat) (p : Pos) : Step :=
  let s := p.rest
  match s with
  | [] => .last (mkTok .eof [69, 79, 70] p)
  | b :: _ =>
    if startsWith [47, 47] s then
      let (c, _) := scanComment s
      emit .comment c c .text p
    else match matchEllipsis s with
    | some v => emit .ellipsis v v .text p
    | none =>
    match matchWord s with
    | some w =>
      if typeKeywords.contains (upper w) then emit .itemType (upper w) w .text p
      else if boolKeywords.contains (upper w) then emit .bool (upper w) w .text p
      else
        let v := w ++ matchIdxs s.length (s.drop w.length)
        emit .variable v v .text p
    | none =>
      if startsNumber s then
        let n := scanNumber s
        if nextIsAlnum ual (s.drop n.length) then .last (mkErr .badNumber p)
        else emit .number n n .text p
      else if b == 60 then emit .lab [60] [60] .text p
      else if b == 62 then emit .rab [62] [62] .text p
      else if b == 46 then emit .msgEnd [46] [46] .header p
      else if b == 91 then
        match scanSize s with
        | some raw => emit .itemSize (raw.filter (fun c => !isBlank c)) raw .text p
        | none => .last (mkErr .badSize p)
      else if b == 34 then
        match scanQuoted s with
        | some raw => emit .quoted raw raw .text p
        | none => .last (mkErr .unclosedString p)
      else .last (mkErr .unexpectedChar p)

def lexStep (ual : List Nat) (m : Mode) (p : Pos) : Step :=
  let p' := skipWs m p.rest.length p
  match m with
  | .header => stepHeader p'
  | .text => stepText ual p'

/-- the whole token stream; fuel bounds the number of tokens (every token consumes a byte) -/
def lexFuel (ual : List Nat) : Nat → Mode → Pos → List Tok
  | 0, _, _ => []
  | fuel + 1, m, p =>
    match lexStep ual m p with
    | .last t => [t]
    | .tok t m' p' => t :: lexFuel ual fuel m' p'

def lexAll (ual : List Nat) (input : Bytes) : List Tok :=
  lexFuel ual (input.length + 1) .header ⟨input, 1, []⟩

end Lex
end Secs
