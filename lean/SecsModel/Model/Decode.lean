/-
Model of pkg/parser/hsms/parser.go. Position-based parsing becomes suffix passing; every Go
run-time panic (slice bounds, factory panic) and every `ok == false` return is `none`
(`Parse` recovers all panics and reports `ok = false`).

This is the decoder *after* the repairs D1 (length bytes), D2 (binary values), D3 (trailing
bytes, control length) and D4 (payload bound test before allocation).
-/
import SecsModel.Model.Item
import SecsModel.Model.Msg
import SecsModel.Model.FloatLib
namespace Secs

/-- split `bs` into chunks of `w` bytes (`bs.length` is a multiple of `w`, w > 0); fuel = length -/
def chunks (w : Nat) : Nat → Bytes → List Bytes
  | 0, _ => []
  | _, [] => []
  | fuel + 1, bs => bs.take w :: chunks w fuel (bs.drop w)

/-- `intN(bits)` : reinterpret a w-byte big-endian value as signed -/
def toSigned (w : Nat) (n : Nat) : Int := if n < 2 ^ (8 * w - 1) then n else (n : Int) - 2 ^ (8 * w)

def decodeFmt? (code : Nat) : Option Fmt := Fmt.all.find? (·.code == code)

/-- payload of a non-list item: `n` payload bytes are known to be present in `p`. -/
def decPayload (f : Fmt) (p : Bytes) : Option Tmpl :=
  match f with
  | .list => none
  | .ascii => if p.all (· < 128) then some (.ascii p) else none
  | .binary => some (.binary (p.map Slot.val))
  | .boolean => some (.boolean (p.map (fun b => Slot.val (b != 0))))
  | .i1 | .i2 | .i4 | .i8 =>
    let w := f.width
    if p.length % w != 0 then none
    else some (.int w ((chunks w p.length p).map (fun c => Slot.val (toSigned w (beDec c)))))
  | .u1 | .u2 | .u4 | .u8 =>
    let w := f.width
    if p.length % w != 0 then none
    else some (.uint w ((chunks w p.length p).map (fun c => Slot.val (beDec c))))
  | .f4 | .f8 =>
    let w := f.width
    if p.length % w != 0 then none
    else
      let vs := (chunks w p.length p).map beDec
      if vs.all (FloatLib.isFinite w) then some (.float w (vs.map Slot.val)) else none

mutual
/-- parseMessageText for one item: returns the item and the unread suffix -/
def decItem : Nat → Bytes → Option (Tmpl × Bytes)
  | 0, _ => none
  | _ + 1, [] => none
  | fuel + 1, fb :: rest =>
    let k := fb % 4
    if k = 0 then none else
    if rest.length < k then none else
    let n := beDec (rest.take k)
    let rest := rest.drop k
    match decodeFmt? (fb / 4) with
    | none => none
    | some .list =>
      match decItems fuel n rest with
      | none => none
      | some (xs, r) => some (.list xs, r)
    | some f =>
      if rest.length < n then none else
      match decPayload f (rest.take n) with
      | none => none
      | some t => some (t, rest.drop n)
/-- `n` consecutive items -/
def decItems : Nat → Nat → Bytes → Option (Slots × Bytes)
  | _, 0, inp => some (.nil, inp)
  | 0, _ + 1, _ => none
  | fuel + 1, n + 1, inp =>
    match decItem fuel inp with
    | none => none
    | some (x, r) =>
      match decItems fuel n r with
      | none => none
      | some (xs, r') => some (.item x xs, r')
end

/-- parseMessageLength and the PType test: at least 14 bytes, the declared length equals the
bytes present, header byte 4 (PType) is 0 -/
def frameOk (inp : Bytes) : Bool :=
  !(decide (inp.length < 14)) && ((inp.drop 4).length == beDec (inp.take 4)) && (inp.getD 8 0 == 0)

/-- the message text: exactly one item with nothing left over -/
def decodeText (text : Bytes) : Option Tmpl :=
  match decItem (text.length + 1) text with
  | some (t, []) => some t
  | _ => none

/-- SType 0: the text is empty, or exactly one item with nothing left over -/
def decodeData (inp : Bytes) : Option HMsg :=
  let h := (inp.drop 4).take 10
  let text := inp.drop 14
  let item? : Option Tmpl :=
    if beDec (inp.take 4) == 10 then some .empty else decodeText text
  match item? with
  | none => none
  | some item =>
    (mkHsmsMsg [] (h.getD 2 0 % 128 : Nat) (h.getD 3 0 : Nat) (h.getD 2 0 / 128 : Nat) dirBoth item
      (beDec (h.take 2) : Nat) (h.drop 6)).map HMsg.data

/-- a control message is exactly a header -/
def decodeCtrl (inp : Bytes) : Option HMsg :=
  if beDec (inp.take 4) != 10 then none else (mkCtrl ((inp.drop 4).take 10)).map HMsg.ctrl

/-- hsms.Parse -/
def decode (inp : Bytes) : Option HMsg :=
  if !frameOk inp then none else
  let st := inp.getD 9 0
  if st == 0 then decodeData inp
  else if (1 ≤ st && st ≤ 7) || st == 9 then decodeCtrl inp
  else none

end Secs
