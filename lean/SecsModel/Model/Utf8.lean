/-
Model of utf8.DecodeRuneInString and unicode.IsSpace (exact; both are small).
-/
import SecsModel.Basic
namespace Secs
namespace Utf8

def runeError : Nat := 0xFFFD

def isCont (b : Nat) : Bool := 0x80 ≤ b && b ≤ 0xBF

/-- (rune, width); width 0 only on empty input (Go returns (RuneError, 0)). -/
def decodeRune : Bytes → Nat × Nat
  | [] => (runeError, 0)
  | b0 :: r =>
    if b0 < 0x80 then (b0, 1)
    else if b0 < 0xC2 then (runeError, 1)
    else if b0 ≤ 0xDF then
      match r with
      | b1 :: _ => if isCont b1 then ((b0 % 32) * 64 + b1 % 64, 2) else (runeError, 1)
      | _ => (runeError, 1)
    else if b0 ≤ 0xEF then
      let lo := if b0 == 0xE0 then 0xA0 else 0x80
      let hi := if b0 == 0xED then 0x9F else 0xBF
      match r with
      | b1 :: b2 :: _ =>
        if lo ≤ b1 && b1 ≤ hi && isCont b2 then ((b0 % 16) * 4096 + (b1 % 64) * 64 + b2 % 64, 3)
        else (runeError, 1)
      | _ => (runeError, 1)
    else if b0 ≤ 0xF4 then
      let lo := if b0 == 0xF0 then 0x90 else 0x80
      let hi := if b0 == 0xF4 then 0x8F else 0xBF
      match r with
      | b1 :: b2 :: b3 :: _ =>
        if lo ≤ b1 && b1 ≤ hi && isCont b2 && isCont b3 then
          ((b0 % 8) * 262144 + (b1 % 64) * 4096 + (b2 % 64) * 64 + b3 % 64, 4)
        else (runeError, 1)
      | _ => (runeError, 1)
    else (runeError, 1)

/-- unicode.IsSpace -/
def isSpace (r : Nat) : Bool :=
  (0x9 ≤ r && r ≤ 0xD) || r == 0x20 || r == 0x85 || r == 0xA0 || r == 0x1680 ||
  (0x2000 ≤ r && r ≤ 0x200A) || r == 0x2028 || r == 0x2029 || r == 0x202F || r == 0x205F || r == 0x3000

/-- `for _, ch := range s` : the runes of a Go string. Fuel = length. -/
def runesAux : Nat → Bytes → List Nat
  | 0, _ => []
  | _, [] => []
  | fuel + 1, s =>
    let (r, w) := decodeRune s
    r :: runesAux fuel (s.drop (max w 1))

def runes (s : Bytes) : List Nat := runesAux s.length s

end Utf8
end Secs
