/-
Spec: the SECS-II (SEMI E5) item encoding and the HSMS (SEMI E37) data-message frame, written
as an inductive relation independent of the encoder's algorithm.

  item   := format byte, length bytes, payload
  format byte = format code · 4 + k, k = number of length bytes, the least of 1, 2, 3 that fits
  length = payload bytes, big-endian (element count for a list)
  payload = children in order | 7-bit characters | bytes | 0/1 | big-endian two's complement |
            big-endian IEEE-754 pattern
-/
import SecsModel.Basic
import SecsModel.Model.Item
import SecsModel.Model.FloatLib
namespace Secs.Spec

/-- least k ∈ {1,2,3} with n < 256^k -/
def lenBytes (n : Nat) : Nat := if n < 256 then 1 else if n < 65536 then 2 else 3

def header (code n : Nat) : Bytes := (code * 4 + lenBytes n) :: beEnc (lenBytes n) n

/-- two's complement of v in w bytes -/
def twos (w : Nat) (v : Int) : Bytes := beEnc w (v % (2 : Int) ^ (8 * w)).toNat

def intCode : Nat → Option Nat | 1 => some 0o31 | 2 => some 0o32 | 4 => some 0o34 | 8 => some 0o30 | _ => none
def uintCode : Nat → Option Nat | 1 => some 0o51 | 2 => some 0o52 | 4 => some 0o54 | 8 => some 0o50 | _ => none
def floatCode : Nat → Option Nat | 4 => some 0o44 | 8 => some 0o40 | _ => none

def limit : Nat := 16777215

mutual
inductive Encodes : Tmpl → Bytes → Prop
  | list (xs : Slots) (p : Bytes) : EncodesAll xs p → xs.len ≤ limit →
      Encodes (.list xs) (header 0o00 xs.len ++ p)
  | ascii (s : Bytes) : (∀ c ∈ s, c < 128) → s.length ≤ limit →
      Encodes (.ascii s) (header 0o20 s.length ++ s)
  | binary (vs : List Nat) : (∀ v ∈ vs, v < 256) → vs.length ≤ limit →
      Encodes (.binary (vs.map Slot.val)) (header 0o10 vs.length ++ vs)
  | boolean (vs : List Bool) : vs.length ≤ limit →
      Encodes (.boolean (vs.map Slot.val)) (header 0o11 vs.length ++ vs.map (fun b => if b then 1 else 0))
  | int (w code : Nat) (vs : List Int) : intCode w = some code →
      (∀ v ∈ vs, -(2 : Int) ^ (8 * w - 1) ≤ v ∧ v < (2 : Int) ^ (8 * w - 1)) → vs.length * w ≤ limit →
      Encodes (.int w (vs.map Slot.val)) (header code (vs.length * w) ++ vs.flatMap (twos w))
  | uint (w code : Nat) (vs : List Nat) : uintCode w = some code →
      (∀ v ∈ vs, v < 2 ^ (8 * w)) → vs.length * w ≤ limit →
      Encodes (.uint w (vs.map Slot.val)) (header code (vs.length * w) ++ vs.flatMap (beEnc w))
  | float (w code : Nat) (vs : List Nat) : floatCode w = some code →
      (∀ v ∈ vs, v < 2 ^ (8 * w) ∧ FloatLib.isFinite w v = true) → vs.length * w ≤ limit →
      Encodes (.float w (vs.map Slot.val)) (header code (vs.length * w) ++ vs.flatMap (beEnc w))
inductive EncodesAll : Slots → Bytes → Prop
  | nil : EncodesAll .nil []
  | cons (t : Tmpl) (r : Slots) (b p : Bytes) : Encodes t b → EncodesAll r p → EncodesAll (.item t r) (b ++ p)
end

end Secs.Spec
