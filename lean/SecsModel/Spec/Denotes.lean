/-
Spec: the lenient reading of SECS-II bytes that a decoder must implement (C03): an item may
carry 1, 2 or 3 length bytes, minimal or not, as long as their value is the payload length
(element count for a list); a boolean byte other than 0 reads as true; characters are 7-bit;
floats are finite; numeric payloads are a whole number of values.
-/
import SecsModel.Basic
import SecsModel.Model.Item
import SecsModel.Model.FloatLib
import SecsModel.Spec.Wire
namespace Secs.Spec

/-- header with k length bytes (any k ∈ {1,2,3} whose range holds n) -/
def headerK (code k n : Nat) : Bytes := (code * 4 + k) :: beEnc k n

def KOk (k n : Nat) : Prop := 1 ≤ k ∧ k ≤ 3 ∧ n < 256 ^ k

mutual
inductive Denotes : Bytes → Tmpl → Prop
  | list (k : Nat) (xs : Slots) (p : Bytes) : KOk k xs.len → DenotesAll p xs →
      Denotes (headerK 0o00 k xs.len ++ p) (.list xs)
  | ascii (k : Nat) (s : Bytes) : KOk k s.length → (∀ c ∈ s, c < 128) →
      Denotes (headerK 0o20 k s.length ++ s) (.ascii s)
  | binary (k : Nat) (vs : Bytes) : KOk k vs.length → (∀ v ∈ vs, v < 256) →
      Denotes (headerK 0o10 k vs.length ++ vs) (.binary (vs.map Slot.val))
  | boolean (k : Nat) (bs : Bytes) : KOk k bs.length →
      Denotes (headerK 0o11 k bs.length ++ bs) (.boolean (bs.map (fun b => Slot.val (b != 0))))
  | int (w code k : Nat) (vs : List Int) : intCode w = some code → KOk k (vs.length * w) →
      (∀ v ∈ vs, -(2 : Int) ^ (8 * w - 1) ≤ v ∧ v < (2 : Int) ^ (8 * w - 1)) →
      Denotes (headerK code k (vs.length * w) ++ vs.flatMap (twos w)) (.int w (vs.map Slot.val))
  | uint (w code k : Nat) (vs : List Nat) : uintCode w = some code → KOk k (vs.length * w) →
      (∀ v ∈ vs, v < 2 ^ (8 * w)) →
      Denotes (headerK code k (vs.length * w) ++ vs.flatMap (beEnc w)) (.uint w (vs.map Slot.val))
  | float (w code k : Nat) (vs : List Nat) : floatCode w = some code → KOk k (vs.length * w) →
      (∀ v ∈ vs, v < 2 ^ (8 * w) ∧ FloatLib.isFinite w v = true) →
      Denotes (headerK code k (vs.length * w) ++ vs.flatMap (beEnc w)) (.float w (vs.map Slot.val))
inductive DenotesAll : Bytes → Slots → Prop
  | nil : DenotesAll [] .nil
  | cons (b p : Bytes) (t : Tmpl) (r : Slots) : Denotes b t → DenotesAll p r → DenotesAll (b ++ p) (.item t r)
end

end Secs.Spec
