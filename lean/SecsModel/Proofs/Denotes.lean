/- The decoder is complete and sound for the lenient reading relation `Spec.Denotes` (C03). -/
import SecsModel.Proofs.Wire
import SecsModel.Spec.Denotes
namespace Secs
open Spec

theorem decodeFmt_some (c : Nat) (f : Fmt) (h : decodeFmt? c = some f) : f.code = c := by
  unfold decodeFmt? at h
  have := List.find?_some h
  simpa using this

/-- a non-list item with any admissible number of length bytes -/
theorem decItem_leaf_k (f : Fmt) (hf : f ≠ .list) (k n : Nat) (hk : KOk k n) (payload : Bytes) (t : Tmpl)
    (hlen : payload.length = n) (hd : decPayload f payload = some t) (rest : Bytes) (fuel : Nat) :
    decItem (fuel + 1) (headerK f.code k n ++ payload ++ rest) = some (t, rest) := by
  obtain ⟨k1, k3, kn⟩ := hk
  have hc := Fmt.code_lt f
  have h4 : (f.code * 4 + k) % 4 = k := by omega
  have h5 : (f.code * 4 + k) / 4 = f.code := by omega
  unfold headerK
  simp only [List.cons_append, List.append_assoc]
  rw [decItem]
  simp only [h4, h5, decodeFmt_code]
  have hk0 : ¬ k = 0 := by omega
  simp only [hk0, if_false, List.length_append, beEnc_length]
  have h1 : ¬ (k + (payload.length + rest.length) < k) := by omega
  simp only [h1, if_false, List.take_left' (beEnc_length k _), List.drop_left' (beEnc_length k _),
    beDec_beEnc k _ kn]
  have h2 : ¬ ((payload ++ rest).length < payload.length) := by simp
  cases f with
  | list => exact absurd rfl hf
  | _ =>
    simp only [← hlen, h2, if_false, List.take_left' rfl, List.drop_left' rfl, hd]

theorem intCode_fmt (w code : Nat) (h : intCode w = some code) :
    ∃ f, intFmt? w = some f ∧ f.code = code ∧ f.width = w ∧ f ≠ .list ∧ (w = 1 ∨ w = 2 ∨ w = 4 ∨ w = 8) := by
  unfold intCode at h
  split at h <;> first | (injection h with h; subst h) | (simp at h)
  · exact ⟨.i1, rfl, rfl, rfl, by simp, by omega⟩
  · exact ⟨.i2, rfl, rfl, rfl, by simp, by omega⟩
  · exact ⟨.i4, rfl, rfl, rfl, by simp, by omega⟩
  · exact ⟨.i8, rfl, rfl, rfl, by simp, by omega⟩

theorem uintCode_fmt (w code : Nat) (h : uintCode w = some code) :
    ∃ f, uintFmt? w = some f ∧ f.code = code ∧ f.width = w ∧ f ≠ .list ∧ (w = 1 ∨ w = 2 ∨ w = 4 ∨ w = 8) := by
  unfold uintCode at h
  split at h <;> first | (injection h with h; subst h) | (simp at h)
  · exact ⟨.u1, rfl, rfl, rfl, by simp, by omega⟩
  · exact ⟨.u2, rfl, rfl, rfl, by simp, by omega⟩
  · exact ⟨.u4, rfl, rfl, rfl, by simp, by omega⟩
  · exact ⟨.u8, rfl, rfl, rfl, by simp, by omega⟩

theorem floatCode_fmt (w code : Nat) (h : floatCode w = some code) :
    ∃ f, floatFmt? w = some f ∧ f.code = code ∧ f.width = w ∧ f ≠ .list ∧ (w = 4 ∨ w = 8) := by
  unfold floatCode at h
  split at h <;> first | (injection h with h; subst h) | (simp at h)
  · exact ⟨.f4, rfl, rfl, rfl, by simp, by omega⟩
  · exact ⟨.f8, rfl, rfl, rfl, by simp, by omega⟩

mutual
/-- completeness: whatever bytes denote an item (minimal length bytes or not), the decoder
returns exactly that item and leaves the rest untouched -/
theorem dec_complete (t : Tmpl) (p : Bytes) (h : Denotes p t) (rest : Bytes) (fuel : Nat) (hf : t.sz ≤ fuel) :
    decItem fuel (p ++ rest) = some (t, rest) := by
  cases fuel with
  | zero => cases t <;> simp [Tmpl.sz] at hf
  | succ fuel =>
    cases t with
    | empty => cases h
    | asciiVar n a b => cases h
    | list xs =>
      cases h with
      | list k _ q hk hall =>
        obtain ⟨k1, k3, kn⟩ := hk
        have hd := decs_complete xs q hall rest fuel (by simp [Tmpl.sz] at hf; omega)
        have h4 : (0 * 4 + k) % 4 = k := by omega
        have h5 : (0 * 4 + k) / 4 = 0 := by omega
        unfold headerK
        simp only [List.cons_append, List.append_assoc]
        rw [decItem]
        have hk0 : ¬ k = 0 := by omega
        simp only [h4, h5, hk0, if_false, List.length_append, beEnc_length]
        have h1 : ¬ (k + (q.length + rest.length) < k) := by omega
        simp only [h1, if_false, List.take_left' (beEnc_length k _), List.drop_left' (beEnc_length k _),
          beDec_beEnc k _ kn]
        have : decodeFmt? 0 = some Fmt.list := rfl
        simp only [this, hd]
    | ascii s =>
      cases h with
      | ascii k _ hk hc =>
        have := decItem_leaf_k .ascii (by simp) k s.length hk s (.ascii s) rfl
          (by simp only [decPayload]; rw [if_pos]; simpa using hc) rest fuel
        simpa [Fmt.code] using this
    | binary xs =>
      cases h with
      | binary k vs hk hv =>
        have := decItem_leaf_k .binary (by simp) k vs.length hk vs (.binary (vs.map Slot.val)) rfl
          (by simp [decPayload]) rest fuel
        simpa [Fmt.code] using this
    | boolean xs =>
      cases h with
      | boolean k bs hk =>
        have := decItem_leaf_k .boolean (by simp) k bs.length hk bs (.boolean (bs.map (fun b => Slot.val (b != 0)))) rfl (by simp [decPayload]) rest fuel
        simpa [Fmt.code] using this
    | int w xs =>
      cases h with
      | int _ code k vs hcode hk hr =>
        obtain ⟨f, hf1, hf2, hf3, hf4, hw4⟩ := intCode_fmt w code hcode
        have hr' : ∀ v ∈ vs, intInRange w v = true := by
          intro v hv
          have := hr v hv
          simp only [intInRange, Bool.and_eq_true, decide_eq_true_eq]; omega
        have hpl : (vs.flatMap (intBytes w)).length = vs.length * w :=
          flatMap_length_const w _ vs (fun v _ => intBytes_length w v)
        have := decItem_leaf_k f hf4 k (vs.length * w) hk (vs.flatMap (intBytes w)) _ hpl
          (decPayload_int f w hf1 vs hr') rest fuel
        rw [hf2, flatMap_congr' _ _ vs (intBytes_eq_twos w hw4)] at this
        exact this
    | uint w xs =>
      cases h with
      | uint _ code k vs hcode hk hr =>
        obtain ⟨f, hf1, hf2, hf3, hf4, hw4⟩ := uintCode_fmt w code hcode
        have hr' : ∀ v ∈ vs, uintInRange w v = true := by
          intro v hv
          have := hr v hv
          simp only [uintInRange, decide_eq_true_eq]; omega
        have hpl : (vs.flatMap (beEnc w)).length = vs.length * w :=
          flatMap_length_const w _ vs (fun v _ => beEnc_length w v)
        have := decItem_leaf_k f hf4 k (vs.length * w) hk (vs.flatMap (beEnc w)) _ hpl
          (decPayload_uint f w hf1 vs hr') rest fuel
        rw [hf2] at this
        exact this
    | float w xs =>
      cases h with
      | float _ code k vs hcode hk hr =>
        obtain ⟨f, hf1, hf2, hf3, hf4, hw2⟩ := floatCode_fmt w code hcode
        have hr' : ∀ v ∈ vs, (decide (v < 2 ^ (8 * w)) && FloatLib.isFinite w v) = true := by
          intro v hv
          have := hr v hv
          simp [this.1, this.2]
        have hpl : (vs.flatMap (beEnc w)).length = vs.length * w :=
          flatMap_length_const w _ vs (fun v _ => beEnc_length w v)
        have := decItem_leaf_k f hf4 k (vs.length * w) hk (vs.flatMap (beEnc w)) _ hpl
          (decPayload_float f w hf1 vs hr') rest fuel
        rw [hf2] at this
        exact this
theorem decs_complete (xs : Slots) (p : Bytes) (h : DenotesAll p xs) (rest : Bytes) (fuel : Nat)
    (hf : xs.szs ≤ fuel) : decItems fuel xs.len (p ++ rest) = some (xs, rest) := by
  cases xs with
  | nil => cases h; simp [Slots.len, decItems]
  | var n r => cases h
  | item t r =>
    cases h with
    | cons b q _ _ hb hq =>
      cases fuel with
      | zero => simp [Slots.szs] at hf
      | succ fuel =>
        simp only [Slots.len, List.append_assoc, decItems]
        rw [dec_complete t b hb (q ++ rest) fuel (by simp [Slots.szs] at hf; omega)]
        simp only [decs_complete r q hq rest fuel (by simp [Slots.szs] at hf; omega)]
end

end Secs

namespace Secs
open Spec

/-! ### soundness -/

theorem isBytes_take (l : Bytes) (n : Nat) (h : IsBytes l) : IsBytes (l.take n) :=
  fun b hb => h b (List.mem_of_mem_take hb)
theorem isBytes_drop (l : Bytes) (n : Nat) (h : IsBytes l) : IsBytes (l.drop n) :=
  fun b hb => h b (List.mem_of_mem_drop hb)

/-- chunks of a payload whose length is a multiple of w: they have length w each and
concatenate back to the payload -/
theorem chunks_spec (w : Nat) (hw : 0 < w) : ∀ (m fuel : Nat) (p : Bytes), p.length = m * w → m ≤ fuel →
    (chunks w fuel p).length = m ∧ (∀ c ∈ chunks w fuel p, c.length = w) ∧ (chunks w fuel p).flatMap id = p
  | 0, fuel, p, hl, _ => by
    have : p = [] := List.length_eq_zero_iff.mp (by simpa using hl)
    subst this
    cases fuel <;> simp [chunks]
  | m + 1, 0, _, _, hf => by omega
  | m + 1, fuel + 1, p, hl, hf => by
    have hne : p ≠ [] := by
      intro h; rw [h] at hl; simp at hl
      have : 0 < (m + 1) * w := Nat.mul_pos (by omega) hw
      omega
    obtain ⟨b, r, rfl⟩ : ∃ b r, p = b :: r := by
      cases p with
      | nil => exact absurd rfl hne
      | cons b r => exact ⟨b, r, rfl⟩
    have hlen : w ≤ (b :: r).length := by
      rw [hl, Nat.succ_mul]; omega
    have hd : ((b :: r).drop w).length = m * w := by
      rw [List.length_drop, hl, Nat.succ_mul]; omega
    have ih := chunks_spec w hw m fuel ((b :: r).drop w) hd (by omega)
    rw [chunks]
    refine ⟨by simp [ih.1], ?_, ?_⟩
    · intro c hc
      simp only [List.mem_cons] at hc
      rcases hc with rfl | hc
      · rw [List.length_take]; omega
      · exact ih.2.1 c hc
    · simp only [List.flatMap_cons, id, ih.2.2]
      exact List.take_append_drop w (b :: r)
    · intro h; cases h

theorem toSigned_range (w : Nat) (hw : w = 1 ∨ w = 2 ∨ w = 4 ∨ w = 8) (n : Nat) (hn : n < 256 ^ w) :
    -(2 : Int) ^ (8 * w - 1) ≤ toSigned w n ∧ toSigned w n < (2 : Int) ^ (8 * w - 1) ∧
    (toSigned w n % (2 : Int) ^ (8 * w)).toNat = n := by
  unfold toSigned
  rcases hw with rfl | rfl | rfl | rfl <;> simp at hn ⊢ <;> (first | omega | (split <;> omega))

theorem twos_toSigned (w : Nat) (hw : w = 1 ∨ w = 2 ∨ w = 4 ∨ w = 8) (c : Bytes) (hc : IsBytes c) (hl : c.length = w) :
    twos w (toSigned w (beDec c)) = c := by
  have hlt := beDec_lt c hc
  rw [hl] at hlt
  unfold twos
  rw [(toSigned_range w hw (beDec c) hlt).2.2, ← hl]
  exact beEnc_beDec c hc

theorem flatMap_map_chunks (f : Bytes → Bytes) (cs : List Bytes) (h : ∀ c ∈ cs, f c = c) :
    cs.flatMap f = cs.flatMap id := by
  induction cs with
  | nil => rfl
  | cons c r ih =>
    simp only [List.flatMap_cons, id]
    rw [h c (by simp), ih (fun x hx => h x (by simp [hx]))]

theorem map_val_comp {α} (g : Bytes → α) (cs : List Bytes) :
    cs.map (fun c => Slot.val (g c)) = (cs.map g).map Slot.val := by
  simp [List.map_map, Function.comp_def]

theorem int_payload_denotes (w code k : Nat) (hw4 : w = 1 ∨ w = 2 ∨ w = 4 ∨ w = 8) (hcode : intCode w = some code)
    (p : Bytes) (hp : IsBytes p) (hm : p.length % w = 0) (hk : KOk k p.length) :
    Denotes (headerK code k p.length ++ p)
      (.int w ((chunks w p.length p).map (fun c => Slot.val (toSigned w (beDec c))))) := by
  have hw : 0 < w := by omega
  obtain ⟨m, hm'⟩ : ∃ m, p.length = m * w := ⟨p.length / w, by rw [Nat.mul_comm]; exact (Nat.mul_div_cancel' (Nat.dvd_of_mod_eq_zero hm)).symm⟩
  have hmle : m ≤ p.length := by
    rw [hm']; calc m = m * 1 := by omega
      _ ≤ m * w := Nat.mul_le_mul_left _ hw
  obtain ⟨hc1, hc2, hc3⟩ := chunks_spec w hw m p.length p hm' hmle
  have hcb : ∀ c ∈ chunks w p.length p, IsBytes c := by
    intro c hc b hb
    have : b ∈ (chunks w p.length p).flatMap id := List.mem_flatMap.mpr ⟨c, hc, hb⟩
    rw [hc3] at this
    exact hp b this
  rw [map_val_comp]
  have hvl : ((chunks w p.length p).map (fun c => toSigned w (beDec c))).length * w = p.length := by
    rw [List.length_map, hc1, hm']
  have hpay : ((chunks w p.length p).map (fun c => toSigned w (beDec c))).flatMap (twos w) = p := by
    rw [List.flatMap_map]
    rw [flatMap_map_chunks (fun c => twos w (toSigned w (beDec c))) _
      (fun c hc => twos_toSigned w hw4 c (hcb c hc) (hc2 c hc)), hc3]
  have := Denotes.int w code k ((chunks w p.length p).map (fun c => toSigned w (beDec c))) hcode
    (by rw [hvl]; exact hk)
    (by
      intro v hv
      obtain ⟨c, hc, rfl⟩ := List.mem_map.mp hv
      have hlt := beDec_lt c (hcb c hc)
      rw [hc2 c hc] at hlt
      have := toSigned_range w hw4 (beDec c) hlt
      exact ⟨this.1, this.2.1⟩)
  rw [hvl, hpay] at this
  exact this

theorem uint_payload_denotes (w code k : Nat) (hw4 : w = 1 ∨ w = 2 ∨ w = 4 ∨ w = 8) (hcode : uintCode w = some code)
    (p : Bytes) (hp : IsBytes p) (hm : p.length % w = 0) (hk : KOk k p.length) :
    Denotes (headerK code k p.length ++ p)
      (.uint w ((chunks w p.length p).map (fun c => Slot.val (beDec c)))) := by
  have hw : 0 < w := by omega
  obtain ⟨m, hm'⟩ : ∃ m, p.length = m * w := ⟨p.length / w, by rw [Nat.mul_comm]; exact (Nat.mul_div_cancel' (Nat.dvd_of_mod_eq_zero hm)).symm⟩
  have hmle : m ≤ p.length := by
    rw [hm']; calc m = m * 1 := by omega
      _ ≤ m * w := Nat.mul_le_mul_left _ hw
  obtain ⟨hc1, hc2, hc3⟩ := chunks_spec w hw m p.length p hm' hmle
  have hcb : ∀ c ∈ chunks w p.length p, IsBytes c := by
    intro c hc b hb
    have : b ∈ (chunks w p.length p).flatMap id := List.mem_flatMap.mpr ⟨c, hc, hb⟩
    rw [hc3] at this
    exact hp b this
  rw [map_val_comp]
  have hvl : ((chunks w p.length p).map beDec).length * w = p.length := by
    rw [List.length_map, hc1, hm']
  have hpay : ((chunks w p.length p).map beDec).flatMap (beEnc w) = p := by
    rw [List.flatMap_map]
    rw [flatMap_map_chunks (fun c => beEnc w (beDec c)) _
      (fun c hc => by have := beEnc_beDec c (hcb c hc); rw [hc2 c hc] at this; exact this), hc3]
  have := Denotes.uint w code k ((chunks w p.length p).map beDec) hcode
    (by rw [hvl]; exact hk)
    (by
      intro v hv
      obtain ⟨c, hc, rfl⟩ := List.mem_map.mp hv
      have hlt := beDec_lt c (hcb c hc)
      rw [hc2 c hc, pow8] at hlt
      exact hlt)
  rw [hvl, hpay] at this
  exact this

theorem float_payload_denotes (w code k : Nat) (hw2 : w = 4 ∨ w = 8) (hcode : floatCode w = some code)
    (p : Bytes) (hp : IsBytes p) (hm : p.length % w = 0) (hk : KOk k p.length)
    (hfin : ((chunks w p.length p).map beDec).all (FloatLib.isFinite w) = true) :
    Denotes (headerK code k p.length ++ p)
      (.float w (((chunks w p.length p).map beDec).map Slot.val)) := by
  have hw : 0 < w := by omega
  obtain ⟨m, hm'⟩ : ∃ m, p.length = m * w := ⟨p.length / w, by rw [Nat.mul_comm]; exact (Nat.mul_div_cancel' (Nat.dvd_of_mod_eq_zero hm)).symm⟩
  have hmle : m ≤ p.length := by
    rw [hm']; calc m = m * 1 := by omega
      _ ≤ m * w := Nat.mul_le_mul_left _ hw
  obtain ⟨hc1, hc2, hc3⟩ := chunks_spec w hw m p.length p hm' hmle
  have hcb : ∀ c ∈ chunks w p.length p, IsBytes c := by
    intro c hc b hb
    have : b ∈ (chunks w p.length p).flatMap id := List.mem_flatMap.mpr ⟨c, hc, hb⟩
    rw [hc3] at this
    exact hp b this
  have hvl : ((chunks w p.length p).map beDec).length * w = p.length := by
    rw [List.length_map, hc1, hm']
  have hpay : ((chunks w p.length p).map beDec).flatMap (beEnc w) = p := by
    rw [List.flatMap_map]
    rw [flatMap_map_chunks (fun c => beEnc w (beDec c)) _
      (fun c hc => by have := beEnc_beDec c (hcb c hc); rw [hc2 c hc] at this; exact this), hc3]
  have := Denotes.float w code k ((chunks w p.length p).map beDec) hcode
    (by rw [hvl]; exact hk)
    (by
      intro v hv
      obtain ⟨c, hc, rfl⟩ := List.mem_map.mp hv
      have hlt := beDec_lt c (hcb c hc)
      rw [hc2 c hc, pow8] at hlt
      simp only [List.all_eq_true] at hfin
      exact ⟨hlt, hfin _ hv⟩)
  rw [hvl, hpay] at this
  exact this

/-- what `decPayload` accepts denotes what it returns -/
theorem decPayload_denotes (f : Fmt) (hf : f ≠ .list) (k : Nat) (p : Bytes) (t : Tmpl) (hp : IsBytes p)
    (hk : KOk k p.length) (hd : decPayload f p = some t) : Denotes (headerK f.code k p.length ++ p) t := by
  have intCase : ∀ w code, (w = 1 ∨ w = 2 ∨ w = 4 ∨ w = 8) → intCode w = some code →
      (if (p.length % w != 0) = true then none
       else some (Tmpl.int w ((chunks w p.length p).map (fun c => Slot.val (toSigned w (beDec c)))))) = some t →
      Denotes (headerK code k p.length ++ p) t := by
    intro w code hw4 hcode hd
    by_cases hm : (p.length % w != 0) = true
    · simp [hm] at hd
    · simp only [hm, Bool.false_eq_true, if_false, Option.some.injEq] at hd
      subst hd
      exact int_payload_denotes w code k hw4 hcode p hp (by simpa using hm) hk
  have uintCase : ∀ w code, (w = 1 ∨ w = 2 ∨ w = 4 ∨ w = 8) → uintCode w = some code →
      (if (p.length % w != 0) = true then none
       else some (Tmpl.uint w ((chunks w p.length p).map (fun c => Slot.val (beDec c))))) = some t →
      Denotes (headerK code k p.length ++ p) t := by
    intro w code hw4 hcode hd
    by_cases hm : (p.length % w != 0) = true
    · simp [hm] at hd
    · simp only [hm, Bool.false_eq_true, if_false, Option.some.injEq] at hd
      subst hd
      exact uint_payload_denotes w code k hw4 hcode p hp (by simpa using hm) hk
  have floatCase : ∀ w code, (w = 4 ∨ w = 8) → floatCode w = some code →
      (if (p.length % w != 0) = true then none
       else if ((chunks w p.length p).map beDec).all (FloatLib.isFinite w) = true
         then some (Tmpl.float w (((chunks w p.length p).map beDec).map Slot.val)) else none) = some t →
      Denotes (headerK code k p.length ++ p) t := by
    intro w code hw2 hcode hd
    by_cases hm : (p.length % w != 0) = true
    · simp [hm] at hd
    · simp only [hm, Bool.false_eq_true, if_false] at hd
      by_cases hfin : ((chunks w p.length p).map beDec).all (FloatLib.isFinite w) = true
      · simp only [hfin, if_true, Option.some.injEq] at hd
        subst hd
        exact float_payload_denotes w code k hw2 hcode p hp (by simpa using hm) hk hfin
      · simp [hfin] at hd
  cases f with
  | list => exact absurd rfl hf
  | ascii =>
    simp only [decPayload] at hd
    by_cases hall : p.all (· < 128) = true
    · simp only [hall, if_true, Option.some.injEq] at hd; subst hd
      exact Denotes.ascii k p hk (by simpa using hall)
    · simp [hall] at hd
  | binary =>
    simp only [decPayload, Option.some.injEq] at hd; subst hd
    exact Denotes.binary k p hk hp
  | boolean =>
    simp only [decPayload, Option.some.injEq] at hd; subst hd
    exact Denotes.boolean k p hk
  | i1 => exact intCase 1 _ (by omega) rfl (by simpa [decPayload, Fmt.width] using hd)
  | i2 => exact intCase 2 _ (by omega) rfl (by simpa [decPayload, Fmt.width] using hd)
  | i4 => exact intCase 4 _ (by omega) rfl (by simpa [decPayload, Fmt.width] using hd)
  | i8 => exact intCase 8 _ (by omega) rfl (by simpa [decPayload, Fmt.width] using hd)
  | u1 => exact uintCase 1 _ (by omega) rfl (by simpa [decPayload, Fmt.width] using hd)
  | u2 => exact uintCase 2 _ (by omega) rfl (by simpa [decPayload, Fmt.width] using hd)
  | u4 => exact uintCase 4 _ (by omega) rfl (by simpa [decPayload, Fmt.width] using hd)
  | u8 => exact uintCase 8 _ (by omega) rfl (by simpa [decPayload, Fmt.width] using hd)
  | f4 => exact floatCase 4 _ (by omega) rfl (by simpa [decPayload, Fmt.width] using hd)
  | f8 => exact floatCase 8 _ (by omega) rfl (by simpa [decPayload, Fmt.width] using hd)

mutual
/-- soundness: whatever the decoder returns is denoted by exactly the bytes it consumed -/
theorem dec_sound : ∀ (fuel : Nat) (inp : Bytes) (t : Tmpl) (r : Bytes),
    decItem fuel inp = some (t, r) → IsBytes inp → ∃ p, inp = p ++ r ∧ Denotes p t
  | 0, _, _, _, h, _ => by simp [decItem] at h
  | _ + 1, [], _, _, h, _ => by simp [decItem] at h
  | fuel + 1, fb :: rest, t, r, h, hb => by
    rw [decItem] at h
    by_cases hk : fb % 4 = 0
    · simp [hk] at h
    · by_cases hl : rest.length < fb % 4
      · simp [hk, hl] at h
      · simp only [hk, hl, if_false] at h
        have hrest : IsBytes rest := fun b hbm => hb b (by simp [hbm])
        have hfb : fb < 256 := hb fb (by simp)
        have hlb : IsBytes (rest.take (fb % 4)) := isBytes_take _ _ hrest
        have hlbl : (rest.take (fb % 4)).length = fb % 4 := by rw [List.length_take]; omega
        have hkok : KOk (fb % 4) (beDec (rest.take (fb % 4))) := by
          refine ⟨by omega, by omega, ?_⟩
          have := beDec_lt _ hlb
          rw [hlbl] at this; exact this
        have hlbe : beEnc (fb % 4) (beDec (rest.take (fb % 4))) = rest.take (fb % 4) := by
          have := beEnc_beDec _ hlb
          rw [hlbl] at this; exact this
        cases hf : decodeFmt? (fb / 4) with
        | none => simp [hf] at h
        | some f =>
          have hcode := decodeFmt_some _ _ hf
          have hfbeq : fb = f.code * 4 + fb % 4 := by rw [hcode]; omega
          simp only [hf] at h
          cases f with
          | list =>
            simp only at h
            cases hd : decItems fuel (beDec (rest.take (fb % 4))) (rest.drop (fb % 4)) with
            | none => simp [hd] at h
            | some q =>
              obtain ⟨xs, r'⟩ := q
              simp only [hd, Option.some.injEq, Prod.mk.injEq] at h
              obtain ⟨p, hp, hall, hlen⟩ := decs_sound fuel _ _ xs r' hd (isBytes_drop _ _ hrest)
              refine ⟨headerK 0 (fb % 4) xs.len ++ p, ?_, ?_⟩
              · rw [← h.2]
                unfold headerK
                rw [hlen, hlbe]
                simp only [List.cons_append, List.append_assoc]
                have h0 : Fmt.list.code = 0 := rfl
                rw [h0] at hfbeq
                rw [← hp, List.take_append_drop]
                first | rfl | (congr 1; omega) | (congr 1)
              · rw [← h.1]
                exact Denotes.list (fb % 4) xs p (by rw [hlen]; exact hkok) hall
          | _ =>
            simp only at h
            split at h
            · cases h
            · rename_i hn
              split at h
              · cases h
              · rename_i t' hd
                simp only [Option.some.injEq, Prod.mk.injEq] at h
                have hpl : ((rest.drop (fb % 4)).take (beDec (rest.take (fb % 4)))).length = beDec (rest.take (fb % 4)) := by
                  rw [List.length_take]; omega
                have hden := decPayload_denotes _ (by simp) (fb % 4) _ t'
                  (isBytes_take _ _ (isBytes_drop _ _ hrest)) (by rw [hpl]; exact hkok) hd
                rw [hpl] at hden
                refine ⟨_, ?_, by rw [← h.1]; exact hden⟩
                rw [← h.2]
                unfold headerK
                rw [hlbe]
                simp only [List.cons_append, List.append_assoc, List.take_append_drop]
                first | rfl | (congr 1)
theorem decs_sound : ∀ (fuel n : Nat) (inp : Bytes) (xs : Slots) (r : Bytes),
    decItems fuel n inp = some (xs, r) → IsBytes inp → ∃ p, inp = p ++ r ∧ DenotesAll p xs ∧ xs.len = n
  | _, 0, inp, xs, r, h, _ => by
    simp [decItems] at h
    exact ⟨[], by simp [h.2], by rw [← h.1]; exact DenotesAll.nil, by rw [← h.1]; rfl⟩
  | 0, _ + 1, _, _, _, h, _ => by simp [decItems] at h
  | fuel + 1, n + 1, inp, xs, r, h, hb => by
    rw [decItems] at h
    cases h1 : decItem fuel inp with
    | none => simp [h1] at h
    | some q =>
      obtain ⟨x, r1⟩ := q
      simp only [h1] at h
      cases h2 : decItems fuel n r1 with
      | none => simp [h2] at h
      | some q2 =>
        obtain ⟨ys, r2⟩ := q2
        simp only [h2, Option.some.injEq, Prod.mk.injEq] at h
        obtain ⟨p1, hp1, hd1⟩ := dec_sound fuel inp x r1 h1 hb
        have hb1 : IsBytes r1 := by
          intro b hbm; exact hb b (by rw [hp1]; simp [hbm])
        obtain ⟨p2, hp2, hd2, hl2⟩ := decs_sound fuel n r1 ys r2 h2 hb1
        refine ⟨p1 ++ p2, ?_, ?_, ?_⟩
        · rw [← h.2, hp1, hp2]; simp
        · rw [← h.1]; exact DenotesAll.cons p1 p2 x ys hd1 hd2
        · rw [← h.1]; simp [Slots.len, hl2]
end

end Secs

namespace Secs
open Spec

theorem slotVars_map_val' {α β} (f : β → α) (bs : List β) : slotVars (bs.map (fun b => Slot.val (f b))) = [] := by
  induction bs with
  | nil => rfl
  | cons b r ih => simp [slotVars, ih]

mutual
/-- what is denoted is a variable-free item -/
theorem denotes_closed (p : Bytes) (t : Tmpl) (h : Denotes p t) : t.closed = true := by
  cases t with
  | empty => cases h
  | asciiVar n a b => cases h
  | list xs => cases h with | list k _ q hk hall => simpa [Tmpl.closed] using denotesAll_closed q xs hall
  | ascii s => rfl
  | binary xs => cases h with | binary k vs _ _ => simp [Tmpl.closed, slotVars_map_val]
  | boolean xs => cases h with | boolean k bs _ => simp [Tmpl.closed, slotVars_map_val']
  | int w xs => cases h with | int _ c k vs _ _ _ => simp [Tmpl.closed, slotVars_map_val]
  | uint w xs => cases h with | uint _ c k vs _ _ _ => simp [Tmpl.closed, slotVars_map_val]
  | float w xs => cases h with | float _ c k vs _ _ _ => simp [Tmpl.closed, slotVars_map_val]
theorem denotesAll_closed (p : Bytes) (xs : Slots) (h : DenotesAll p xs) : xs.closedAll = true := by
  cases xs with
  | nil => rfl
  | var n r => cases h
  | item t r =>
    cases h with
    | cons b q _ _ hb hq => simp [Slots.closedAll, denotes_closed b t hb, denotesAll_closed q r hq]
end

/-- the relation is functional: bytes denote at most one item -/
theorem denotes_fun (p : Bytes) (t t' : Tmpl) (h : Denotes p t) (h' : Denotes p t') : t = t' := by
  have a := dec_complete t p h [] (t.sz + t'.sz) (by omega)
  have b := dec_complete t' p h' [] (t.sz + t'.sz) (by omega)
  rw [a] at b
  injection b with b
  injection b with b _

mutual
/-- fuel bookkeeping: a successful decode needed no more fuel than it was given … and the item's
size measure is bounded by the bytes consumed -/
theorem sz_le_of_dec : ∀ (fuel : Nat) (inp : Bytes) (t : Tmpl) (r : Bytes),
    decItem fuel inp = some (t, r) → t.sz + 1 + r.length ≤ inp.length
  | 0, _, _, _, h => by simp [decItem] at h
  | _ + 1, [], _, _, h => by simp [decItem] at h
  | fuel + 1, fb :: rest, t, r, h => by
    rw [decItem] at h
    by_cases hk : fb % 4 = 0
    · simp [hk] at h
    · by_cases hl : rest.length < fb % 4
      · simp [hk, hl] at h
      · simp only [hk, hl, if_false] at h
        have hdl : (rest.drop (fb % 4)).length = rest.length - fb % 4 := List.length_drop
        cases hf : decodeFmt? (fb / 4) with
        | none => simp [hf] at h
        | some f =>
          simp only [hf] at h
          cases f with
          | list =>
            simp only at h
            cases hd : decItems fuel (beDec (rest.take (fb % 4))) (rest.drop (fb % 4)) with
            | none => simp [hd] at h
            | some q =>
              obtain ⟨xs, r'⟩ := q
              simp only [hd, Option.some.injEq, Prod.mk.injEq] at h
              have := szs_le_of_decs fuel _ _ xs r' hd
              rw [← h.1, ← h.2]
              simp only [Tmpl.sz, List.length_cons]
              have hk1 : 1 ≤ fb % 4 := by omega
              omega
          | _ =>
            simp only at h
            split at h
            · cases h
            · split at h
              · cases h
              · rename_i t' hd
                simp only [Option.some.injEq, Prod.mk.injEq] at h
                rw [← h.1]
                have : t'.sz = 1 := by
                  cases t' <;> first | rfl | (simp [decPayload] at hd) | skip
                  all_goals (first | rfl | (exfalso; revert hd; simp [decPayload]; try (split <;> simp)))
                rename_i hn _
                have hdn : ((rest.drop (fb % 4)).drop (beDec (rest.take (fb % 4)))).length
                    = (rest.drop (fb % 4)).length - beDec (rest.take (fb % 4)) := List.length_drop
                have hk1 : 1 ≤ fb % 4 := by omega
                rw [← h.2, this]
                simp only [List.length_cons]
                omega
theorem szs_le_of_decs : ∀ (fuel n : Nat) (inp : Bytes) (xs : Slots) (r : Bytes),
    decItems fuel n inp = some (xs, r) → xs.szs + r.length ≤ inp.length
  | _, 0, inp, xs, r, h => by simp [decItems] at h; rw [← h.1, ← h.2]; simp [Slots.szs]
  | 0, _ + 1, _, _, _, h => by simp [decItems] at h
  | fuel + 1, n + 1, inp, xs, r, h => by
    rw [decItems] at h
    cases h1 : decItem fuel inp with
    | none => simp [h1] at h
    | some q =>
      obtain ⟨x, r1⟩ := q
      simp only [h1] at h
      cases h2 : decItems fuel n r1 with
      | none => simp [h2] at h
      | some q2 =>
        obtain ⟨ys, r2⟩ := q2
        simp only [h2, Option.some.injEq, Prod.mk.injEq] at h
        have a := sz_le_of_dec fuel inp x r1 h1
        have b := szs_le_of_decs fuel n r1 ys r2 h2
        rw [← h.1, ← h.2]
        simp only [Slots.szs]
        omega
end

end Secs
