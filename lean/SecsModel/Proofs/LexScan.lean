/-
Lexer locality, part 2: the remaining scanners. On a text that ends with a line feed every scanner
has decided what it returns before it could look past that line feed (`*_lf`), and what it
consumed ends before the line feed (`*_len`).
-/
import SecsModel.Proofs.LexLocal
namespace Secs
namespace Lex

/-- a non-empty rest of a text that ends with a line feed ends with it too -/
theorem EndsLF.of_append {pre rest : Bytes} (h : EndsLF (pre ++ rest)) (hr : rest ≠ []) : EndsLF rest := by
  have := endsLF_of_drop (pre ++ rest) pre.length h (by simpa using hr)
  simpa using this

theorem EndsLF.length_pos {x : Bytes} (h : EndsLF x) : 0 < x.length := by
  obtain ⟨pre, rfl⟩ := h; simp

theorem EndsLF.cons_ne {c : Nat} {r : Bytes} (h : EndsLF (c :: r)) (hc : c ≠ 10) : EndsLF r :=
  endsLF_tail_of_ne h hc

/-- a scan that cannot pass a line feed: result, rest and lengths -/
theorem spanB_lf' (p : Nat → Bool) (hp : p 10 = false) (x b : Bytes) (h : EndsLF x) :
    spanB p (x ++ b) = ((spanB p x).1, (spanB p x).2 ++ b) ∧ EndsLF (spanB p x).2 ∧
      (spanB p x).1.length + (spanB p x).2.length = x.length := by
  obtain ⟨h1, h2⟩ := spanB_lf p hp x b h
  have hs := (spanB_spec p x).1
  refine ⟨h1, ?_, ?_⟩
  · have : EndsLF ((spanB p x).1 ++ (spanB p x).2) := by rw [hs]; exact h
    exact this.of_append h2
  · have := congrArg List.length hs
    simpa using this

/-! ### direction -/

def dirTail (h : Nat) (r : Bytes) : Option Bytes :=
  match r with
  | 45 :: 62 :: e :: _ => if e == 69 || e == 101 then some [h, 45, 62, e] else none
  | 60 :: 45 :: 62 :: e :: _ => if e == 69 || e == 101 then some [h, 60, 45, 62, e] else none
  | 60 :: 45 :: e :: _ => if e == 69 || e == 101 then some [h, 60, 45, e] else none
  | _ => none

theorem matchDir_cons (h : Nat) (r : Bytes) : matchDir (h :: r) = if h == 72 || h == 104 then dirTail h r else none := rfl

theorem dirTail_lf (h : Nat) (x b : Bytes) (hx : EndsLF x) : dirTail h (x ++ b) = dirTail h x := by
  obtain ⟨pre, rfl⟩ := hx
  rcases pre with _ | ⟨c0, _ | ⟨c1, _ | ⟨c2, _ | ⟨c3, r⟩⟩⟩⟩
  · rcases b with _ | ⟨b0, _ | ⟨b1, _ | ⟨b2, b'⟩⟩⟩ <;> simp [dirTail]
  · rcases b with _ | ⟨b0, _ | ⟨b1, b'⟩⟩ <;>
    · simp only [List.cons_append, List.nil_append, dirTail]
      repeat' split
      all_goals first | (simp_all; done) | (simp_all; omega) | grind
  · rcases b with _ | ⟨b0, b'⟩ <;>
    · simp only [List.cons_append, List.nil_append, dirTail]
      repeat' split
      all_goals first | (simp_all; done) | (simp_all; omega) | grind
  · rcases b with _ | ⟨b0, b'⟩ <;>
    · simp only [List.cons_append, List.nil_append, dirTail]
      repeat' split
      all_goals first | (simp_all; done) | (simp_all; omega) | grind
  · simp only [List.cons_append, dirTail]
    repeat' split
    all_goals first | (simp_all; done) | (simp_all; omega) | grind

theorem matchDir_lf (x b : Bytes) (h : EndsLF x) : matchDir (x ++ b) = matchDir x := by
  cases x with
  | nil => exact absurd rfl h.ne_nil
  | cons c r =>
    rw [List.cons_append, matchDir_cons, matchDir_cons]
    split
    · rename_i hc
      have hc10 : c ≠ 10 := by intro h10; subst h10; simp at hc
      exact dirTail_lf c r b (h.cons_ne hc10)
    · rfl

/-- what the direction matcher returns is shorter than a text that ends with a line feed -/
theorem matchDir_len (x v : Bytes) (h : EndsLF x) (hm : matchDir x = some v) : v.length < x.length := by
  obtain ⟨pre, rfl⟩ := h
  rcases pre with _ | ⟨c0, _ | ⟨c1, _ | ⟨c2, _ | ⟨c3, _ | ⟨c4, r⟩⟩⟩⟩⟩
  all_goals
    simp only [List.cons_append, List.nil_append, matchDir] at hm
    repeat' split at hm
    all_goals first | (simp_all; done) | (simp_all; omega) | grind

theorem matchSF_len (x v : Bytes) (h : EndsLF x) (hm : matchSF x = some v) : v.length < x.length := by
  cases x with
  | nil => exact absurd rfl h.ne_nil
  | cons c r =>
    simp only [matchSF] at hm
    split at hm
    · rename_i hc
      have hc10 : c ≠ 10 := by intro h10; subst h10; simp at hc
      have hr := h.cons_ne hc10
      obtain ⟨_, e1, l1⟩ := spanB_lf' isDigitB (by decide) r [] hr
      split at hm
      · cases hm
      · cases hr1 : (spanB isDigitB r).2 with
        | nil => rw [hr1] at e1; exact absurd rfl e1.ne_nil
        | cons f r2 =>
          rw [hr1] at hm e1 l1
          simp only at hm
          split at hm
          · rename_i hf
            have hf10 : f ≠ 10 := by intro h10; subst h10; simp at hf
            obtain ⟨_, e2, l2⟩ := spanB_lf' isDigitB (by decide) r2 [] (e1.cons_ne hf10)
            split at hm
            · cases hm
            · injection hm with hm
              subst hm
              have := e2.length_pos
              simp at l1 ⊢
              omega
          · cases hm
    · cases hm

theorem matchW_len (x v : Bytes) (h : EndsLF x) (hm : matchW x = some v) : v.length < x.length := by
  obtain ⟨pre, rfl⟩ := h
  rcases pre with _ | ⟨c0, _ | ⟨c1, _ | ⟨c2, r⟩⟩⟩
  all_goals
    simp only [List.cons_append, List.nil_append, matchW] at hm
    repeat' split at hm
    all_goals first | (simp_all; done) | (simp_all; omega) | grind

open Utf8 in
/-- the first rune of a text that ends with a line feed (and does not start with it) ends before it -/
theorem decodeRune_width_lt (c : Nat) (r : Bytes) (h : EndsLF (c :: r)) (hc : c ≠ 10) :
    (decodeRune (c :: r)).2 < (c :: r).length := by
  have hr := h.cons_ne hc
  obtain ⟨pre, rfl⟩ := hr
  have hlf : isCont 10 = false := by decide
  rcases pre with _ | ⟨b1, _ | ⟨b2, _ | ⟨b3, r'⟩⟩⟩
  all_goals
    simp only [List.cons_append, List.nil_append, decodeRune]
    repeat' split
    all_goals first | (simp_all; done) | (simp_all; omega) | grind

open Utf8 in
theorem scanName_lf (b : Bytes) : ∀ (f2 : Nat) (y : Bytes), y.length ≤ f2 → EndsLF y →
    ∀ f1, (y ++ b).length ≤ f1 → scanName f1 (y ++ b) = scanName f2 y ∧ (scanName f2 y).length < y.length
  | 0, y, hf, h => by have := h.length_pos; omega
  | f2 + 1, y, hf, h => by
    intro f1 hf1
    cases y with
    | nil => exact absurd rfl h.ne_nil
    | cons c r =>
      cases f1 with
      | zero => simp at hf1
      | succ f1 =>
        simp only [List.cons_append, scanName]
        rw [← List.cons_append, decodeRune_lf (c :: r) b h, startsWith_comment_lf (c :: r) b h]
        split
        · simp
        · rename_i hsp
          split
          · simp
          · have hc : c ≠ 10 := by
              intro h10; subst h10
              simp [decodeRune, isSpace] at hsp
            have hw := decodeRune_width_lt c r h hc
            have hpos := decodeRune_width_pos c r
            have hd : EndsLF ((c :: r).drop (decodeRune (c :: r)).2) := h.drop _ hw
            have hdl : ((c :: r).drop (decodeRune (c :: r)).2).length ≤ f2 := by
              simp only [List.length_drop, List.length_cons] at hf ⊢; omega
            have hda : ((c :: r) ++ b).drop (decodeRune (c :: r)).2 = (c :: r).drop (decodeRune (c :: r)).2 ++ b :=
              List.drop_append_of_le_length (by omega)
            have hta : ((c :: r) ++ b).take (decodeRune (c :: r)).2 = (c :: r).take (decodeRune (c :: r)).2 :=
              List.take_append_of_le_length (by omega)
            obtain ⟨e1, e2⟩ := scanName_lf b f2 _ hdl hd f1 (by
              rw [← hda]; simp only [List.length_drop, List.length_append, List.length_cons] at hf1 ⊢; omega)
            rw [hda, hta, e1]
            refine ⟨rfl, ?_⟩
            simp only [List.length_append, List.length_take, List.length_drop, List.length_cons] at e2 ⊢
            omega

/-! ### one step, positions aside -/
open Utf8 in
/-- what the header state does with the unread input `s`, positions aside: kind, value, consumed
text and the mode after the token (`none`: end of input) -/
def hdrScan (s : Bytes) : Option (Kind × Bytes × Bytes × Mode) :=
  match s with
  | [] => none
  | b :: _ =>
    if startsWith [47, 47] s then some (.comment, (scanComment s).1, (scanComment s).1, .header)
    else match matchSF s with
    | some v => some (.streamFunction, upper v, v, .header)
    | none =>
    match matchW s with
    | some v => some (.waitBit, upper v, v, .header)
    | none =>
    match matchDir s with
    | some v => some (.direction, upper v, v, .header)
    | none =>
      if b == 46 then some (.msgEnd, [46], [46], .header)
      else if b == 60 then some (.lab, [60], [60], .text)
      else
        let name := s.take (max (decodeRune s).2 1) ++ scanName s.length (s.drop (max (decodeRune s).2 1))
        some (.msgName, name, name, .header)

theorem stepHeader_scan (p : Pos) :
    stepHeader p = match hdrScan p.rest with
      | none => .last (mkTok .eof [69, 79, 70] p)
      | some (k, v, raw, m) => emit k v raw m p := by
  unfold stepHeader hdrScan
  dsimp only
  cases hr : p.rest with
  | nil => rfl
  | cons b r =>
    dsimp only
    by_cases h1 : startsWith [47, 47] (b :: r) = true
    · simp only [h1, if_true]
    · simp only [h1, Bool.false_eq_true, if_false]
      cases matchSF (b :: r) with
      | some v => rfl
      | none =>
        dsimp only
        cases matchW (b :: r) with
        | some v => rfl
        | none =>
          dsimp only
          cases matchDir (b :: r) with
          | some v => rfl
          | none =>
            dsimp only
            by_cases h2 : (b == 46) = true
            · simp only [h2, if_true]
            · simp only [h2, Bool.false_eq_true, if_false]
              by_cases h3 : (b == 60) = true
              · simp only [h3, if_true]
              · simp only [h3, Bool.false_eq_true, if_false]

/-- the outcomes of a step in the text state -/
inductive TScan where
  | eof
  | err (e : LexErr)
  | tok (k : Kind) (v raw : Bytes) (m : Mode)

def txtScan (ual : List Nat) (s : Bytes) : TScan :=
  match s with
  | [] => .eof
  | b :: _ =>
    if startsWith [47, 47] s then .tok .comment (scanComment s).1 (scanComment s).1 .text
    else match matchEllipsis s with
    | some v => .tok .ellipsis v v .text
    | none =>
    match matchWord s with
    | some w =>
      if typeKeywords.contains (upper w) then .tok .itemType (upper w) w .text
      else if boolKeywords.contains (upper w) then .tok .bool (upper w) w .text
      else .tok .variable (w ++ matchIdxs s.length (s.drop w.length)) (w ++ matchIdxs s.length (s.drop w.length)) .text
    | none =>
      if startsNumber s then
        if nextIsAlnum ual (s.drop (scanNumber s).length) then .err .badNumber
        else .tok .number (scanNumber s) (scanNumber s) .text
      else if b == 60 then .tok .lab [60] [60] .text
      else if b == 62 then .tok .rab [62] [62] .text
      else if b == 46 then .tok .msgEnd [46] [46] .header
      else if b == 91 then
        match scanSize s with
        | some raw => .tok .itemSize (raw.filter (fun c => !isBlank c)) raw .text
        | none => .err .badSize
      else if b == 34 then
        match scanQuoted s with
        | some raw => .tok .quoted raw raw .text
        | none => .err .unclosedString
      else .err .unexpectedChar

theorem stepText_scan (ual : List Nat) (p : Pos) :
    stepText ual p = match txtScan ual p.rest with
      | .eof => .last (mkTok .eof [69, 79, 70] p)
      | .err e => .last (mkErr e p)
      | .tok k v raw m => emit k v raw m p := by
  unfold stepText txtScan
  dsimp only
  cases hr : p.rest with
  | nil => rfl
  | cons b r =>
    dsimp only
    by_cases h1 : startsWith [47, 47] (b :: r) = true
    · simp only [h1, if_true]
    · simp only [h1, Bool.false_eq_true, if_false]
      cases matchEllipsis (b :: r) with
      | some v => rfl
      | none =>
        dsimp only
        cases matchWord (b :: r) with
        | some w =>
          dsimp only
          by_cases h2 : typeKeywords.contains (upper w) = true
          · simp only [h2, if_true]
          · simp only [h2, Bool.false_eq_true, if_false]
            by_cases h3 : boolKeywords.contains (upper w) = true
            · simp only [h3, if_true]
            · simp only [h3, Bool.false_eq_true, if_false]
        | none =>
          dsimp only
          by_cases h4 : startsNumber (b :: r) = true
          · simp only [h4, if_true]
            by_cases h5 : nextIsAlnum ual ((b :: r).drop (scanNumber (b :: r)).length) = true
            · simp only [h5, if_true]
            · simp only [h5, Bool.false_eq_true, if_false]
          · simp only [h4, Bool.false_eq_true, if_false]
            by_cases h6 : (b == 60) = true
            · simp only [h6, if_true]
            · simp only [h6, Bool.false_eq_true, if_false]
              by_cases h7 : (b == 62) = true
              · simp only [h7, if_true]
              · simp only [h7, Bool.false_eq_true, if_false]
                by_cases h8 : (b == 46) = true
                · simp only [h8, if_true]
                · simp only [h8, Bool.false_eq_true, if_false]
                  by_cases h9 : (b == 91) = true
                  · simp only [h9, if_true]
                    cases scanSize (b :: r) <;> rfl
                  · simp only [h9, Bool.false_eq_true, if_false]
                    by_cases h10 : (b == 34) = true
                    · simp only [h10, if_true]
                      cases scanQuoted (b :: r) <;> rfl
                    · simp only [h10, Bool.false_eq_true, if_false]

/-- the mode after a token of kind `k` emitted in mode `m` -/
def nextMode (m : Mode) (k : Kind) : Mode :=
  match k with
  | .msgEnd => .header
  | .lab => .text
  | _ => m

theorem scanComment_len (x : Bytes) (h : EndsLF x) : (scanComment x).1.length < x.length := by
  obtain ⟨_, h2, h3⟩ := scanComment_lf x [] h
  unfold scanComment at h2 ⊢
  generalize spanB (fun x => x != 10) x = sp at *
  obtain ⟨body, rr⟩ := sp
  cases rr with
  | nil => simp at h2
  | cons d r' =>
    simp only at h3 ⊢
    obtain ⟨t, ht, _⟩ := trimRight_split (fun b => b == 32 || b == 9 || b == 13) body
    have := congrArg List.length ht
    simp only [List.length_append] at this
    omega

open Utf8 in
theorem hdrScan_lf (c : Nat) (r b : Bytes) (h : EndsLF (c :: r)) (hc : c ≠ 10) :
    hdrScan (c :: r ++ b) = hdrScan (c :: r) ∧
    ∃ k v raw m, hdrScan (c :: r) = some (k, v, raw, m) ∧ raw.length < (c :: r).length ∧ raw ≠ [] ∧ m = nextMode .header k := by
  have e1 : startsWith [47, 47] (c :: (r ++ b)) = startsWith [47, 47] (c :: r) := startsWith_comment_lf (c :: r) b h
  have e2 : scanComment (c :: (r ++ b)) = scanComment (c :: r) := (scanComment_lf (c :: r) b h).1
  have e3 : matchSF (c :: (r ++ b)) = matchSF (c :: r) := matchSF_lf (c :: r) b h
  have e4 : matchW (c :: (r ++ b)) = matchW (c :: r) := matchW_lf (c :: r) b h
  have e5 : matchDir (c :: (r ++ b)) = matchDir (c :: r) := matchDir_lf (c :: r) b h
  have e6 : decodeRune (c :: (r ++ b)) = decodeRune (c :: r) := decodeRune_lf (c :: r) b h
  have hw := decodeRune_width_lt c r h hc
  have hpos := decodeRune_width_pos c r
  have hmax : max (decodeRune (c :: r)).2 1 = (decodeRune (c :: r)).2 := by omega
  have hd : EndsLF ((c :: r).drop (decodeRune (c :: r)).2) := h.drop _ hw
  have e7 : (c :: (r ++ b)).take (decodeRune (c :: r)).2 = (c :: r).take (decodeRune (c :: r)).2 :=
    List.take_append_of_le_length (l₁ := c :: r) (by omega)
  have e8 : (c :: (r ++ b)).drop (decodeRune (c :: r)).2 = (c :: r).drop (decodeRune (c :: r)).2 ++ b :=
    List.drop_append_of_le_length (l₁ := c :: r) (by omega)
  obtain ⟨e9, l9⟩ := scanName_lf b (c :: r).length _ (by simp) hd (c :: (r ++ b)).length (by
    rw [← e8]; simp)
  unfold hdrScan
  simp only [List.cons_append, e1, e2, e3, e4, e5, e6, hmax, e7, e8, e9]
  refine ⟨trivial, ?_⟩
  by_cases h1 : startsWith [47, 47] (c :: r) = true
  · simp only [h1, if_true]
    exact ⟨_, _, _, _, rfl, scanComment_len _ h, scanComment_ne_nil _ h1, rfl⟩
  · simp only [h1, Bool.false_eq_true, if_false]
    cases h2 : matchSF (c :: r) with
    | some v => exact ⟨_, _, _, _, rfl, matchSF_len _ _ h h2, matchSF_ne_nil _ _ h2, rfl⟩
    | none =>
      dsimp only
      cases h3 : matchW (c :: r) with
      | some v => exact ⟨_, _, _, _, rfl, matchW_len _ _ h h3, matchW_ne_nil _ _ h3, rfl⟩
      | none =>
        dsimp only
        cases h4 : matchDir (c :: r) with
        | some v => exact ⟨_, _, _, _, rfl, matchDir_len _ _ h h4, matchDir_ne_nil _ _ h4, rfl⟩
        | none =>
          dsimp only
          have hlen : 1 < (c :: r).length := by
            have := (h.cons_ne hc).length_pos; simp; omega
          by_cases h5 : (c == 46) = true
          · simp only [h5, if_true]
            exact ⟨_, _, _, _, rfl, by simpa using hlen, by simp, rfl⟩
          · simp only [h5, Bool.false_eq_true, if_false]
            by_cases h6 : (c == 60) = true
            · simp only [h6, if_true]
              exact ⟨_, _, _, _, rfl, by simpa using hlen, by simp, rfl⟩
            · simp only [h6, Bool.false_eq_true, if_false]
              refine ⟨_, _, _, _, rfl, ?_, ?_, rfl⟩
              · simp only [List.length_append, List.length_take, List.length_drop] at l9 ⊢
                omega
              · intro hnil
                have := List.append_eq_nil_iff.mp hnil
                exact take_ne_nil (c :: r) _ (by simp) hpos this.1

/-! ### the scanners of the text state -/
section
open Utf8
theorem matchIdx_lf (x b : Bytes) (h : EndsLF x) :
    matchIdx (x ++ b) = matchIdx x ∧ ∀ g, matchIdx x = some g → g.length < x.length ∧ g ≠ [] := by
  cases x with
  | nil => exact absurd rfl h.ne_nil
  | cons c r =>
    by_cases hc : c = 91
    · subst hc
      have hr := h.cons_ne (by decide)
      obtain ⟨s1, e1, l1⟩ := spanB_lf' isDigitB (by decide) r b hr
      simp only [List.cons_append, matchIdx, s1]
      cases hr1 : (spanB isDigitB r).2 with
      | nil => rw [hr1] at e1; exact absurd rfl e1.ne_nil
      | cons f r2 =>
        rw [hr1] at l1 e1
        simp only [List.cons_append]
        refine ⟨?_, ?_⟩
        · split
          · rfl
          · split <;> split <;> simp_all
        · intro g hg
          split at hg
          · cases hg
          · split at hg
            · rename_i heq
              injection hg with hg
              subst hg
              injection heq with h93 _
              subst h93
              have := (e1.cons_ne (by decide)).length_pos
              simp at l1 ⊢
              omega
            · cases hg
    · have : ∀ t, matchIdx (c :: t) = none := by
        intro t
        unfold matchIdx
        split
        · rename_i heq; injection heq with h1 _; exact absurd h1 hc
        · rfl
      simp [this]

theorem matchIdxs_lf (b : Bytes) : ∀ (f2 : Nat) (y : Bytes), y.length ≤ f2 → EndsLF y →
    ∀ f1, (y ++ b).length ≤ f1 → matchIdxs f1 (y ++ b) = matchIdxs f2 y ∧ (matchIdxs f2 y).length < y.length
  | 0, y, hf, h => by have := h.length_pos; omega
  | f2 + 1, y, hf, h => by
    intro f1 hf1
    cases f1 with
    | zero => simp at hf1; exact absurd hf1.1 h.ne_nil
    | succ f1 =>
      obtain ⟨e1, e2⟩ := matchIdx_lf y b h
      simp only [matchIdxs, e1]
      cases hg : matchIdx y with
      | none => exact ⟨rfl, h.length_pos⟩
      | some g =>
        obtain ⟨gl, gne⟩ := e2 g hg
        have gpos : 0 < g.length := List.length_pos_iff.mpr gne
        simp only
        have hd : EndsLF (y.drop g.length) := h.drop _ gl
        have hda : (y ++ b).drop g.length = y.drop g.length ++ b := List.drop_append_of_le_length (by omega)
        obtain ⟨i1, i2⟩ := matchIdxs_lf b f2 (y.drop g.length) (by simp; omega) hd f1 (by
          rw [← hda]; simp at hf1 ⊢; omega)
        rw [hda, i1]
        refine ⟨rfl, ?_⟩
        simp only [List.length_append, List.length_drop] at i2 ⊢
        omega

theorem matchEllipsis_lf (x b : Bytes) (h : EndsLF x) :
    matchEllipsis (x ++ b) = matchEllipsis x ∧ ∀ v, matchEllipsis x = some v → v.length < x.length := by
  have hno : ∀ s : Bytes, (∀ t, s ≠ 46 :: 46 :: 46 :: t) → matchEllipsis s = none := by
    intro s hs
    unfold matchEllipsis
    split
    · rename_i r; exact absurd rfl (hs r)
    · rfl
  by_cases hx : ∃ t, x = 46 :: 46 :: 46 :: t
  · obtain ⟨t, rfl⟩ := hx
    have ht : EndsLF t := ((h.cons_ne (by decide)).cons_ne (by decide)).cons_ne (by decide)
    obtain ⟨e1, e2⟩ := matchIdx_lf t b ht
    simp only [List.cons_append, matchEllipsis, e1]
    refine ⟨trivial, ?_⟩
    intro v hv
    injection hv with hv
    subst hv
    cases hg : matchIdx t with
    | none => have := ht.length_pos; simp; omega
    | some g => have := (e2 g hg).1; simp; omega
  · have hx' : ∀ t, x ≠ 46 :: 46 :: 46 :: t := fun t ht => hx ⟨t, ht⟩
    have hxb : ∀ t, x ++ b ≠ 46 :: 46 :: 46 :: t := by
      intro t ht
      obtain ⟨pre, rfl⟩ := h
      rcases pre with _ | ⟨c0, _ | ⟨c1, _ | ⟨c2, r⟩⟩⟩
      · simp at ht
      · simp at ht
      · simp at ht
      · simp at ht
        exact hx' (r ++ [10]) (by simp [ht.1, ht.2.1, ht.2.2.1])
    rw [hno _ hx', hno _ hxb]
    exact ⟨rfl, fun v hv => by cases hv⟩

theorem matchWord_lf (x b : Bytes) (h : EndsLF x) :
    matchWord (x ++ b) = matchWord x ∧ ∀ w, matchWord x = some w → w.length < x.length := by
  cases x with
  | nil => exact absurd rfl h.ne_nil
  | cons c r =>
    simp only [List.cons_append, matchWord]
    by_cases hc : isIdentStartB c = true
    · have hc10 : c ≠ 10 := by intro h10; subst h10; exact absurd hc (by decide)
      obtain ⟨s1, e1, l1⟩ := spanB_lf' isWordB (by decide) r b (h.cons_ne hc10)
      simp only [hc, if_true, s1]
      refine ⟨trivial, ?_⟩
      intro w hw
      injection hw with hw
      subst hw
      have := e1.length_pos
      simp
      omega
    · simp [hc]

theorem startsNumber_lf (x b : Bytes) (h : EndsLF x) : startsNumber (x ++ b) = startsNumber x := by
  obtain ⟨pre, rfl⟩ := h
  rcases pre with _ | ⟨c0, _ | ⟨c1, r⟩⟩
  · cases b <;> simp [startsNumber, isDigitB]
  · simp [startsNumber]
  · simp [startsNumber]

theorem nextIsAlnum_lf (ual : List Nat) (x b : Bytes) (h : EndsLF x) : nextIsAlnum ual (x ++ b) = nextIsAlnum ual x := by
  cases x with
  | nil => exact absurd rfl h.ne_nil
  | cons c r =>
    have := decodeRune_lf (c :: r) b h
    simp only [List.cons_append] at this
    simp only [List.cons_append, nextIsAlnum, this]
end

/-! ### numbers: the scanner in stages -/
def numSign (s : Bytes) : Bytes × Bytes :=
  match s with
  | 43 :: r => ([43], r)
  | 45 :: r => ([45], r)
  | _ => ([], s)

def isBinB (b : Nat) : Bool := b == 48 || b == 49
def isOctB (b : Nat) : Bool := 48 ≤ b && b ≤ 55

def numPre (s1 : Bytes) : Bytes × (Nat → Bool) × Bytes :=
  match s1 with
  | 48 :: r =>
    match r with
    | 120 :: r' => ([48, 120], isHexB, r')
    | 88 :: r' => ([48, 88], isHexB, r')
    | 98 :: r' => ([48, 98], (fun b => b == 48 || b == 49), r')
    | 66 :: r' => ([48, 66], (fun b => b == 48 || b == 49), r')
    | 111 :: r' => ([48, 111], (fun b => 48 ≤ b && b ≤ 55), r')
    | 79 :: r' => ([48, 79], (fun b => 48 ≤ b && b ≤ 55), r')
    | _ => ([48], isDigitB, r)
  | _ => ([], isDigitB, s1)

def numFrac (dp : Nat → Bool) (s3 : Bytes) : Bytes × Bytes :=
  match s3 with
  | 46 :: r => (46 :: (spanB dp r).1, (spanB dp r).2)
  | _ => ([], s3)

def numExp (s4 : Bytes) : Bytes :=
  match s4 with
  | e :: r =>
    if e == 101 || e == 69 then
      let (sg, r1) := match r with
        | 43 :: r' => ([43], r')
        | 45 :: r' => ([45], r')
        | _ => ([], r)
      e :: sg ++ (spanB isDigitB r1).1
    else []
  | [] => []

theorem scanNumber_staged (s : Bytes) :
    scanNumber s =
      (numSign s).1 ++ (numPre (numSign s).2).1 ++ (spanB (numPre (numSign s).2).2.1 (numPre (numSign s).2).2.2).1 ++
        (numFrac (numPre (numSign s).2).2.1 (spanB (numPre (numSign s).2).2.1 (numPre (numSign s).2).2.2).2).1 ++
        numExp (numFrac (numPre (numSign s).2).2.1 (spanB (numPre (numSign s).2).2.1 (numPre (numSign s).2).2.2).2).2 := by
  unfold scanNumber numSign numPre numFrac numExp
  rfl

theorem endsLF_snoc (r : Bytes) : EndsLF (r ++ [10]) := ⟨r, rfl⟩
theorem endsLF_single : EndsLF [10] := ⟨[], rfl⟩

theorem numSign_lf (x b : Bytes) (h : EndsLF x) :
    numSign (x ++ b) = ((numSign x).1, (numSign x).2 ++ b) ∧ EndsLF (numSign x).2 ∧
      (numSign x).1.length + (numSign x).2.length = x.length := by
  cases x with
  | nil => exact absurd rfl h.ne_nil
  | cons c r =>
    by_cases h43 : c = 43
    · subst h43; exact ⟨rfl, h.cons_ne (by decide), by simp [numSign]; omega⟩
    · by_cases h45 : c = 45
      · subst h45; exact ⟨rfl, h.cons_ne (by decide), by simp [numSign]; omega⟩
      · have : ∀ t, numSign (c :: t) = ([], c :: t) := by
          intro t; unfold numSign; split <;> simp_all
        rw [List.cons_append, this, this]
        exact ⟨rfl, h, by simp⟩

theorem numPre_cons (c0 : Nat) (t : Bytes) (h0 : c0 ≠ 48) : numPre (c0 :: t) = ([], isDigitB, c0 :: t) := by
  unfold numPre; split <;> simp_all

theorem numPre_48 (c1 : Nat) (t : Bytes) :
    numPre (48 :: c1 :: t) =
      if c1 = 120 then ([48, 120], isHexB, t) else if c1 = 88 then ([48, 88], isHexB, t)
      else if c1 = 98 then ([48, 98], (fun b => b == 48 || b == 49), t) else if c1 = 66 then ([48, 66], (fun b => b == 48 || b == 49), t)
      else if c1 = 111 then ([48, 111], (fun b => 48 ≤ b && b ≤ 55), t) else if c1 = 79 then ([48, 79], (fun b => 48 ≤ b && b ≤ 55), t)
      else ([48], isDigitB, c1 :: t) := by
  simp only [numPre]
  split <;> simp_all

theorem numPre_lf (x b : Bytes) (h : EndsLF x) :
    numPre (x ++ b) = ((numPre x).1, (numPre x).2.1, (numPre x).2.2 ++ b) ∧ EndsLF (numPre x).2.2 ∧
      (numPre x).1.length + (numPre x).2.2.length = x.length ∧ (numPre x).2.1 10 = false := by
  obtain ⟨pre, rfl⟩ := h
  rcases pre with _ | ⟨c0, _ | ⟨c1, r⟩⟩
  · refine ⟨?_, ?_, ?_, ?_⟩ <;> simp [numPre, endsLF_single] <;> decide
  · by_cases h0 : c0 = 48
    · subst h0
      refine ⟨?_, ?_, ?_, ?_⟩ <;> simp [numPre, endsLF_single] <;> decide
    · simp only [List.cons_append, List.nil_append, numPre_cons _ _ h0]
      exact ⟨trivial, endsLF_snoc [c0], by simp, by decide⟩
  · by_cases h0 : c0 = 48
    · subst h0
      simp only [List.cons_append, numPre_48]
      have e : ∀ l : Bytes, EndsLF (l ++ [10]) := endsLF_snoc
      repeat' split
      all_goals
        refine ⟨?_, ?_, ?_, ?_⟩
        all_goals first | rfl | decide | exact endsLF_snoc _ | exact endsLF_snoc (_ :: _) | (simp; done) | (simp; omega)
    · simp only [List.cons_append, numPre_cons _ _ h0]
      exact ⟨trivial, endsLF_snoc (c0 :: c1 :: r), by simp, by decide⟩

theorem numFrac_lf (dp : Nat → Bool) (hdp : dp 10 = false) (x b : Bytes) (h : EndsLF x) :
    numFrac dp (x ++ b) = ((numFrac dp x).1, (numFrac dp x).2 ++ b) ∧ EndsLF (numFrac dp x).2 ∧
      (numFrac dp x).1.length + (numFrac dp x).2.length = x.length := by
  cases x with
  | nil => exact absurd rfl h.ne_nil
  | cons c r =>
    by_cases hc : c = 46
    · subst hc
      obtain ⟨s1, e1, l1⟩ := spanB_lf' dp hdp r b (h.cons_ne (by decide))
      simp only [List.cons_append, numFrac, s1]
      exact ⟨trivial, e1, by simp; omega⟩
    · have : ∀ t, numFrac dp (c :: t) = ([], c :: t) := by
        intro t; unfold numFrac; split <;> simp_all
      rw [List.cons_append, this, this]
      exact ⟨rfl, h, by simp⟩

def expSign (r : Bytes) : Bytes × Bytes :=
  match r with
  | 43 :: r' => ([43], r')
  | 45 :: r' => ([45], r')
  | _ => ([], r)

theorem numExp_cons (e : Nat) (r : Bytes) :
    numExp (e :: r) = if e == 101 || e == 69 then e :: (expSign r).1 ++ (spanB isDigitB (expSign r).2).1 else [] := by
  unfold numExp expSign
  rfl

theorem expSign_lf (x b : Bytes) (h : EndsLF x) :
    expSign (x ++ b) = ((expSign x).1, (expSign x).2 ++ b) ∧ EndsLF (expSign x).2 ∧
      (expSign x).1.length + (expSign x).2.length = x.length := by
  have := numSign_lf x b h
  exact this

theorem numExp_lf (x b : Bytes) (h : EndsLF x) : numExp (x ++ b) = numExp x ∧ (numExp x).length < x.length := by
  cases x with
  | nil => exact absurd rfl h.ne_nil
  | cons e r =>
    rw [List.cons_append, numExp_cons, numExp_cons]
    split
    · rename_i he
      have he10 : e ≠ 10 := by intro h10; subst h10; simp at he
      obtain ⟨s1, e1, l1⟩ := expSign_lf r b (h.cons_ne he10)
      obtain ⟨s2, e2, l2⟩ := spanB_lf' isDigitB (by decide) _ b e1
      rw [s1]
      simp only [s2]
      refine ⟨trivial, ?_⟩
      have := e2.length_pos
      simp only [List.length_cons, List.length_append]
      omega
    · exact ⟨rfl, by simp⟩

theorem scanNumber_lf (x b : Bytes) (h : EndsLF x) :
    scanNumber (x ++ b) = scanNumber x ∧ (scanNumber x).length < x.length := by
  rw [scanNumber_staged, scanNumber_staged]
  obtain ⟨s1, e1, l1⟩ := numSign_lf x b h
  rw [s1]
  simp only
  obtain ⟨s2, e2, l2, hdp⟩ := numPre_lf _ b e1
  rw [s2]
  simp only
  obtain ⟨s3, e3, l3⟩ := spanB_lf' _ hdp _ b e2
  rw [s3]
  simp only
  obtain ⟨s4, e4, l4⟩ := numFrac_lf _ hdp _ b e3
  rw [s4]
  simp only
  obtain ⟨s5, l5⟩ := numExp_lf _ b e4
  rw [s5]
  refine ⟨rfl, ?_⟩
  simp only [List.length_append]
  omega

/-! ### strings and size declarations: a scan that succeeded is not changed by more input -/
theorem indexOf_spec (p : Nat → Bool) : ∀ (r : Bytes) (i : Nat), indexOf p r = some i →
    ∃ pre c post, r = pre ++ c :: post ∧ pre.length = i ∧ p c = true ∧ ∀ x ∈ pre, p x = false
  | [], i, h => by simp [indexOf] at h
  | a :: r, i, h => by
    unfold indexOf at h
    split at h
    · rename_i ha
      injection h with h; subst h
      exact ⟨[], a, r, rfl, rfl, ha, by simp⟩
    · rename_i ha
      cases hr : indexOf p r with
      | none => rw [hr] at h; simp at h
      | some j =>
        rw [hr] at h
        simp at h
        obtain ⟨pre, c, post, e1, e2, e3, e4⟩ := indexOf_spec p r j hr
        refine ⟨a :: pre, c, post, by simp [e1], by simp [e2, h], e3, ?_⟩
        intro x hx
        rcases List.mem_cons.mp hx with rfl | hx
        · simpa using ha
        · exact e4 x hx

theorem indexOf_append_some (p : Nat → Bool) (b : Bytes) : ∀ (r : Bytes) (i : Nat), indexOf p r = some i →
    indexOf p (r ++ b) = some i
  | [], i, h => by simp [indexOf] at h
  | a :: r, i, h => by
    simp only [List.cons_append, indexOf] at h ⊢
    split
    · rename_i ha; simpa [ha] using h
    · rename_i ha
      simp only [ha] at h
      cases hr : indexOf p r with
      | none => rw [hr] at h; simp at h
      | some j =>
        rw [hr] at h
        rw [indexOf_append_some p b r j hr]
        exact h

theorem indexOf_append_none (p : Nat → Bool) (b : Bytes) : ∀ (r : Bytes), indexOf p r = none →
    ∀ j, indexOf p (r ++ b) = some j → r.length ≤ j
  | [], _, j, _ => by simp
  | a :: r, h, j, hj => by
    simp only [List.cons_append, indexOf] at h hj
    split at h
    · cases h
    · rename_i ha
      simp only [ha] at hj
      cases hr : indexOf p r with
      | some k => rw [hr] at h; simp at h
      | none =>
        cases hrb : indexOf p (r ++ b) with
        | none => rw [hrb] at hj; simp at hj
        | some k =>
          rw [hrb] at hj
          simp at hj
          have := indexOf_append_none p b r hr k hrb
          simp
          omega

/-- a closed string stays what it is when more input follows -/
theorem scanQuoted_mono (x b raw : Bytes) (h : scanQuoted x = some raw) : scanQuoted (x ++ b) = some raw := by
  cases x with
  | nil => simp [scanQuoted] at h
  | cons c r =>
    by_cases hc : c = 34
    · subst hc
      simp only [List.cons_append, scanQuoted] at h ⊢
      cases hi : indexOf (fun x => x == 34) r with
      | none => rw [hi] at h; cases h
      | some i =>
        rw [hi] at h
        rw [indexOf_append_some _ b r i hi]
        simp only at h ⊢
        obtain ⟨pre, q, post, e1, e2, _, _⟩ := indexOf_spec _ r i hi
        have hlen : i + 1 ≤ r.length := by rw [e1]; simp; omega
        have htake : (r ++ b).take (i + 1) = r.take (i + 1) := List.take_append_of_le_length hlen
        rw [htake]
        cases hj : indexOf (fun b => b == 13 || b == 10) r with
        | some j =>
          rw [hj] at h
          rw [indexOf_append_some _ b r j hj]
          exact h
        | none =>
          rw [hj] at h
          cases hjb : indexOf (fun b => b == 13 || b == 10) (r ++ b) with
          | none => exact h
          | some j =>
            have := indexOf_append_none _ b r hj j hjb
            simp only
            rw [if_neg (by omega)]
            exact h
    · exfalso
      unfold scanQuoted at h
      split at h
      · rename_i heq; injection heq with h1 _; exact hc h1
      · cases h

theorem scanQuoted_len (x raw : Bytes) (hx : EndsLF x) (h : scanQuoted x = some raw) : raw.length < x.length := by
  cases x with
  | nil => simp [scanQuoted] at h
  | cons c r =>
    by_cases hc : c = 34
    · subst hc
      have hr := hx.cons_ne (by decide)
      simp only [scanQuoted] at h
      cases hi : indexOf (fun x => x == 34) r with
      | none => rw [hi] at h; cases h
      | some i =>
        rw [hi] at h
        obtain ⟨pre, q, post, e1, e2, e3, _⟩ := indexOf_spec _ r i hi
        have hq : q = 34 := by simpa using e3
        have hpost : post ≠ [] := by
          intro hp
          subst hp
          obtain ⟨p2, hp2⟩ := hr
          rw [e1] at hp2
          have := congrArg List.getLast? hp2
          simp at this
          omega
        have hlen : i + 2 ≤ r.length := by
          rw [e1]
          have := List.length_pos_iff.mpr hpost
          simp; omega
        have hraw : raw = 34 :: r.take (i + 1) := by
          simp only at h
          split at h
          · split at h
            · cases h
            · injection h with h; exact h.symm
          · injection h with h; exact h.symm
        rw [hraw]
        simp only [List.length_cons, List.length_take]
        omega
    · exfalso
      unfold scanQuoted at h
      split at h
      · rename_i heq; injection heq with h1 _; exact hc h1
      · cases h
theorem spanB_append_ne (p : Nat → Bool) (b : Bytes) : ∀ x : Bytes, (spanB p x).2 ≠ [] →
    spanB p (x ++ b) = ((spanB p x).1, (spanB p x).2 ++ b)
  | [], h => by simp [spanB] at h
  | c :: x, h => by
    simp only [List.cons_append, spanB] at h ⊢
    split
    · rename_i hc
      simp only [hc, if_true] at h
      rw [spanB_append_ne p b x h]
    · rfl

theorem spanB_nil (p : Nat → Bool) : spanB p [] = ([], []) := rfl

def optBlank (d r : Bytes) : Bytes × Bytes := if d.isEmpty then ([], r) else spanB isBlank r

theorem optBlank_append_ne (d r b : Bytes) (h : (optBlank d r).2 ≠ []) :
    optBlank d (r ++ b) = ((optBlank d r).1, (optBlank d r).2 ++ b) := by
  unfold optBlank at h ⊢
  split
  · rfl
  · rename_i hd
    simp only [hd] at h
    exact spanB_append_ne isBlank b r h

theorem optBlank_nil (d : Bytes) : (optBlank d []).2 = [] := by
  unfold optBlank; split <;> rfl

def sizeRange (r : Bytes) : Bytes × Bool × Bytes :=
  let sa := spanB isBlank r
  let sb := spanB isDigitB sa.2
  let sc := optBlank sb.1 sb.2
  ([46, 46] ++ sa.1 ++ sb.1 ++ sc.1, !sb.1.isEmpty, sc.2)

def sizeMid (r3 : Bytes) : Bytes × Bool × Bytes :=
  match r3 with
  | 46 :: 46 :: r => sizeRange r
  | _ => ([], false, r3)

theorem scanSizeBody_staged (r0 : Bytes) :
    scanSizeBody r0 =
      let s1 := spanB isBlank r0
      let s2 := spanB isDigitB s1.2
      let s3 := optBlank s2.1 s2.2
      let s4 := sizeMid s3.2
      match s4.2.2 with
      | 93 :: _ => if !s2.1.isEmpty || s4.2.1 then some (s1.1 ++ s2.1 ++ s3.1 ++ s4.1 ++ [93]) else none
      | _ => none := by
  unfold scanSizeBody sizeMid sizeRange optBlank
  rfl

theorem sizeRange_append_ne (r b : Bytes) (h : (sizeRange r).2.2 ≠ []) :
    sizeRange (r ++ b) = ((sizeRange r).1, (sizeRange r).2.1, (sizeRange r).2.2 ++ b) := by
  unfold sizeRange at h ⊢
  simp only at h ⊢
  have h3 := h
  have h2 : (spanB isDigitB (spanB isBlank r).2).2 ≠ [] := by
    intro hn; rw [hn] at h3; exact h3 (optBlank_nil _)
  have h1 : (spanB isBlank r).2 ≠ [] := by
    intro hn; rw [hn] at h2; exact h2 rfl
  rw [spanB_append_ne isBlank b r h1]
  simp only
  rw [spanB_append_ne isDigitB b _ h2]
  simp only
  rw [optBlank_append_ne _ _ b h3]

theorem sizeMid_append (r3 b : Bytes) (c : Nat) (t : Bytes) (h : (sizeMid r3).2.2 = c :: t) (hc : c ≠ 46) :
    sizeMid (r3 ++ b) = ((sizeMid r3).1, (sizeMid r3).2.1, (sizeMid r3).2.2 ++ b) := by
  by_cases hx : ∃ r, r3 = 46 :: 46 :: r
  · obtain ⟨r, rfl⟩ := hx
    simp only [List.cons_append, sizeMid] at h ⊢
    exact sizeRange_append_ne r b (by rw [h]; simp)
  · have hno : ∀ s : Bytes, (∀ r, s ≠ 46 :: 46 :: r) → sizeMid s = ([], false, s) := by
      intro s hs
      unfold sizeMid
      split
      · rename_i r; exact absurd rfl (hs r)
      · rfl
    have hx' : ∀ r, r3 ≠ 46 :: 46 :: r := fun r hr => hx ⟨r, hr⟩
    rw [hno _ hx'] at h ⊢
    simp only at h
    subst h
    rw [hno]
    intro r hr
    rcases t with _ | ⟨d, t'⟩
    · simp at hr; exact hc hr.1
    · simp at hr; exact hc hr.1

theorem scanSizeBody_mono (r0 b raw : Bytes) (h : scanSizeBody r0 = some raw) : scanSizeBody (r0 ++ b) = some raw := by
  rw [scanSizeBody_staged] at h ⊢
  simp only at h ⊢
  cases h4 : (sizeMid (optBlank (spanB isDigitB (spanB isBlank r0).2).1 (spanB isDigitB (spanB isBlank r0).2).2).2).2.2 with
  | nil => rw [h4] at h; cases h
  | cons c t =>
    rw [h4] at h
    by_cases hc : c = 93
    · subst hc
      simp only at h
      have hm := sizeMid_append _ b 93 t h4 (by decide)
      have h3 : (optBlank (spanB isDigitB (spanB isBlank r0).2).1 (spanB isDigitB (spanB isBlank r0).2).2).2 ≠ [] := by
        intro hn
        rw [hn] at h4
        simp [sizeMid] at h4
      have h2 : (spanB isDigitB (spanB isBlank r0).2).2 ≠ [] := by
        intro hn; rw [hn] at h3; exact h3 (optBlank_nil _)
      have h1 : (spanB isBlank r0).2 ≠ [] := by
        intro hn; rw [hn] at h2; exact h2 rfl
      rw [spanB_append_ne isBlank b r0 h1]
      simp only
      rw [spanB_append_ne isDigitB b _ h2]
      simp only
      rw [optBlank_append_ne _ _ b h3]
      simp only
      rw [hm]
      simp only [h4, List.cons_append]
      exact h
    · exfalso
      split at h
      · rename_i heq; injection heq with h1 _; exact hc h1
      · cases h

theorem scanSize_mono (x b raw : Bytes) (h : scanSize x = some raw) : scanSize (x ++ b) = some raw := by
  unfold scanSize at h ⊢
  cases x with
  | nil => simp at h
  | cons c r =>
    by_cases hc : c = 91
    · subst hc
      simp only [List.cons_append] at h ⊢
      cases hb : scanSizeBody r with
      | none => rw [hb] at h; cases h
      | some raw' =>
        rw [hb] at h
        rw [scanSizeBody_mono r b raw' hb]
        exact h
    · exfalso
      split at h
      · rename_i heq; injection heq with h1 _; exact hc h1
      · cases h

theorem optBlank_spec (d r : Bytes) : (optBlank d r).1 ++ (optBlank d r).2 = r := by
  unfold optBlank
  split
  · rfl
  · exact (spanB_spec isBlank r).1

theorem sizeRange_spec (r : Bytes) : (sizeRange r).1 ++ (sizeRange r).2.2 = 46 :: 46 :: r := by
  unfold sizeRange
  simp only
  have a := (spanB_spec isBlank r).1
  have b := (spanB_spec isDigitB (spanB isBlank r).2).1
  have c := optBlank_spec (spanB isDigitB (spanB isBlank r).2).1 (spanB isDigitB (spanB isBlank r).2).2
  calc _ = 46 :: 46 :: ((spanB isBlank r).1 ++ ((spanB isDigitB (spanB isBlank r).2).1 ++
            ((optBlank (spanB isDigitB (spanB isBlank r).2).1 (spanB isDigitB (spanB isBlank r).2).2).1 ++
             (optBlank (spanB isDigitB (spanB isBlank r).2).1 (spanB isDigitB (spanB isBlank r).2).2).2))) := by simp
    _ = 46 :: 46 :: r := by rw [c, b, a]

theorem sizeMid_spec (r3 : Bytes) : (sizeMid r3).1 ++ (sizeMid r3).2.2 = r3 := by
  unfold sizeMid
  split
  · exact sizeRange_spec _
  · rfl

theorem scanSizeBody_split (r0 raw : Bytes) (h : scanSizeBody r0 = some raw) :
    ∃ pre t, raw = pre ++ [93] ∧ r0 = raw ++ t := by
  rw [scanSizeBody_staged] at h
  simp only at h
  have a := (spanB_spec isBlank r0).1
  have b := (spanB_spec isDigitB (spanB isBlank r0).2).1
  have c := optBlank_spec (spanB isDigitB (spanB isBlank r0).2).1 (spanB isDigitB (spanB isBlank r0).2).2
  have d := sizeMid_spec (optBlank (spanB isDigitB (spanB isBlank r0).2).1 (spanB isDigitB (spanB isBlank r0).2).2).2
  generalize spanB isBlank r0 = s1 at *
  obtain ⟨w1, r1⟩ := s1
  simp only at *
  generalize spanB isDigitB r1 = s2 at *
  obtain ⟨d1, r2⟩ := s2
  simp only at *
  generalize optBlank d1 r2 = s3 at *
  obtain ⟨w2, r3⟩ := s3
  simp only at *
  generalize sizeMid r3 = s4 at *
  obtain ⟨mid, f2, r4⟩ := s4
  simp only at *
  split at h
  · rename_i t
    split at h
    · injection h with h
      refine ⟨_, t, h.symm, ?_⟩
      subst h a b c d
      simp
    · cases h
  · cases h

theorem scanSize_len (x raw : Bytes) (hx : EndsLF x) (h : scanSize x = some raw) : raw.length < x.length := by
  unfold scanSize at h
  cases x with
  | nil => simp at h
  | cons c r =>
    by_cases hc : c = 91
    · subst hc
      simp only at h
      cases hb : scanSizeBody r with
      | none => rw [hb] at h; cases h
      | some raw' =>
        rw [hb] at h
        simp at h
        subst h
        obtain ⟨pre, t, e1, e2⟩ := scanSizeBody_split r raw' hb
        have hr := hx.cons_ne (by decide)
        have ht : t ≠ [] := by
          intro hn
          subst hn
          obtain ⟨p2, hp2⟩ := hr
          rw [e2, e1] at hp2
          have := congrArg List.getLast? hp2
          simp at this
        have := List.length_pos_iff.mpr ht
        rw [e2]
        simp
        omega
    · exfalso
      split at h
      · rename_i heq; injection heq with h1 _; exact hc h1
      · cases h

end Lex
end Secs
