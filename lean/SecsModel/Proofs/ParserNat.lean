/-
Naturality of the SML parser model in token positions and diagnostics already collected.

`Reloc` moves every token position through a map `π` (fixing the dummy position 0,0) and puts
fixed lists `E`, `W` underneath the diagnostics. Every parser function commutes with it: the
messages built, the tokens consumed, the names and counters are the same, and the diagnostics
are the same ones moved by `π` on top of `E`, `W`. Instances: erasing positions (layout cannot
influence what is parsed), shifting positions (diagnostics move with the tokens), a non-empty
`W` with the identity map (what was reported before a message does not influence it).
-/
import SecsModel.Model.Parser
namespace Secs
namespace Sml
open Lex

structure Reloc where
  π : Nat → Nat → Nat × Nat
  E : List Diag
  W : List Diag
  fix0 : π 0 0 = (0, 0)

namespace Reloc
variable (ρ : Reloc)

def tok (t : Tok) : Tok := { t with line := (ρ.π t.line t.col).1, col := (ρ.π t.line t.col).2 }
def diag (d : Diag) : Diag := { d with line := (ρ.π d.line d.col).1, col := (ρ.π d.line d.col).2 }
def ps (s : PS) : PS :=
  { toks := s.toks.map ρ.tok, errs := s.errs.map ρ.diag ++ ρ.E, warns := s.warns.map ρ.diag ++ ρ.W,
    names := s.names, ell := s.ell, skipSize := s.skipSize }

@[simp] theorem tok_kind (t : Tok) : (ρ.tok t).kind = t.kind := rfl
@[simp] theorem tok_val (t : Tok) : (ρ.tok t).val = t.val := rfl
@[simp] theorem tok_err (t : Tok) : (ρ.tok t).err = t.err := rfl
@[simp] theorem ps_names (s : PS) : (ρ.ps s).names = s.names := rfl
@[simp] theorem ps_ell (s : PS) : (ρ.ps s).ell = s.ell := rfl
@[simp] theorem ps_skip (s : PS) : (ρ.ps s).skipSize = s.skipSize := rfl
@[simp] theorem ps_toks (s : PS) : (ρ.ps s).toks = s.toks.map ρ.tok := rfl
@[simp] theorem ps_toks_length (s : PS) : (ρ.ps s).toks.length = s.toks.length := by simp

@[simp] theorem tok_eofClosed : ρ.tok eofClosed = eofClosed := by
  simp [tok, eofClosed, ρ.fix0]

@[simp] theorem tok_dummy : ρ.tok dummyTok = dummyTok := by
  simp [tok, dummyTok, ρ.fix0]

@[simp] theorem ps_peek (s : PS) : (ρ.ps s).peek = ρ.tok s.peek := by
  unfold PS.peek
  cases h : s.toks <;> simp [h]

@[simp] theorem ps_pop (s : PS) : (ρ.ps s).pop = ρ.ps s.pop := by
  simp [PS.pop, ps, List.map_drop]

@[simp] theorem ps_err (s : PS) (t : Tok) (k : String) : (ρ.ps s).err (ρ.tok t) k = ρ.ps (s.err t k) := by
  simp [PS.err, ps, tok, diag]

@[simp] theorem ps_warn (s : PS) (t : Tok) (k : String) : (ρ.ps s).warn (ρ.tok t) k = ρ.ps (s.warn t k) := by
  simp [PS.warn, ps, tok, diag]

@[simp] theorem ps_clearSkip (s : PS) : (ρ.ps s).clearSkip = ρ.ps s.clearSkip := rfl
@[simp] theorem ps_addName (s : PS) (n : Name) : (ρ.ps s).addName n = ρ.ps (s.addName n) := rfl
@[simp] theorem ps_bumpEll (s : PS) : (ρ.ps s).bumpEll = ρ.ps s.bumpEll := rfl
@[simp] theorem ps_resetScope (s : PS) : (ρ.ps s).resetScope = ρ.ps s.resetScope := rfl
@[simp] theorem ps_set_names (s : PS) (n : List Name) : { ρ.ps s with names := n } = ρ.ps { s with names := n } := rfl
@[simp] theorem ps_set_ell (s : PS) (n : Nat) : { ρ.ps s with ell := n } = ρ.ps { s with ell := n } := rfl
@[simp] theorem ps_set_skip (s : PS) (b : Bool) : { ρ.ps s with skipSize := b } = ρ.ps { s with skipSize := b } := rfl
@[simp] theorem ps_set_names_ell (s : PS) (n : List Name) (e : Nat) :
    { ρ.ps s with names := n, ell := e } = ρ.ps { s with names := n, ell := e } := rfl

/-- the range checks of parseStreamFunctionCode on the two converted numbers -/
def clampSF (st fn : Int) (s : PS) (t : Tok) : Int × Int × PS :=
  let (st, s) := if 0 ≤ st && st < 128 then (st, s) else (0, s.err t "stream code range overflow, should be in range of [0, 128)")
  let (fn, s) := if 0 ≤ fn && fn < 256 then (fn, s) else (0, s.err t "function code range overflow, should be in range of [0, 256)")
  (st, fn, s)

theorem streamFunction_eq (s : PS) (t : Tok) :
    streamFunction s t = clampSF (Strconv.atoi ((t.val.take ((indexByte 70 t.val).getD 0)).drop 1)).val
      (Strconv.atoi (t.val.drop ((indexByte 70 t.val).getD 0 + 1))).val s t := rfl

theorem clampSF_nat (st fn : Int) (s : PS) (t : Tok) :
    clampSF st fn (ρ.ps s) (ρ.tok t) = ((clampSF st fn s t).1, (clampSF st fn s t).2.1, ρ.ps (clampSF st fn s t).2.2) := by
  unfold clampSF
  by_cases h1 : (decide (0 ≤ st) && decide (st < 128)) = true <;>
    by_cases h2 : (decide (0 ≤ fn) && decide (fn < 256)) = true <;> simp [h1, h2]

theorem streamFunction_nat (s : PS) (t : Tok) :
    streamFunction (ρ.ps s) (ρ.tok t) =
      ((streamFunction s t).1, (streamFunction s t).2.1, ρ.ps (streamFunction s t).2.2) := by
  rw [streamFunction_eq, streamFunction_eq, tok_val, clampSF_nat]

theorem valueTokens_nat : ∀ (fuel : Nat) (s : PS),
    valueTokens fuel (ρ.ps s) = ((valueTokens fuel s).1.map ρ.tok, ρ.ps (valueTokens fuel s).2)
  | 0, s => by simp [valueTokens]
  | fuel + 1, s => by
    unfold valueTokens
    simp only [ps_peek, tok_kind, ps_pop]
    cases h : s.peek.kind <;> simp [valueTokens_nat fuel]

theorem varArg_nat (s : PS) (t : Tok) (g : GoVal) :
    varArg (ρ.ps s) (ρ.tok t) g = ((varArg s t g).1, ρ.ps (varArg s t g).2) := by
  unfold varArg
  simp only [ps_names, tok_val]
  by_cases h : s.names.contains t.val = true
  · simp only [h, if_true, ps_err]
  · simp only [h]; rfl

theorem arrayArg_nat (ty : Bytes) (w : Nat) (s : PS) (t : Tok) :
    arrayArg ty w (ρ.ps s) (ρ.tok t) = (arrayArg ty w s t).map (fun r => (r.1, ρ.ps r.2)) := by
  unfold arrayArg
  simp only [tok_kind, tok_val]
  cases h : t.kind <;> simp only [] <;> try rfl
  · -- number
    repeat' split
    all_goals (try simp_all)
    all_goals (split <;> split <;> simp_all)
    all_goals (rename_i h1 h2; have h3 := of_decide_eq_true h1.1; have h4 := of_decide_eq_true h1.2; omega)
  · -- bool
    split <;> simp
  · -- variable
    simp [varArg_nat]

theorem arrayArgs_nat (ty : Bytes) (w : Nat) : ∀ (ts : List Tok) (s : PS),
    arrayArgs ty w (ts.map ρ.tok) (ρ.ps s) = ((arrayArgs ty w ts s).1, ρ.ps (arrayArgs ty w ts s).2)
  | [], s => by simp [arrayArgs]
  | t :: r, s => by
    simp only [List.map_cons, arrayArgs, tok_kind, tok_err, arrayArg_nat, ps_err]
    split
    · rfl
    · cases h : arrayArg ty w s t with
      | none => simp
      | some p =>
        simp only [Option.map_some, arrayArgs_nat ty w r p.2]
        cases h2 : arrayArgs ty w r p.2 with
        | mk o s2 => cases o <;> simp

theorem asciiLoop_nat (mn mx : Int) (n : Nat) : ∀ (ts : List Tok) (lit : Bytes) (s : PS),
    asciiLoop mn mx n (ts.map ρ.tok) lit (ρ.ps s) = ((asciiLoop mn mx n ts lit s).1, ρ.ps (asciiLoop mn mx n ts lit s).2)
  | [], lit, s => by simp [asciiLoop]
  | t :: r, lit, s => by
    simp only [List.map_cons, asciiLoop, tok_kind, tok_val, tok_err]
    cases h : t.kind <;> simp only [ps_err, ps_names] <;> try rfl
    · -- number
      split
      · split <;> simp only [ps_err, asciiLoop_nat mn mx n r]
      · split <;> simp only [ps_err, asciiLoop_nat mn mx n r]
    · -- variable
      split
      · rfl
      · split
        · rfl
        · rfl
    · -- quoted
      split <;> simp only [asciiLoop_nat mn mx n r]

theorem sizeDecl_nat (s : PS) :
    sizeDecl (ρ.ps s) = (ρ.tok (sizeDecl s).1, (sizeDecl s).2.1, (sizeDecl s).2.2.1, ρ.ps (sizeDecl s).2.2.2) := by
  unfold sizeDecl
  simp only [ps_peek, tok_kind, tok_val, ps_pop]
  split <;> simp

theorem asciiItem_nat (lo hi : Int) (s : PS) :
    asciiItem lo hi (ρ.ps s) = ((asciiItem lo hi s).1, ρ.ps (asciiItem lo hi s).2) := by
  unfold asciiItem
  simp only [ps_toks_length, valueTokens_nat, List.length_map, asciiLoop_nat]

theorem arrayItem_nat (ty : Bytes) (s : PS) :
    arrayItem ty (ρ.ps s) = ((arrayItem ty s).1, ρ.ps (arrayItem ty s).2) := by
  unfold arrayItem
  simp only [ps_toks_length, valueTokens_nat, arrayArgs_nat]
  cases h : arrayArgs ty (widthOfType ty) (valueTokens (s.toks.length + 1) s).1 (valueTokens (s.toks.length + 1) s).2 with
  | mk o s2 => cases o <;> simp

theorem closeTail_nat (item : Tmpl) (s : PS) :
    closeTail item (ρ.ps s) = ((closeTail item s).1, ρ.ps (closeTail item s).2) := by
  unfold closeTail
  simp only [ps_clearSkip, ps_peek, tok_kind, ps_err, ps_pop]
  split <;> rfl

theorem closeItem_nat (sizeTok : Tok) (lo hi : Int) (res : R Tmpl) (s : PS) :
    closeItem (ρ.tok sizeTok) lo hi res (ρ.ps s) =
      ((closeItem sizeTok lo hi res s).1, ρ.ps (closeItem sizeTok lo hi res s).2) := by
  unfold closeItem
  cases res with
  | stop => rfl
  | panic => rfl
  | ok item =>
    simp only [ps_skip]
    split <;> simp_all only [ps_err, closeTail_nat, if_true, if_false] <;> simp_all

theorem recoverItem_nat (lab : Tok) (r : R Tmpl) (s : PS) :
    recoverItem (ρ.tok lab) (r, ρ.ps s) = ((recoverItem lab (r, s)).1, ρ.ps (recoverItem lab (r, s)).2) := by
  unfold recoverItem
  cases r <;> simp

theorem itemBody_nat (ll ll' : PS → R Tmpl × PS)
    (hll : ∀ s, ll' (ρ.ps s) = ((ll s).1, ρ.ps (ll s).2)) (s : PS) :
    itemBody ll' (ρ.ps s) = ((itemBody ll s).1, ρ.ps (itemBody ll s).2) := by
  unfold itemBody
  simp only [ps_peek, tok_kind, tok_val, tok_err, ps_pop, ps_err]
  split
  · rfl
  · split
    · rfl
    · simp only [sizeDecl_nat]
      split
      · simp only [hll, closeItem_nat]
      · split
        · simp only [asciiItem_nat, closeItem_nat]
        · simp only [arrayItem_nat, closeItem_nat]

theorem parseItem_nat : ∀ fuel : Nat,
    (∀ s : PS, parseItemF fuel (ρ.ps s) = ((parseItemF fuel s).1, ρ.ps (parseItemF fuel s).2)) ∧
    (∀ (count : Nat) (acc : List GoVal) (s : PS), parseItemF.listLoop fuel count acc (ρ.ps s) =
        ((parseItemF.listLoop fuel count acc s).1, ρ.ps (parseItemF.listLoop fuel count acc s).2))
  | 0 => ⟨fun s => by simp [parseItemF], fun c a s => by simp [parseItemF.listLoop]⟩
  | fuel + 1 => by
    have ih := parseItem_nat fuel
    constructor
    · intro s
      unfold parseItemF
      simp only [ps_peek, tok_kind, ps_pop, ps_err]
      split
      · rfl
      · rw [itemBody_nat ρ _ _ (ih.2 0 []) s.pop]
        cases h : itemBody (parseItemF.listLoop fuel 0 []) s.pop with
        | mk r s' => exact recoverItem_nat ρ s.peek r s'
    · intro count acc s
      unfold parseItemF.listLoop
      simp only [ps_peek, tok_kind, tok_val, tok_err, ps_pop, ps_err, ps_names, ps_ell, ps_addName, ps_bumpEll, ps_warn]
      cases h : s.peek.kind <;> simp only [] <;> try rfl
      · -- lab
        rw [ih.1 s]
        cases h2 : parseItemF fuel s with
        | mk r s1 => cases r <;> simp only [ih.2]
      · -- variable
        split <;> rename_i hc <;> simp only [hc, ↓reduceIte, ih.2]
      · -- ellipsis
        split
        · rfl
        · split <;> rename_i hc <;> simp only [hc, ↓reduceIte, ps_warn, ih.2]

theorem waitBitOf_nat (fn : Int) (s : PS) :
    waitBitOf fn (ρ.ps s) = ((waitBitOf fn s).1, ρ.ps (waitBitOf fn s).2) := by
  unfold waitBitOf
  simp only [ps_peek, tok_kind, tok_val, ps_pop, ps_err]
  split
  · split
    · split <;> rfl
    · rfl
  · rfl

theorem directionOf_nat (s : PS) : directionOf (ρ.ps s) = ((directionOf s).1, ρ.ps (directionOf s).2) := by
  unfold directionOf
  simp only [ps_peek, tok_kind, tok_val, ps_pop, ps_warn]
  split <;> rfl

theorem nameOf_nat (s : PS) : nameOf (ρ.ps s) = ((nameOf s).1, ρ.ps (nameOf s).2) := by
  unfold nameOf
  simp only [ps_peek, tok_kind, tok_val, ps_pop]
  split <;> rfl

theorem msgItem_nat (s : PS) : msgItem (ρ.ps s) = ((msgItem s).1, ρ.ps (msgItem s).2) := by
  unfold msgItem
  simp only [ps_peek, tok_kind, ps_err, ps_toks_length, (parseItem_nat ρ _).1]
  split
  · rfl
  · split <;> rfl

theorem finishMsg_nat (name : Bytes) (st fn wb : Int) (dir : Bytes) (item : R Tmpl) (s : PS) :
    finishMsg name st fn wb dir item (ρ.ps s) =
      ((finishMsg name st fn wb dir item s).1, ρ.ps (finishMsg name st fn wb dir item s).2) := by
  unfold finishMsg
  cases item with
  | stop => rfl
  | panic => rfl
  | ok it =>
    simp only [ps_peek, tok_kind, ps_err, ps_pop]
    split
    · rfl
    · cases mkMsg name st fn wb dir it <;> rfl

/-- parseMessage commutes with relocation -/
theorem parseMessage_nat (s : PS) :
    parseMessage (ρ.ps s) = ((parseMessage s).1, ρ.ps (parseMessage s).2) := by
  unfold parseMessage
  simp only [ps_resetScope, ps_peek, tok_kind, ps_err, ps_pop, streamFunction_nat, waitBitOf_nat,
    directionOf_nat, nameOf_nat, msgItem_nat, finishMsg_nat]
  split <;> rfl

/-- the message loop commutes with relocation -/
theorem parseLoop_nat : ∀ (fuel : Nat) (s : PS) (acc : List Msg),
    parseLoop fuel (ρ.ps s) acc = (parseLoop fuel s acc).map (fun r => (r.1, ρ.ps r.2))
  | 0, s, acc => by simp [parseLoop]
  | fuel + 1, s, acc => by
    unfold parseLoop
    simp only [ps_peek, tok_kind, parseMessage_nat]
    split
    · rfl
    · cases h : parseMessage s with
      | mk o s1 =>
        cases o with
        | none => rfl
        | some om =>
          cases om with
          | none => rfl
          | some m => simp only [parseLoop_nat fuel s1]

end Reloc
end Sml
end Secs

namespace Secs
namespace Sml
open Lex

/-- an outcome with every diagnostic moved through `ρ` -/
def Outcome.reloc (ρ : Reloc) : Outcome → Outcome
  | .done ms es ws => .done ms (es.map ρ.diag) (ws.map ρ.diag)
  | .panic => .panic

theorem Reloc.ps_init (ρ : Reloc) (hE : ρ.E = []) (hW : ρ.W = []) (toks : List Tok) :
    ρ.ps { toks := toks } = { toks := toks.map ρ.tok } := by
  simp [Reloc.ps, hE, hW]

/-- The parser is natural in token positions: moving every token through `π` moves every
diagnostic through `π` and changes nothing else — same messages, same diagnostic texts, same
order. -/
theorem parseToks_nat (ρ : Reloc) (hE : ρ.E = []) (hW : ρ.W = []) (toks : List Tok) :
    parseToks (toks.map ρ.tok) = (parseToks toks).reloc ρ := by
  unfold parseToks
  rw [← ρ.ps_init hE hW, List.length_map, ρ.parseLoop_nat]
  cases h : parseLoop (toks.length + 1) { toks := toks } [] with
  | none => rfl
  | some r =>
    simp only [Option.map_some, Reloc.ps, hE, hW, List.append_nil, List.isEmpty_map]
    split <;> simp [Outcome.reloc, List.map_reverse]

/-- erase positions -/
def eraseTok (t : Tok) : Tok := { t with line := 0, col := 0 }
def eraseDiag (d : Diag) : Diag := { d with line := 0, col := 0 }
def eraser : Reloc := { π := fun _ _ => (0, 0), E := [], W := [], fix0 := rfl }

theorem eraser_tok (t : Tok) : eraser.tok t = eraseTok t := rfl
theorem eraser_diag (d : Diag) : eraser.diag d = eraseDiag d := rfl

/-- what an outcome says apart from positions: messages, error texts, warning texts -/
def Outcome.content : Outcome → Option (List Msg × List String × List String)
  | .done ms es ws => some (ms, es.map (·.kind), ws.map (·.kind))
  | .panic => none

theorem content_reloc (ρ : Reloc) (o : Outcome) : (o.reloc ρ).content = o.content := by
  cases o <;> simp [Outcome.reloc, Outcome.content, Reloc.diag, Function.comp_def]

/-- Layout cannot influence what is parsed: two token streams that differ only in the positions
stamped on the tokens give the same messages and the same diagnostic texts in the same order. -/
theorem positions_irrelevant (t1 t2 : List Tok) (h : t1.map eraseTok = t2.map eraseTok) :
    (parseToks t1).content = (parseToks t2).content := by
  have h1 := parseToks_nat eraser rfl rfl t1
  have h2 := parseToks_nat eraser rfl rfl t2
  have e1 : t1.map eraser.tok = t1.map eraseTok := rfl
  have e2 : t2.map eraser.tok = t2.map eraseTok := rfl
  rw [e1] at h1; rw [e2] at h2
  rw [← content_reloc eraser (parseToks t1), ← h1, h, h2, content_reloc]

/-- Diagnostics move exactly as the tokens they are stamped on: if the second stream is the
first with every position moved by `π` (a shift by inserted lines and columns, say), the
outcome is the first outcome with every diagnostic moved by `π`. -/
theorem diagnostics_move_with_tokens (π : Nat → Nat → Nat × Nat) (h0 : π 0 0 = (0, 0)) (toks : List Tok) :
    parseToks (toks.map (fun t => { t with line := (π t.line t.col).1, col := (π t.line t.col).2 })) =
      match parseToks toks with
      | .done ms es ws =>
        .done ms (es.map (fun d => { d with line := (π d.line d.col).1, col := (π d.line d.col).2 }))
          (ws.map (fun d => { d with line := (π d.line d.col).1, col := (π d.line d.col).2 }))
      | .panic => .panic := by
  have := parseToks_nat { π := π, E := [], W := [], fix0 := h0 } rfl rfl toks
  show parseToks (toks.map (Reloc.tok { π := π, E := [], W := [], fix0 := h0 })) = _
  rw [this]
  cases parseToks toks <;> rfl

/-- What was reported before does not influence what follows: running the message loop with
warnings `W0` already collected gives the same messages, tokens, names and counters, and the
same new diagnostics on top of `W0`. -/
theorem parseLoop_frame (W0 : List Diag) (fuel : Nat) (s : PS) (acc : List Msg) :
    parseLoop fuel { s with warns := s.warns ++ W0 } acc =
      (parseLoop fuel s acc).map (fun r => (r.1, { r.2 with warns := r.2.warns ++ W0 })) := by
  let ρ : Reloc := { π := fun l c => (l, c), E := [], W := W0, fix0 := rfl }
  have htok : ∀ t : Tok, ρ.tok t = t := fun t => rfl
  have hdiag : ∀ d : Diag, ρ.diag d = d := fun d => rfl
  have hps : ∀ s : PS, ρ.ps s = { s with warns := s.warns ++ W0 } := by
    intro s
    simp only [Reloc.ps]
    have e1 : s.toks.map ρ.tok = s.toks := by
      rw [show ρ.tok = id from funext htok]; simp
    have e2 : ∀ l : List Diag, l.map ρ.diag = l := by
      intro l; rw [show ρ.diag = id from funext hdiag]; simp
    rw [e1, e2, e2]; simp [ρ]
  have := ρ.parseLoop_nat fuel s acc
  rw [hps] at this
  rw [this]
  cases parseLoop fuel s acc with
  | none => rfl
  | some r => simp [hps]

end Sml
end Secs
