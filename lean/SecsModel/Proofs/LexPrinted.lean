/-
The lexer half of the print → parse round trip: how the lexer reads the printed form.
General part: unfolding the token stream one token at a time, positions aside.
-/
import SecsModel.Proofs.LexLayout
import SecsModel.Proofs.PrintParseNum
import SecsModel.Model.Item
namespace Secs
namespace Lex

/-- one token off the front of the stream -/
theorem lexFrom_tok (ual : List Nat) (m m' : Mode) (rest : Bytes) (t : Tok) (q : Pos)
    (h : lexStep ual m ⟨rest, 1, []⟩ = .tok t m' q) :
    (lexFrom ual m rest).map eraseT = eraseT t :: (lexFrom ual m' q.rest).map eraseT := by
  unfold lexFrom
  rw [lexFuel, h]
  simp only [List.map_cons]
  have hd := lexStep_decreases ual m _ t m' q h
  rw [lexFuel_eq_lexFrom ual m' q rest.length (by simpa using hd)]
  rfl

theorem lexFrom_last (ual : List Nat) (m : Mode) (rest : Bytes) (t : Tok)
    (h : lexStep ual m ⟨rest, 1, []⟩ = .last t) : (lexFrom ual m rest).map eraseT = [eraseT t] := by
  unfold lexFrom
  rw [lexFuel, h]
  rfl

/-- the first byte is not white space: nothing is skipped -/
theorem skipWs_nonblank (m : Mode) (fuel : Nat) (p : Pos) (b : Nat) (r : Bytes) (hp : p.rest = b :: r)
    (hb : isBlank b = false) (hs : Utf8.isSpace b = false) (h128 : b < 128) : skipWs m fuel p = p := by
  cases fuel with
  | zero => rfl
  | succ n =>
    rw [skipWs, hp]
    cases m <;> simp [hb, hs, h128]

/-- a step in the text state on input that starts with a printable ASCII byte: the result of
`stepText`, read off as a token and the unread input -/
theorem lexFrom_text_emit (ual : List Nat) (k : Kind) (v raw : Bytes) (m' : Mode) (b : Nat) (r more : Bytes)
    (hrest : raw ++ more = b :: r) (hb : isBlank b = false) (hs : Utf8.isSpace b = false) (h128 : b < 128)
    (hstep : ∀ p : Pos, p.rest = b :: r → stepText ual p = emit k v raw m' p) :
    (lexFrom ual .text (b :: r)).map eraseT = ⟨k, v, 0, 0, none⟩ :: (lexFrom ual m' more).map eraseT := by
  have hl : lexStep ual .text ⟨b :: r, 1, []⟩ = emit k v raw m' ⟨b :: r, 1, []⟩ := by
    unfold lexStep
    rw [skipWs_nonblank .text _ ⟨b :: r, 1, []⟩ b r rfl hb hs h128]
    exact hstep _ rfl
  have := lexFrom_tok ual .text m' (b :: r) _ _ hl
  rw [this]
  simp only [mkTok, eraseT, advance_rest]
  rw [← hrest, List.drop_left]

theorem lexFrom_header_emit (ual : List Nat) (k : Kind) (v raw : Bytes) (m' : Mode) (b : Nat) (r more : Bytes)
    (hrest : raw ++ more = b :: r) (hb : isBlank b = false) (hs : Utf8.isSpace b = false) (h128 : b < 128)
    (hstep : ∀ p : Pos, p.rest = b :: r → stepHeader p = emit k v raw m' p) :
    (lexFrom ual .header (b :: r)).map eraseT = ⟨k, v, 0, 0, none⟩ :: (lexFrom ual m' more).map eraseT := by
  have hl : lexStep ual .header ⟨b :: r, 1, []⟩ = emit k v raw m' ⟨b :: r, 1, []⟩ := by
    unfold lexStep
    rw [skipWs_nonblank .header _ ⟨b :: r, 1, []⟩ b r rfl hb hs h128]
    exact hstep _ rfl
  have := lexFrom_tok ual .header m' (b :: r) _ _ hl
  rw [this]
  simp only [mkTok, eraseT, advance_rest]
  rw [← hrest, List.drop_left]


/-! ### single tokens in the text state -/

theorem stepText_lab (ual : List Nat) (p : Pos) (r : Bytes) (hp : p.rest = 60 :: r) :
    stepText ual p = emit .lab [60] [60] .text p := by
  unfold stepText
  rw [hp]
  simp [startsWith, matchEllipsis, matchWord, isIdentStartB, isAlphaB, isUpperB, isLowerB, startsNumber, isDigitB]

theorem stepText_rab (ual : List Nat) (p : Pos) (r : Bytes) (hp : p.rest = 62 :: r) :
    stepText ual p = emit .rab [62] [62] .text p := by
  unfold stepText
  rw [hp]
  simp [startsWith, matchEllipsis, matchWord, isIdentStartB, isAlphaB, isUpperB, isLowerB, startsNumber, isDigitB]

/-- the terminator `.` followed by nothing or by something that is neither a dot nor a digit -/
theorem stepText_msgEnd (ual : List Nat) (p : Pos) (r : Bytes) (hp : p.rest = 46 :: r)
    (hr : r = [] ∨ ∃ c r', r = c :: r' ∧ c ≠ 46 ∧ isDigitB c = false) :
    stepText ual p = emit .msgEnd [46] [46] .header p := by
  unfold stepText
  rw [hp]
  rcases hr with rfl | ⟨c, r', rfl, hc, hd⟩
  · simp [startsWith, matchEllipsis, matchWord, isIdentStartB, isAlphaB, isUpperB, isLowerB, startsNumber, isDigitB]
  · simp [startsWith, matchEllipsis, matchWord, isIdentStartB, isAlphaB, isUpperB, isLowerB, startsNumber, hc, hd]
    simp [isDigitB] at hd ⊢


theorem matchWord_word (c0 : Nat) (w : Bytes) (f : Nat) (r : Bytes) (h0 : isIdentStartB c0 = true)
    (hw : ∀ x ∈ w, isWordB x = true) (hf : isWordB f = false) :
    matchWord (c0 :: (w ++ f :: r)) = some (c0 :: w) := by
  simp only [matchWord, h0, if_true, spanB_stop' isWordB w f r hw hf]

theorem identStart_facts (c0 : Nat) (h0 : isIdentStartB c0 = true) : c0 ≠ 47 ∧ c0 ≠ 46 := by
  simp only [isIdentStartB, isAlphaB, isUpperB, isLowerB, Bool.or_eq_true, Bool.and_eq_true, decide_eq_true_eq,
    beq_iff_eq] at h0
  omega

/-- a word (letters, digits, `_`, starting with a letter or `_`) followed by a byte that cannot
continue it -/
theorem stepText_word (ual : List Nat) (p : Pos) (c0 : Nat) (w : Bytes) (f : Nat) (r : Bytes)
    (hp : p.rest = c0 :: (w ++ f :: r)) (h0 : isIdentStartB c0 = true)
    (hw : ∀ x ∈ w, isWordB x = true) (hf : isWordB f = false) :
    stepText ual p =
      if typeKeywords.contains (upper (c0 :: w)) then emit .itemType (upper (c0 :: w)) (c0 :: w) .text p
      else if boolKeywords.contains (upper (c0 :: w)) then emit .bool (upper (c0 :: w)) (c0 :: w) .text p
      else emit .variable ((c0 :: w) ++ matchIdxs p.rest.length (p.rest.drop (c0 :: w).length))
        ((c0 :: w) ++ matchIdxs p.rest.length (p.rest.drop (c0 :: w).length)) .text p := by
  obtain ⟨h47, h46⟩ := identStart_facts c0 h0
  have hmw := matchWord_word c0 w f r h0 hw hf
  unfold stepText
  rw [hp]
  have hsw : startsWith [47, 47] (c0 :: (w ++ f :: r)) = false := by
    cases w <;> simp [startsWith, h47]
  have hme : matchEllipsis (c0 :: (w ++ f :: r)) = none := by
    unfold matchEllipsis
    split
    · rename_i heq; injection heq with h1 _; exact absurd h1 h46
    · rfl
  simp only [hsw, Bool.false_eq_true, if_false, hme, hmw]


/-! ### size declarations -/

theorem spanB_nomatch (p : Nat → Bool) (b : Nat) (r : Bytes) (h : p b = false) : spanB p (b :: r) = ([], b :: r) := by
  simp [spanB, h]

theorem digits_are (n : Nat) : (∀ c ∈ decDigits n, isDigitB c = true) ∧ (∀ c ∈ decDigits n, isBlank c = false) ∧ decDigits n ≠ [] := by
  have hs := (decDigits_spec n).1
  refine ⟨?_, ?_, decDigits_ne_nil n⟩
  · intro c hc; have := hs c hc; simp [isDigitB]; omega
  · intro c hc; have := hs c hc; simp [isBlank]; omega

theorem decDigits_head_digit (n : Nat) : ∃ c r, decDigits n = c :: r ∧ isDigitB c = true ∧ isBlank c = false := by
  obtain ⟨h1, h2, h3⟩ := digits_are n
  cases hd : decDigits n with
  | nil => exact absurd hd h3
  | cons c r => exact ⟨c, r, rfl, h1 c (by rw [hd]; simp), h2 c (by rw [hd]; simp)⟩

/-- `[a]` -/
theorem scanSize_exact (a : Nat) (r : Bytes) :
    scanSize (91 :: (decDigits a ++ 93 :: r)) = some (91 :: (decDigits a ++ [93])) := by
  obtain ⟨c, cr, hcr, hcd, hcb⟩ := decDigits_head_digit a
  obtain ⟨hd, _, hne⟩ := digits_are a
  unfold scanSize scanSizeBody
  have h1 : spanB isBlank (decDigits a ++ 93 :: r) = ([], decDigits a ++ 93 :: r) := by
    rw [hcr]; exact spanB_nomatch _ _ _ hcb
  have h2 : spanB isDigitB (decDigits a ++ 93 :: r) = (decDigits a, 93 :: r) :=
    spanB_stop' isDigitB (decDigits a) 93 r hd (by decide)
  have h3 : spanB isBlank (93 :: r) = ([], 93 :: r) := spanB_nomatch _ _ _ (by decide)
  have hemp : (decDigits a).isEmpty = false := by cases hx : decDigits a <;> simp_all
  simp only [h1, h2, hemp, Bool.false_eq_true, if_false, h3]
  simp

/-- `[a..]` -/
theorem scanSize_from (a : Nat) (r : Bytes) :
    scanSize (91 :: (decDigits a ++ 46 :: 46 :: 93 :: r)) = some (91 :: (decDigits a ++ [46, 46, 93])) := by
  obtain ⟨c, cr, hcr, hcd, hcb⟩ := decDigits_head_digit a
  obtain ⟨hd, _, hne⟩ := digits_are a
  unfold scanSize scanSizeBody
  have h1 : spanB isBlank (decDigits a ++ 46 :: 46 :: 93 :: r) = ([], decDigits a ++ 46 :: 46 :: 93 :: r) := by
    rw [hcr]; exact spanB_nomatch _ _ _ hcb
  have h2 : spanB isDigitB (decDigits a ++ 46 :: 46 :: 93 :: r) = (decDigits a, 46 :: 46 :: 93 :: r) :=
    spanB_stop' isDigitB (decDigits a) 46 _ hd (by decide)
  have h3 : spanB isBlank (46 :: 46 :: 93 :: r) = ([], 46 :: 46 :: 93 :: r) := spanB_nomatch _ _ _ (by decide)
  have h4 : spanB isBlank (93 :: r) = ([], 93 :: r) := spanB_nomatch _ _ _ (by decide)
  have h5 : spanB isDigitB (93 :: r) = ([], 93 :: r) := spanB_nomatch _ _ _ (by decide)
  have hemp : (decDigits a).isEmpty = false := by cases hx : decDigits a <;> simp_all
  simp only [h1, h2, hemp, Bool.false_eq_true, if_false, h3, h4, h5]
  simp

/-- `[a..b]` -/
theorem scanSize_range (a b : Nat) (r : Bytes) :
    scanSize (91 :: (decDigits a ++ 46 :: 46 :: (decDigits b ++ 93 :: r))) =
      some (91 :: (decDigits a ++ 46 :: 46 :: (decDigits b ++ [93]))) := by
  obtain ⟨c, cr, hcr, hcd, hcb⟩ := decDigits_head_digit a
  obtain ⟨c2, cr2, hcr2, hcd2, hcb2⟩ := decDigits_head_digit b
  obtain ⟨hd, _, hne⟩ := digits_are a
  obtain ⟨hd2, _, hne2⟩ := digits_are b
  unfold scanSize scanSizeBody
  have h1 : spanB isBlank (decDigits a ++ 46 :: 46 :: (decDigits b ++ 93 :: r)) = ([], decDigits a ++ 46 :: 46 :: (decDigits b ++ 93 :: r)) := by
    rw [hcr]; exact spanB_nomatch _ _ _ hcb
  have h2 : spanB isDigitB (decDigits a ++ 46 :: 46 :: (decDigits b ++ 93 :: r)) = (decDigits a, 46 :: 46 :: (decDigits b ++ 93 :: r)) :=
    spanB_stop' isDigitB (decDigits a) 46 _ hd (by decide)
  have h3 : spanB isBlank (46 :: 46 :: (decDigits b ++ 93 :: r)) = ([], 46 :: 46 :: (decDigits b ++ 93 :: r)) := spanB_nomatch _ _ _ (by decide)
  have h4 : spanB isBlank (decDigits b ++ 93 :: r) = ([], decDigits b ++ 93 :: r) := by
    rw [hcr2]; exact spanB_nomatch _ _ _ hcb2
  have h5 : spanB isDigitB (decDigits b ++ 93 :: r) = (decDigits b, 93 :: r) :=
    spanB_stop' isDigitB (decDigits b) 93 r hd2 (by decide)
  have h6 : spanB isBlank (93 :: r) = ([], 93 :: r) := spanB_nomatch _ _ _ (by decide)
  have hemp : (decDigits a).isEmpty = false := by cases hx : decDigits a <;> simp_all
  have hemp2 : (decDigits b).isEmpty = false := by cases hx : decDigits b <;> simp_all
  simp only [h1, h2, hemp, Bool.false_eq_true, if_false, h3, h4, h5, hemp2, h6]
  simp


theorem filter_noblank (raw : Bytes) (h : ∀ c ∈ raw, isBlank c = false) : raw.filter (fun c => !isBlank c) = raw := by
  induction raw with
  | nil => rfl
  | cons c r ih =>
    have hc := h c (by simp)
    simp [List.filter, hc, ih (fun x hx => h x (by simp [hx]))]

theorem stepText_size (ual : List Nat) (p : Pos) (r raw : Bytes) (hp : p.rest = 91 :: r)
    (hscan : scanSize (91 :: r) = some raw) (hnb : ∀ c ∈ raw, isBlank c = false) :
    stepText ual p = emit .itemSize raw raw .text p := by
  unfold stepText
  rw [hp]
  simp [startsWith, matchEllipsis, matchWord, isIdentStartB, isAlphaB, isUpperB, isLowerB, startsNumber, isDigitB,
    hscan, filter_noblank raw hnb]


/-! ### numbers -/

/-- a follower that ends every printed number: a blank or `>` -/
def endsNumber (f : Nat) : Prop := f = 32 ∨ f = 62

theorem scanNumber_digits (c : Nat) (ds : Bytes) (f : Nat) (r : Bytes) (hc : 49 ≤ c ∧ c ≤ 57)
    (hds : ∀ x ∈ ds, isDigitB x = true) (hf : endsNumber f) :
    scanNumber (c :: (ds ++ f :: r)) = c :: ds := by
  have hsp : spanB isDigitB (c :: (ds ++ f :: r)) = (c :: ds, f :: r) := by
    have := spanB_stop' isDigitB (c :: ds) f r
      (by intro x hx; rcases List.mem_cons.mp hx with rfl | hx
          · simp [isDigitB]; omega
          · exact hds x hx)
      (by rcases hf with rfl | rfl <;> decide)
    simpa using this
  have hc9 : c = 49 ∨ c = 50 ∨ c = 51 ∨ c = 52 ∨ c = 53 ∨ c = 54 ∨ c = 55 ∨ c = 56 ∨ c = 57 := by omega
  rcases hc9 with h | h | h | h | h | h | h | h | h <;> subst h <;>
    rcases hf with rfl | rfl <;> simp [scanNumber, hsp]

theorem scanNumber_zero (f : Nat) (r : Bytes) (hf : endsNumber f) : scanNumber (48 :: f :: r) = [48] := by
  rcases hf with rfl | rfl <;> simp [scanNumber, spanB, isDigitB]

theorem scanNumber_neg (c : Nat) (ds : Bytes) (f : Nat) (r : Bytes) (hc : 49 ≤ c ∧ c ≤ 57)
    (hds : ∀ x ∈ ds, isDigitB x = true) (hf : endsNumber f) :
    scanNumber (45 :: c :: (ds ++ f :: r)) = 45 :: c :: ds := by
  have hsp : spanB isDigitB (c :: (ds ++ f :: r)) = (c :: ds, f :: r) := by
    have := spanB_stop' isDigitB (c :: ds) f r
      (by intro x hx; rcases List.mem_cons.mp hx with rfl | hx
          · simp [isDigitB]; omega
          · exact hds x hx)
      (by rcases hf with rfl | rfl <;> decide)
    simpa using this
  have hc9 : c = 49 ∨ c = 50 ∨ c = 51 ∨ c = 52 ∨ c = 53 ∨ c = 54 ∨ c = 55 ∨ c = 56 ∨ c = 57 := by omega
  rcases hc9 with h | h | h | h | h | h | h | h | h <;> subst h <;>
    rcases hf with rfl | rfl <;> simp [scanNumber, hsp]

theorem scanNumber_bin (bits : Bytes) (f : Nat) (r : Bytes) (hb : ∀ x ∈ bits, x = 48 ∨ x = 49) (hf : endsNumber f) :
    scanNumber (48 :: 98 :: (bits ++ f :: r)) = 48 :: 98 :: bits := by
  have hsp : spanB (fun b => b == 48 || b == 49) (bits ++ f :: r) = (bits, f :: r) :=
    spanB_stop' _ bits f r (by intro x hx; rcases hb x hx with rfl | rfl <;> rfl)
      (by rcases hf with rfl | rfl <;> decide)
  rcases hf with rfl | rfl <;> simp [scanNumber, hsp]

theorem scanNumber_hex (h1 h2 : Nat) (f : Nat) (r : Bytes) (hh1 : isHexB h1 = true) (hh2 : isHexB h2 = true) (hf : endsNumber f) :
    scanNumber (48 :: 120 :: h1 :: h2 :: f :: r) = [48, 120, h1, h2] := by
  have hsp : spanB isHexB (h1 :: h2 :: f :: r) = ([h1, h2], f :: r) := by
    have := spanB_stop' isHexB [h1, h2] f r (by intro x hx; simp at hx; rcases hx with rfl | rfl <;> assumption)
      (by rcases hf with rfl | rfl <;> decide)
    simpa using this
  rcases hf with rfl | rfl <;> simp [scanNumber, hsp]


theorem nextIsAlnum_end (ual : List Nat) (f : Nat) (r : Bytes) (hf : endsNumber f) : nextIsAlnum ual (f :: r) = false := by
  rcases hf with rfl | rfl <;> simp [nextIsAlnum, isWordB, isAlphaB, isUpperB, isLowerB, isDigitB]

/-- a printed number (first byte a digit or `-`) followed by a blank or `>` -/
theorem stepText_number (ual : List Nat) (p : Pos) (b : Nat) (n' : Bytes) (f : Nat) (r : Bytes)
    (hp : p.rest = b :: (n' ++ f :: r)) (hb : b = 45 ∨ isDigitB b = true)
    (hscan : scanNumber (b :: (n' ++ f :: r)) = b :: n') (hf : endsNumber f) :
    stepText ual p = emit .number (b :: n') (b :: n') .text p := by
  have hb47 : b ≠ 47 ∧ b ≠ 46 ∧ isIdentStartB b = false := by
    rcases hb with rfl | hb
    · decide
    · simp only [isDigitB, Bool.and_eq_true, decide_eq_true_eq] at hb
      refine ⟨by omega, by omega, ?_⟩
      simp [isIdentStartB, isAlphaB, isUpperB, isLowerB]; omega
  have hsn : startsNumber (b :: (n' ++ f :: r)) = true := by
    rcases hb with rfl | hb
    · simp [startsNumber]
    · simp [startsNumber, hb]
  unfold stepText
  rw [hp]
  have hsw : startsWith [47, 47] (b :: (n' ++ f :: r)) = false := by
    cases n' <;> simp [startsWith, hb47.1]
  have hme : matchEllipsis (b :: (n' ++ f :: r)) = none := by
    unfold matchEllipsis
    split
    · rename_i heq; injection heq with h1 _; exact absurd h1 hb47.2.1
    · rfl
  have hmw : matchWord (b :: (n' ++ f :: r)) = none := by simp [matchWord, hb47.2.2]
  have hdrop : (b :: (n' ++ f :: r)).drop (b :: n').length = f :: r := by
    have : b :: (n' ++ f :: r) = (b :: n') ++ f :: r := rfl
    rw [this, List.drop_left]
  simp only [hsw, Bool.false_eq_true, if_false, hme, hmw, hsn, if_true, hscan, hdrop, nextIsAlnum_end ual f r hf]


/-! ### quoted strings, ellipses, variables -/

theorem indexOf_skip (p : Nat → Bool) (c tail : Bytes) (hc : ∀ x ∈ c, p x = false) :
    indexOf p (c ++ tail) = (indexOf p tail).map (· + c.length) := by
  induction c with
  | nil => simp
  | cons x r ih =>
    have hx := hc x (by simp)
    simp only [List.cons_append, indexOf, hx, Bool.false_eq_true, if_false, ih (fun y hy => hc y (by simp [hy])),
      Option.map_map, List.length_cons]
    congr 1

theorem scanQuoted_run (run more : Bytes) (hq : ∀ x ∈ run, x ≠ 34) (hnl : ∀ x ∈ run, x ≠ 13 ∧ x ≠ 10) :
    scanQuoted (34 :: (run ++ 34 :: more)) = some (34 :: (run ++ [34])) := by
  unfold scanQuoted
  have h1 : indexOf (· == 34) (run ++ 34 :: more) = some run.length := by
    rw [indexOf_skip _ run _ (by intro x hx; simpa using hq x hx)]
    simp [indexOf]
  have h2 : ∀ j, indexOf (fun b => b == 13 || b == 10) (run ++ 34 :: more) = some j → ¬ j < run.length := by
    intro j hj
    rw [indexOf_skip _ run _ (by intro x hx; have := hnl x hx; simp [this.1, this.2])] at hj
    cases hi : indexOf (fun b => b == 13 || b == 10) (34 :: more) with
    | none => simp [hi] at hj
    | some k => simp [hi] at hj; omega
  have htake : List.take (run.length + 1) (run ++ 34 :: more) = run ++ [34] := by
    have : run ++ 34 :: more = (run ++ [34]) ++ more := by simp
    rw [this]
    have hl : run.length + 1 = (run ++ [34]).length := by simp
    rw [hl, List.take_left]
  simp only [h1]
  cases hj : indexOf (fun b => b == 13 || b == 10) (run ++ 34 :: more) with
  | none => simp [htake]
  | some j => simp [h2 j hj, htake]

theorem stepText_quoted (ual : List Nat) (p : Pos) (run more : Bytes) (hp : p.rest = 34 :: (run ++ 34 :: more))
    (hq : ∀ x ∈ run, x ≠ 34) (hnl : ∀ x ∈ run, x ≠ 13 ∧ x ≠ 10) :
    stepText ual p = emit .quoted (34 :: (run ++ [34])) (34 :: (run ++ [34])) .text p := by
  unfold stepText
  rw [hp]
  simp [startsWith, matchEllipsis, matchWord, isIdentStartB, isAlphaB, isUpperB, isLowerB, startsNumber, isDigitB,
    scanQuoted_run run more hq hnl]

/-- `...` at the end of its line -/
theorem stepText_ellipsis (ual : List Nat) (p : Pos) (r : Bytes) (hp : p.rest = 46 :: 46 :: 46 :: 10 :: r) :
    stepText ual p = emit .ellipsis [46, 46, 46] [46, 46, 46] .text p := by
  unfold stepText
  rw [hp]
  simp [startsWith, matchEllipsis, matchIdx]


theorem idxGroups2_split : ∀ r : Bytes, idxGroups 2 r = true →
    ∃ ds g', r = ds ++ 93 :: g' ∧ (∀ x ∈ ds, isDigitB x = true) ∧ idxGroups 0 g' = true := by
  intro r
  induction r with
  | nil => intro h; simp [idxGroups] at h
  | cons b r ih =>
    intro h
    simp only [idxGroups] at h
    by_cases hb : isDigitB b = true
    · rw [if_pos hb] at h
      obtain ⟨ds, g', hr, hd, hg⟩ := ih h
      exact ⟨b :: ds, g', by simp [hr], by intro x hx; rcases List.mem_cons.mp hx with rfl | hx; exact hb; exact hd x hx, hg⟩
    · rw [if_neg hb] at h
      simp only [Bool.and_eq_true, beq_iff_eq] at h
      exact ⟨[], r, by simp [h.1], by simp, h.2⟩

/-- a non-empty run of index groups starts with one group `[digits]` -/
theorem idxGroups0_split (b : Nat) (r : Bytes) (h : idxGroups 0 (b :: r) = true) :
    ∃ ds g', b :: r = 91 :: (ds ++ 93 :: g') ∧ ds ≠ [] ∧ (∀ x ∈ ds, isDigitB x = true) ∧ idxGroups 0 g' = true := by
  simp only [idxGroups, Bool.and_eq_true, beq_iff_eq] at h
  obtain ⟨hb, h1⟩ := h
  cases r with
  | nil => simp [idxGroups] at h1
  | cons d r' =>
    simp only [idxGroups, Bool.and_eq_true] at h1
    obtain ⟨ds, g', hr, hd, hg⟩ := idxGroups2_split r' h1.2
    exact ⟨d :: ds, g', by simp [hb, hr], by simp, by intro x hx; rcases List.mem_cons.mp hx with rfl | hx; exact h1.1; exact hd x hx, hg⟩

theorem matchIdx_group (ds tail : Bytes) (hne : ds ≠ []) (hd : ∀ x ∈ ds, isDigitB x = true) :
    matchIdx (91 :: (ds ++ 93 :: tail)) = some (91 :: (ds ++ [93])) := by
  have hsp : spanB isDigitB (ds ++ 93 :: tail) = (ds, 93 :: tail) := spanB_stop' isDigitB ds 93 tail hd (by decide)
  have hemp : ds.isEmpty = false := by cases ds <;> simp_all
  simp [matchIdx, hsp, hemp]

theorem matchIdxs_groups : ∀ (n : Nat) (g : Bytes) (fuel : Nat) (f : Nat) (more : Bytes), g.length ≤ n →
    idxGroups 0 g = true → g.length < fuel → f ≠ 91 → matchIdxs fuel (g ++ f :: more) = g := by
  intro n
  induction n with
  | zero =>
    intro g fuel f more hl _ hf hf91
    have : g = [] := List.eq_nil_of_length_eq_zero (by omega)
    subst this
    cases fuel with
    | zero => omega
    | succ k =>
      simp only [List.nil_append, matchIdxs]
      have : matchIdx (f :: more) = none := by
        unfold matchIdx
        split
        · rename_i heq; injection heq with h1 _; exact absurd h1 hf91
        · rfl
      simp [this]
  | succ n ih =>
    intro g fuel f more hl hg hf hf91
    cases g with
    | nil => exact ih [] fuel f more (by simp) hg hf hf91
    | cons b r =>
      obtain ⟨ds, g', hbr, hne, hd, hg'⟩ := idxGroups0_split b r hg
      cases fuel with
      | zero => omega
      | succ k =>
        rw [hbr]
        have hm := matchIdx_group ds (g' ++ f :: more) hne hd
        have e1 : 91 :: (ds ++ 93 :: g') ++ f :: more = 91 :: (ds ++ 93 :: (g' ++ f :: more)) := by simp
        rw [e1, matchIdxs, hm]
        have hlen : (b :: r).length = ds.length + 2 + g'.length := by rw [hbr]; simp; omega
        have e2 : (91 :: (ds ++ 93 :: (g' ++ f :: more))).drop (91 :: (ds ++ [93])).length = g' ++ f :: more := by
          have : 91 :: (ds ++ 93 :: (g' ++ f :: more)) = (91 :: (ds ++ [93])) ++ (g' ++ f :: more) := by simp
          rw [this, List.drop_left]
        simp only [e2]
        have hl' := hl
        have hf' := hf
        rw [hlen] at hl' hf'
        rw [ih g' k f more (by omega) hg' (by omega) hf91]
        simp


theorem spanB_spec (p : Nat → Bool) : ∀ l : Bytes, (spanB p l).1 ++ (spanB p l).2 = l ∧ (∀ x ∈ (spanB p l).1, p x = true) ∧
    (∀ b r, (spanB p l).2 = b :: r → p b = false) := by
  intro l
  induction l with
  | nil => simp [spanB]
  | cons a r ih =>
    by_cases ha : p a = true
    · simp only [spanB, ha, if_true]
      refine ⟨by simp [ih.1], ?_, ih.2.2⟩
      intro x hx
      rcases List.mem_cons.mp hx with rfl | hx
      · exact ha
      · exact ih.2.1 x hx
    · have ha' : p a = false := by simpa using ha
      simp only [spanB, ha', Bool.false_eq_true, if_false]
      refine ⟨by simp, by simp, ?_⟩
      intro b r' h
      simp at h
      rw [← h.1]; exact ha'

/-- the name is not read as a type name or a boolean -/
def plainName : Name → Bool
  | [] => false
  | c0 :: r0 =>
    !typeKeywords.contains (upper (c0 :: (spanB isWordB r0).1)) && !boolKeywords.contains (upper (c0 :: (spanB isWordB r0).1))

/-- a follower that ends every printed name: blank, line feed or `>` -/
def endsName (f : Nat) : Prop := f = 32 ∨ f = 62 ∨ f = 10

/-- a valid variable name that is not a keyword, followed by a blank, a line end or `>` -/
theorem stepText_variable (ual : List Nat) (p : Pos) (nm : Name) (f : Nat) (more : Bytes)
    (hp : p.rest = nm ++ f :: more) (hv : isValidVarName nm = true) (hpl : plainName nm = true) (hf : endsName f) :
    stepText ual p = emit .variable nm nm .text p := by
  cases nm with
  | nil => simp [isValidVarName] at hv
  | cons c0 r0 =>
    simp only [isValidVarName, Bool.and_eq_true] at hv
    obtain ⟨h0, hg⟩ := hv
    obtain ⟨happ, hall, hhead⟩ := spanB_spec isWordB r0
    have hfw : isWordB f = false := by rcases hf with rfl | rfl | rfl <;> decide
    have hf91 : f ≠ 91 := by rcases hf with rfl | rfl | rfl <;> decide
    -- the byte after the word part
    have hnext : ∃ f' tail, (spanB isWordB r0).2 ++ f :: more = f' :: tail ∧ isWordB f' = false := by
      cases hs2 : (spanB isWordB r0).2 with
      | nil => exact ⟨f, more, by simp, hfw⟩
      | cons b r' => exact ⟨b, r' ++ f :: more, by simp, hhead b r' hs2⟩
    obtain ⟨f', tail, hft, hf'w⟩ := hnext
    have hrest : p.rest = c0 :: ((spanB isWordB r0).1 ++ f' :: tail) := by
      rw [hp, ← hft]
      have : r0 = (spanB isWordB r0).1 ++ (spanB isWordB r0).2 := happ.symm
      conv => lhs; rw [this]
      simp
    have hw := stepText_word ual p c0 (spanB isWordB r0).1 f' tail hrest h0 hall hf'w
    simp only [plainName, Bool.and_eq_true, Bool.not_eq_true'] at hpl
    have hk1 : ¬ (typeKeywords.contains (upper (c0 :: (spanB isWordB r0).1)) = true) := by rw [hpl.1]; simp
    have hk2 : ¬ (boolKeywords.contains (upper (c0 :: (spanB isWordB r0).1)) = true) := by rw [hpl.2]; simp
    rw [hw, if_neg hk1, if_neg hk2]
    have hdrop : p.rest.drop (c0 :: (spanB isWordB r0).1).length = (spanB isWordB r0).2 ++ f :: more := by
      rw [hrest, ← hft]
      have : c0 :: ((spanB isWordB r0).1 ++ ((spanB isWordB r0).2 ++ f :: more)) =
          (c0 :: (spanB isWordB r0).1) ++ ((spanB isWordB r0).2 ++ f :: more) := rfl
      rw [this, List.drop_left]
    have hlen : (spanB isWordB r0).2.length < p.rest.length := by
      rw [hp]
      have : r0.length = (spanB isWordB r0).1.length + (spanB isWordB r0).2.length := by
        conv => lhs; rw [← happ]
        simp
      simp; omega
    have hidx := matchIdxs_groups (spanB isWordB r0).2.length (spanB isWordB r0).2 p.rest.length f more (Nat.le_refl _) hg hlen hf91
    rw [hdrop, hidx]
    have hname : c0 :: (spanB isWordB r0).1 ++ (spanB isWordB r0).2 = c0 :: r0 := by
      simp [happ]
    rw [hname]

end Lex
end Secs
