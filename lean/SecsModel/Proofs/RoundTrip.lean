/- The encoder/decoder round trip on item trees (used by C01, C02, C03, C13). -/
import SecsModel.Proofs.Codec
namespace Secs

mutual
def Tmpl.sz : Tmpl → Nat
  | .list xs => 1 + xs.szs
  | _ => 1
def Slots.szs : Slots → Nat
  | .nil => 0
  | .item x r => x.sz + r.szs + 1
  | .var _ r => r.szs + 1
end

/-- every closed well-formed non-list item is "header + payload that decPayload reads back" -/
theorem leaf_form (t : Tmpl) (hw : t.wf = true) (hc : t.closed = true) (hl : t.isList = false) :
    ∃ f size payload, f ≠ Fmt.list ∧ t.enc = withHeader f size payload ∧
      payload.length = size * f.width ∧ size * f.width ≤ maxByteSize ∧ decPayload f payload = some t := by
  cases t with
  | list xs => simp [Tmpl.isList] at hl
  | empty => simp [Tmpl.closed] at hc
  | asciiVar n a b => simp [Tmpl.closed] at hc
  | ascii s =>
    simp only [Tmpl.wf, Bool.and_eq_true, decide_eq_true_eq] at hw
    refine ⟨.ascii, s.length, s, by simp, by simp [Tmpl.enc], by simp [Fmt.width], by simpa [Fmt.width] using hw.1, ?_⟩
    simp [decPayload, hw.2]
  | binary xs =>
    obtain ⟨vs, rfl⟩ := closed_slots xs (by simpa [Tmpl.closed] using hc)
    simp only [Tmpl.wf, Bool.and_eq_true, decide_eq_true_eq, List.length_map] at hw
    have hr := slotsOk_vals _ vs hw.2
    have hv : ∀ v ∈ vs, v < 256 := fun v hv => by simpa using hr v hv
    refine ⟨.binary, vs.length, vs, by simp, ?_, by simp [Fmt.width], by simpa [Fmt.width] using hw.1, ?_⟩
    · simp [Tmpl.enc, slotVals_map_val, map_mod_id vs hv]
    · simp [decPayload]
  | boolean xs =>
    obtain ⟨vs, rfl⟩ := closed_slots xs (by simpa [Tmpl.closed] using hc)
    simp only [Tmpl.wf, Bool.and_eq_true, decide_eq_true_eq, List.length_map] at hw
    refine ⟨.boolean, vs.length, vs.map (fun b => if b then 1 else 0), by simp, ?_, by simp [Fmt.width],
      by simpa [Fmt.width] using hw.1, ?_⟩
    · simp [Tmpl.enc, slotVals_map_val]
    · simp only [decPayload]
      rw [map_bool_roundtrip]
  | int w xs =>
    obtain ⟨vs, rfl⟩ := closed_slots xs (by simpa [Tmpl.closed] using hc)
    simp only [Tmpl.wf, Bool.and_eq_true, decide_eq_true_eq, List.length_map] at hw
    obtain ⟨⟨hwv, hmax⟩, hok⟩ := hw
    have hr := slotsOk_vals _ vs hok
    have hf : ∃ f, intFmt? w = some f ∧ f.width = w ∧ f ≠ .list := by
      simp only [validWidthInt, Bool.or_eq_true, beq_iff_eq] at hwv
      rcases hwv with ((rfl | rfl) | rfl) | rfl
      · exact ⟨.i1, rfl, rfl, by simp⟩
      · exact ⟨.i2, rfl, rfl, by simp⟩
      · exact ⟨.i4, rfl, rfl, by simp⟩
      · exact ⟨.i8, rfl, rfl, by simp⟩
    obtain ⟨f, hf1, hf2, hf3⟩ := hf
    refine ⟨f, vs.length, vs.flatMap (intBytes w), hf3, ?_, ?_, by rw [hf2]; exact hmax, decPayload_int f w hf1 vs hr⟩
    · simp [Tmpl.enc, slotVals_map_val, hf1]
    · rw [hf2]; exact flatMap_length_const w _ vs (fun v _ => intBytes_length w v)
  | uint w xs =>
    obtain ⟨vs, rfl⟩ := closed_slots xs (by simpa [Tmpl.closed] using hc)
    simp only [Tmpl.wf, Bool.and_eq_true, decide_eq_true_eq, List.length_map] at hw
    obtain ⟨⟨hwv, hmax⟩, hok⟩ := hw
    have hr := slotsOk_vals _ vs hok
    have hf : ∃ f, uintFmt? w = some f ∧ f.width = w ∧ f ≠ .list := by
      simp only [validWidthInt, Bool.or_eq_true, beq_iff_eq] at hwv
      rcases hwv with ((rfl | rfl) | rfl) | rfl
      · exact ⟨.u1, rfl, rfl, by simp⟩
      · exact ⟨.u2, rfl, rfl, by simp⟩
      · exact ⟨.u4, rfl, rfl, by simp⟩
      · exact ⟨.u8, rfl, rfl, by simp⟩
    obtain ⟨f, hf1, hf2, hf3⟩ := hf
    refine ⟨f, vs.length, vs.flatMap (beEnc w), hf3, ?_, ?_, by rw [hf2]; exact hmax, decPayload_uint f w hf1 vs hr⟩
    · simp [Tmpl.enc, slotVals_map_val, hf1]
    · rw [hf2]; exact flatMap_length_const w _ vs (fun v _ => beEnc_length w v)
  | float w xs =>
    obtain ⟨vs, rfl⟩ := closed_slots xs (by simpa [Tmpl.closed] using hc)
    simp only [Tmpl.wf, Bool.and_eq_true, decide_eq_true_eq, List.length_map] at hw
    obtain ⟨⟨hwv, hmax⟩, hok⟩ := hw
    have hr := slotsOk_vals _ vs hok
    have hf : ∃ f, floatFmt? w = some f ∧ f.width = w ∧ f ≠ .list := by
      simp only [validWidthFloat, Bool.or_eq_true, beq_iff_eq] at hwv
      rcases hwv with rfl | rfl
      · exact ⟨.f4, rfl, rfl, by simp⟩
      · exact ⟨.f8, rfl, rfl, by simp⟩
    obtain ⟨f, hf1, hf2, hf3⟩ := hf
    refine ⟨f, vs.length, vs.flatMap (beEnc w), hf3, ?_, ?_, by rw [hf2]; exact hmax, decPayload_float f w hf1 vs hr⟩
    · simp [Tmpl.enc, slotVals_map_val, hf1]
    · rw [hf2]; exact flatMap_length_const w _ vs (fun v _ => beEnc_length w v)

theorem withHeader_length (f : Fmt) (size : Nat) (payload : Bytes) (h : size * f.width ≤ maxByteSize) :
    2 ≤ (withHeader f size payload).length := by
  have := nLB_pos (size * f.width)
  unfold withHeader
  rw [headerBytes_closed f size h]
  simp [beEnc_length]; omega

mutual
/-- every closed well-formed item has an encoding of at least two bytes -/
theorem enc_length_ge (t : Tmpl) (hw : t.wf = true) (hc : t.closed = true) : 2 ≤ t.enc.length := by
  cases t with
  | list xs =>
    simp only [Tmpl.wf, Bool.and_eq_true, decide_eq_true_eq] at hw
    obtain ⟨p, hp⟩ := encs_some xs hw.1.1.2 (by simpa [Tmpl.closed] using hc)
    have hmax : xs.len * Fmt.list.width ≤ maxByteSize := by simpa [Fmt.width] using hw.1.1.1
    have := nLB_pos (xs.len * Fmt.list.width)
    simp only [Tmpl.enc, headerBytes_closed .list xs.len hmax, hp, List.length_append, List.length_cons, beEnc_length]
    omega
  | ascii s =>
    obtain ⟨f, size, payload, _, he, _, hm, _⟩ := leaf_form (.ascii s) hw hc rfl
    rw [he]; exact withHeader_length f size payload hm
  | asciiVar n a b => simp [Tmpl.closed] at hc
  | empty => simp [Tmpl.closed] at hc
  | binary xs =>
    obtain ⟨f, size, payload, _, he, _, hm, _⟩ := leaf_form (.binary xs) hw hc rfl
    rw [he]; exact withHeader_length f size payload hm
  | boolean xs =>
    obtain ⟨f, size, payload, _, he, _, hm, _⟩ := leaf_form (.boolean xs) hw hc rfl
    rw [he]; exact withHeader_length f size payload hm
  | int w xs =>
    obtain ⟨f, size, payload, _, he, _, hm, _⟩ := leaf_form (.int w xs) hw hc rfl
    rw [he]; exact withHeader_length f size payload hm
  | uint w xs =>
    obtain ⟨f, size, payload, _, he, _, hm, _⟩ := leaf_form (.uint w xs) hw hc rfl
    rw [he]; exact withHeader_length f size payload hm
  | float w xs =>
    obtain ⟨f, size, payload, _, he, _, hm, _⟩ := leaf_form (.float w xs) hw hc rfl
    rw [he]; exact withHeader_length f size payload hm
/-- the children of a closed well-formed list all encode -/
theorem encs_some (xs : Slots) (hw : xs.wfAll = true) (hc : xs.closedAll = true) : ∃ p, xs.enc = some p := by
  cases xs with
  | nil => exact ⟨[], rfl⟩
  | var n r => simp [Slots.closedAll] at hc
  | item t r =>
    simp only [Slots.wfAll, Bool.and_eq_true] at hw
    simp only [Slots.closedAll, Bool.and_eq_true] at hc
    obtain ⟨p, hp⟩ := encs_some r hw.2 hc.2
    have hl := enc_length_ge t hw.1 hc.1
    refine ⟨t.enc ++ p, ?_⟩
    simp only [Slots.enc, hp]
    split <;> simp_all
end

/-- unfolding of `Slots.enc` on a closed well-formed list -/
theorem encs_item (t : Tmpl) (r : Slots) (hw : t.wf = true) (hc : t.closed = true) (p : Bytes)
    (hp : r.enc = some p) : (Slots.item t r).enc = some (t.enc ++ p) := by
  have hl := enc_length_ge t hw hc
  simp only [Slots.enc, hp]
  split <;> simp_all

mutual
/-- C01 core: decoding what was encoded gives the item back, leaving the suffix untouched -/
theorem decItem_enc (t : Tmpl) (hw : t.wf = true) (hc : t.closed = true) (rest : Bytes) (fuel : Nat)
    (hf : t.sz ≤ fuel) : decItem fuel (t.enc ++ rest) = some (t, rest) := by
  cases fuel with
  | zero => cases t <;> simp [Tmpl.sz] at hf
  | succ fuel =>
    by_cases hl : t.isList = false
    · obtain ⟨f, size, payload, hfl, he, hlen, hm, hd⟩ := leaf_form t hw hc hl
      rw [he]
      exact decItem_leaf f hfl size payload t hlen hm hd rest fuel
    · cases t with
      | list xs =>
        simp only [Tmpl.wf, Bool.and_eq_true, decide_eq_true_eq] at hw
        have hcl : xs.closedAll = true := by simpa [Tmpl.closed] using hc
        obtain ⟨p, hp, hdec⟩ := decItems_enc xs hw.1.1.2 hcl rest fuel (by simp [Tmpl.sz] at hf; omega)
        have hmax : xs.len * Fmt.list.width ≤ maxByteSize := by simpa [Fmt.width] using hw.1.1.1
        obtain ⟨k, k1, k3, kn, hh, h4, h5⟩ := decItem_header .list xs.len hmax
        simp only [Tmpl.enc, hh, hp, List.cons_append, List.append_assoc]
        rw [decItem]
        simp only [h4, h5, decodeFmt_code]
        have hk0 : ¬ k = 0 := by omega
        simp only [hk0, if_false, List.length_append, beEnc_length]
        have h1 : ¬ (k + (p.length + rest.length) < k) := by omega
        simp only [h1, if_false, List.take_left' (beEnc_length k _), List.drop_left' (beEnc_length k _),
          beDec_beEnc k _ kn]
        simp only [Fmt.width, Nat.mul_one] at hdec ⊢
        rw [hdec]
      | _ => simp [Tmpl.isList] at hl
theorem decItems_enc (xs : Slots) (hw : xs.wfAll = true) (hc : xs.closedAll = true) (rest : Bytes) (fuel : Nat)
    (hf : xs.szs ≤ fuel) : ∃ p, xs.enc = some p ∧ decItems fuel xs.len (p ++ rest) = some (xs, rest) := by
  cases xs with
  | nil => exact ⟨[], rfl, by simp [Slots.len, decItems]⟩
  | var n r => simp [Slots.closedAll] at hc
  | item t r =>
    simp only [Slots.wfAll, Bool.and_eq_true] at hw
    simp only [Slots.closedAll, Bool.and_eq_true] at hc
    cases fuel with
    | zero => simp [Slots.szs] at hf
    | succ fuel =>
      obtain ⟨p, hp, hdec⟩ := decItems_enc r hw.2 hc.2 rest fuel (by simp [Slots.szs] at hf; omega)
      refine ⟨t.enc ++ p, encs_item t r hw.1 hc.1 p hp, ?_⟩
      simp only [Slots.len, List.append_assoc, decItems]
      rw [decItem_enc t hw.1 hc.1 (p ++ rest) fuel (by simp [Slots.szs] at hf; omega)]
      simp only [hdec]
end

end Secs
