/-
The lexer half of the print → parse round trip, composed: the printed form of an item is
lexed into the token stream `itemToks` of the parser half.
-/
import SecsModel.Proofs.LexPrinted
import SecsModel.Proofs.PrintToks
import SecsModel.Proofs.ParserNat
namespace Secs
namespace Sml
open Lex

/-- one token in the text state, after any run of blanks -/
theorem lex_text_tok (ual : List Nat) (ws text more : Bytes) (k : Kind) (v : Bytes) (m' : Mode) (b : Nat) (r : Bytes)
    (hws : ∀ c ∈ ws, isBlank c = true) (htext : text = b :: r)
    (hb : isBlank b = false) (hs : Utf8.isSpace b = false) (h128 : b < 128)
    (hstep : ∀ p : Pos, p.rest = text ++ more → stepText ual p = emit k v text m' p) :
    (lexFrom ual .text (ws ++ (text ++ more))).map eraseT = tk k v :: (lexFrom ual m' more).map eraseT := by
  rw [blank_run_invisible ual .text ws _ hws]
  have hcons : text ++ more = b :: (r ++ more) := by rw [htext]; rfl
  rw [hcons]
  exact lexFrom_text_emit ual k v text m' b (r ++ more) more hcons hb hs h128
    (fun p hp => hstep p (by rw [hp, hcons]))

/-- a printed value: its text starts with a visible ASCII byte and, followed by a blank or `>`,
is lexed as the token -/
def LexVal (text : Bytes) (t : Tok) : Prop :=
  ∃ b r, text = b :: r ∧ isBlank b = false ∧ Utf8.isSpace b = false ∧ b < 128 ∧
    ∀ (ual : List Nat) (p : Pos) (f : Nat) (more : Bytes), (f = 32 ∨ f = 62) → p.rest = text ++ f :: more →
      stepText ual p = emit t.kind t.val text .text p

theorem lex_rab (ual : List Nat) (ws more : Bytes) (hws : ∀ c ∈ ws, isBlank c = true) :
    (lexFrom ual .text (ws ++ 62 :: more)).map eraseT = tk .rab [62] :: (lexFrom ual .text more).map eraseT := by
  have := lex_text_tok ual ws [62] more .rab [62] .text 62 [] hws rfl (by decide) (by decide) (by decide)
    (fun p hp => stepText_rab ual p more (by simpa using hp))
  simpa using this

theorem lex_lab (ual : List Nat) (ws more : Bytes) (hws : ∀ c ∈ ws, isBlank c = true) :
    (lexFrom ual .text (ws ++ 60 :: more)).map eraseT = tk .lab [60] :: (lexFrom ual .text more).map eraseT := by
  have := lex_text_tok ual ws [60] more .lab [60] .text 60 [] hws rfl (by decide) (by decide) (by decide)
    (fun p hp => stepText_lab ual p more (by simpa using hp))
  simpa using this

/-- the values of an array item, separated by single blanks, up to and including `>` -/
theorem lex_joinSp (ual : List Nat) : ∀ (vals : List (Bytes × Tok)) (more : Bytes), vals ≠ [] →
    (∀ v ∈ vals, LexVal v.1 v.2) →
    (lexFrom ual .text (joinSp (vals.map (·.1)) ++ 62 :: more)).map eraseT =
      vals.map (fun v => tk v.2.kind v.2.val) ++ tk .rab [62] :: (lexFrom ual .text more).map eraseT := by
  intro vals
  induction vals with
  | nil => intro more h; exact absurd rfl h
  | cons v rest ih =>
    intro more _ hall
    obtain ⟨b, r, htext, hb, hs, h128, hstep⟩ := hall v (by simp)
    cases rest with
    | nil =>
      simp only [List.map_cons, List.map_nil, joinSp]
      have h1 := lex_text_tok ual [] v.1 (62 :: more) v.2.kind v.2.val .text b r (by simp) htext hb hs h128
        (fun p hp => hstep ual p 62 more (Or.inr rfl) hp)
      simp only [List.nil_append] at h1
      rw [h1]
      have h2 := lex_rab ual [] more (by simp)
      simp only [List.nil_append] at h2
      rw [h2]
      rfl
    | cons v2 rest2 =>
      simp only [List.map_cons, joinSp]
      have e : v.1 ++ 32 :: joinSp (v2.1 :: List.map (·.1) rest2) ++ 62 :: more =
          v.1 ++ 32 :: (joinSp (v2.1 :: List.map (·.1) rest2) ++ 62 :: more) := by simp
      rw [e]
      have h1 := lex_text_tok ual [] v.1 (32 :: (joinSp (v2.1 :: List.map (·.1) rest2) ++ 62 :: more)) v.2.kind v.2.val .text b r
        (by simp) htext hb hs h128 (fun p hp => hstep ual p 32 _ (Or.inl rfl) hp)
      simp only [List.nil_append] at h1
      rw [h1]
      have hblank := blank_run_invisible ual .text [32] (joinSp (v2.1 :: List.map (·.1) rest2) ++ 62 :: more) (by simp [isBlank])
      simp only [List.cons_append, List.nil_append] at hblank
      rw [hblank]
      have := ih more (by simp) (fun x hx => hall x (by simp [hx]))
      simp only [List.map_cons] at this
      rw [this]
      rfl


/-- a type name as printed: an upper-case keyword -/
def TypeName (ty : Bytes) : Prop :=
  ∃ (c0 : Nat) (w : Bytes), ty = c0 :: w ∧ isIdentStartB c0 = true ∧ (∀ x ∈ w, isWordB x = true) ∧
    typeKeywords.contains (upper ty) = true ∧ upper ty = ty ∧
    (isBlank c0 = false ∧ Utf8.isSpace c0 = false ∧ c0 < 128)

theorem lex_type (ual : List Nat) (ty : Bytes) (hty : TypeName ty) (f : Nat) (more : Bytes) (hf : isWordB f = false) :
    (lexFrom ual .text (ty ++ f :: more)).map eraseT = tk .itemType ty :: (lexFrom ual .text (f :: more)).map eraseT := by
  obtain ⟨c0, w, heq, h0, hw, hkey, hup, hvis⟩ := hty
  have := lex_text_tok ual [] ty (f :: more) .itemType ty .text c0 w (by simp) heq hvis.1 hvis.2.1 hvis.2.2
    (fun p hp => by
      have hs := stepText_word ual p c0 w f more (by rw [hp, heq]; rfl) h0 hw hf
      rw [hs, ← heq, if_pos hkey, hup])
  simpa using this

theorem lex_sizeTok (ual : List Nat) (n : Nat) (more : Bytes) :
    (lexFrom ual .text (91 :: (decDigits n ++ 93 :: more))).map eraseT = sizeTok n :: (lexFrom ual .text more).map eraseT := by
  have hnb : ∀ c ∈ (91 :: (decDigits n ++ [93]) : Bytes), isBlank c = false := by
    intro c hc
    simp only [List.mem_cons, List.mem_append, List.mem_singleton] at hc
    rcases hc with rfl | hc | hc
    · decide
    · exact (digits_are n).2.1 c hc
    · rcases hc with rfl | hc
      · decide
      · simp at hc
  have := lex_text_tok ual [] (91 :: (decDigits n ++ [93])) more .itemSize (91 :: (decDigits n ++ [93])) .text 91 (decDigits n ++ [93])
    (by simp) rfl (by decide) (by decide) (by decide)
    (fun p hp => stepText_size ual p (decDigits n ++ 93 :: more) _ (by simpa using hp) (scanSize_exact n more) hnb)
  simpa [sizeTok, tk] using this

theorem str_empty_tail : str "[0]>" = [91, 48, 93, 62] := by decide +kernel

/-- a value slot or a variable slot as a (text, token) pair -/
def slotPair {α} (f : α → Bytes) (ft : α → Tok) : Slot α → Bytes × Tok
  | .val a => (f a, ft a)
  | .var n => (n, tk .variable n)

theorem printSlots_pairs {α} (f : α → Bytes) (ft : α → Tok) (xs : List (Slot α)) :
    printSlots f xs = (xs.map (slotPair f ft)).map (·.1) := by
  induction xs with
  | nil => rfl
  | cons x r ih => cases x <;> simp [printSlots, slotPair, ih]

theorem slotToks_pairs {α} (f : α → Bytes) (ft : α → Tok) (hft : ∀ a, ft a = tk (ft a).kind (ft a).val) (xs : List (Slot α)) :
    slotToks ft xs = (xs.map (slotPair f ft)).map (fun v => tk v.2.kind v.2.val) := by
  induction xs with
  | nil => rfl
  | cons x r ih =>
    cases x with
    | val a => simp only [slotToks, List.map_cons, slotPair, ih]; rw [← hft a]
    | var n => simp only [slotToks, List.map_cons, slotPair, ih]; rfl

theorem lexVal_variable (n : Name) (hv : isValidVarName n = true) (hp : plainName n = true) : LexVal n (tk .variable n) := by
  cases hn : n with
  | nil => rw [hn] at hv; simp [isValidVarName] at hv
  | cons c0 r0 =>
    have h0 : isIdentStartB c0 = true := by
      rw [hn] at hv; simp only [isValidVarName, Bool.and_eq_true] at hv; exact hv.1
    have hvis : isBlank c0 = false ∧ Utf8.isSpace c0 = false ∧ c0 < 128 := by
      simp only [isIdentStartB, isAlphaB, isUpperB, isLowerB, Bool.or_eq_true, Bool.and_eq_true, decide_eq_true_eq,
        beq_iff_eq] at h0
      refine ⟨?_, ?_, ?_⟩
      · simp [isBlank]; omega
      · simp [Utf8.isSpace]; omega
      · omega
    refine ⟨c0, r0, rfl, hvis.1, hvis.2.1, hvis.2.2, ?_⟩
    intro ual p f more hf hrest
    have := stepText_variable ual p n f more (by rw [hn]; exact hrest) hv hp
      (by rcases hf with rfl | rfl; exact Or.inl rfl; exact Or.inr (Or.inl rfl))
    rw [hn] at this
    exact this

/-- the printed form of an array item is lexed into its tokens -/
theorem lex_array {α} (ual : List Nat) (ty : Bytes) (hty : TypeName ty) (f : α → Bytes) (ft : α → Tok)
    (hft : ∀ a, ft a = tk (ft a).kind (ft a).val) (xs : List (Slot α)) (more : Bytes)
    (hvals : ∀ a, Slot.val a ∈ xs → LexVal (f a) (ft a))
    (hnames : ∀ n, Slot.var n ∈ xs → isValidVarName n = true ∧ plainName n = true) :
    (lexFrom ual .text (printArray ty f xs ++ more)).map eraseT =
      arrayToks ty ft xs ++ (lexFrom ual .text more).map eraseT := by
  unfold printArray arrayToks
  by_cases he : xs.isEmpty = true
  · have hx : xs = [] := by simpa using he
    subst hx
    simp only [List.isEmpty_nil, if_true, str_empty_tail, slotToks, List.length_nil]
    have e : [60] ++ ty ++ [91, 48, 93, 62] ++ more = [] ++ 60 :: (ty ++ 91 :: (decDigits 0 ++ 93 :: ([] ++ 62 :: more))) := by
      have : decDigits 0 = [48] := decDigits_small 0 (by decide)
      simp [this]
    rw [e, lex_lab ual [] _ (by simp), lex_type ual ty hty 91 _ (by decide), lex_sizeTok ual 0 _, lex_rab ual [] more (by simp)]
    simp
  · rw [if_neg he]
    have hne : xs.map (slotPair f ft) ≠ [] := by
      intro h
      apply he
      cases xs with
      | nil => rfl
      | cons x r => simp at h
    have hall : ∀ v ∈ xs.map (slotPair f ft), LexVal v.1 v.2 := by
      intro v hv
      simp only [List.mem_map] at hv
      obtain ⟨sl, hsl, rfl⟩ := hv
      cases sl with
      | val a => exact hvals a hsl
      | var n => exact lexVal_variable n (hnames n hsl).1 (hnames n hsl).2
    have e : [60] ++ ty ++ [91] ++ decDigits xs.length ++ [93, 32] ++ joinSp (printSlots f xs) ++ [62] ++ more =
        [] ++ 60 :: (ty ++ 91 :: (decDigits xs.length ++ 93 :: ([32] ++ (joinSp ((xs.map (slotPair f ft)).map (·.1)) ++ 62 :: more)))) := by
      rw [printSlots_pairs f ft]; simp
    rw [e, lex_lab ual [] _ (by simp), lex_type ual ty hty 91 _ (by decide), lex_sizeTok ual xs.length _,
      blank_run_invisible ual .text [32] _ (by simp [isBlank]), lex_joinSp ual _ more hne hall, slotToks_pairs f ft hft]
    simp


/-! ### the printed values of the four array kinds -/

theorem lexVal_nat (n : Nat) : LexVal (decDigits n) (tk .number (decDigits n)) := by
  obtain ⟨hd, _, _⟩ := digits_are n
  by_cases h0 : n = 0
  · subst h0
    have hz : decDigits 0 = [48] := decDigits_small 0 (by decide)
    rw [hz]
    refine ⟨48, [], rfl, by decide, by decide, by decide, ?_⟩
    intro ual p f more hf hp
    exact stepText_number ual p 48 [] f more (by simpa using hp) (Or.inr (by decide))
      (by simpa using scanNumber_zero f more hf) hf
  · obtain ⟨c, r, hcr, hc1, hc2⟩ := decDigits_head n (by omega)
    have hdr : ∀ x ∈ r, isDigitB x = true := fun x hx => hd x (by rw [hcr]; simp [hx])
    rw [hcr]
    refine ⟨c, r, rfl, by simp [isBlank]; omega, by simp [Utf8.isSpace]; omega, by omega, ?_⟩
    intro ual p f more hf hp
    exact stepText_number ual p c r f more (by simpa using hp) (Or.inr (by simp [isDigitB]; omega))
      (scanNumber_digits c r f more ⟨hc1, hc2⟩ hdr hf) hf

theorem lexVal_int (v : Int) : LexVal (intDec v) (tk .number (intDec v)) := by
  by_cases hv : v < 0
  · have hi : intDec v = 45 :: decDigits v.natAbs := by simp [intDec, hv]
    obtain ⟨hd, _, _⟩ := digits_are v.natAbs
    obtain ⟨c, r, hcr, hc1, hc2⟩ := decDigits_head v.natAbs (by omega)
    have hdr : ∀ x ∈ r, isDigitB x = true := fun x hx => hd x (by rw [hcr]; simp [hx])
    rw [hi, hcr]
    refine ⟨45, c :: r, rfl, by decide, by decide, by decide, ?_⟩
    intro ual p f more hf hp
    exact stepText_number ual p 45 (c :: r) f more (by simpa using hp) (Or.inl rfl)
      (by simpa using scanNumber_neg c r f more ⟨hc1, hc2⟩ hdr hf) hf
  · have hi : intDec v = decDigits v.natAbs := by simp [intDec, hv]
    rw [hi]
    exact lexVal_nat v.natAbs

theorem lexVal_bin (v : Nat) : LexVal (printBin v) (tk .number (printBin v)) := by
  have hb : ∀ x ∈ binDigits v, x = 48 ∨ x = 49 := by
    intro x hx
    have := (binDigits_spec v).1 x hx
    omega
  have hp' : printBin v = 48 :: 98 :: binDigits v := by simp [printBin, str_0b]
  rw [hp']
  refine ⟨48, 98 :: binDigits v, rfl, by decide, by decide, by decide, ?_⟩
  intro ual p f more hf hp
  exact stepText_number ual p 48 (98 :: binDigits v) f more (by simpa using hp) (Or.inr (by decide))
    (by simpa using scanNumber_bin (binDigits v) f more hb hf) hf

theorem lexVal_bool (b : Bool) : LexVal (printBool b) (tk .bool (printBool b)) := by
  cases b with
  | true =>
    refine ⟨84, [], rfl, by decide, by decide, by decide, ?_⟩
    intro ual p f more hf hp
    have hfw : isWordB f = false := by rcases hf with rfl | rfl <;> decide
    have := stepText_word ual p 84 [] f more (by simpa [printBool] using hp) (by decide) (by simp) hfw
    rw [this]
    have h1 : typeKeywords.contains (upper [84]) = false := by decide
    have h2 : boolKeywords.contains (upper [84]) = true := by decide
    rw [if_neg (by rw [h1]; decide), if_pos h2]
    rfl
  | false =>
    refine ⟨70, [], rfl, by decide, by decide, by decide, ?_⟩
    intro ual p f more hf hp
    have hfw : isWordB f = false := by rcases hf with rfl | rfl <;> decide
    have := stepText_word ual p 70 [] f more (by simpa [printBool] using hp) (by decide) (by simp) hfw
    rw [this]
    have h1 : typeKeywords.contains (upper [70]) = false := by decide
    have h2 : boolKeywords.contains (upper [70]) = true := by decide
    rw [if_neg (by rw [h1]; decide), if_pos h2]
    rfl


/-! ### ASCII items -/

/-- the printed body of an ASCII item, segment by segment (`run` = the quoted run being collected) -/
def asciiText : Bytes → Bytes → Bytes
  | run, [] => if run.isEmpty then [] else [32, 34] ++ run ++ [34]
  | run, ch :: r =>
    if asciiIsCode ch then
      (if run.isEmpty then [] else [32, 34] ++ run ++ [34]) ++ ([32, 48, 120] ++ hex2 ch ++ asciiText [] r)
    else asciiText (run ++ [ch]) r

theorem str_0x : str " 0x" = [32, 48, 120] := by decide +kernel

theorem printAsciiBody_text : ∀ (r run : Bytes),
    (printAsciiBody false r = asciiText [] r) ∧
    (run ≠ [] → [32, 34] ++ run ++ printAsciiBody true r = asciiText run r) := by
  intro r
  induction r with
  | nil =>
    intro run
    refine ⟨by simp [printAsciiBody, asciiText], ?_⟩
    intro hne
    have : run.isEmpty = false := by cases run <;> simp_all
    simp [printAsciiBody, asciiText, this]
  | cons ch r ih =>
    intro run
    by_cases hc : asciiIsCode ch = true
    · refine ⟨?_, ?_⟩
      · simp only [printAsciiBody, asciiText, hc, if_true, str_0x, (ih []).1]
        simp
      · intro hne
        have : run.isEmpty = false := by cases run <;> simp_all
        simp only [printAsciiBody, asciiText, hc, if_true, str_0x, (ih []).1, this, Bool.false_eq_true, if_false]
        simp
    · have hc' : asciiIsCode ch = false := by simpa using hc
      refine ⟨?_, ?_⟩
      · simp only [printAsciiBody, asciiText, hc', Bool.false_eq_true, if_false]
        have := (ih [ch]).2 (by simp)
        simpa using this
      · intro hne
        simp only [printAsciiBody, asciiText, hc', Bool.false_eq_true, if_false]
        have := (ih (run ++ [ch])).2 (by simp)
        simpa using this

theorem asciiText_head : ∀ (r run : Bytes), asciiText run r = [] ∨ ∃ t, asciiText run r = 32 :: t := by
  intro r
  induction r with
  | nil => intro run; simp only [asciiText]; split <;> simp
  | cons ch r ih =>
    intro run
    simp only [asciiText]
    split
    · split <;> simp
    · exact ih _

theorem hexDigit_isHex (d : Nat) (h : d < 16) : isHexB (hexDigitUpper d) = true := by
  have : d = 0 ∨ d = 1 ∨ d = 2 ∨ d = 3 ∨ d = 4 ∨ d = 5 ∨ d = 6 ∨ d = 7 ∨ d = 8 ∨ d = 9 ∨ d = 10 ∨ d = 11 ∨ d = 12 ∨ d = 13 ∨ d = 14 ∨ d = 15 := by omega
  rcases this with h | h | h | h | h | h | h | h | h | h | h | h | h | h | h | h <;> subst h <;> decide

theorem notCode_facts (ch : Nat) (h : asciiIsCode ch = false) : ch ≠ 34 ∧ ch ≠ 13 ∧ ch ≠ 10 := by
  simp only [asciiIsCode, Bool.or_eq_false_iff, decide_eq_false_iff_not, beq_eq_false_iff_ne, ne_eq] at h
  omega

/-- the printed body of an ASCII item, up to and including `>`, is lexed into its literal tokens -/
theorem lex_asciiText (ual : List Nat) : ∀ (r run more : Bytes), (∀ c ∈ run, asciiIsCode c = false) →
    (lexFrom ual .text (asciiText run r ++ 62 :: more)).map eraseT =
      asciiSegs run r ++ tk .rab [62] :: (lexFrom ual .text more).map eraseT := by
  intro r
  induction r with
  | nil =>
    intro run more hrun
    simp only [asciiText, asciiSegs]
    by_cases he : run.isEmpty = true
    · simp only [he, if_true, List.nil_append]
      have := lex_rab ual [] more (by simp)
      simpa using this
    · simp only [he, Bool.false_eq_true, if_false]
      have hq := lex_text_tok ual [32] (34 :: (run ++ [34])) (62 :: more) .quoted (34 :: (run ++ [34])) .text 34 (run ++ [34])
        (by simp [isBlank]) rfl (by decide) (by decide) (by decide)
        (fun p hp => stepText_quoted ual p run (62 :: more) (by simpa using hp)
          (fun x hx => (notCode_facts x (hrun x hx)).1) (fun x hx => (notCode_facts x (hrun x hx)).2))
      have e : [32, 34] ++ run ++ [34] ++ 62 :: more = [32] ++ (34 :: (run ++ [34]) ++ 62 :: more) := by simp
      rw [e, hq]
      have := lex_rab ual [] more (by simp)
      simp only [List.nil_append] at this
      rw [this]
      rfl
  | cons ch r ih =>
    intro run more hrun
    simp only [asciiText, asciiSegs]
    by_cases hc : asciiIsCode ch = true
    · simp only [hc, if_true]
      -- the hex code token, whatever follows (a blank or `>`)
      have hcode : ∀ (tail : Bytes), (tail = 62 :: more ∨ ∃ t, tail = 32 :: t) →
          (lexFrom ual .text ([32] ++ ((48 :: 120 :: hex2 ch) ++ tail))).map eraseT =
            tk .number (48 :: 120 :: hex2 ch) :: (lexFrom ual .text tail).map eraseT := by
        intro tail htail
        refine lex_text_tok ual [32] (48 :: 120 :: hex2 ch) tail .number (48 :: 120 :: hex2 ch) .text 48 (120 :: hex2 ch)
          (by simp [isBlank]) rfl (by decide) (by decide) (by decide) ?_
        intro p hp
        obtain ⟨f, tl, htl, hf⟩ : ∃ f tl, tail = f :: tl ∧ endsNumber f := by
          rcases htail with h | ⟨t, h⟩
          · exact ⟨62, more, h, Or.inr rfl⟩
          · exact ⟨32, t, h, Or.inl rfl⟩
        have hh1 := hexDigit_isHex (ch / 16 % 16) (Nat.mod_lt _ (by decide))
        have hh2 := hexDigit_isHex (ch % 16) (Nat.mod_lt _ (by decide))
        have := stepText_number ual p 48 (120 :: hex2 ch) f tl (by rw [hp, htl]; simp [hex2]) (Or.inr (by decide))
          (by simpa [hex2] using scanNumber_hex _ _ f tl hh1 hh2 hf) hf
        exact this
      have htail : asciiText [] r ++ 62 :: more = 62 :: more ∨ ∃ t, asciiText [] r ++ 62 :: more = 32 :: t := by
        rcases asciiText_head r [] with h | ⟨t, h⟩
        · left; rw [h]; rfl
        · right; exact ⟨t ++ 62 :: more, by rw [h]; rfl⟩
      by_cases he : run.isEmpty = true
      · simp only [he, if_true, List.nil_append]
        have e : [32, 48, 120] ++ hex2 ch ++ asciiText [] r ++ 62 :: more =
            [32] ++ ((48 :: 120 :: hex2 ch) ++ (asciiText [] r ++ 62 :: more)) := by simp
        rw [e, hcode _ htail, ih [] more (by simp)]
        rfl
      · simp only [he, Bool.false_eq_true, if_false]
        have hq := lex_text_tok ual [32] (34 :: (run ++ [34])) ([32] ++ ((48 :: 120 :: hex2 ch) ++ (asciiText [] r ++ 62 :: more)))
          .quoted (34 :: (run ++ [34])) .text 34 (run ++ [34])
          (by simp [isBlank]) rfl (by decide) (by decide) (by decide)
          (fun p hp => stepText_quoted ual p run _ (by simpa using hp)
            (fun x hx => (notCode_facts x (hrun x hx)).1) (fun x hx => (notCode_facts x (hrun x hx)).2))
        have e : [32, 34] ++ run ++ [34] ++ ([32, 48, 120] ++ hex2 ch ++ asciiText [] r) ++ 62 :: more =
            [32] ++ (34 :: (run ++ [34]) ++ ([32] ++ ((48 :: 120 :: hex2 ch) ++ (asciiText [] r ++ 62 :: more)))) := by simp
        rw [e, hq, hcode _ htail, ih [] more (by simp)]
        rfl
    · have hc' : asciiIsCode ch = false := by simpa using hc
      simp only [hc', Bool.false_eq_true, if_false]
      exact ih (run ++ [ch]) more (by
        intro c hcm
        rcases List.mem_append.mp hcm with h | h
        · exact hrun c h
        · simp at h; subst h; exact hc')


/-! ### whole items -/

theorem rep_blank (n : Nat) : ∀ c ∈ rep n [32, 32], isBlank c = true := by
  induction n with
  | zero => simp [rep]
  | succ k ih =>
    intro c hc
    simp only [rep, List.mem_append, List.mem_cons] at hc
    rcases hc with (rfl | rfl | h) | h
    · decide
    · decide
    · simp at h
    · exact ih c h

theorem typeName_L : TypeName [76] := ⟨76, [], rfl, by decide, by simp, by decide, by decide, by decide⟩
theorem typeName_A : TypeName [65] := ⟨65, [], rfl, by decide, by simp, by decide, by decide, by decide⟩
theorem typeName_B : TypeName [66] := ⟨66, [], rfl, by decide, by simp, by decide, by decide, by decide⟩
theorem typeName_BOOLEAN : TypeName [66, 79, 79, 76, 69, 65, 78] :=
  ⟨66, [79, 79, 76, 69, 65, 78], rfl, by decide, by decide, by decide, by decide, by decide⟩
theorem typeName_I (w : Nat) (hw : w = 1 ∨ w = 2 ∨ w = 4 ∨ w = 8) : TypeName (73 :: decDigits w) := by
  rw [decDigits_small w (by omega)]
  rcases hw with h | h | h | h <;> subst h <;>
    exact ⟨73, [_], rfl, by decide, by decide, by decide, by decide, by decide⟩
theorem typeName_U (w : Nat) (hw : w = 1 ∨ w = 2 ∨ w = 4 ∨ w = 8) : TypeName (85 :: decDigits w) := by
  rw [decDigits_small w (by omega)]
  rcases hw with h | h | h | h <;> subst h <;>
    exact ⟨85, [_], rfl, by decide, by decide, by decide, by decide, by decide⟩

-- every variable name of the tree is read as a name (not as a type name or boolean)
mutual
def namesPlainT : Tmpl → Bool
  | .list xs => namesPlainS xs
  | .asciiVar n _ _ => plainName n
  | .binary xs => (slotVars xs).all plainName
  | .boolean xs => (slotVars xs).all plainName
  | .int _ xs => (slotVars xs).all plainName
  | .uint _ xs => (slotVars xs).all plainName
  | .float _ xs => (slotVars xs).all plainName
  | _ => true
def namesPlainS : Slots → Bool
  | .nil => true
  | .item t r => namesPlainT t && namesPlainS r
  | .var n r => (isEllipsis n || plainName n) && namesPlainS r
end

theorem slot_names {α} (p : α → Bool) (xs : List (Slot α)) (hok : slotsOk p xs = true)
    (hpl : (slotVars xs).all plainName = true) :
    ∀ n, Slot.var n ∈ xs → isValidVarName n = true ∧ plainName n = true := by
  intro n hn
  refine ⟨(slotsOk_mem p xs hok).2 n hn, ?_⟩
  have : n ∈ slotVars xs := by
    clear hok hpl
    induction xs with
    | nil => simp at hn
    | cons x r ih =>
      rcases List.mem_cons.mp hn with h | h
      · subst h; simp [slotVars]
      · cases x <;> simp [slotVars, ih h]
  exact List.all_eq_true.mp hpl n this

theorem lex_sizeRaw (ual : List Nat) (body more : Bytes) (hscan : scanSize (91 :: (body ++ more)) = some (91 :: body))
    (hnb : ∀ c ∈ body, isBlank c = false) :
    (lexFrom ual .text (91 :: (body ++ more))).map eraseT = tk .itemSize (91 :: body) :: (lexFrom ual .text more).map eraseT := by
  have := lex_text_tok ual [] (91 :: body) more .itemSize (91 :: body) .text 91 body
    (by simp) rfl (by decide) (by decide) (by decide)
    (fun p hp => stepText_size ual p (body ++ more) _ (by simpa using hp) hscan
      (by intro c hc; rcases List.mem_cons.mp hc with rfl | h; decide; exact hnb c h))
  simpa using this

theorem str_A0 : str "<A[0]>" = [60, 65, 91, 48, 93, 62] := by decide +kernel
theorem str_A : str "<A" = [60, 65] := by decide +kernel
theorem str_L0 : str "<L[0]>" = [60, 76, 91, 48, 93, 62] := by decide +kernel
theorem str_L : str "<L" = [60, 76] := by decide +kernel
theorem str_dots : str "..." = [46, 46, 46] := by decide +kernel

/-- the printed bounds of an ASCII variable are lexed as one size token -/
theorem lex_bounds (ual : List Nat) (mn mx : Int) (h0 : 0 ≤ mn) (h1 : -1 ≤ mx) (hle : mx = -1 ∨ mn ≤ mx) (more : Bytes) :
    (lexFrom ual .text (printSizeBounds mn mx ++ more)).map eraseT = boundsToks mn mx ++ (lexFrom ual .text more).map eraseT := by
  have hd : ∀ v : Int, 0 ≤ v → intDec v = decDigits v.toNat := natAbs_intDec_nonneg
  have hnbd : ∀ n : Nat, ∀ c ∈ decDigits n, isBlank c = false := fun n => (digits_are n).2.1
  by_cases hb : mn = 0 ∧ mx = -1
  · have e1 : printSizeBounds mn mx = [] := by rw [C15.printed_bounds, if_pos hb]
    have e2 : boundsToks mn mx = [] := by simp [boundsToks, hb.1, hb.2]
    rw [e1, e2]; rfl
  · have e2 : boundsToks mn mx = [tk .itemSize (printSizeBounds mn mx)] := by
      unfold boundsToks
      have : (mn == 0 && mx == -1) = false := by
        simp only [Bool.and_eq_false_iff, beq_eq_false_iff_ne, ne_eq]; omega
      simp [this]
    rw [e2, C15.printed_bounds, if_neg hb]
    by_cases h2 : mn = mx
    · rw [if_pos h2, hd mx (by omega)]
      have := lex_sizeRaw ual (decDigits mx.toNat ++ [93]) more (by simpa using scanSize_exact mx.toNat more)
        (by intro c hc; rcases List.mem_append.mp hc with h | h; exact hnbd _ c h; simp at h; subst h; decide)
      simpa using this
    · rw [if_neg h2]
      by_cases h3 : mx = -1
      · rw [if_pos h3, hd mn h0]
        have := lex_sizeRaw ual (decDigits mn.toNat ++ [46, 46, 93]) more (by simpa using scanSize_from mn.toNat more)
          (by intro c hc; rcases List.mem_append.mp hc with h | h; exact hnbd _ c h
              simp at h; rcases h with rfl | rfl | rfl <;> decide)
        simpa using this
      · rw [if_neg h3, hd mn h0, hd mx (by omega)]
        have := lex_sizeRaw ual (decDigits mn.toNat ++ 46 :: 46 :: (decDigits mx.toNat ++ [93])) more
          (by simpa using scanSize_range mn.toNat mx.toNat more)
          (by intro c hc
              simp only [List.mem_append, List.mem_cons, List.mem_singleton] at hc
              rcases hc with h | rfl | rfl | h | h
              · exact hnbd _ c h
              · decide
              · decide
              · exact hnbd _ c h
              · rcases h with rfl | h
                · decide
                · simp at h)
        simpa using this

/-- the printed form of a leaf item is lexed into its tokens -/
theorem lex_leaf (ual : List Nat) (t : Tmpl) (hleaf : t.isList = false) (hw : t.wf = true) (hc : cleanT t = true)
    (hpl : namesPlainT t = true) (level : Nat) (more : Bytes) :
    (lexFrom ual .text (t.printAt level ++ more)).map eraseT = itemToks t ++ (lexFrom ual .text more).map eraseT := by
  cases t with
  | list xs => simp [Tmpl.isList] at hleaf
  | empty => simp [cleanT] at hc
  | float w zs => simp [cleanT] at hc
  | binary zs =>
    simp only [Tmpl.wf, Bool.and_eq_true] at hw
    simp only [Tmpl.printAt, itemToks]
    have e : str "B" = [66] := by decide +kernel
    rw [e]
    exact lex_array ual [66] typeName_B printBin (fun v => tk .number (printBin v)) (fun _ => rfl) zs more
      (fun a _ => lexVal_bin a) (slot_names _ zs hw.2 (by simpa [namesPlainT] using hpl))
  | boolean zs =>
    simp only [Tmpl.wf, Bool.and_eq_true] at hw
    simp only [Tmpl.printAt, itemToks]
    have e : str "BOOLEAN" = [66, 79, 79, 76, 69, 65, 78] := by decide +kernel
    rw [e]
    exact lex_array ual _ typeName_BOOLEAN printBool (fun b => tk .bool (printBool b)) (fun _ => rfl) zs more
      (fun a _ => lexVal_bool a) (slot_names _ zs hw.2 (by simpa [namesPlainT] using hpl))
  | int w zs =>
    simp only [Tmpl.wf, Bool.and_eq_true] at hw
    have hw4 : w = 1 ∨ w = 2 ∨ w = 4 ∨ w = 8 := by
      have := hw.1.1
      simp only [validWidthInt, Bool.or_eq_true, beq_iff_eq] at this
      omega
    simp only [Tmpl.printAt, itemToks]
    exact lex_array ual _ (typeName_I w hw4) intDec (fun v => tk .number (intDec v)) (fun _ => rfl) zs more
      (fun a _ => lexVal_int a) (slot_names _ zs hw.2 (by simpa [namesPlainT] using hpl))
  | uint w zs =>
    simp only [Tmpl.wf, Bool.and_eq_true] at hw
    have hw4 : w = 1 ∨ w = 2 ∨ w = 4 ∨ w = 8 := by
      have := hw.1.1
      simp only [validWidthInt, Bool.or_eq_true, beq_iff_eq] at this
      omega
    simp only [Tmpl.printAt, itemToks]
    exact lex_array ual _ (typeName_U w hw4) decDigits (fun v => tk .number (decDigits v)) (fun _ => rfl) zs more
      (fun a _ => lexVal_nat a) (slot_names _ zs hw.2 (by simpa [namesPlainT] using hpl))
  | ascii sv =>
    simp only [Tmpl.printAt, itemToks]
    by_cases he : sv.isEmpty = true
    · simp only [he, if_true, str_A0]
      have e : [60, 65, 91, 48, 93, 62] ++ more = [] ++ 60 :: ([65] ++ 91 :: (decDigits 0 ++ 93 :: ([] ++ 62 :: more))) := by
        simp [decDigits_small 0 (by decide)]
      rw [e, lex_lab ual [] _ (by simp), lex_type ual [65] typeName_A 91 _ (by decide), lex_sizeTok ual 0 _, lex_rab ual [] more (by simp)]
      rfl
    · simp only [he, Bool.false_eq_true, if_false, str_A, (printAsciiBody_text sv []).1]
      have hall : ∀ c ∈ ([] : Bytes), asciiIsCode c = false := by simp
      obtain ⟨f, tail, hft, hfw⟩ : ∃ f tail, asciiText [] sv ++ 62 :: more = f :: tail ∧ isWordB f = false := by
        rcases asciiText_head sv [] with h | ⟨t, h⟩
        · exact ⟨62, more, by rw [h]; rfl, by decide⟩
        · exact ⟨32, t ++ 62 :: more, by rw [h]; rfl, by decide⟩
      have e : [60, 65] ++ asciiText [] sv ++ [62] ++ more = [] ++ 60 :: ([65] ++ (asciiText [] sv ++ 62 :: more)) := by simp
      rw [e, lex_lab ual [] _ (by simp), hft, lex_type ual [65] typeName_A f tail hfw, ← hft, lex_asciiText ual sv [] more hall]
      simp
  | asciiVar n mn mx =>
    have hwf := hw
    simp only [Tmpl.wf, Bool.and_eq_true, decide_eq_true_eq, Bool.or_eq_true, beq_iff_eq] at hwf
    simp only [Tmpl.printAt, itemToks, str_A]
    have hlv := lexVal_variable n hwf.1.1.1 (by simpa [namesPlainT] using hpl)
    obtain ⟨b, r, hn, hb, hs, h128, hstep⟩ := hlv
    -- what follows the type name: `[` of the bounds, or the blank
    obtain ⟨f, tail, hft, hfw⟩ : ∃ f tail, printSizeBounds mn mx ++ ([32] ++ (n ++ 62 :: more)) = f :: tail ∧ isWordB f = false := by
      by_cases hbd : mn = 0 ∧ mx = -1
      · have e1 : printSizeBounds mn mx = [] := by rw [C15.printed_bounds, if_pos hbd]
        exact ⟨32, n ++ 62 :: more, by rw [e1]; rfl, by decide⟩
      · rw [C15.printed_bounds, if_neg hbd]
        by_cases h2 : mn = mx
        · rw [if_pos h2]; exact ⟨91, _, rfl, by decide⟩
        · rw [if_neg h2]
          by_cases h3 : mx = -1
          · rw [if_pos h3]; exact ⟨91, _, rfl, by decide⟩
          · rw [if_neg h3]; exact ⟨91, _, rfl, by decide⟩
    have e : [60, 65] ++ printSizeBounds mn mx ++ [32] ++ n ++ [62] ++ more =
        [] ++ 60 :: ([65] ++ (printSizeBounds mn mx ++ ([32] ++ (n ++ 62 :: more)))) := by simp
    rw [e, lex_lab ual [] _ (by simp), hft, lex_type ual [65] typeName_A f tail hfw, ← hft,
      lex_bounds ual mn mx hwf.1.1.2 hwf.1.2 hwf.2]
    have hv := lex_text_tok ual [32] n (62 :: more) .variable n .text b r (by simp [isBlank]) hn hb hs h128
      (fun p hp => hstep ual p 62 more (Or.inr rfl) hp)
    have hr := lex_rab ual [] more (by simp)
    simp only [List.nil_append] at hr
    rw [hv, hr]
    simp [tk]


/-- the own variable slots of a list carry valid names or ellipses -/
def ownValid : Slots → Bool
  | .nil => true
  | .item _ r => ownValid r
  | .var n r => (isEllipsis n || isValidVarName n) && ownValid r

theorem ownValid_of_listOwnOk : ∀ (xs : Slots) (pos : Nat) (e : Bool), listOwnOk xs pos e = true → ownValid xs = true
  | .nil, _, _, _ => rfl
  | .item _ r, pos, e, h => by simpa [ownValid] using ownValid_of_listOwnOk r (pos + 1) e (by simpa [listOwnOk] using h)
  | .var n r, pos, e, h => by
    simp only [listOwnOk] at h
    by_cases hv : isValidVarName n = true
    · rw [if_pos hv] at h
      simp [ownValid, hv, ownValid_of_listOwnOk r (pos + 1) e h]
    · rw [if_neg hv] at h
      by_cases he : isEllipsis n = true
      · rw [if_pos he] at h
        simp only [Bool.and_eq_true] at h
        simp [ownValid, he, ownValid_of_listOwnOk r (pos + 1) true h.2]
      · rw [if_neg he] at h; cases h

theorem blanks_append {a b : Bytes} (ha : ∀ c ∈ a, isBlank c = true) (hb : ∀ c ∈ b, isBlank c = true) :
    ∀ c ∈ a ++ b, isBlank c = true := by
  intro c hc
  rcases List.mem_append.mp hc with h | h
  · exact ha c h
  · exact hb c h

theorem blanks_lf : ∀ c ∈ ([10] : Bytes), isBlank c = true := by simp [isBlank]
theorem blanks_sp2 : ∀ c ∈ ([32, 32] : Bytes), isBlank c = true := by simp [isBlank]

theorem lex_congr {ual : List Nat} {m : Mode} {x y : Bytes} (h : x = y) :
    (lexFrom ual m x).map eraseT = (lexFrom ual m y).map eraseT := by rw [h]

mutual
/-- **Lexer half of the print → parse round trip for items**: the printed form of a well-formed
tree, after any blanks, is lexed into the token stream `itemToks` of the parser half. -/
theorem lex_tree (ual : List Nat) : ∀ (t : Tmpl) (level : Nat) (ws more : Bytes), (∀ c ∈ ws, isBlank c = true) →
    t.wf = true → cleanT t = true → namesPlainT t = true →
    (lexFrom ual .text (ws ++ (t.printAt level ++ more))).map eraseT = itemToks t ++ (lexFrom ual .text more).map eraseT
  | .list xs, level, ws, more, hws, hw, hc, hpl => by
    have hwf := hw
    simp only [Tmpl.wf, Bool.and_eq_true, decide_eq_true_eq] at hwf
    have hind := rep_blank level
    simp only [Tmpl.printAt, itemToks]
    by_cases h0 : xs.len = 0
    · have hx : xs = .nil := by
        cases xs with
        | nil => rfl
        | item t r => simp [Slots.len] at h0
        | var n r => simp [Slots.len] at h0
      subst hx
      simp only [Slots.len, if_true, str_L0, Slots.hasVar, Bool.false_eq_true, if_false, slotsToks]
      refine (lex_congr (y := (ws ++ rep level [32, 32]) ++ 60 :: ([76] ++ 91 :: (decDigits 0 ++ 93 :: ([] ++ 62 :: more)))) (by simp [decDigits_small 0 (by decide)])).trans ?_
      rw [lex_lab ual _ _ (blanks_append hws hind), lex_type ual [76] typeName_L 91 _ (by decide), lex_sizeTok ual 0 _,
        lex_rab ual [] more (by simp)]
      rfl
    · rw [if_neg h0]
      have hslots := lex_slots ual xs level [10] (rep level [32, 32] ++ 62 :: more) blanks_lf hwf.1.1.2
        (by simpa [cleanT] using hc) (by simpa [namesPlainT] using hpl) (ownValid_of_listOwnOk xs 0 false hwf.1.2)
      have hrab := lex_rab ual (rep level [32, 32]) more hind
      by_cases hv : xs.hasVar = true
      · simp only [hv, if_true, str_L]
        refine (lex_congr (y := (ws ++ rep level [32, 32]) ++ 60 :: ([76] ++ 10 :: (xs.printAt level ++ (rep level [32, 32] ++ 62 :: more)))) (by simp)).trans ?_
        rw [lex_lab ual _ _ (blanks_append hws hind), lex_type ual [76] typeName_L 10 _ (by decide)]
        have e2 : 10 :: (xs.printAt level ++ (rep level [32, 32] ++ 62 :: more)) =
            [10] ++ (xs.printAt level ++ (rep level [32, 32] ++ 62 :: more)) := rfl
        rw [e2, hslots, hrab]
        simp
      · have hv' : xs.hasVar = false := by simpa using hv
        simp only [hv', Bool.false_eq_true, if_false, str_L]
        refine (lex_congr (y := (ws ++ rep level [32, 32]) ++ 60 :: ([76] ++ 91 :: (decDigits xs.len ++ 93 :: ([10] ++ (xs.printAt level ++ (rep level [32, 32] ++ 62 :: more)))))) (by simp)).trans ?_
        rw [lex_lab ual _ _ (blanks_append hws hind), lex_type ual [76] typeName_L 91 _ (by decide), lex_sizeTok ual xs.len _,
          hslots, hrab]
        simp
  | .ascii sv, level, ws, more, hws, hw, hc, hpl => by
    rw [blank_run_invisible ual .text ws _ hws]; exact lex_leaf ual _ rfl hw hc hpl level more
  | .asciiVar n mn mx, level, ws, more, hws, hw, hc, hpl => by
    rw [blank_run_invisible ual .text ws _ hws]; exact lex_leaf ual _ rfl hw hc hpl level more
  | .binary zs, level, ws, more, hws, hw, hc, hpl => by
    rw [blank_run_invisible ual .text ws _ hws]; exact lex_leaf ual _ rfl hw hc hpl level more
  | .boolean zs, level, ws, more, hws, hw, hc, hpl => by
    rw [blank_run_invisible ual .text ws _ hws]; exact lex_leaf ual _ rfl hw hc hpl level more
  | .int w zs, level, ws, more, hws, hw, hc, hpl => by
    rw [blank_run_invisible ual .text ws _ hws]; exact lex_leaf ual _ rfl hw hc hpl level more
  | .uint w zs, level, ws, more, hws, hw, hc, hpl => by
    rw [blank_run_invisible ual .text ws _ hws]; exact lex_leaf ual _ rfl hw hc hpl level more
  | .float w zs, level, ws, more, hws, hw, hc, hpl => by simp [cleanT] at hc
  | .empty, level, ws, more, hws, hw, hc, hpl => by simp [cleanT] at hc
theorem lex_slots (ual : List Nat) : ∀ (xs : Slots) (level : Nat) (ws more : Bytes), (∀ c ∈ ws, isBlank c = true) →
    xs.wfAll = true → cleanS xs = true → namesPlainS xs = true → ownValid xs = true →
    (lexFrom ual .text (ws ++ (xs.printAt level ++ more))).map eraseT = slotsToks xs ++ (lexFrom ual .text more).map eraseT
  | .nil, level, ws, more, hws, _, _, _, _ => by
    simp only [Slots.printAt, slotsToks, List.nil_append]
    exact blank_run_invisible ual .text ws more hws
  | .item t r, level, ws, more, hws, hw, hc, hpl, hov => by
    simp only [Slots.wfAll, Bool.and_eq_true] at hw
    simp only [cleanS, Bool.and_eq_true] at hc
    simp only [namesPlainS, Bool.and_eq_true] at hpl
    simp only [ownValid] at hov
    have hr := lex_slots ual r level [10] more blanks_lf hw.2 hc.2 hpl.2 hov
    simp only [Slots.printAt, slotsToks]
    by_cases hl : t.isList = true
    · simp only [hl, if_true]
      refine (lex_congr (y := ws ++ (Tmpl.printAt (level + 1) t ++ ([10] ++ (r.printAt level ++ more)))) (by simp)).trans ?_
      rw [lex_tree ual t (level + 1) ws _ hws hw.1 hc.1 hpl.1, hr]
      simp
    · simp only [hl, Bool.false_eq_true, if_false]
      refine (lex_congr (y := (ws ++ (rep level [32, 32] ++ [32, 32])) ++ (Tmpl.printAt 0 t ++ ([10] ++ (r.printAt level ++ more)))) (by simp)).trans ?_
      rw [lex_tree ual t 0 _ _ (blanks_append hws (blanks_append (rep_blank level) blanks_sp2)) hw.1 hc.1 hpl.1, hr]
      simp
  | .var n r, level, ws, more, hws, hw, hc, hpl, hov => by
    simp only [Slots.wfAll] at hw
    simp only [cleanS] at hc
    simp only [namesPlainS, Bool.and_eq_true, Bool.or_eq_true] at hpl
    simp only [ownValid, Bool.and_eq_true, Bool.or_eq_true] at hov
    have hr := lex_slots ual r level [10] more blanks_lf hw hc hpl.2 hov.2
    have hbl := blanks_append hws (blanks_append (rep_blank level) blanks_sp2)
    simp only [Slots.printAt, slotsToks]
    by_cases he : isEllipsis n = true
    · simp only [he, if_true, str_dots]
      refine (lex_congr (y := (ws ++ (rep level [32, 32] ++ [32, 32])) ++ ([46, 46, 46] ++ ([10] ++ (r.printAt level ++ more)))) (by simp)).trans ?_
      rw [lex_text_tok ual _ [46, 46, 46] _ .ellipsis [46, 46, 46] .text 46 [46, 46] hbl rfl (by decide) (by decide) (by decide)
        (fun p hp => stepText_ellipsis ual p (r.printAt level ++ more) (by simpa using hp)), hr]
      rfl
    · have he' : isEllipsis n = false := by simpa using he
      simp only [he', Bool.false_eq_true, if_false]
      have hvalid : isValidVarName n = true := by rcases hov.1 with h | h; exact absurd h he; exact h
      have hplain : plainName n = true := by rcases hpl.1 with h | h; exact absurd h he; exact h
      obtain ⟨b, rr, hn, hb, hs, h128, _⟩ := lexVal_variable n hvalid hplain
      refine (lex_congr (y := (ws ++ (rep level [32, 32] ++ [32, 32])) ++ (n ++ ([10] ++ (r.printAt level ++ more)))) (by simp)).trans ?_
      rw [lex_text_tok ual _ n _ .variable n .text b rr hbl hn hb hs h128
        (fun p hp => stepText_variable ual p n 10 (r.printAt level ++ more) (by simpa using hp) hvalid hplain (Or.inr (Or.inr rfl))), hr]
      rfl
end


/-! ### the header -/

theorem upper_digits (ds : Bytes) (h : ∀ c ∈ ds, isDigitB c = true) : upper ds = ds := by
  induction ds with
  | nil => rfl
  | cons c r ih =>
    have hc := h c (by simp)
    simp only [isDigitB, Bool.and_eq_true, decide_eq_true_eq] at hc
    have : toUpperB c = c := by
      unfold toUpperB isLowerB
      have : ¬ ((decide (97 ≤ c) && decide (c ≤ 122)) = true) := by simp; omega
      rw [if_neg this]
    simp only [upper, List.map_cons, this] at ih ⊢
    rw [ih (fun x hx => h x (by simp [hx]))]

/-- `S<digits>F<digits>` followed by a blank -/
theorem stepHeader_sf (p : Pos) (st fn : Nat) (more : Bytes) (hp : p.rest = 83 :: (decDigits st ++ 70 :: (decDigits fn ++ 32 :: more))) :
    stepHeader p = emit .streamFunction (83 :: (decDigits st ++ 70 :: decDigits fn)) (83 :: (decDigits st ++ 70 :: decDigits fn)) .header p := by
  obtain ⟨hd1, _, hne1⟩ := digits_are st
  obtain ⟨hd2, _, hne2⟩ := digits_are fn
  have hs1 : spanB isDigitB (decDigits st ++ 70 :: (decDigits fn ++ 32 :: more)) = (decDigits st, 70 :: (decDigits fn ++ 32 :: more)) :=
    spanB_stop' isDigitB _ 70 _ hd1 (by decide)
  have hs2 : spanB isDigitB (decDigits fn ++ 32 :: more) = (decDigits fn, 32 :: more) :=
    spanB_stop' isDigitB _ 32 _ hd2 (by decide)
  have he1 : (decDigits st).isEmpty = false := by cases h : decDigits st <;> simp_all
  have he2 : (decDigits fn).isEmpty = false := by cases h : decDigits fn <;> simp_all
  have hm : matchSF (83 :: (decDigits st ++ 70 :: (decDigits fn ++ 32 :: more))) = some (83 :: (decDigits st ++ 70 :: decDigits fn)) := by
    simp [matchSF, hs1, hs2, he1, he2]
  have hup : upper (83 :: (decDigits st ++ 70 :: decDigits fn)) = 83 :: (decDigits st ++ 70 :: decDigits fn) := by
    have h1 := upper_digits _ hd1
    have h2 := upper_digits _ hd2
    simp only [upper, List.map_cons, List.map_append] at h1 h2 ⊢
    rw [h1, h2]
    rfl
  unfold stepHeader
  rw [hp]
  have hsw : startsWith [47, 47] (83 :: (decDigits st ++ 70 :: (decDigits fn ++ 32 :: more))) = false := by
    cases h : decDigits st <;> simp [startsWith]
  simp only [hsw, Bool.false_eq_true, if_false, hm, hup]

theorem stepHeader_W (p : Pos) (more : Bytes) (hp : p.rest = 87 :: more) :
    stepHeader p = emit .waitBit [87] [87] .header p := by
  unfold stepHeader
  rw [hp]
  cases more <;> simp [startsWith, matchSF, matchW, upper, toUpperB, isLowerB]

theorem stepHeader_optW (p : Pos) (more : Bytes) (hp : p.rest = 91 :: 87 :: 93 :: more) :
    stepHeader p = emit .waitBit [91, 87, 93] [91, 87, 93] .header p := by
  unfold stepHeader
  rw [hp]
  simp [startsWith, matchSF, matchW, upper, toUpperB, isLowerB]

theorem stepHeader_dir (p : Pos) (dir more : Bytes) (hd : dir = dirHE ∨ dir = dirEH ∨ dir = dirBoth)
    (hp : p.rest = dir ++ more) : stepHeader p = emit .direction dir dir .header p := by
  unfold stepHeader
  rw [hp]
  rcases hd with rfl | rfl | rfl <;>
    simp [dirHE, dirEH, dirBoth, startsWith, matchSF, matchW, matchDir, upper, toUpperB, isLowerB]

theorem stepHeader_msgEnd (p : Pos) (more : Bytes) (hp : p.rest = 46 :: more) :
    stepHeader p = emit .msgEnd [46] [46] .header p := by
  unfold stepHeader
  rw [hp]
  cases more <;> simp [startsWith, matchSF, matchW, matchDir]

theorem stepHeader_lab (p : Pos) (more : Bytes) (hp : p.rest = 60 :: more) :
    stepHeader p = emit .lab [60] [60] .text p := by
  unfold stepHeader
  rw [hp]
  cases more <;> simp [startsWith, matchSF, matchW, matchDir]


theorem lex_header_tok (ual : List Nat) (ws text more : Bytes) (k : Kind) (v : Bytes) (m' : Mode) (b : Nat) (r : Bytes)
    (hws : ∀ c ∈ ws, isBlank c = true) (htext : text = b :: r)
    (hb : isBlank b = false) (hs : Utf8.isSpace b = false) (h128 : b < 128)
    (hstep : ∀ p : Pos, p.rest = text ++ more → stepHeader p = emit k v text m' p) :
    (lexFrom ual .header (ws ++ (text ++ more))).map eraseT = tk k v :: (lexFrom ual m' more).map eraseT := by
  rw [blank_run_invisible ual .header ws _ hws]
  have hcons : text ++ more = b :: (r ++ more) := by rw [htext]; rfl
  rw [hcons]
  exact lexFrom_header_emit ual k v text m' b (r ++ more) more hcons hb hs h128
    (fun p hp => hstep p (by rw [hp, hcons]))

theorem lex_eof (ual : List Nat) (m : Mode) : (lexFrom ual m []).map eraseT = [eofTok] := by
  cases m <;> rfl

/-- the header lexer reads the name as one name token (the condition under which a message name
can be written in SML at all) -/
def NameOK (name : Bytes) : Prop :=
  name = [] ∨ ∀ (ual : List Nat) (more : Bytes),
    (lexFrom ual .header ([32] ++ (name ++ 10 :: more))).map eraseT =
      tk .msgName name :: (lexFrom ual .header (10 :: more)).map eraseT

theorem printAt0_head (t : Tmpl) (hc : cleanT t = true) : ∃ r, t.printAt 0 = 60 :: r := by
  cases t with
  | list xs =>
    simp only [Tmpl.printAt, rep, List.nil_append]
    split
    · exact ⟨_, by rw [str_L0]⟩
    · exact ⟨_, by rw [str_L]; rfl⟩
  | ascii sv =>
    simp only [Tmpl.printAt]
    split
    · exact ⟨_, by rw [str_A0]⟩
    · exact ⟨_, by rw [str_A]; rfl⟩
  | asciiVar n mn mx => exact ⟨_, by simp only [Tmpl.printAt]; rw [str_A]; rfl⟩
  | binary zs => simp only [Tmpl.printAt, printArray]; split <;> exact ⟨_, rfl⟩
  | boolean zs => simp only [Tmpl.printAt, printArray]; split <;> exact ⟨_, rfl⟩
  | int w zs => simp only [Tmpl.printAt, printArray]; split <;> exact ⟨_, rfl⟩
  | uint w zs => simp only [Tmpl.printAt, printArray]; split <;> exact ⟨_, rfl⟩
  | float w zs => simp [cleanT] at hc
  | empty => simp [cleanT] at hc

/-- the first `<` of a message text is read in the header state and opens the text state -/
theorem lex_header_lab (ual : List Nat) (ws r : Bytes) (hws : ∀ c ∈ ws, isBlank c = true) :
    (lexFrom ual .header (ws ++ 60 :: r)).map eraseT = (lexFrom ual .text (60 :: r)).map eraseT := by
  have h1 := lex_header_tok ual ws [60] r .lab [60] .text 60 [] hws rfl (by decide) (by decide) (by decide)
    (fun p hp => stepHeader_lab p r (by simpa using hp))
  have h2 := lex_lab ual [] r (by simp)
  simp only [List.cons_append, List.nil_append] at h1 h2
  rw [h1, h2]


theorem str_W : str " W" = [32, 87] := by decide +kernel
theorem str_optW : str " [W]" = [32, 91, 87, 93] := by decide +kernel

/-- the text after the header: the terminator alone, or the item and the terminator -/
theorem lex_message_tail (ual : List Nat) (it : Tmpl)
    (hit : it = .empty ∨ (it.wf = true ∧ cleanT it = true ∧ namesPlainT it = true)) (more : Bytes)
    (hmore : more = [] ∨ ∃ c r', more = c :: r' ∧ c ≠ 46 ∧ isDigitB c = false) :
    (lexFrom ual .header ((if it.isEmpty then [10, 46] else [10] ++ it.print ++ [10, 46]) ++ more)).map eraseT =
      itemToks it ++ tk .msgEnd [46] :: (lexFrom ual .header more).map eraseT := by
  rcases hit with he | ⟨hw, hc, hpl⟩
  · subst he
    simp only [Tmpl.isEmpty, if_true, itemToks, List.nil_append]
    have h1 := lex_header_tok ual [10] [46] more .msgEnd [46] .header 46 [] blanks_lf rfl (by decide) (by decide) (by decide)
      (fun p hp => stepHeader_msgEnd p more (by simpa using hp))
    simp only [List.cons_append, List.nil_append] at h1 ⊢
    rw [h1]
  · have hne : it.isEmpty = false := by cases it <;> simp_all [Tmpl.isEmpty, cleanT]
    simp only [hne, Bool.false_eq_true, if_false, Tmpl.print]
    obtain ⟨r, hr⟩ := printAt0_head it hc
    have e1 : [10] ++ Tmpl.printAt 0 it ++ [10, 46] ++ more = [10] ++ 60 :: (r ++ ([10, 46] ++ more)) := by rw [hr]; simp
    rw [e1, lex_header_lab ual [10] _ blanks_lf]
    have e2 : 60 :: (r ++ ([10, 46] ++ more)) = [] ++ (Tmpl.printAt 0 it ++ ([10, 46] ++ more)) := by rw [hr]; rfl
    rw [e2, lex_tree ual it 0 [] ([10, 46] ++ more) (by simp) hw hc hpl]
    have h1 := lex_text_tok ual [10] [46] more .msgEnd [46] .header 46 [] blanks_lf rfl (by decide) (by decide) (by decide)
      (fun p hp => stepText_msgEnd ual p more (by simpa using hp) hmore)
    simp only [List.cons_append, List.nil_append] at h1 ⊢
    rw [h1]

/-- **Lexer half of the print → parse round trip for a message**: the printed form of a valid
message whose name the header lexer reads as one name, whose item is well formed, float-free and
whose variable names are not keywords, is lexed into the token stream `msgToks` of the parser
half (positions aside), closed by the EOF token. -/
theorem lex_message_then (ual : List Nat) (m : Msg) (hv : m.valid = true) (hname : NameOK m.name)
    (hit : m.item = .empty ∨ (m.item.wf = true ∧ cleanT m.item = true ∧ namesPlainT m.item = true)) (more : Bytes)
    (hmore : more = [] ∨ ∃ c r', more = c :: r' ∧ c ≠ 46 ∧ isDigitB c = false) :
    (lexFrom ual .header (m.print ++ more)).map eraseT = msgToks m ++ (lexFrom ual .header more).map eraseT := by
  have hvv := hv
  simp only [Msg.valid, Bool.and_eq_true, decide_eq_true_eq, Bool.not_eq_true', Bool.and_eq_false_iff,
    Bool.or_eq_true, beq_iff_eq] at hvv
  obtain ⟨⟨⟨⟨⟨⟨⟨_, hst⟩, hfn⟩, _⟩, hwb⟩, _⟩, _⟩, hdir⟩ := hvv
  have hdir' : m.direction = dirHE ∨ m.direction = dirEH ∨ m.direction = dirBoth := by
    rcases hdir with (h | h) | h
    · exact Or.inl h
    · exact Or.inr (Or.inl h)
    · exact Or.inr (Or.inr h)
  have hds : intDec m.stream = decDigits m.stream.toNat := natAbs_intDec_nonneg _ hst.1
  have hdf : intDec m.function = decDigits m.function.toNat := natAbs_intDec_nonneg _ hfn.1
  -- the text after the header
  have htail := lex_message_tail ual m.item hit more hmore
  -- the name part
  have hnamePart : ∀ tail : Bytes,
      (lexFrom ual .header ((if m.name.isEmpty then [] else 32 :: m.name) ++ 10 :: tail)).map eraseT =
        (if m.name.isEmpty then [] else [tk .msgName m.name]) ++ (lexFrom ual .header (10 :: tail)).map eraseT := by
    intro tail
    by_cases he : m.name.isEmpty = true
    · simp [he]
    · simp only [he, Bool.false_eq_true, if_false]
      rcases hname with h | h
      · rw [h] at he; simp at he
      · have := h ual tail
        simpa using this
  -- the direction part
  have hdirPart : ∀ tail : Bytes, (lexFrom ual .header ([32] ++ (m.direction ++ tail))).map eraseT =
      tk .direction m.direction :: (lexFrom ual .header tail).map eraseT := by
    intro tail
    obtain ⟨b, r, hbr, hb1, hb2, hb3⟩ : ∃ b r, m.direction = b :: r ∧ isBlank b = false ∧ Utf8.isSpace b = false ∧ b < 128 := by
      rcases hdir' with h | h | h <;> rw [h] <;> exact ⟨72, _, rfl, by decide, by decide, by decide⟩
    exact lex_header_tok ual [32] m.direction tail .direction m.direction .header b r (by simp [isBlank]) hbr hb1 hb2 hb3
      (fun p hp => stepHeader_dir p m.direction tail hdir' hp)
  -- assemble
  have hprint : m.print ++ more = 83 :: (decDigits m.stream.toNat ++ 70 :: (decDigits m.function.toNat ++
      ((if m.waitBit == 1 then [32, 87] else if m.waitBit == 2 then [32, 91, 87, 93] else []) ++
        ([32] ++ (m.direction ++ ((if m.name.isEmpty then [] else 32 :: m.name) ++
          ((if m.item.isEmpty then [10, 46] else [10] ++ m.item.print ++ [10, 46]) ++ more))))))) := by
    unfold Msg.print Msg.header
    rw [hds, hdf, str_W, str_optW]
    split <;> simp
  have hsf : ∀ more : Bytes, (lexFrom ual .header (83 :: (decDigits m.stream.toNat ++ 70 :: (decDigits m.function.toNat ++ 32 :: more)))).map eraseT =
      sfTok m.stream.toNat m.function.toNat :: (lexFrom ual .header (32 :: more)).map eraseT := by
    intro more
    have := lex_header_tok ual [] (83 :: (decDigits m.stream.toNat ++ 70 :: decDigits m.function.toNat)) (32 :: more)
      .streamFunction (83 :: (decDigits m.stream.toNat ++ 70 :: decDigits m.function.toNat)) .header 83 _ (by simp) rfl
      (by decide) (by decide) (by decide)
      (fun p hp => stepHeader_sf p _ _ more (by simpa using hp))
    simpa [sfTok] using this
  rw [hprint]
  unfold msgToks
  -- everything after the optional wait bit
  obtain ⟨tl, hT⟩ : ∃ tl, ((if m.item.isEmpty then [10, 46] else [10] ++ m.item.print ++ [10, 46]) ++ more) = 10 :: tl := by
    split <;> exact ⟨_, rfl⟩
  have hrest : (lexFrom ual .header ([32] ++ (m.direction ++ ((if m.name.isEmpty then [] else 32 :: m.name) ++
      ((if m.item.isEmpty then [10, 46] else [10] ++ m.item.print ++ [10, 46]) ++ more))))).map eraseT =
      tk .direction m.direction :: ((if m.name.isEmpty then [] else [tk .msgName m.name]) ++
        (itemToks m.item ++ tk .msgEnd [46] :: (lexFrom ual .header more).map eraseT)) := by
    rw [hdirPart, hT, hnamePart tl, ← hT, htail]
  rcases (show m.waitBit = 0 ∨ m.waitBit = 1 ∨ m.waitBit = 2 by omega) with hw | hw | hw
  · have h1 : (m.waitBit == 1) = false := by rw [hw]; decide
    have h2 : (m.waitBit == 2) = false := by rw [hw]; decide
    simp only [h1, h2, Bool.false_eq_true, if_false, List.nil_append]
    have := hsf (m.direction ++ ((if m.name.isEmpty then [] else 32 :: m.name) ++
          ((if m.item.isEmpty then [10, 46] else [10] ++ m.item.print ++ [10, 46]) ++ more)))
    simp only [List.cons_append, List.nil_append] at this hrest ⊢
    rw [this, hrest]
    simp
  · have h1 : (m.waitBit == 1) = true := by rw [hw]; decide
    simp only [h1, if_true]
    have := hsf (87 :: ([32] ++ (m.direction ++ ((if m.name.isEmpty then [] else 32 :: m.name) ++
          ((if m.item.isEmpty then [10, 46] else [10] ++ m.item.print ++ [10, 46]) ++ more)))))
    have hwt := lex_header_tok ual [32] [87] ([32] ++ (m.direction ++ ((if m.name.isEmpty then [] else 32 :: m.name) ++
          ((if m.item.isEmpty then [10, 46] else [10] ++ m.item.print ++ [10, 46]) ++ more)))) .waitBit [87] .header 87 []
      (by simp [isBlank]) rfl (by decide) (by decide) (by decide) (fun p hp => stepHeader_W p _ (by simpa using hp))
    simp only [List.cons_append, List.nil_append] at this hwt hrest ⊢
    rw [this, hwt, hrest]
    simp
  · have h1 : (m.waitBit == 1) = false := by rw [hw]; decide
    have h2 : (m.waitBit == 2) = true := by rw [hw]; decide
    simp only [h1, h2, Bool.false_eq_true, if_false, if_true]
    have := hsf (91 :: 87 :: 93 :: ([32] ++ (m.direction ++ ((if m.name.isEmpty then [] else 32 :: m.name) ++
          ((if m.item.isEmpty then [10, 46] else [10] ++ m.item.print ++ [10, 46]) ++ more)))))
    have hwt := lex_header_tok ual [32] [91, 87, 93] ([32] ++ (m.direction ++ ((if m.name.isEmpty then [] else 32 :: m.name) ++
          ((if m.item.isEmpty then [10, 46] else [10] ++ m.item.print ++ [10, 46]) ++ more)))) .waitBit [91, 87, 93] .header 91 [87, 93]
      (by simp [isBlank]) rfl (by decide) (by decide) (by decide) (fun p hp => stepHeader_optW p _ (by simpa using hp))
    simp only [List.cons_append, List.nil_append] at this hwt hrest ⊢
    rw [this, hwt, hrest]
    simp


theorem lex_message (ual : List Nat) (m : Msg) (hv : m.valid = true) (hname : NameOK m.name)
    (hit : m.item = .empty ∨ (m.item.wf = true ∧ cleanT m.item = true ∧ namesPlainT m.item = true)) :
    (lexFrom ual .header m.print).map eraseT = msgToks m ++ [eofTok] := by
  have := lex_message_then ual m hv hname hit [] (Or.inl rfl)
  rw [List.append_nil, lex_eof] at this
  exact this

/-! ### no comment token among the printed tokens -/

def notComment (t : Tok) : Bool := t.kind != .comment

theorem slotToks_nc {α} (f : α → Tok) (hf : ∀ a, notComment (f a) = true) : ∀ xs : List (Slot α), ∀ t ∈ slotToks f xs, notComment t = true
  | [], t, h => by simp [slotToks] at h
  | .val a :: r, t, h => by
    simp only [slotToks, List.mem_cons] at h
    rcases h with rfl | h
    · exact hf a
    · exact slotToks_nc f hf r t h
  | .var n :: r, t, h => by
    simp only [slotToks, List.mem_cons] at h
    rcases h with rfl | h
    · rfl
    · exact slotToks_nc f hf r t h

theorem asciiSegs_nc : ∀ (r run : Bytes), ∀ t ∈ asciiSegs run r, notComment t = true := by
  intro r run t ht
  have := asciiSegs_value r run t ht
  unfold notComment
  cases hk : t.kind <;> (rw [hk] at this; revert this; decide)

theorem arrayToks_nc {α} (ty : Bytes) (f : α → Tok) (hf : ∀ a, notComment (f a) = true) (xs : List (Slot α)) :
    ∀ t ∈ arrayToks ty f xs, notComment t = true := by
  intro t ht
  simp only [arrayToks, List.mem_append] at ht
  rcases ht with (h | h) | h
  · simp only [List.mem_cons, List.not_mem_nil, or_false] at h
    rcases h with rfl | rfl | rfl <;> rfl
  · exact slotToks_nc f hf xs t h
  · simp only [List.mem_cons, List.not_mem_nil, or_false] at h
    subst h; rfl

mutual
theorem itemToks_nc : ∀ (t : Tmpl), ∀ x ∈ itemToks t, notComment x = true
  | .list xs, x, h => by
    simp only [itemToks, List.mem_append, List.mem_cons, List.mem_singleton] at h
    rcases h with ((h | h) | h) | h
    · rcases h with rfl | rfl | h
      · rfl
      · rfl
      · simp at h
    · split at h
      · simp at h
      · simp only [List.mem_singleton] at h; subst h; rfl
    · exact slotsToks_nc xs x h
    · rcases h with rfl | h
      · rfl
      · simp at h
  | .ascii sv, x, h => by
    simp only [itemToks] at h
    split at h
    · simp only [List.mem_cons] at h
      rcases h with rfl | rfl | rfl | rfl | h
      · rfl
      · rfl
      · rfl
      · rfl
      · simp at h
    · simp only [List.mem_append, List.mem_cons, List.mem_singleton] at h
      rcases h with (h | h) | h
      · rcases h with rfl | rfl | h
        · rfl
        · rfl
        · simp at h
      · exact asciiSegs_nc sv [] x h
      · rcases h with rfl | h
        · rfl
        · simp at h
  | .asciiVar n mn mx, x, h => by
    simp only [itemToks, boundsToks, List.mem_append, List.mem_cons, List.mem_singleton] at h
    rcases h with (h | h) | h
    · rcases h with rfl | rfl | h
      · rfl
      · rfl
      · simp at h
    · split at h
      · simp at h
      · simp only [List.mem_singleton] at h; subst h; rfl
    · rcases h with rfl | rfl | h
      · rfl
      · rfl
      · simp at h
  | .binary zs, x, h => arrayToks_nc _ _ (fun _ => rfl) zs x (by simpa [itemToks] using h)
  | .boolean zs, x, h => arrayToks_nc _ _ (fun _ => rfl) zs x (by simpa [itemToks] using h)
  | .int w zs, x, h => arrayToks_nc _ _ (fun _ => rfl) zs x (by simpa [itemToks] using h)
  | .uint w zs, x, h => arrayToks_nc _ _ (fun _ => rfl) zs x (by simpa [itemToks] using h)
  | .float w zs, x, h => arrayToks_nc _ _ (fun _ => rfl) zs x (by simpa [itemToks] using h)
  | .empty, x, h => by simp [itemToks] at h
theorem slotsToks_nc : ∀ (xs : Slots), ∀ x ∈ slotsToks xs, notComment x = true
  | .nil, x, h => by simp [slotsToks] at h
  | .item t r, x, h => by
    simp only [slotsToks, List.mem_append] at h
    rcases h with h | h
    · exact itemToks_nc t x h
    · exact slotsToks_nc r x h
  | .var n r, x, h => by
    simp only [slotsToks, List.mem_cons] at h
    rcases h with rfl | h
    · split <;> rfl
    · exact slotsToks_nc r x h
end

theorem msgToks_nc (m : Msg) : ∀ x ∈ msgToks m ++ [eofTok], notComment x = true := by
  intro x h
  simp only [msgToks, List.mem_append, List.mem_cons, List.mem_singleton] at h
  rcases h with (rfl | h) | h
  · rfl
  · rcases h with h | rfl | h
    · split at h
      · simp at h; subst h; rfl
      · split at h
        · simp at h; subst h; rfl
        · simp at h
    · rfl
    · rcases h with h | h | h
      · split at h
        · simp at h
        · simp at h; subst h; rfl
      · exact itemToks_nc m.item x h
      · rcases h with rfl | h
        · rfl
        · simp at h
  · rcases h with rfl | h
    · rfl
    · simp at h

theorem filter_all {l : List Tok} (h : ∀ x ∈ l, notComment x = true) : l.filter notComment = l := by
  induction l with
  | nil => rfl
  | cons a r ih =>
    simp only [List.filter_cons, h a (by simp), if_true]
    rw [ih (fun x hx => h x (by simp [hx]))]


/-! ### a sufficient condition for `NameOK` -/

/-- visible 7-bit character other than `/` -/
def nameByte (c : Nat) : Bool := decide (33 ≤ c) && decide (c ≤ 126) && c != 47

theorem scanName_simple : ∀ (r more : Bytes) (fuel : Nat), (∀ c ∈ r, nameByte c = true) → r.length < fuel →
    scanName fuel (r ++ 10 :: more) = r := by
  intro r
  induction r with
  | nil =>
    intro more fuel _ hf
    cases fuel with
    | zero => omega
    | succ k => simp [scanName, Utf8.decodeRune, Utf8.isSpace]
  | cons c r ih =>
    intro more fuel hall hf
    cases fuel with
    | zero => omega
    | succ k =>
      have hc := hall c (by simp)
      simp only [nameByte, Bool.and_eq_true, decide_eq_true_eq, bne_iff_ne, ne_eq] at hc
      have hdec : Utf8.decodeRune (c :: (r ++ 10 :: more)) = (c, 1) := by
        have : c < 128 := by omega
        simp [Utf8.decodeRune, this]
      have hsp : Utf8.isSpace c = false := by simp [Utf8.isSpace]; omega
      have hsw : startsWith [47, 47] (c :: (r ++ 10 :: more)) = false := by
        cases r <;> simp [startsWith, hc.2]
      simp only [List.cons_append, scanName, hdec, hsp, Bool.false_eq_true, if_false, hsw, List.take, List.drop]
      rw [ih more k (fun x hx => hall x (by simp [hx])) (by simpa using hf)]
      simp

/-- a name of visible 7-bit characters without `/`, not starting like another header token, is
read as one name -/
theorem nameOK_of_simple (c : Nat) (r : Bytes) (hc : nameByte c = true) (hr : ∀ x ∈ r, nameByte x = true)
    (hfirst : c ≠ 83 ∧ c ≠ 115 ∧ c ≠ 87 ∧ c ≠ 119 ∧ c ≠ 91 ∧ c ≠ 72 ∧ c ≠ 104 ∧ c ≠ 46 ∧ c ≠ 60) : NameOK (c :: r) := by
  right
  intro ual more
  have hcb := hc
  simp only [nameByte, Bool.and_eq_true, decide_eq_true_eq, bne_iff_ne, ne_eq] at hcb
  refine lex_header_tok ual [32] (c :: r) (10 :: more) .msgName (c :: r) .header c r (by simp [isBlank]) rfl
    (by simp [isBlank]; omega) (by simp [Utf8.isSpace]; omega) (by omega) ?_
  intro p hp
  obtain ⟨h1, h2, h3, h4, h5, h6, h7, h8, h9⟩ := hfirst
  have hdec : Utf8.decodeRune (c :: (r ++ 10 :: more)) = (c, 1) := by
    have : c < 128 := by omega
    simp [Utf8.decodeRune, this]
  have hsw : startsWith [47, 47] (c :: (r ++ 10 :: more)) = false := by
    cases r <;> simp [startsWith, hcb.2]
  have hsf : matchSF (c :: (r ++ 10 :: more)) = none := by simp [matchSF, h1, h2]
  have hmw : matchW (c :: (r ++ 10 :: more)) = none := by
    unfold matchW
    split <;> simp_all
  have hmd : matchDir (c :: (r ++ 10 :: more)) = none := by simp [matchDir, h6, h7]
  have hscan := scanName_simple r more (c :: (r ++ 10 :: more)).length hr (by simp; omega)
  unfold stepHeader
  rw [hp]
  simp only [List.cons_append, hsw, Bool.false_eq_true, if_false, hsf, hmw, hmd, hdec]
  have hb46 : (c == 46) = false := by simpa using h8
  have hb60 : (c == 60) = false := by simpa using h9
  simp only [hb46, hb60, Bool.false_eq_true, if_false, Nat.max_self, List.take, List.drop, hscan]
  simp


/-! ### several printed messages in one text -/

/-- what `print_parse` asks of a message -/
def Printable (m : Msg) : Prop :=
  m.valid = true ∧ NameOK m.name ∧
    (m.item = .empty ∨ (m.item.wf = true ∧ cleanT m.item = true ∧ namesPlainT m.item = true ∧ ∃ e, ellAfter 0 m.item = some e))

/-- printed messages one after the other, each followed by the separator `sep` -/
def printAll (sep : Bytes) (ms : List Msg) : Bytes := ms.flatMap (fun m => m.print ++ sep)

theorem print_head (m : Msg) : ∃ r, m.print = 83 :: r := by
  unfold Msg.print Msg.header
  split <;> exact ⟨_, rfl⟩

/-- the lexer reads a text of printed messages as the concatenation of their token streams -/
theorem lex_printAll (ual : List Nat) (sep : Bytes) (hsep : ∀ c ∈ sep, isBlank c = true) :
    ∀ ms : List Msg, (∀ m ∈ ms, Printable m) →
      (lexFrom ual .header (printAll sep ms)).map eraseT = ms.flatMap msgToks ++ [eofTok]
  | [], _ => by simp [printAll, lex_eof]
  | m :: rest, h => by
    obtain ⟨hv, hname, hit⟩ := h m (by simp)
    have hit' : m.item = .empty ∨ (m.item.wf = true ∧ cleanT m.item = true ∧ namesPlainT m.item = true) := by
      rcases hit with h | ⟨h1, h2, h3, _⟩
      · exact Or.inl h
      · exact Or.inr ⟨h1, h2, h3⟩
    have hmore : sep ++ printAll sep rest = [] ∨ ∃ c r', sep ++ printAll sep rest = c :: r' ∧ c ≠ 46 ∧ isDigitB c = false := by
      cases hs : sep with
      | cons c r' =>
        right
        have hc := hsep c (by rw [hs]; simp)
        refine ⟨c, r' ++ printAll sep rest, by simp [hs], ?_, ?_⟩
        · intro h46; subst h46; simp [isBlank] at hc
        · simp only [isBlank, Bool.or_eq_true, beq_iff_eq] at hc
          simp [isDigitB]; omega
      | nil =>
        cases rest with
        | nil => left; simp [printAll]
        | cons m2 rest2 =>
          right
          obtain ⟨r, hr⟩ := print_head m2
          exact ⟨83, r ++ sep ++ printAll sep rest2, by simp [printAll, hr, hs], by decide, by decide⟩
    have e : printAll sep (m :: rest) = m.print ++ (sep ++ printAll sep rest) := by simp [printAll]
    rw [e, lex_message_then ual m hv hname hit' _ hmore, blank_run_invisible ual .header sep _ hsep,
      lex_printAll ual sep hsep rest (fun x hx => h x (by simp [hx]))]
    simp


/-- from "the text is lexed into these tokens" and "these tokens parse to these messages without
diagnostics" to the outcome of `parse` -/
theorem parse_of_lexed (ual : List Nat) (input : Bytes) (toks : List Tok) (msgs : List Msg)
    (hlex : (lexAll ual input).map eraseT = toks) (hnc : ∀ x ∈ toks, notComment x = true)
    (hpar : parseToks toks = .done msgs [] []) : parse ual input = .done msgs [] [] := by
  have hcontent : (parse ual input).content = (parseToks toks).content := by
    unfold parse
    apply positions_irrelevant
    have e1 : ∀ l : List Tok, (l.filter (fun t => t.kind != .comment)).map eraseTok = (l.map eraseT).filter notComment := by
      intro l
      induction l with
      | nil => rfl
      | cons t r ih =>
        simp only [List.filter_cons, List.map_cons]
        have : notComment (eraseT t) = (t.kind != .comment) := rfl
        rw [this]
        split
        · simp only [List.map_cons, ih]; rfl
        · exact ih
    rw [e1, hlex, filter_all hnc]
    have hX : toks.map eraseTok = toks := by
      rw [← hlex, List.map_map]
      apply List.map_congr_left
      intro t _
      rfl
    rw [hX]
  rw [hpar] at hcontent
  cases hp : parse ual input with
  | panic => rw [hp] at hcontent; simp [Outcome.content] at hcontent
  | done ms es ws =>
    rw [hp] at hcontent
    simp only [Outcome.content, Option.some.injEq, Prod.mk.injEq, List.map_nil, List.map_eq_nil_iff] at hcontent
    rw [hcontent.1, hcontent.2.1, hcontent.2.2]

theorem flatMap_msgToks_nc (ms : List Msg) : ∀ x ∈ ms.flatMap msgToks ++ [eofTok], notComment x = true := by
  intro x hx
  simp only [List.mem_append, List.mem_flatMap, List.mem_singleton] at hx
  rcases hx with ⟨m, _, hm⟩ | rfl
  · exact msgToks_nc m x (by simp [hm])
  · rfl

/-- **A text of printed messages parses to exactly those messages**: any number of printable
messages, printed one after the other with any run of blanks, tabs and line breaks (or nothing)
after each, parse to exactly these messages in order, no error, no warning — each the same as
parsing its own printed form alone. -/
theorem parse_printAll (ual : List Nat) (sep : Bytes) (hsep : ∀ c ∈ sep, isBlank c = true) (ms : List Msg)
    (h : ∀ m ∈ ms, Printable m) : parse ual (printAll sep ms) = .done (ms.map unaddressed) [] [] := by
  apply parse_of_lexed ual _ (ms.flatMap msgToks ++ [eofTok]) _ (lex_printAll ual sep hsep ms h) (flatMap_msgToks_nc ms)
  apply parseToks_printed
  intro m hm
  obtain ⟨hv, _, hit⟩ := h m hm
  refine ⟨hv, ?_⟩
  rcases hit with he | ⟨hw, hc, _, e, hel⟩
  · exact ⟨0, Or.inl ⟨he, rfl⟩⟩
  · exact ⟨e, Or.inr ⟨hw, hc, freshT_nil m.item hw hc, hel⟩⟩

end Sml
end Secs
