/-
Token streams of accepted texts can be put one after the other: the message loop parses the
messages of the first stream exactly as it does alone, and then stands at the second stream with
the messages, warnings and (irrelevant) scope of the first.
-/
import SecsModel.Proofs.ParserLocal
import SecsModel.Proofs.ParserErrs
namespace Secs
namespace Sml
open Lex

/-- a successful `parseMessage` ends with taking the terminator from the `preFinish` state -/
theorem parseMessage_success (s : PS) (m : Msg) (s1 : PS) (h : parseMessage s = (some (some m), s1)) :
    (preFinish s).peek.kind = .msgEnd ∧ s1 = (preFinish s).pop := by
  unfold parseMessage at h
  dsimp only at h
  split at h
  · cases h
  · unfold finishMsg at h
    unfold preFinish
    dsimp only
    generalize msgItem _ = mi at h ⊢
    obtain ⟨r, sm⟩ := mi
    cases r with
    | stop => cases h
    | panic => cases h
    | ok it =>
      dsimp only at h ⊢
      split at h
      · cases h
      · rename_i hk
        split at h
        · injection h with _ h2
          have hk' : (sm.peek.kind == Kind.msgEnd) = true := by
            cases hb : sm.peek.kind == Kind.msgEnd with
            | true => rfl
            | false => simp [bne, hb] at hk
          exact ⟨kind_of_beq _ _ hk', h2.symm⟩
        · cases h

theorem suffix_snoc {α} (l A : List α) (e : α) (h : l <:+ A ++ [e]) : l = [] ∨ ∃ A', A' <:+ A ∧ l = A' ++ [e] := by
  obtain ⟨p, hp⟩ := h
  by_cases hl : l = []
  · exact Or.inl hl
  · right
    have hd := List.dropLast_concat_getLast hl
    rw [← hd, ← List.append_assoc] at hp
    have := List.append_inj' hp (by simp)
    refine ⟨l.dropLast, ⟨p, this.1⟩, ?_⟩
    have h2 : l.getLast hl = e := by simpa using this.2
    rw [← h2]
    exact hd.symm

/-- **The message loop on a prefix.** If the loop, run on the tokens `A` followed by an end-of-input
token, reports no error, then run on `A ++ B` it arrives at `B` with the same messages and the same
state (only the unread tokens differ). -/
theorem parseLoop_prefix (e : Tok) (he : e.kind = .eof) (B : List Tok) :
    ∀ (f1 : Nat) (A : List Tok) (s : PS) (acc ms : List Msg) (sEnd : PS) (f2 : Nat),
      (∀ t ∈ A, t.kind ≠ .eof) → s.toks = A ++ [e] → s.toks.length < f1 → (A ++ B).length < f2 →
      parseLoop f1 s acc = some (ms, sEnd) → sEnd.errs = [] →
      ∃ (acc' : List Msg) (f2' : Nat), ms = acc'.reverse ∧ sEnd.toks = [e] ∧ B.length < f2' ∧
        parseLoop f2 (s.withToks (A ++ B)) acc = parseLoop f2' (sEnd.withToks B) acc'
  | 0, _, _, _, _, _, _, _, _, hf, _, _, _ => by omega
  | k + 1, A, s, acc, ms, sEnd, f2, hA, hs, hf1, hf2, h, herr => by
    unfold parseLoop at h
    cases A with
    | nil =>
      -- the first stream is exhausted: the loop sees the end-of-input token
      have hp : s.peek = e := by simp [PS.peek, hs]
      simp only [hp, he, beq_self_eq_true, if_true] at h
      injection h with h; injection h with h1 h2
      subst h2
      exact ⟨acc, f2, h1.symm, by simpa using hs, by simpa using hf2, by simp⟩
    | cons a A' =>
      have hp : s.peek = a := by simp [PS.peek, hs]
      have hak : a.kind ≠ .eof := hA a (by simp)
      have hnk : (a.kind == Kind.eof) = false := by
        cases hk : a.kind == Kind.eof with
        | false => rfl
        | true => exact absurd (kind_of_beq _ _ hk) hak
      simp only [hp, hnk, Bool.false_eq_true, if_false] at h
      have hc := parseMessage_consumes s
      have hn := parseMessage_none_err s
      cases hm : parseMessage s with
      | mk o s1 =>
        rw [hm] at h hc hn
        cases o with
        | none =>
          injection h with h; injection h with _ h2
          subst h2
          exact absurd herr (hn rfl)
        | some om =>
          cases om with
          | none => cases h
          | some m =>
            obtain ⟨hk, hs1⟩ := parseMessage_success s m s1 hm
            -- the terminator is a token of A: the state before it still holds more than [e]
            have hsuf : (preFinish s).toks <:+ (a :: A') ++ [e] := by
              rw [← hs]; exact List.IsSuffix.trans (preFinish_suf s) (suf_pop s)
            have hpre : ∃ t T, t.kind = Kind.msgEnd ∧ T <:+ a :: A' ∧ (preFinish s).toks = t :: T ++ [e] ∧ (t :: T) <:+ a :: A' := by
              rcases suffix_snoc _ _ _ hsuf with hnil | ⟨A1, hA1, hl⟩
              · have := peek_nil_kind (preFinish s) hnil
                rw [this] at hk; cases hk
              · cases A1 with
                | nil =>
                  have : (preFinish s).peek = e := by simp [PS.peek, hl]
                  rw [this, he] at hk; cases hk
                | cons t T =>
                  have : (preFinish s).peek = t := by simp [PS.peek, hl]
                  refine ⟨t, T, by rw [← this]; exact hk, ?_, by simpa using hl, hA1⟩
                  exact List.IsSuffix.trans (List.suffix_cons t T) hA1
            obtain ⟨t, T, _, hT, hpt, hTs⟩ := hpre
            have hlen : [e].length < (preFinish s).toks.length := by rw [hpt]; simp
            have hw : WSim [e] B s (s.withToks ((a :: A') ++ B)) := ⟨a :: A', hs, rfl⟩
            obtain ⟨e1, w1⟩ := parseMessage_loc [e] B s _ hw hlen
            rw [hm] at e1 w1
            dsimp only at e1 w1
            -- the rest of the first stream
            have hs1t : s1.toks = T ++ [e] := by rw [hs1]; simp [PS.pop, hpt]
            obtain ⟨T2, hT2a, hT2b⟩ := w1
            have hTT : T2 = T := by
              rw [hs1t] at hT2a
              exact (List.append_cancel_right hT2a).symm
            subst hTT
            have hTA : ∀ x ∈ T2, x.kind ≠ .eof := fun x hx => hA x (hT.subset hx)
            have hlenT : T2.length ≤ A'.length := by have := hTs.length_le; simp at this; omega
            cases f2 with
            | zero => omega
            | succ j =>
              have hcons : s1.toks.length < s.toks.length := hc (by simp)
              have ih := parseLoop_prefix e he B k T2 s1 (m :: acc) ms sEnd j hTA hs1t
                (by omega) (by simp at hf2 ⊢; omega) h herr
              obtain ⟨acc', f2', r1, r2, r3, r4⟩ := ih
              refine ⟨acc', f2', r1, r2, r3, ?_⟩
              rw [← r4]
              -- one step of the loop on the long stream
              have hp' : (s.withToks ((a :: A') ++ B)).peek = a := rfl
              conv => lhs; unfold parseLoop
              simp only [hp', hnk, Bool.false_eq_true, if_false]
              cases hm' : parseMessage (s.withToks ((a :: A') ++ B)) with
              | mk o' s1' =>
                rw [hm'] at e1 hT2b
                dsimp only at e1 hT2b
                subst e1
                rw [hT2b]

/-! ### the size-check flag is down between messages -/

theorem closeTail_ok_skip (item : Tmpl) (s : PS) (t : Tmpl) (h : (closeTail item s).1 = .ok t) :
    (closeTail item s).2.skipSize = false := by
  unfold closeTail at h ⊢
  dsimp only at h ⊢
  split
  · rename_i hk; simp [hk] at h
  · rfl

theorem closeItem_ok_skip (sizeTok : Tok) (lo hi : Int) (res : R Tmpl) (s : PS) (t : Tmpl)
    (h : (closeItem sizeTok lo hi res s).1 = .ok t) : (closeItem sizeTok lo hi res s).2.skipSize = false := by
  unfold closeItem at h ⊢
  cases res with
  | stop => cases h
  | panic => cases h
  | ok item =>
    dsimp only at h ⊢
    split
    · rename_i hc; rw [if_pos hc] at h; exact closeTail_ok_skip _ _ t h
    · rename_i hc; rw [if_neg hc] at h; exact closeTail_ok_skip _ _ t h

theorem itemBody_ok_skip (ll : PS → R Tmpl × PS) (s : PS) (t : Tmpl) (h : (itemBody ll s).1 = .ok t) :
    (itemBody ll s).2.skipSize = false := by
  generalize hres : itemBody ll s = res at h ⊢
  unfold itemBody at hres
  dsimp only at hres
  split at hres
  · subst hres; cases h
  · split at hres
    · subst hres; cases h
    · subst hres; exact closeItem_ok_skip _ _ _ _ _ t h

theorem parseItemF_ok_skip : ∀ (fuel : Nat) (s : PS) (t : Tmpl), (parseItemF fuel s).1 = .ok t →
    (parseItemF fuel s).2.skipSize = false
  | 0, s, t, h => by simp [parseItemF] at h
  | fuel + 1, s, t, h => by
    generalize hres : parseItemF (fuel + 1) s = res at h ⊢
    unfold parseItemF at hres
    dsimp only at hres
    split at hres
    · subst hres; cases h
    · subst hres
      generalize hb : itemBody (parseItemF.listLoop fuel 0 []) s.pop = body at h ⊢
      have := itemBody_ok_skip (parseItemF.listLoop fuel 0 []) s.pop
      rw [hb] at this
      obtain ⟨r, sb⟩ := body
      unfold recoverItem at h ⊢
      cases r with
      | panic => cases h
      | stop => cases h
      | ok it => exact this it rfl

theorem streamFunction_skip (s : PS) (t : Tok) : (streamFunction s t).2.2.skipSize = s.skipSize := by
  rw [streamFunction_eq']
  unfold clampSF'
  dsimp only
  split <;> split <;> rfl

theorem waitBitOf_skip (fn : Int) (s : PS) : (waitBitOf fn s).2.skipSize = s.skipSize := by
  unfold waitBitOf
  dsimp only
  repeat' split
  all_goals rfl

theorem directionOf_skip (s : PS) : (directionOf s).2.skipSize = s.skipSize := by
  unfold directionOf
  dsimp only
  split <;> rfl

theorem nameOf_skip (s : PS) : (nameOf s).2.skipSize = s.skipSize := by
  unfold nameOf
  dsimp only
  split <;> rfl

theorem msgItem_ok_skip (s : PS) (t : Tmpl) (hs : s.skipSize = false) (h : (msgItem s).1 = .ok t) :
    (msgItem s).2.skipSize = false := by
  generalize hres : msgItem s = res at h ⊢
  unfold msgItem at hres
  dsimp only at hres
  split at hres
  · subst hres; exact hs
  · split at hres
    · subst hres; exact parseItemF_ok_skip _ s t h
    · subst hres; cases h

/-- a message that is built leaves the size-check flag down (as it found it) -/
theorem parseMessage_skip (s : PS) (m : Msg) (s1 : PS) (hs : s.skipSize = false)
    (h : parseMessage s = (some (some m), s1)) : s1.skipSize = false := by
  unfold parseMessage at h
  dsimp only at h
  split at h
  · cases h
  · unfold finishMsg at h
    have hh : (nameOf (directionOf (waitBitOf (streamFunction s.resetScope.pop s.resetScope.peek).2.1
        (streamFunction s.resetScope.pop s.resetScope.peek).2.2).2).2).2.skipSize = false := by
      rw [nameOf_skip, directionOf_skip, waitBitOf_skip, streamFunction_skip]; exact hs
    have hmi := fun t => msgItem_ok_skip (nameOf (directionOf (waitBitOf (streamFunction s.resetScope.pop s.resetScope.peek).2.1
        (streamFunction s.resetScope.pop s.resetScope.peek).2.2).2).2).2 t hh
    generalize msgItem _ = mi at h hmi
    obtain ⟨r, sm⟩ := mi
    cases r with
    | stop => cases h
    | panic => cases h
    | ok it =>
      dsimp only at h
      have := hmi it rfl
      split at h
      · cases h
      · split at h
        · injection h with _ h2; rw [← h2]; exact this
        · cases h

theorem parseLoop_skip : ∀ (fuel : Nat) (s : PS) (acc ms : List Msg) (sEnd : PS), s.skipSize = false →
    parseLoop fuel s acc = some (ms, sEnd) → sEnd.errs = [] → sEnd.skipSize = false
  | 0, s, acc, ms, sEnd, hs, h, _ => by
    simp only [parseLoop, Option.some.injEq, Prod.mk.injEq] at h
    rw [← h.2]; exact hs
  | fuel + 1, s, acc, ms, sEnd, hs, h, he => by
    unfold parseLoop at h
    split at h
    · injection h with h; injection h with _ h2; rw [← h2]; exact hs
    · have hn := parseMessage_none_err s
      cases hm : parseMessage s with
      | mk o s1 =>
        rw [hm] at h hn
        cases o with
        | none =>
          injection h with h; injection h with _ h2
          subst h2
          exact absurd he (hn rfl)
        | some om =>
          cases om with
          | none => cases h
          | some m => exact parseLoop_skip fuel s1 (m :: acc) ms sEnd (parseMessage_skip s m s1 hs hm) h he

end Sml
end Secs
