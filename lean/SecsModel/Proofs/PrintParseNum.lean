/-
Printed numbers read back: the decimal form of an unsigned or signed value, read by
ParseUint / ParseInt with base 0 (as the SML parser calls them), is that value.
-/
import SecsModel.Proofs.Decimal
namespace Secs
open Strconv

theorem puLoop_digits' (maxVal : Nat) (b0 : Bool) (ds : Bytes) (hd : ∀ c ∈ ds, 48 ≤ c ∧ c ≤ 57) (acc : Nat)
    (hle : digitFold acc ds ≤ maxVal) :
    puLoop 10 maxVal b0 ds acc false = (digitFold acc ds, none, false) := by
  induction ds generalizing acc with
  | nil => simp [puLoop, digitFold]
  | cons c r ih =>
    have hc := hd c (by simp)
    have hr : ∀ x ∈ r, 48 ≤ x ∧ x ≤ 57 := fun x hx => hd x (by simp [hx])
    have hdv : digitVal c = some (c - 48) := by
      simp only [digitVal, isDigitB, Bool.and_eq_true, decide_eq_true_eq]
      simp [hc.1, hc.2]
    have hstep : digitFold acc (c :: r) = digitFold (acc * 10 + (c - 48)) r := by simp [digitFold]
    have hmono := digitFold_mono r (acc * 10 + (c - 48))
    rw [hstep] at hle ⊢
    have hn : ¬ (acc * 10 + (c - 48) > maxVal) := by omega
    have h95 : (c == 95 && b0) = false := by
      have : (c == 95) = false := by simp; omega
      simp [this]
    simp only [puLoop, h95, Bool.false_eq_true, if_false, hdv]
    have hge : ¬ (c - 48 ≥ 10) := by omega
    simp only [hge, if_false, hn]
    exact ih hr _ hle

/-- the leading decimal digit of a positive number is not `0` -/
theorem decDigits_head (n : Nat) (h : 0 < n) : ∃ c r, decDigits n = c :: r ∧ 49 ≤ c ∧ c ≤ 57 := by
  induction n using Nat.strongRecOn with
  | _ n ih =>
    rw [decDigits]
    by_cases h10 : n < 10
    · simp only [h10, dite_true]
      exact ⟨48 + n, [], rfl, by omega, by omega⟩
    · simp only [h10, dite_false]
      obtain ⟨c, r, hcr, h1, h2⟩ := ih (n / 10) (by omega) (by omega)
      exact ⟨c, r ++ [48 + n % 10], by rw [hcr]; rfl, h1, h2⟩

/-- ParseUint(decimal digits of n, base 0, bits) = n when n fits -/
theorem parseUint_decDigits (n bits : Nat) (hb : bits = 0 ∨ bits = 8 ∨ bits = 16 ∨ bits = 32 ∨ bits = 64)
    (hn : n < 2 ^ (if bits = 0 then 64 else bits)) : parseUint (decDigits n) 0 bits = ⟨n, none⟩ := by
  have hs := decDigits_spec n
  have hmax : n ≤ 2 ^ (if (bits == 0) = true then 64 else bits) - 1 := by
    rcases hb with h | h | h | h | h <;> subst h <;> simp at hn ⊢ <;> omega
  by_cases h0 : n = 0
  · subst h0
    have : decDigits 0 = [48] := by rw [decDigits]; simp
    rw [this]
    simp [parseUint, puLoop, basePrefix]
  · obtain ⟨c, r, hcr, hc1, hc2⟩ := decDigits_head n (by omega)
    have hs1 : ∀ x ∈ c :: r, 48 ≤ x ∧ x ≤ 57 := hcr ▸ hs.1
    have hs2 : digitFold 0 (c :: r) = n := hcr ▸ hs.2
    rw [hcr]
    unfold parseUint
    have hz : ((0 : Nat) == 0) = true := by decide
    simp only [List.isEmpty_cons, Bool.false_eq_true, if_false, hz, if_true]
    have hloop := puLoop_digits' (2 ^ (if (bits == 0) = true then 64 else bits) - 1) true (c :: r) hs1 0 (by rw [hs2]; exact hmax)
    have hpre : basePrefix (c :: r) = (10, c :: r) := by
      unfold basePrefix
      split
      · rename_i heq; injection heq with h1 _; omega
      · rename_i heq; injection heq with h1 _; omega
      · rfl
    simp only [hpre, hloop, hs2]
    simp

theorem natAbs_intDec_nonneg (v : Int) (h : 0 ≤ v) : intDec v = decDigits v.toNat := by
  unfold intDec
  have : ¬ v < 0 := by omega
  simp only [this, if_false]
  congr 1
  omega

theorem parseInt_intDec_aux (v : Int) (bits B : Nat) (hB : (if (bits == 0) = true then 64 else bits) = B)
    (hu : parseUint (decDigits v.natAbs) 0 bits = ⟨v.natAbs, none⟩)
    (hlo : -((2 ^ (B - 1) : Nat) : Int) ≤ v) (hhi : v < ((2 ^ (B - 1) : Nat) : Int)) :
    parseInt (intDec v) 0 bits = ⟨v, none⟩ := by
  have hne := decDigits_ne_nil v.natAbs
  have hsd := decDigits_spec v.natAbs
  obtain ⟨c, r, hcr⟩ : ∃ c r, decDigits v.natAbs = c :: r := by
    cases hd : decDigits v.natAbs with
    | nil => exact absurd hd hne
    | cons c r => exact ⟨c, r, rfl⟩
  have hc := hsd.1 c (by rw [hcr]; simp)
  have hsplit : splitSign (intDec v) = (decide (v < 0), decDigits v.natAbs) := by
    unfold intDec splitSign
    by_cases hv : v < 0
    · simp [hv]
    · simp only [hv, if_false, decide_false]
      rw [hcr]
      split
      · rename_i heq; injection heq with h1 _; omega
      · rename_i heq; injection heq with h1 _; omega
      · rfl
  have hemp : (intDec v).isEmpty = false := by
    unfold intDec; split <;> simp [hcr]
  unfold parseInt
  simp only [hemp, Bool.false_eq_true, if_false, hsplit, hu, hB]
  generalize 2 ^ (B - 1) = K at hlo hhi ⊢
  by_cases hv : v < 0
  · have h1 : ¬ (v.natAbs > K) := by omega
    simp [hv, h1]
    omega
  · have h1 : ¬ (v.natAbs ≥ K) := by omega
    simp [hv, h1]
    omega

/-- ParseInt(FormatInt(v, 10), base 0, 8·w) = v for every value of an I<w> item -/
theorem parseInt_intDec (v : Int) (w : Nat) (hw : w = 1 ∨ w = 2 ∨ w = 4 ∨ w = 8)
    (hlo : -((2 ^ (8 * w - 1) : Nat) : Int) ≤ v) (hhi : v < ((2 ^ (8 * w - 1) : Nat) : Int)) :
    parseInt (intDec v) 0 (8 * w) = ⟨v, none⟩ := by
  have hB : (if ((8 * w) == 0) = true then 64 else 8 * w) = 8 * w := by
    rcases hw with h | h | h | h <;> subst h <;> rfl
  refine parseInt_intDec_aux v (8 * w) (8 * w) hB ?_ hlo hhi
  apply parseUint_decDigits
  · rcases hw with h | h | h | h <;> subst h <;> simp
  · have : (if 8 * w = 0 then 64 else 8 * w) = 8 * w := by
      rcases hw with h | h | h | h <;> subst h <;> rfl
    rw [this]
    rcases hw with h | h | h | h <;> subst h <;> simp at hlo hhi ⊢ <;> omega

end Secs

namespace Secs
open Strconv

/-! ### binary digits (`0b…`, the printed form of a B item's values) -/

def binFold (acc : Nat) (ds : Bytes) : Nat := ds.foldl (fun a c => a * 2 + (c - 48)) acc

theorem binDigits_spec (n : Nat) : (∀ c ∈ binDigits n, 48 ≤ c ∧ c ≤ 49) ∧ binFold 0 (binDigits n) = n := by
  induction n using Nat.strongRecOn with
  | _ n ih =>
    rw [binDigits]
    by_cases h : n < 2
    · simp only [h, dite_true, List.mem_singleton, forall_eq, binFold, List.foldl_cons, List.foldl_nil]
      omega
    · simp only [h, dite_false]
      have := ih (n / 2) (by omega)
      refine ⟨?_, ?_⟩
      · intro c hc
        simp only [List.mem_append, List.mem_singleton] at hc
        rcases hc with hc | hc
        · exact this.1 c hc
        · omega
      · simp only [binFold, List.foldl_append, List.foldl_cons, List.foldl_nil]
        have h2 := this.2
        simp only [binFold] at h2
        rw [h2]; omega

theorem binFold_mono (ds : Bytes) (acc : Nat) : acc ≤ binFold acc ds := by
  induction ds generalizing acc with
  | nil => simp [binFold]
  | cons c r ih =>
    simp only [binFold, List.foldl_cons]
    have := ih (acc * 2 + (c - 48))
    simp only [binFold] at this
    omega

theorem puLoop_bin (maxVal : Nat) (ds : Bytes) (hd : ∀ c ∈ ds, 48 ≤ c ∧ c ≤ 49) (acc : Nat)
    (hle : binFold acc ds ≤ maxVal) :
    puLoop 2 maxVal true ds acc false = (binFold acc ds, none, false) := by
  induction ds generalizing acc with
  | nil => simp [puLoop, binFold]
  | cons c r ih =>
    have hc := hd c (by simp)
    have hr : ∀ x ∈ r, 48 ≤ x ∧ x ≤ 49 := fun x hx => hd x (by simp [hx])
    have hdv : digitVal c = some (c - 48) := by
      simp only [digitVal, isDigitB, Bool.and_eq_true, decide_eq_true_eq]
      have : 48 ≤ c ∧ c ≤ 57 := ⟨hc.1, by omega⟩
      simp [this.1, this.2]
    have hstep : binFold acc (c :: r) = binFold (acc * 2 + (c - 48)) r := by simp [binFold]
    have hmono := binFold_mono r (acc * 2 + (c - 48))
    rw [hstep] at hle ⊢
    have hn : ¬ (acc * 2 + (c - 48) > maxVal) := by omega
    have h95 : (c == 95 && true) = false := by
      have : (c == 95) = false := by simp; omega
      simp [this]
    simp only [puLoop, h95, Bool.false_eq_true, if_false, hdv]
    have hge : ¬ (c - 48 ≥ 2) := by omega
    simp only [hge, if_false, hn]
    exact ih hr _ hle

/-- ParseInt("0b" ++ binary digits of n, 0, 0) = n -/
theorem parseInt_bin (n : Nat) (h : n < 2 ^ 63) : parseInt ([48, 98] ++ binDigits n) 0 0 = ⟨n, none⟩ := by
  have hs := binDigits_spec n
  obtain ⟨c, r, hcr⟩ : ∃ c r, binDigits n = c :: r := by
    cases hd : binDigits n with
    | nil =>
      have := hs.2; rw [hd] at this
      rw [binDigits] at hd
      split at hd <;> simp at hd
    | cons c r => exact ⟨c, r, rfl⟩
  have hs1 : ∀ x ∈ c :: r, 48 ≤ x ∧ x ≤ 49 := hcr ▸ hs.1
  have hs2 : binFold 0 (c :: r) = n := hcr ▸ hs.2
  rw [hcr]
  show parseInt (48 :: 98 :: c :: r) 0 0 = ⟨n, none⟩
  have hu : parseUint (48 :: 98 :: c :: r) 0 0 = ⟨n, none⟩ := by
    unfold parseUint
    have hpre : basePrefix (48 :: 98 :: c :: r) = (2, c :: r) := by
      simp [basePrefix, lowerB, isUpperB]
    have hloop := puLoop_bin 18446744073709551615 (c :: r) hs1 0 (by rw [hs2]; omega)
    simp [hpre, hloop, hs2]
  unfold parseInt
  have hsplit : splitSign (48 :: 98 :: c :: r) = (false, 48 :: 98 :: c :: r) := by simp [splitSign]
  simp only [hsplit, hu]
  have h1 : ¬ (n ≥ 2 ^ 63) := by omega
  simp [h1]

/-- the hex code the printer writes for a character reads back as that character -/
theorem parseUint_hexcode : ∀ ch : Fin 128,
    parseUint ([48, 120] ++ [hexDigitUpper (ch.val / 16 % 16), hexDigitUpper (ch.val % 16)]) 0 0 = ⟨ch.val, none⟩ := by
  decide +kernel

end Secs
